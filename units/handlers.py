"""Instruction handlers (bytecode/src/instruction.rs `mod implementations`) under contract, V-t.

The Ctx methods the handlers use (context.rs) are translated and verified themselves; the handlers are verified against
those contracts (modular: a caller sees only the callee's contract)."""
from vlib.rules import *
from vlib.extract import extract_fn

INSTR = "bytecode/src/instruction.rs"
CTXF = "bytecode/src/context.rs"

# ---- Ctx: contracts per method (sidecar); bodies are the real text -------------------------------------------------
CTX_METHODS = {
    "pop": ("pub fn pop(&mut self) -> (r: Option<Primitive>)",
            """ensures old(self).stack@.len() == 0 ==> r is None && final(self).stack@ == old(self).stack@,
            old(self).stack@.len() > 0 ==> r == Some(old(self).stack@.last()) && final(self).stack@ == old(self).stack@.drop_last(),
            final(self).exit_state == old(self).exit_state, rest(final(self)) == rest(old(self))"""),
    "push": ("pub fn push(&mut self, var: Primitive)",
             "ensures final(self).stack@ == old(self).stack@.push(var), final(self).exit_state == old(self).exit_state, rest(final(self)) == rest(old(self))"),
    "signal": ("pub fn signal(&mut self, exit_state: Exit)",
               "ensures final(self).exit_state == exit_state, final(self).stack@ == old(self).stack@, rest(final(self)) == rest(old(self))"),
    "stack_size": ("pub fn stack_size(&self) -> (r: usize)", "ensures r == self.stack@.len()"),
    "get_last_op_item": ("pub fn get_last_op_item(&self) -> (r: Option<&Primitive>)",
                         "ensures self.stack@.len() == 0 ==> r is None, self.stack@.len() > 0 ==> r == Some(&self.stack@.last())"),
    "set_last_op_item": ("pub fn set_last_op_item(&mut self, item: Primitive)",
                         """requires old(self).stack@.len() > 0
        ensures final(self).stack@ == old(self).stack@.update(old(self).stack@.len() - 1, item), final(self).exit_state == old(self).exit_state, rest(final(self)) == rest(old(self))"""),
    "clear_and_set_stack": ("pub fn clear_and_set_stack(&mut self, var: Primitive)",
                            "ensures final(self).stack@ == seq![var], final(self).exit_state == old(self).exit_state, rest(final(self)) == rest(old(self))"),
    "clear_stack": ("pub fn clear_stack(&mut self)",
                    "ensures final(self).stack@.len() == 0, final(self).exit_state == old(self).exit_state, rest(final(self)) == rest(old(self))"),
}

CTX_METHODS["load_callback_variable"] = ("pub fn load_callback_variable(&self, name: &VString) -> (r: Result<Handle, VErr>)",
    """ensures (r is Ok <==> (self.callback_state is Some && caps_view(&self.callback_state->Some_0).contains_key(text_of(name)))),
            r is Ok ==> cell_id(&r->Ok_0) == cell_id(&caps_view(&self.callback_state->Some_0)[text_of(name)])""")
CTX_METHODS["get_local_operating_stack"] = ("pub fn get_local_operating_stack(&self) -> (r: &Vec<Primitive>)", "ensures *r == self.stack")

CTX_RULES = [
    Rule("R3", "bail ! $a", "return Err ( VErr )", why="bail! -> return Err"),
    Rule("R6", "mapping . get ( name )", "caps_get ( mapping , name )", why="VariableMapping::get: finite-map lookup returning a handle of the same cell"),
    Rule("R1", "* self . exit_state = $$e ;", "self . exit_state = $$e ;", why="Box<InstructionExitState> field -> plain field"),
    Rule("R8", "* self . stack . last_mut ( ) . unwrap ( ) = $$e ;", "vec_set_last ( & mut self . stack , $$e ) ;", why="last_mut().unwrap() with its panic precondition (non-empty)"),
    Rule("R9", "self . stack . last ( )", "vec_last ( & self . stack )", why="slice::last with its std contract"),
]

CTX_STRUCT = r"""
// frame of local variables the handlers write through register_variable_local (abstract finite map; the write itself is
// the call stack's business and is covered by the frame-routing units)
#[verifier::external_body] pub struct Locals { x: usize }
pub uninterp spec fn locals_view(l: &Locals) -> Map<Seq<char>, Primitive>;
// the call stack frames as seen by name lookups (Stack::find_name: nearest frame first; covered by the frame-routing unit)
#[verifier::external_body] pub struct Frames { x: usize }
pub uninterp spec fn frame_lookup(f: &Frames, name: Seq<char>) -> Option<Handle>;
pub uninterp spec fn frame_labels(s: &StackRef) -> Seq<VString>;     // labels of the active call-stack frames, innermost last
pub struct Ctx { pub stack: Vec<Primitive>, pub exit_state: Exit, pub locals: Locals, pub frames: Frames, pub callback_state: Option<Caps>, pub call_stack: StackRef }
// everything of the context that is neither the operand stack nor the exit state
pub open spec fn rest(c: &Ctx) -> (Locals, Frames, Option<Caps>, StackRef) { (c.locals, c.frames, c.callback_state, c.call_stack) }
"""

CTX_EXTRA = r"""
    // Ctx::register_variable_local -> Stack::register_variable_local (abstract callee): on success the name is bound to the
    // value in the current frame; nothing else of the context changes
    #[verifier::external_body]
    pub fn register_variable_local(&mut self, name: VString, var: Primitive) -> (r: Result<(), VErr>)
        ensures final(self).stack@ == old(self).stack@, final(self).exit_state == old(self).exit_state,
                r is Ok ==> locals_view(&final(self).locals) == locals_view(&old(self).locals).insert(text_of(&name), var),
                r is Err ==> rest(final(self)) == rest(old(self))
    { unimplemented!() }
    // Ctx::load_variable -> Stack::find_name (abstract callee): the handle of the nearest frame that has the name
    #[verifier::external_body]
    pub fn load_variable(&self, name: &VString) -> (r: Option<Handle>)
        ensures r is Some <==> frame_lookup(&self.frames, text_of(name)) is Some,
                r is Some ==> cell_id(&r->Some_0) == cell_id(&frame_lookup(&self.frames, text_of(name))->Some_0)
    { unimplemented!() }
    #[verifier::external_body]
    pub fn rced_call_stack(&self) -> (r: StackRef) ensures r == self.call_stack { unimplemented!() }
    // Ctx::add_frame / pop_frame -> Stack::extend / Stack::pop on the shared call stack (labels of the active frames, innermost last)
    #[verifier::external_body]
    pub fn add_frame(&mut self, label: VString)
        ensures frame_labels(&final(self).call_stack) == frame_labels(&old(self).call_stack).push(label), final(self).stack == old(self).stack, final(self).exit_state == old(self).exit_state,
                final(self).locals == old(self).locals, final(self).callback_state == old(self).callback_state
    { unimplemented!() }
    #[verifier::external_body]
    pub fn pop_frame(&mut self)
        requires frame_labels(&old(self).call_stack).len() > 0            // Stack::pop `expect`s a frame (R8)
        ensures frame_labels(&final(self).call_stack) == frame_labels(&old(self).call_stack).drop_last(), final(self).stack == old(self).stack, final(self).exit_state == old(self).exit_state,
                final(self).locals == old(self).locals, final(self).callback_state == old(self).callback_state
    { unimplemented!() }
"""


def ctx_impl(src, log, names):
    parts = []
    for n in names:
        f = src.fn(CTXF, n, "impl < 'a > Ctx < 'a >")
        body = translate(f["body"], CTX_RULES, log, f"Ctx::{n}")
        check_closed(body, f"Ctx::{n}")
        sig, contract = CTX_METHODS[n]
        parts.append(f"    //@ OBL CTX.{n}\n    {sig}\n        {contract}\n    {{\n{render(body, 2)}\n    }}\n")
    return CTX_STRUCT + "impl Ctx {\n" + "\n".join(parts) + CTX_EXTRA + "}\n"


def ctx_obls(names, props):
    return [Obl(f"CTX.{n}", props, fn=f"Ctx::{n}", desc=f"context.rs Ctx::{n}: effect on the operand stack / exit state as the handlers' proofs assume") for n in names]


HANDLER_RULES = [
    Rule("R3", "bail ! $args", "return Err ( VErr )", why="bail! -> return Err (error text dropped)"),
    Rule("R9", "args . first ( )", "args_first ( args )", why="slice::first with its std contract"),
    Rule("R9", "args . get ( $i )", "args_get ( args , $i )", why="slice::get with its std contract"),
    Rule("R5", "$x . parse :: < isize > ( ) . context ( $m ) ?", "parse_isize ( $x ) ?", why="str::parse::<isize> as assumed contract; context text dropped"),
    Rule("R5", "$x . parse :: < usize > ( ) . context ( $m ) ?", "parse_usize ( $x ) ?", why="str::parse::<usize> as assumed contract; context text dropped"),
    Rule("R6", "$p . move_out_of_heap_primitive_borrow ( ) . context ( $m ) ? . as_ref ( )", "move_out_borrow ( & $p ) ?", why="heap-pointer view abstract: identity on non-pointers"),
    Rule("R6", "$p . move_out_of_heap_primitive_borrow ( ) ? . as_ref ( )", "move_out_borrow ( & $p ) ?", why="heap-pointer view abstract: identity on non-pointers"),
    Rule("R1", "primitive . clone ( )", "clone_prim ( & primitive )", why="Primitive::clone"),
    Rule("R6", "$p . move_out_of_heap_primitive ( ) ?", "move_out ( $p ) ?", why="heap-pointer view abstract: identity on non-pointers"),
    Rule("R1", "InstructionExitState :: $v", "Exit :: $v", why="enum renamed in the model"),
    Rule("R1", "$x . as_ref ( ) . clone ( )", "clone_prim ( & * $x )", why="Box<Primitive> clone"),
    Rule("R1", "$x . as_ref ( ) . to_owned ( )", "clone_prim ( & * $x )", why="Box<Primitive> clone"),
    Rule("R1", "bool ! ( $$e )", "Primitive :: Bool ( $$e )", why="bool! shorthand"),
    Rule("R1", "name . to_owned ( )", "clone_vs ( name )", why="String clone"),
]


VARIANTS = ["Bool", "Str", "Int", "BigInt", "Float", "Byte", "Function", "BuiltInFunction", "Vector", "HeapPrimitive", "Object", "Module", "Optional", "Map"]
_loop_counter = [0]


def generic_for(b):
    """R2 (generic): `for x in &v { B }` -> indexed while; no sidecar invariant beyond the index range"""
    _loop_counter[0] += 1
    k = f"verif_g{_loop_counter[0]}"
    v, x = text(b["v"]), text(b["x"])
    return [f"let mut {k} : usize = 0 ; while {k} < {v} . len ( )", G(f"invariant {k} <= {v}.len(), decreases {v}.len() - {k},"),
            "{", f"let {x} = & {v} [ {k} ] ; {k} += 1 ;", *b["body"], "}"]


def qualify_variants(toks, log):
    """`use Primitive::*;` inside a handler: drop it and write the variants qualified"""
    out = []
    had_use = False
    i = 0
    while i < len(toks):
        if toks[i:i + 5] == ["use", "Primitive", "::", "*", ";"]:
            had_use = True; i += 5; continue
        out.append(toks[i]); i += 1
    if not had_use:
        return toks
    res = []
    for j, t in enumerate(out):
        if t in VARIANTS and j + 1 < len(out) and out[j + 1] == "(" and (j == 0 or out[j - 1] != "::"):
            res += ["Primitive", "::", t]
        else:
            res.append(t)
    log.append(("R1", "use Primitive::*;", "(variants written qualified)", "glob import inside the handler"))
    return res


GENERIC_RULES = [
    Rule("R9", "matches ! ( $e , $$p )", "( match $e { $$p => true , _ => false } )", why="matches! -> match"),
    Rule("R2", "for $x in & $v { $$body }", generic_for, why="for over &Vec -> indexed while (iteration order of slice::Iter)"),
]


def handler(src, log, name, extra_rules=()):
    f = src.fn(INSTR, name, "pub mod implementations")
    body = qualify_variants(list(f["body"]), log)
    body = translate(body, list(extra_rules) + HANDLER_RULES + GENERIC_RULES, log, f"implementations::{name}")
    check_closed(body, f"implementations::{name}")
    return body


# =====================================================================================================================
# C12: optionals
C12_SPEC = r"""
// Ctx::register_variable -> Stack::register_variable_flags (obligation C07.stack.store): the write `store` performs -- into the visible
// variable of that name, or a new local when there is none; recorded as a log
pub uninterp spec fn stores(f: &Frames) -> Seq<(Seq<char>, Primitive)>;
impl Ctx {
    #[verifier::external_body]
    pub fn register_variable(&mut self, name: VString, var: Primitive) -> (r: Result<(), VErr>)
        ensures final(self).stack@ == old(self).stack@, final(self).exit_state == old(self).exit_state, final(self).locals == old(self).locals,
                r is Ok ==> stores(&final(self).frames) == stores(&old(self).frames).push((text_of(&name), var)),
                r is Err ==> stores(&final(self).frames) == stores(&old(self).frames)
    { unimplemented!() }
}
pub open spec fn is_nil(p: Primitive) -> bool { p == Primitive::Optional(None) }
// the value an optional-typed operand denotes when it is present: the payload of the wrapper, or the plain value itself
pub open spec fn present_value(p: Primitive) -> Primitive { match p { Primitive::Optional(Some(b)) => *b, other => other } }
"""


def build_c12(repo):
    src = Source(repo)
    log = []
    names = ["pop", "push", "signal", "stack_size", "get_last_op_item", "set_last_op_item"]
    ctx = ctx_impl(src, log, names)
    b_jnn = handler(src, log, "jmp_not_nil")
    b_unwrap = handler(src, log, "unwrap", [
        # R13: `let Some(primitive) = ctx.get_last_op_item_mut() else {..}` + `*primitive = v` -> read the top, write with set_last_op_item
        Rule("R13", "ctx . get_last_op_item_mut ( )", "ctx . get_last_op_item ( )", why="&mut to the top element -> read, then set_last_op_item (same final stack)"),
        Rule("R1", "* $x . clone ( )", "clone_prim ( & * $x )", why="Box<Primitive> clone + deref"),
        Rule("R13", "* primitive = $$e ;", "let verif_new = $$e ; ctx . set_last_op_item ( verif_new ) ;", why="write through the &mut -> set_last_op_item"),
        Rule("R1", "let span = args . first ( ) . map ( String :: as_str ) ;", "", why="span text only feeds the error message"),
    ])
    b_into = handler(src, log, "unwrap_into", [
        Rule("R1", "( Some ( ref unwrapped ) )", "( Some ( unwrapped ) )", why="ref binding of a Box on an owned scrutinee"),
        Rule("R1", "Cow :: Owned ( name . to_owned ( ) )", "clone_vs ( name )", why="Cow<str> name"),
    ])
    gen = header(log, f"{INSTR}: jmp_not_nil, unwrap, unwrap_into; {CTXF}: Ctx methods") + prelude("ctx.rs") + C12_SPEC + ctx + f"""
//@ OBL C12.or.jump
// `(x) or y`: compiled as  x ; jmp_not_nil n ; y   (n skips y)
pub fn jmp_not_nil(ctx: &mut Ctx, args: &Vec<VString>) -> (r: Result<(), VErr>)
    ensures
        // total on well-formed input: never a failure when the operand and the offset are there
        (old(ctx).stack@.len() > 0 && args@.len() >= 1 && parses_isize(&args@[0]) && moved_out(old(ctx).stack@.last()) is Some) ==> r is Ok,
        r is Ok ==> old(ctx).stack@.len() > 0 && moved_out(old(ctx).stack@.last()) is Some && ({{
            let top = moved_out(old(ctx).stack@.last())->Some_0;
            if is_nil(top) {{
                // nil: the operand is dropped and execution falls through into y
                final(ctx).stack@ == old(ctx).stack@.drop_last() && final(ctx).exit_state == old(ctx).exit_state
            }} else {{
                // present: y is skipped (Goto n) and the result is the PRESENT VALUE -- the payload, not the wrapper
                final(ctx).exit_state == Exit::Goto(num_of(&args@[0]) as isize)
                && final(ctx).stack@.len() == old(ctx).stack@.len()
                && final(ctx).stack@.drop_last() == old(ctx).stack@.drop_last()
                && (top is Optional ==> final(ctx).stack@.last() == present_value(top))
                && (!(top is Optional) ==> final(ctx).stack@.last() == old(ctx).stack@.last())
            }}
        }}),
        rest(final(ctx)) == rest(old(ctx))
{{
{render(b_jnn, 1)}
}}

//@ OBL C12.get
// `get x`: compiled as  x ; unwrap SPAN
pub fn unwrap(ctx: &mut Ctx, args: &Vec<VString>) -> (r: Result<(), VErr>)
    ensures
        (old(ctx).stack@.len() > 0 && moved_out(old(ctx).stack@.last()) is Some) ==> ({{
            let top = moved_out(old(ctx).stack@.last())->Some_0;
            // nil: the program stops with an error; present: the payload replaces the operand; non-optional: unchanged
            &&& (is_nil(top) <==> r is Err)
            &&& (r is Ok && top is Optional ==> final(ctx).stack@ == old(ctx).stack@.update(old(ctx).stack@.len() - 1, present_value(top)))
            &&& (r is Ok && !(top is Optional) ==> final(ctx).stack@ == old(ctx).stack@)
        }}),
        r is Ok ==> final(ctx).exit_state == old(ctx).exit_state,
{{
{render(b_unwrap, 1)}
}}

//@ OBL C12.unwrap_into
// `a ?= e`: compiled as  e ; unwrap_into a   -- stores the value of e into `a` -- the variable `a` visible at that point, in whatever
// block of the function the statement stands (the same write `store` performs) -- and pushes exactly "is present"
pub fn unwrap_into(ctx: &mut Ctx, args: &Vec<VString>) -> (r: Result<(), VErr>)
    ensures
        r is Ok ==> old(ctx).stack@.len() > 0 && args@.len() >= 1 && moved_out(old(ctx).stack@.last()) is Some && ({{
            let top = moved_out(old(ctx).stack@.last())->Some_0;
            &&& stores(&final(ctx).frames).len() == stores(&old(ctx).frames).len() + 1
            &&& stores(&final(ctx).frames).drop_last() == stores(&old(ctx).frames)
            &&& stores(&final(ctx).frames).last().0 == text_of(&args@[0])
            &&& locals_view(&final(ctx).locals) == locals_view(&old(ctx).locals)          // no same-named local of the innermost frame is created
            // true exactly when the value is present
            &&& final(ctx).stack@ == old(ctx).stack@.drop_last().push(Primitive::Bool(!is_nil(top)))
            // the value of e is what is stored: nil stays nil, a present value is stored as its payload
            &&& (is_nil(top) ==> is_nil(stores(&final(ctx).frames).last().1))
            &&& (!is_nil(top) && moved_out(present_value(top)) is Some ==> stores(&final(ctx).frames).last().1 == moved_out(present_value(top))->Some_0)
        }}),
{{
{render(b_into, 1)}
}}

}} // verus!
fn main() {{}}
"""
    obls = ctx_obls(names, ["C12"]) + [
        Obl("C12.or.jump", ["C12", "C15"], fn="jmp_not_nil", desc="jmp_not_nil: nil -> operand popped, fall through into the fallback; present -> Goto(n) skipping the fallback with the present value (payload, not wrapper) on the stack"),
        Obl("C12.get", ["C12"], fn="unwrap", desc="unwrap: Err exactly on nil; a present optional is replaced by its payload; non-optional unchanged"),
        Obl("C12.unwrap_into", ["C12", "C08"], fn="unwrap_into", desc="unwrap_into (`a ?= e`): writes nil / the payload into the variable `a` visible at that point (as `store` does, no new local of the innermost frame) and pushes exactly the presence flag"),
    ]
    return gen, obls, log


# =====================================================================================================================
# C19: call_lib
def build_c19(repo):
    src = Source(repo)
    log = []
    names = ["signal", "clear_stack", "get_local_operating_stack"]
    ctx = ctx_impl(src, log, names)
    b = handler(src, log, "call_lib", [
        Rule("R1", "ctx . get_local_operating_stack ( ) . clone ( )", "clone_stack ( ctx . get_local_operating_stack ( ) )", count=1, why="Vec<Primitive>::clone"),
        Rule("R1", "lib_name . clone ( )", "clone_vs ( lib_name )", why="String clone"),
        Rule("R1", "func_name . clone ( )", "clone_vs ( func_name )", why="String clone"),
        Rule("R6", "std :: path :: Path :: new ( $x ) . is_file ( )", "fs_is_file ( $x )", why="a look at the file system: an arbitrary answer"),
        Rule("R6", "Path :: new ( $x ) . is_file ( )", "fs_is_file ( $x )", why="a look at the file system: an arbitrary answer"),
        Rule("R6", "Path :: new ( $x ) . exists ( )", "fs_is_file ( $x )", why="a look at the file system: an arbitrary answer"),
    ])
    gen = header(log, f"{INSTR}: call_lib; {CTXF}: Ctx methods") + prelude("ctx.rs") + ctx + f"""
// std::path::Path::is_file / exists: whatever the file system says (the dynamic loader resolves a bare name along its own search path, not this one)
pub uninterp spec fn fs_says(p: &VString) -> bool;
#[verifier::external_body] pub fn fs_is_file(p: &VString) -> (r: bool) ensures r == fs_says(p) {{ unimplemented!() }}
//@ OBL C19.call_lib
#[verifier::loop_isolation(false)]
pub fn call_lib(ctx: &mut Ctx, args: &Vec<VString>) -> (r: Result<(), VErr>)
    ensures
        // the library name and the function name are required
        args@.len() < 2 ==> r is Err && final(ctx).exit_state == old(ctx).exit_state,
        // otherwise the call is requested with the caller's operand stack, in order and unchanged, as the argument slice of
        // exactly the named function of the named library -- for operands of every kind -- and the operand stack is left empty
        args@.len() >= 2 ==> r is Ok && final(ctx).stack@.len() == 0 && (final(ctx).exit_state matches Exit::JumpRequest(req) && {{
            &&& req.destination == (JumpRequestDestination::Library {{ lib_name: args@[0], func_name: args@[1] }})
            &&& req.arguments@ == old(ctx).stack@
            &&& req.callback_state is None
            &&& req.stack == old(ctx).call_stack
        }}),
        rest(final(ctx)) == rest(old(ctx)),
{{
{render(b, 1)}
}}

}} // verus!
fn main() {{}}
"""
    obls = ctx_obls(names, ["C19"]) + [Obl("C19.call_lib", ["C19"], fn="call_lib",
            desc="call_lib: JumpRequest to Library{args[0], args[1]} carrying the whole operand stack in order and unchanged (any operand kinds); operand stack cleared; missing names -> Err")]
    return gen, obls, log


# =====================================================================================================================
# C07: make_function -- capture by reference (which handle goes where)
C07_SPEC = r"""
#[verifier::external_body] pub struct CapMap { x: usize }        // HashMap<String, PrimitiveFlagsPair> under construction
pub uninterp spec fn capmap_view(m: &CapMap) -> Map<Seq<char>, Handle>;
#[verifier::external_body] pub fn capmap_with_capacity(n: usize) -> (r: CapMap) ensures capmap_view(&r) == Map::<Seq<char>, Handle>::empty() { unimplemented!() }
#[verifier::external_body] pub fn capmap_insert(m: &mut CapMap, k: VString, v: Handle)
    ensures capmap_view(final(m)) == capmap_view(old(m)).insert(text_of(&k), v) { unimplemented!() }
#[verifier::external_body] pub fn caps_from(m: CapMap) -> (r: Caps) ensures caps_view(&r) == capmap_view(&m) { unimplemented!() }
#[verifier::external_body] pub fn vs_into(s: &VString) -> (r: VString) ensures r == *s { unimplemented!() }

// the variable a name denotes at the point where the function value is created -- lexically, as `load` resolves it (C07.load.lexical): the
// running function's OWN variables, then the variables it captured itself, then (names that are neither: module-level variables) the rest
// of the call stack.  A caller's local of the same name is never what a closure captures.
pub uninterp spec fn fn_lookup(f: &Frames, name: Seq<char>) -> Option<Handle>;          // Stack::find_name_in_function
impl Ctx {
    #[verifier::external_body]
    pub fn load_local(&self, name: &VString) -> (r: Result<Handle, VErr>)
        ensures r is Ok <==> fn_lookup(&self.frames, text_of(name)) is Some, r is Ok ==> cell_id(&r->Ok_0) == cell_id(&fn_lookup(&self.frames, text_of(name))->Some_0)
    { unimplemented!() }
}
pub open spec fn found(ctx: &Ctx, n: Seq<char>) -> Option<Handle> {
    if fn_lookup(&ctx.frames, n) is Some { fn_lookup(&ctx.frames, n) }
    else if ctx.callback_state is Some && caps_view(&ctx.callback_state->Some_0).contains_key(n) { Some(caps_view(&ctx.callback_state->Some_0)[n]) }
    else if frame_lookup(&ctx.frames, n) is Some { frame_lookup(&ctx.frames, n) }
    else { None }
}
"""


def build_c07(repo):
    src = Source(repo)
    log = []
    names = ["push", "load_callback_variable"]
    ctx = ctx_impl(src, log, names)

    def loop(b):
        x = text(b["x"])
        return ["let mut verif_k : usize = 1 ; while verif_k < args . len ( )",
                G("""invariant 1 <= verif_k <= args@.len(), *ctx == *old(ctx),
    forall|i: int| 1 <= i < verif_k ==> #[trigger] capmap_view(&arguments).contains_key(text_of(&args@[i])),
    forall|n: Seq<char>| #[trigger] capmap_view(&arguments).contains_key(n) ==> found(ctx, n) is Some && cell_id(&capmap_view(&arguments)[n]) == cell_id(&found(ctx, n)->Some_0),
    forall|n: Seq<char>| #[trigger] capmap_view(&arguments).contains_key(n) ==> exists|i: int| 1 <= i < verif_k && text_of(&args@[i]) == n,
decreases args@.len() - verif_k,"""),
                "{", f"let {x} = & args [ verif_k ] ;", G("let ghost verif_before = capmap_view(&arguments);"), "verif_k += 1 ;", *b["body"],
                G("""proof {
    assert forall|n: Seq<char>| #[trigger] capmap_view(&arguments).contains_key(n) implies exists|i: int| 1 <= i < verif_k && text_of(&args@[i]) == n by {
        if verif_before.contains_key(n) { let i0 = choose|i: int| 1 <= i < verif_k - 1 && text_of(&args@[i]) == n; assert(1 <= i0 < verif_k && text_of(&args@[i0]) == n); }
        else { assert(text_of(&args@[verif_k - 1]) == n); }
    }
}"""), "}"]

    b = handler(src, log, "make_function", [
        Rule("R2", "for $x in & args [ 1 .. ] { $$body }", loop, count=1, why="for over the slice args[1..] -> indexed while starting at 1"),
        Rule("R6", "HashMap :: with_capacity ( $$n )", "capmap_with_capacity ( $$n )", count=1, why="std::HashMap as finite map"),
        Rule("R6", "arguments . insert ( var_name . clone ( ) , var . clone ( ) ) ;", "capmap_insert ( & mut arguments , clone_vs ( var_name ) , clone_handle ( & var ) ) ;", count=1, why="HashMap::insert as finite-map update; handle clone keeps the cell"),
        Rule("R6", "arguments . into ( )", "caps_from ( arguments )", count=1, why="HashMap -> VariableMapping (same finite map)"),
        Rule("R1", "PrimitiveFunction :: new ( location . into ( ) , callback_state )", "PrimitiveFunction { location : vs_into ( location ) , callback_state : callback_state }", count=1, why="const fn constructor = struct literal"),
        Rule("R1", "function ! ( $$e )", "Primitive :: Function ( $$e )", count=1, why="function! shorthand"),
    ])
    gen = header(log, f"{INSTR}: make_function; {CTXF}: Ctx::push, Ctx::load_callback_variable") + prelude("ctx.rs") + ctx + C07_SPEC + f"""
//@ OBL C07.capture.copies-handles
pub fn make_function(ctx: &mut Ctx, args: &Vec<VString>) -> (r: Result<(), VErr>)
    ensures r is Ok ==> {{
        &&& args@.len() >= 1
        &&& final(ctx).stack@.len() == old(ctx).stack@.len() + 1 && final(ctx).stack@.drop_last() == old(ctx).stack@
        &&& final(ctx).stack@.last() is Function
        &&& ({{ let f = final(ctx).stack@.last()->Function_0;
              // a function that captures nothing is not a closure
              &&& (args@.len() == 1 <==> f.callback_state is None)
              &&& f.location == args@[0]
              &&& args@.len() > 1 ==> ({{
                    let m = caps_view(&f.callback_state->Some_0);
                    // by reference: every listed name is captured, as the SAME cell the defining scope sees (its own frames
                    // first, then what it captured itself), and nothing else is captured
                    &&& forall|i: int| 1 <= i < args@.len() ==> #[trigger] m.contains_key(text_of(&args@[i]))
                    &&& forall|n: Seq<char>| #[trigger] m.contains_key(n) ==> found(old(ctx), n) is Some && cell_id(&m[n]) == cell_id(&found(old(ctx), n)->Some_0)
                    &&& forall|n: Seq<char>| #[trigger] m.contains_key(n) ==> exists|i: int| 1 <= i < args@.len() && text_of(&args@[i]) == n
              }})
        }})
    }},
{{
{render(b, 1)}
}}

}} // verus!
fn main() {{}}
"""
    obls = ctx_obls(names, ["C07"]) + [Obl("C07.capture.copies-handles", ["C07"], fn="make_function",
            desc="make_function: the capture map has exactly the listed names, each bound to the same cell the name denotes lexically in the defining function (own variables, then its captured variables, then the rest of the call stack); no capture list -> not a closure")]
    return gen, obls, log


# =====================================================================================================================
# C17 / C07: call -- function values (captures passed on), built-in methods (native frame kept on failure)
C17_SPEC = r"""
pub uninterp spec fn native_label_spec(v: &BuiltinV) -> VString;        // "<native code>#<variant>"
#[verifier::external_body] pub fn native_label(v: &BuiltinV) -> (r: VString) ensures r == native_label_spec(v) { unimplemented!() }
// BuiltInFunction::run (abstract callee): works on the operand stack, leaves the call-stack frames as they are,
// never returns both a value and a bridge
#[verifier::external_body]
pub fn builtin_run(v: &BuiltinV, ctx: &mut Ctx) -> (r: Result<(Option<Primitive>, Option<BridgeV>), VErr>)
    ensures frame_labels(&final(ctx).call_stack) == frame_labels(&old(ctx).call_stack), rest(final(ctx)).0 == rest(old(ctx)).0, final(ctx).callback_state == old(ctx).callback_state,
            r is Ok ==> !(r->Ok_0.0 is Some && r->Ok_0.1 is Some)
{ unimplemented!() }
#[verifier::external_body] pub fn vpanic() requires false { unimplemented!() }
"""


def build_c17_call(repo):
    src = Source(repo)
    log = []
    names = ["pop", "signal", "clear_stack", "clear_and_set_stack", "get_local_operating_stack"]
    ctx = ctx_impl(src, log, names)
    b = handler(src, log, "call", [
        Rule("R1", "Primitive :: Function ( ref f )", "Primitive :: Function ( f )", why="ref binding on an owned scrutinee"),
        Rule("R1", "Primitive :: BuiltInFunction ( ref variant )", "Primitive :: BuiltInFunction ( variant )", why="ref binding on an owned scrutinee"),
        Rule("R1", "f . location ( ) . to_owned ( )", "clone_vs ( & f . location )", why="String clone of the function path"),
        Rule("R1", "f . callback_state ( ) . clone ( )", "clone_caps_opt ( & f . callback_state )", why="capture map handle clone (same cells)"),
        Rule("R1", "ctx . get_local_operating_stack ( ) . clone ( )", "clone_stack ( ctx . get_local_operating_stack ( ) )", why="Vec<Primitive>::clone"),
        Rule("R1", "Cow :: Owned ( format ! $a )", "native_label ( & variant )", count=1, why="frame label of a built-in: format!(\"<native code>#{variant:?}\")"),
        Rule("R6", "variant . run ( ctx )", "builtin_run ( & variant , ctx )", count=1, why="BuiltInFunction::run abstract"),
        Rule("R3", ". with_context ( $$c )", "", why="context text dropped"),
        Rule("R8", "unimplemented ! $a", "{ vpanic ( ) ; }", why="unimplemented!: a panic, excluded by the callee contract"),
        Rule("R1", "first . clone ( )", "clone_vs ( first )", why="String clone"),
    ])
    gen = header(log, f"{INSTR}: call; {CTXF}: Ctx methods") + prelude("ctx.rs") + ctx + C17_SPEC + f"""
//@ OBL C17.call.frames
pub fn call(ctx: &mut Ctx, args: &Vec<VString>) -> (r: Result<(), VErr>)
    ensures
        // ---- calling a function value (closure): its own capture map travels with the request, the arguments are the operands below it
        (args@.len() == 0 && old(ctx).stack@.len() > 0 && moved_out(old(ctx).stack@.last()) is Some && moved_out(old(ctx).stack@.last())->Some_0 is Function) ==> ({{
            let f = moved_out(old(ctx).stack@.last())->Some_0->Function_0;
            &&& r is Ok && final(ctx).stack@.len() == 0
            &&& final(ctx).exit_state matches Exit::JumpRequest(req) && {{
                &&& req.destination == JumpRequestDestination::Standard(f.location)
                &&& req.arguments@ == old(ctx).stack@.drop_last()
                &&& (req.callback_state is Some <==> f.callback_state is Some)
                &&& (f.callback_state is Some ==> caps_view(&req.callback_state->Some_0) == caps_view(&f.callback_state->Some_0))
            }}
            &&& frame_labels(&final(ctx).call_stack) == frame_labels(&old(ctx).call_stack)
        }}),
        // ---- calling a built-in method: a `<native code>#..` frame is active while it runs; when it FAILS the frame is still
        //      there (so the trace printed by `execute` names the built-in innermost); when it succeeds the frame is gone
        (args@.len() == 0 && old(ctx).stack@.len() > 0 && moved_out(old(ctx).stack@.last()) is Some && moved_out(old(ctx).stack@.last())->Some_0 is BuiltInFunction) ==> ({{
            let v = moved_out(old(ctx).stack@.last())->Some_0->BuiltInFunction_0;
            &&& (r is Ok ==> frame_labels(&final(ctx).call_stack) == frame_labels(&old(ctx).call_stack))
            &&& (r is Err ==> frame_labels(&final(ctx).call_stack) == frame_labels(&old(ctx).call_stack).push(native_label_spec(&v)))
        }}),
        // ---- calling a named function: no captures
        args@.len() > 0 ==> (r is Ok && final(ctx).stack@.len() == 0 && (final(ctx).exit_state matches Exit::JumpRequest(req) &&
            req.destination == JumpRequestDestination::Standard(args@[0]) && req.arguments@ == old(ctx).stack@ && req.callback_state is None)),
{{
{render(b, 1)}
}}

}} // verus!
fn main() {{}}
"""
    obls = ctx_obls(names, ["C17"]) + [Obl("C17.call.frames", ["C17", "C07"], fn="call",
            desc="call: a function value's capture map is passed with the jump request; a built-in method runs under a `<native code>#..` frame that is still on the call stack when the built-in fails and removed when it succeeds")]
    return gen, obls, log


UNITS_EXTRA = [VUnit("c17_call", ["C17", "C07"], "call handler: captures passed on; native frame kept on failure", build_c17_call), VUnit("c19_call_lib", ["C19"], "call_lib handler", build_c19), VUnit("c07_make_function", ["C07"], "make_function: capture by reference (handle routing)", build_c07)]
UNITS_EXTRA[0].assumes = ["BuiltInFunction::run is an abstract callee that does not change the call-stack frames", "heap pointers abstract"]
UNITS_EXTRA = UNITS_EXTRA[1:] + UNITS_EXTRA[:1]
UNITS_EXTRA[0].assumes = ["libloading / the dynamic library call itself and the ABI of &[Primitive] are outside the contract (interpreter.rs process_library_jump_request is a separate unit)"]
UNITS_EXTRA[1].assumes = ["cell semantics of the gc crate assumed: clone of a handle keeps the cell; a write through one handle is seen through all handles of that cell",
                          "std::HashMap as a finite map; Stack::find_name (frame lookup) is an abstract callee here"]

UNITS = [VUnit("c12_handlers", ["C12", "C15", "C08"], "optional handlers: jmp_not_nil, unwrap, unwrap_into", build_c12)]
UNITS += UNITS_EXTRA
UNITS[0].assumes = [
    "heap pointers (HeapPrimitive) are abstract: move_out_of_heap_primitive(_borrow) is the identity on other values and an arbitrary value/error on pointers",
    "Stack::register_variable_local is an abstract callee (binds the name in the current frame); frame routing is covered by the C07 units",
    "error message texts are dropped (R3): that the `get` error names the source position is the argument passed by the compiler (C12 compile-side obligation)",
]


# =====================================================================================================================
# C07 / C08: `modify x = v` -- store_object handler + Ctx::update_callback_variable
CTX_METHODS["update_callback_variable"] = ("pub fn update_callback_variable(&mut self, name: &VString, value: Primitive, heap: &mut CellHeap) -> (r: Result<(), VErr>)",
    """ensures (r is Ok <==> (old(self).callback_state is Some && caps_view(&old(self).callback_state->Some_0).contains_key(text_of(name)) && !cell_read_only(&caps_view(&old(self).callback_state->Some_0)[text_of(name)]))),
            r is Ok ==> cell_contents(final(heap)) == cell_contents(old(heap)).insert(cell_id(&caps_view(&old(self).callback_state->Some_0)[text_of(name)]), value),
            r is Err ==> cell_contents(final(heap)) == cell_contents(old(heap)),
            final(self).stack == old(self).stack, final(self).exit_state == old(self).exit_state, rest(final(self)) == rest(old(self))""")

MODIFY_SPEC = r"""
// the heap of shared variable cells
#[verifier::external_body] pub struct CellHeap { x: usize }
pub uninterp spec fn cell_contents(h: &CellHeap) -> Map<int, Primitive>;
pub uninterp spec fn cell_read_only(h: &Handle) -> bool;
// VariableMapping::update (its own obligation: C07.mapping.update in unit c07_stack): the named variable's own cell is overwritten
#[verifier::external_body]
pub fn caps_update(c: &Caps, name: &VString, value: Primitive, heap: &mut CellHeap) -> (r: Result<(), VErr>)
    ensures (r is Ok <==> (caps_view(c).contains_key(text_of(name)) && !cell_read_only(&caps_view(c)[text_of(name)]))),
            r is Ok ==> cell_contents(final(heap)) == cell_contents(old(heap)).insert(cell_id(&caps_view(c)[text_of(name)]), value),
            r is Err ==> cell_contents(final(heap)) == cell_contents(old(heap))
{ unimplemented!() }
"""


def build_modify(repo):
    src = Source(repo)
    log = []
    names = ["pop", "stack_size", "update_callback_variable"]
    global CTX_RULES
    saved = list(CTX_RULES)
    CTX_RULES = CTX_RULES + [Rule("R10", "mapping . update ( name , value ) ?", "caps_update ( mapping , name , value , heap ) ?", why="write through the Gc cell: explicit heap (R10)")]
    try:
        ctx = ctx_impl(src, log, names)
    finally:
        CTX_RULES = saved
    b = handler(src, log, "store_object", [
        Rule("R10", "ctx . update_callback_variable ( name , arg ) ?", "ctx . update_callback_variable ( name , arg , heap ) ?", why="heap threaded"),
    ])
    gen = header(log, f"{INSTR}: store_object; {CTXF}: Ctx::update_callback_variable, pop, stack_size") + prelude("ctx.rs") + MODIFY_SPEC + ctx + f"""
//@ OBL C07.modify.store_object
// `modify x = v` inside a closure: the VALUE of v (moved out of any element / field pointer) is written into the captured variable's own
// cell, so the owner and every other closure see it -- and later changes of the place v was read from do not
pub fn store_object(ctx: &mut Ctx, args: &Vec<VString>, heap: &mut CellHeap) -> (r: Result<(), VErr>)
    ensures
        r is Ok ==> args@.len() >= 1 && old(ctx).stack@.len() == 1 && moved_out(old(ctx).stack@[0]) is Some
            && old(ctx).callback_state is Some && caps_view(&old(ctx).callback_state->Some_0).contains_key(text_of(&args@[0]))
            && cell_contents(final(heap)) == cell_contents(old(heap)).insert(cell_id(&caps_view(&old(ctx).callback_state->Some_0)[text_of(&args@[0])]), moved_out(old(ctx).stack@[0])->Some_0)
            && final(ctx).stack@.len() == 0,
        r is Err ==> cell_contents(final(heap)) == cell_contents(old(heap)),
        rest(final(ctx)) == rest(old(ctx)),
{{
{render(b, 1)}
}}
}} // verus!
fn main() {{}}
"""
    obls = ctx_obls(names, ["C07"]) + [Obl("C07.modify.store_object", ["C07", "C08"], fn="store_object", desc="store_object (`modify x = v`): the moved-out value is written into the captured variable's own cell; not a callback / unknown / read-only name fails without effect")]
    return gen, obls, log


U_MODIFY = VUnit("c07_modify", ["C07", "C08"], "modify: write into the captured variable's cell", build_modify)
U_MODIFY.assumes = ["gc cell semantics assumed (explicit heap, R10); VariableMapping::update is an abstract callee here with the contract unit c07_stack proves of it",
                    "heap pointers abstract: move_out_of_heap_primitive is the identity on plain values and the pointee's value on pointers"]
UNITS.append(U_MODIFY)


# =====================================================================================================================
# C07: `load` -- which variable a name read inside a function denotes
LOAD_SPEC = r"""
// the frames of the executing function only (Stack::find_name_in_function; C07.stack.* in unit c07_stack covers the stack side)
pub uninterp spec fn fn_lookup(f: &Frames, name: Seq<char>) -> Option<Handle>;
pub uninterp spec fn cell_value(id: int) -> Primitive;          // current content of a cell
impl Handle {
    #[verifier::external_body] pub fn verif_value(&self) -> (r: Primitive) ensures r == cell_value(cell_id(self)) { unimplemented!() }
}
impl Ctx {
    #[verifier::external_body]
    pub fn load_local(&self, name: &VString) -> (r: Result<Handle, VErr>)
        ensures r is Ok <==> fn_lookup(&self.frames, text_of(name)) is Some, r is Ok ==> cell_id(&r->Ok_0) == cell_id(&fn_lookup(&self.frames, text_of(name))->Some_0)
    { unimplemented!() }
}
// the variable a free name denotes, lexically: the function's own variables, then what it captured, then (for names that are neither:
// module-level functions calling each other) the rest of the call stack
pub open spec fn denoted(c: &Ctx, name: Seq<char>) -> Option<int> {
    if fn_lookup(&c.frames, name) is Some { Some(cell_id(&fn_lookup(&c.frames, name)->Some_0)) }
    else if c.callback_state is Some && caps_view(&c.callback_state->Some_0).contains_key(name) { Some(cell_id(&caps_view(&c.callback_state->Some_0)[name])) }
    else if frame_lookup(&c.frames, name) is Some { Some(cell_id(&frame_lookup(&c.frames, name)->Some_0)) }
    else { None }
}
"""


def build_load(repo):
    src = Source(repo)
    log = []
    names = ["push", "load_callback_variable"]
    ctx = ctx_impl(src, log, names)
    b = handler(src, log, "load", [
        Rule("R1", "var . primitive ( ) . clone ( )", "var . verif_value ( )", why="content of the variable's cell (clone of the value)"),
    ])
    gen = header(log, f"{INSTR}: load; {CTXF}: Ctx::push, Ctx::load_callback_variable") + prelude("ctx.rs") + ctx + LOAD_SPEC + f"""
//@ OBL C07.load.lexical
// `load NAME`: a closure reads ITS captured variable even when some caller happens to have a local of the same name
pub fn load(ctx: &mut Ctx, args: &Vec<VString>) -> (r: Result<(), VErr>)
    ensures
        (args@.len() >= 1 && denoted(old(ctx), text_of(&args@[0])) is Some) <==> r is Ok,
        r is Ok ==> final(ctx).stack@ == old(ctx).stack@.push(cell_value(denoted(old(ctx), text_of(&args@[0]))->Some_0)),
        rest(final(ctx)) == rest(old(ctx)),
{{
{render(b, 1)}
}}
}} // verus!
fn main() {{}}
"""
    obls = ctx_obls(names, ["C07"]) + [Obl("C07.load.lexical", ["C07", "C01"], fn="load", desc="load: the function's own variables first, then its captured variables, then the rest of the call stack; pushes the current content of that variable's cell")]
    return gen, obls, log


U_LOAD = VUnit("c07_load", ["C07", "C01"], "load: which variable a name denotes (lexical order)", build_load)
U_LOAD.assumes = ["Stack::find_name / find_name_in_function are abstract callees here (C07.stack.find_name in unit c07_stack covers the former)",
                  "gc cell semantics assumed: a handle denotes a cell whose current content every handle sees"]
UNITS.append(U_LOAD)


# =====================================================================================================================
# C07 / C10: `x op= v` on a NAME -- which variable is read and written
OPASSIGN_SPEC = r"""
// the operator table of bin_op_assign (unit c08_opassign, K-t: `x op= v` computes x op v): None = failure
pub uninterp spec fn combined(op: Seq<char>, current: Primitive, value: Primitive) -> Option<Primitive>;
#[verifier::external_body]
pub fn combine(op: &VString, bundle: &Handle, value: &Primitive) -> (r: Result<Primitive, VErr>)
    ensures r is Ok <==> combined(text_of(op), cell_value(cell_id(bundle)), *value) is Some, r is Ok ==> r->Ok_0 == combined(text_of(op), cell_value(cell_id(bundle)), *value)->Some_0
{ unimplemented!() }
// writes into variable cells, as a log (cell, value)
pub struct WriteLog { pub w: Ghost<Seq<(int, Primitive)>> }
impl Handle {
    #[verifier::external_body] pub fn verif_set(&self, v: Primitive, log: &mut WriteLog) ensures final(log).w@ == old(log).w@.push((cell_id(self), v)) { unimplemented!() }
}
pub fn opt_ctx<'a>(o: Option<&'a VString>) -> (r: Result<&'a VString, VErr>) ensures o is Some <==> r is Ok, r is Ok ==> Some(r->Ok_0) == o
{ match o { Some(x) => Ok(x), None => Err(VErr) } }
pub fn opt_ctx_h(o: Option<Handle>) -> (r: Result<Handle, VErr>) ensures o is Some <==> r is Ok, r is Ok ==> Some(r->Ok_0) == o
{ match o { Some(x) => Ok(x), None => Err(VErr) } }
pub fn opt_ctx_p<'a>(o: Option<&'a Primitive>) -> (r: Result<&'a Primitive, VErr>) ensures o is Some <==> r is Ok, r is Ok ==> Some(r->Ok_0) == o
{ match o { Some(x) => Ok(x), None => Err(VErr) } }
"""


def build_opassign_named(repo):
    from vlib.extract import find_block_after
    src = Source(repo)
    log = []
    names = ["get_last_op_item", "set_last_op_item", "load_callback_variable"]
    have_lex = True
    try:
        src.fn(CTXF, "load_lexical", "impl < 'a > Ctx < 'a >")
    except Undecided:
        have_lex = False
    ctx = ctx_impl(src, log, names)
    f = src.fn(INSTR, "bin_op_assign", "pub mod implementations")
    try:
        _, o, c = find_block_after(f["body"], "if let Some ( name ) = args . get ( 1 )")
    except Exception as e:
        raise Undecided(f"bin_op_assign: the named branch `if let Some(name) = args.get(1)` not found: {e}")
    head = f["body"][:f["body"].index("if")]
    frag = head + ["let", "name", "=", "arg1", ";"] + f["body"][o + 1:c] + ["Ok", "(", "(", ")", ")"]
    log.append(("R0", "fn bin_op_assign { let op = ..; if let Some(name) = args.get(1) { NAMED } else { POINTER } }", "fn bin_op_assign_named(name) { let op = ..; NAMED }", "fragment: the branch for a variable name (the pointer branch: C08.opassign.pointer.*)"))
    extra = [
        Rule("R9", "args . first ( ) . context ( $m ) ?", "opt_ctx ( args_first ( args ) ) ?", why="Option::context"),
        Rule("R9", "ctx . load_variable ( name ) . with_context ( $$c ) ?", "opt_ctx_h ( ctx . load_variable ( name ) ) ?", why="Option::with_context"),
        Rule("R9", "ctx . load_lexical ( name ) . with_context ( $$c ) ?", "opt_ctx_h ( ctx . load_lexical ( name ) ) ?", why="Option::with_context"),
        Rule("R13", "let value : & mut Primitive = ctx . get_last_op_item_mut ( ) . context ( $m ) ? ;", "let value : & Primitive = opt_ctx_p ( ctx . get_last_op_item ( ) ) ? ;", why="&mut to the top element -> read, then set_last_op_item (same final stack)"),
        Rule("R6", "let result = { let no_hp = value . move_out_of_heap_primitive_borrow ( ) ? ; let no_mut : & Primitive = & no_hp ; match op . as_str ( ) { $$arms } } ;",
             "let no_hp = move_out_borrow ( value ) ? ; let result = combine ( op , & bundle , & no_hp ) ? ;", why="the operator table: its own obligations C08.opassign.named.* (K-t, verbatim text); here an abstract function of (operator, current content, operand)"),
        Rule("R10", "bundle . set_primitive ( result . clone ( ) ) ;", "bundle . verif_set ( clone_prim ( & result ) , wlog ) ;", why="write into the variable's cell (explicit write log)"),
        Rule("R13", "* value = result ;", "ctx . set_last_op_item ( result ) ;", why="write through the &mut -> set_last_op_item"),
    ]
    body = qualify_variants(list(frag), log)
    b = translate(body, extra + HANDLER_RULES + GENERIC_RULES, log, "implementations::bin_op_assign[named]")
    check_closed(b, "bin_op_assign[named]")
    lex = ""
    if have_lex:
        fl = src.fn(CTXF, "load_lexical", "impl < 'a > Ctx < 'a >")
        bl = translate(fl["body"], [], log, "Ctx::load_lexical")
        check_closed(bl, "Ctx::load_lexical")
        lex = f"""
impl Ctx {{
    //@ OBL C07.ctx.load_lexical
    pub fn load_lexical(&self, name: &VString) -> (r: Option<Handle>)
        ensures r is Some <==> denoted(self, text_of(name)) is Some, r is Some ==> cell_id(&r->Some_0) == denoted(self, text_of(name))->Some_0
    {{
{render(bl, 2)}
    }}
}}
"""
    gen = header(log, f"{INSTR}: bin_op_assign (named branch); {CTXF}: Ctx methods") + prelude("ctx.rs") + ctx + LOAD_SPEC + OPASSIGN_SPEC + lex + f"""
//@ OBL C07.opassign.named
// `x op= v`: x is the variable the name denotes LEXICALLY -- the one `load x` reads (own variables, then captured ones, then the call
// stack) -- never a caller's same-named local; its cell receives x op v, and that value is also the expression's result
pub fn bin_op_assign_named(ctx: &mut Ctx, args: &Vec<VString>, arg1: &VString, wlog: &mut WriteLog) -> (r: Result<(), VErr>)
    requires args@.len() >= 2, args@[1] == *arg1,
    ensures
        r is Ok ==> denoted(old(ctx), text_of(arg1)) is Some && old(ctx).stack@.len() > 0 && moved_out(old(ctx).stack@.last()) is Some && ({{
            let cell = denoted(old(ctx), text_of(arg1))->Some_0; let v = combined(text_of(&args@[0]), cell_value(cell), moved_out(old(ctx).stack@.last())->Some_0);
            v is Some && final(wlog).w@ == old(wlog).w@.push((cell, v->Some_0)) && final(ctx).stack@ == old(ctx).stack@.drop_last().push(v->Some_0) }}),
        r is Err ==> final(wlog).w@ == old(wlog).w@,
        rest(final(ctx)) == rest(old(ctx)),
{{
{render(b, 1)}
}}
}} // verus!
fn main() {{}}
"""
    obls = ctx_obls(names, ["C07"]) + ([Obl("C07.ctx.load_lexical", ["C07", "C10"], fn="Ctx::load_lexical", desc="Ctx::load_lexical: the function's own variables, then its captured variables, then the rest of the call stack")] if have_lex else []) + [
        Obl("C07.opassign.named", ["C07", "C10", "C01"], fn="bin_op_assign[named]", desc="bin_op_assign NAME: reads and writes the variable the name denotes lexically (as `load` does); the cell receives x op v; the result is left on the stack")]
    return gen, obls, log


U_OPN = VUnit("c07_opassign_named", ["C07", "C10", "C01"], "x op= v on a name: which variable is read and written", build_opassign_named)
U_OPN.assumes = ["fragment: the named branch of bin_op_assign; the operator table is abstract here (C08.opassign.named.*)", "Stack::find_name / find_name_in_function abstract (unit c07_stack); gc cell semantics assumed"]
UNITS.append(U_OPN)


# =====================================================================================================================
# C11: `export name` -- the export table shares the module variable's cell
EXPORT_SPEC = r"""
#[verifier::external_body] pub struct Exports { x: usize }
pub uninterp spec fn exports_view(e: &Exports) -> Map<Seq<char>, Handle>;
// Ctx::register_export -> MScriptFile::add_export -> VariableMapping::update_once: a name is exported at most once
#[verifier::external_body]
pub fn register_export(e: &mut Exports, name: VString, pair: Handle) -> (r: Result<(), VErr>)
    ensures r is Ok <==> !exports_view(old(e)).contains_key(text_of(&name)),
            r is Ok ==> exports_view(final(e)) == exports_view(old(e)).insert(text_of(&name), pair)       // proved of the real chain: unit c11_export_chain (on a failure the table is NOT known to be unchanged: update_once inserts first)
{ unimplemented!() }
pub struct VariableFlags(pub u8);
pub const READ_ONLY: u8 = 1;
// PrimitiveFlagsPair::new: a NEW cell (nothing is known about its identity)
#[verifier::external_body] pub fn new_pair(v: Primitive, f: VariableFlags) -> (r: Handle) { unimplemented!() }
"""


def build_export(repo):
    src = Source(repo)
    log = []
    b = handler(src, log, "export_name", [
        Rule("R3", ". with_context ( $$c ) ?", "?", why="context text dropped"),
        Rule("R10", "ctx . register_export ( $$a ) ?", "register_export ( exports , $$a ) ?", why="the executing file's export table as explicit state (R10)"),
        Rule("R1", "pair . primitive ( ) . clone ( )", "pair . verif_value ( )", why="content of the variable's cell"),
        Rule("R6", "PrimitiveFlagsPair :: new ( $$a )", "new_pair ( $$a )", why="fresh cell"),
    ])
    gen = header(log, f"{INSTR}: export_name") + prelude("ctx.rs") + CTX_STRUCT + "impl Ctx {\n" + CTX_EXTRA + "}\n" + LOAD_SPEC + EXPORT_SPEC + f"""
//@ OBL C11.export.shares-cell
// `export x`: importers and the module itself share ONE variable -- the export table gets a handle of the module variable's own cell
// (a later `modify` / assignment inside the module is what every importer reads), once per name
pub fn export_name(ctx: &mut Ctx, args: &Vec<VString>, exports: &mut Exports) -> (r: Result<(), VErr>)
    ensures
        r is Ok ==> args@.len() >= 1 && fn_lookup(&old(ctx).frames, text_of(&args@[0])) is Some && !exports_view(old(exports)).contains_key(text_of(&args@[0]))
            && exports_view(final(exports)).dom() == exports_view(old(exports)).dom().insert(text_of(&args@[0]))
            && cell_id(&exports_view(final(exports))[text_of(&args@[0])]) == cell_id(&fn_lookup(&old(ctx).frames, text_of(&args@[0]))->Some_0)
            && (forall|k: Seq<char>| exports_view(old(exports)).contains_key(k) ==> exports_view(final(exports))[k] == exports_view(old(exports))[k]),
        // (a failed `export` ends the run; on that path the table is not claimed to be unchanged -- update_once inserts before it reports the duplicate)
        *final(ctx) == *old(ctx),
{{
{render(b, 1)}
}}
}} // verus!
fn main() {{}}
"""
    return gen, [Obl("C11.export.shares-cell", ["C11"], fn="export_name", desc="export_name: the export table binds the name to the module variable's own cell (shared state), at most once per name")], log


U_EXPORT = VUnit("c11_export", ["C11"], "export: the export table shares the module variable's cell", build_export)
U_EXPORT.assumes = ["register_export (MScriptFile::add_export / update_once) and the frame lookup are abstract callees; gc cell semantics assumed"]
UNITS.append(U_EXPORT)


# =====================================================================================================================
# C01 / C07: data-flow handlers -- ret, store, store_fast, load_fast
FLOW_SPEC = r"""
pub enum ReturnValue { FFIError(VString), NoValue, Value(Primitive) }
// Ctx::register_variable -> Stack::register_variable_flags (obligation C07.stack.store in unit c07_stack): abstract here, recorded as a ghost log
pub uninterp spec fn stores(f: &Frames) -> Seq<(Seq<char>, Primitive)>;
impl Ctx {
    #[verifier::external_body]
    pub fn register_variable(&mut self, name: VString, var: Primitive) -> (r: Result<(), VErr>)
        ensures final(self).stack@ == old(self).stack@, final(self).exit_state == old(self).exit_state,
                r is Ok ==> stores(&final(self).frames) == stores(&old(self).frames).push((text_of(&name), var)),
                r is Err ==> stores(&final(self).frames) == stores(&old(self).frames)
    { unimplemented!() }
}
"""


def build_flow(repo):
    src = Source(repo)
    log = []
    names = ["pop", "push", "signal", "stack_size"]
    ctx = ctx_impl(src, log, names)
    extra = [Rule("R1", "Cow :: Owned ( name . to_owned ( ) )", "clone_vs ( name )", why="Cow<str> name"),
             Rule("R3", ". with_context ( $$c ) ?", "?", why="context text dropped"),
             Rule("R1", "var . primitive ( ) . clone ( )", "var . verif_value ( )", why="content of the variable's cell"),
             Rule("R1", "name . clone ( )", "clone_vs ( name )", why="String clone")]
    hs = {n: handler(src, log, n, extra) for n in ["ret", "store", "store_fast", "load_fast"]}
    gen = header(log, f"{INSTR}: ret, store, store_fast, load_fast; {CTXF}: Ctx methods") + \
        prelude("ctx.rs").replace("ReturnValue(Box<Primitive>)", "ReturnValue(ReturnValue)") + ctx + LOAD_SPEC + FLOW_SPEC + f"""
//@ OBL C01.handler.ret
// `ret`: the function ends with the single value on the operand stack, or with no value when the stack is empty
pub fn ret(ctx: &mut Ctx, _args: &Vec<VString>) -> (r: Result<(), VErr>)
    ensures r is Ok ==> old(ctx).stack@.len() <= 1 && final(ctx).stack@.len() == 0,
            old(ctx).stack@.len() == 0 ==> r is Ok && final(ctx).exit_state == Exit::ReturnValue(ReturnValue::NoValue),
            // C13 / C08 / C15: what is returned is the VALUE of the operand -- a pointer to a list element, a field or a map entry is
            // copied out here, so that the caller (or a map / filter bridge) does not hold a live pointer into somebody else's data
            r is Ok && old(ctx).stack@.len() == 1 ==> moved_out(old(ctx).stack@[0]) is Some
                && final(ctx).exit_state == Exit::ReturnValue(ReturnValue::Value(moved_out(old(ctx).stack@[0])->Some_0)),
            rest(final(ctx)) == rest(old(ctx)),
{{
{render(hs['ret'], 1)}
}}

//@ OBL C01.handler.store
// `store NAME`: the VALUE of the single operand (copied out of any element / field pointer) is what the variable receives
pub fn store(ctx: &mut Ctx, args: &Vec<VString>) -> (r: Result<(), VErr>)
    ensures r is Ok ==> args@.len() >= 1 && old(ctx).stack@.len() == 1 && moved_out(old(ctx).stack@[0]) is Some && final(ctx).stack@.len() == 0
                && stores(&final(ctx).frames) == stores(&old(ctx).frames).push((text_of(&args@[0]), moved_out(old(ctx).stack@[0])->Some_0)),
            r is Err ==> stores(&final(ctx).frames) == stores(&old(ctx).frames),
{{
{render(hs['store'], 1)}
}}

//@ OBL C01.handler.store_fast
// `store_fast R`: a compiler temporary is bound in the innermost frame to the operand's value
pub fn store_fast(ctx: &mut Ctx, args: &Vec<VString>) -> (r: Result<(), VErr>)
    ensures r is Ok ==> args@.len() >= 1 && old(ctx).stack@.len() == 1 && moved_out(old(ctx).stack@[0]) is Some && final(ctx).stack@.len() == 0
                && locals_view(&final(ctx).locals) == locals_view(&old(ctx).locals).insert(text_of(&args@[0]), moved_out(old(ctx).stack@[0])->Some_0),
{{
{render(hs['store_fast'], 1)}
}}

//@ OBL C01.handler.load_fast
// `load_fast R`: pushes the current content of the variable the executing function's own frames bind to R
pub fn load_fast(ctx: &mut Ctx, args: &Vec<VString>) -> (r: Result<(), VErr>)
    ensures (args@.len() >= 1 && fn_lookup(&old(ctx).frames, text_of(&args@[0])) is Some) <==> r is Ok,
            r is Ok ==> final(ctx).stack@ == old(ctx).stack@.push(cell_value(cell_id(&fn_lookup(&old(ctx).frames, text_of(&args@[0]))->Some_0))),
            rest(final(ctx)) == rest(old(ctx)),
{{
{render(hs['load_fast'], 1)}
}}
}} // verus!
fn main() {{}}
"""
    obls = ctx_obls(names, ["C01"]) + [
        Obl("C01.handler.ret", ["C01", "C09", "C13", "C08", "C15"], fn="ret", desc="ret: returns the VALUE of the single operand, copied out of any element / field / entry pointer (or no value); more than one operand is an error"),
        Obl("C01.handler.store", ["C01", "C07", "C08"], fn="store", desc="store: the operand's value (moved out of pointers) is registered under the name; stack emptied"),
        Obl("C01.handler.store_fast", ["C01", "C15", "C08"], fn="store_fast", desc="store_fast: binds the register in the innermost frame to the operand's value"),
        Obl("C01.handler.load_fast", ["C01", "C15"], fn="load_fast", desc="load_fast: pushes the content of the register as bound in the executing function's frames"),
    ]
    return gen, obls, log


U_FLOW = VUnit("c01_dataflow", ["C01", "C07", "C08", "C09", "C15"], "data-flow handlers: ret, store, store_fast, load_fast", build_flow)
U_FLOW.assumes = ["Stack::register_variable_flags / register_variable_local / find_name_in_function are abstract callees (unit c07_stack covers the stack side)", "heap pointers abstract (moved_out)"]
UNITS.append(U_FLOW)


# =====================================================================================================================
# C05 / C02 / C08: the unary operators' handlers work on the operand's VALUE
UNARY_SPEC = r"""
// Primitive::negate (unit c02_negate: numeric kinds negate, everything else is an error)
pub uninterp spec fn negated(p: Primitive) -> Option<Primitive>;
impl Primitive {
    #[verifier::external_body]
    pub fn negate(&mut self) -> (r: Result<(), VErr>)
        ensures r is Ok <==> negated(*old(self)) is Some, r is Ok ==> *final(self) == negated(*old(self))->Some_0
    { unimplemented!() }
}
"""


def build_unary(repo):
    src = Source(repo)
    log = []
    names = ["pop", "push", "stack_size", "get_last_op_item", "set_last_op_item"]
    ctx = ctx_impl(src, log, names)
    extra = [Rule("R13", "ctx . get_last_op_item_mut ( )", "ctx . get_last_op_item ( )", why="&mut to the top element -> read, then set_last_op_item (same final stack)"),
             Rule("R13", "* val = ! * val ;", "let verif_new = Primitive :: Bool ( ! * val ) ; ctx . set_last_op_item ( verif_new ) ;", why="write through the &mut -> set_last_op_item"),
             Rule("R13", "val . negate ( ) ? ; Ok ( ( ) )", "let mut verif_v = clone_prim ( val ) ; verif_v . negate ( ) ? ; ctx . set_last_op_item ( verif_v ) ; Ok ( ( ) )", why="in-place update through the &mut -> copy, update, set_last_op_item (same final stack)")]
    hs = {n: handler(src, log, n, extra) for n in ["neg", "not"]}
    gen = header(log, f"{INSTR}: neg, not; {CTXF}: Ctx methods") + prelude("ctx.rs") + ctx + UNARY_SPEC + f"""
//@ OBL C05.handler.neg
// unary minus: the operand may be a plain value or a pointer to an element / field / entry -- the operator works on its VALUE
pub fn neg(ctx: &mut Ctx, _args: &Vec<VString>) -> (r: Result<(), VErr>)
    ensures
        (old(ctx).stack@.len() > 0 && moved_out(old(ctx).stack@.last()) is Some && negated(moved_out(old(ctx).stack@.last())->Some_0) is Some) ==> r is Ok,
        r is Ok ==> old(ctx).stack@.len() > 0 && moved_out(old(ctx).stack@.last()) is Some && negated(moved_out(old(ctx).stack@.last())->Some_0) is Some
            && final(ctx).stack@ == old(ctx).stack@.drop_last().push(negated(moved_out(old(ctx).stack@.last())->Some_0)->Some_0),
{{
{render(hs['neg'], 1)}
}}

//@ OBL C05.handler.not
// `!`: likewise on the operand's value; anything but a bool is an error
pub fn not(ctx: &mut Ctx, _args: &Vec<VString>) -> (r: Result<(), VErr>)
    ensures
        (old(ctx).stack@.len() > 0 && moved_out(old(ctx).stack@.last()) is Some && moved_out(old(ctx).stack@.last())->Some_0 is Bool) <==> r is Ok,
        r is Ok ==> final(ctx).stack@ == old(ctx).stack@.drop_last().push(Primitive::Bool(!moved_out(old(ctx).stack@.last())->Some_0->Bool_0)),
{{
{render(hs['not'], 1)}
}}
}} // verus!
fn main() {{}}
"""
    obls = ctx_obls(names, ["C05"]) + [
        Obl("C05.handler.neg", ["C05", "C02", "C08"], fn="neg", desc="neg: negates the VALUE of the operand (an element, field or entry arrives as a pointer) and succeeds whenever that value can be negated"),
        Obl("C05.handler.not", ["C05", "C02", "C08"], fn="not", desc="not: inverts the bool the operand denotes, also through a pointer; anything else is an error"),
    ]
    return gen, obls, log


U_UNARY = VUnit("c05_unary", ["C05", "C02", "C08"], "handlers of the unary operators: neg, not", build_unary)
U_UNARY.assumes = ["Primitive::negate abstract (unit c02_negate covers it)", "heap pointers abstract (moved_out)"]
UNITS.append(U_UNARY)


# =====================================================================================================================
# C05 / C12: the handlers of `==` and `!=` compare by Primitive::equals (numeric value across kinds, optionals looked through) -- `!=`
# is its negation, never another notion of equality
EQ_SPEC = r"""
// Primitive::equals (obligations C05.eq.* / C12.equals.*): None = the two kinds cannot be compared
pub uninterp spec fn equals_spec(a: Primitive, b: Primitive) -> Option<bool>;
impl Primitive {
    #[verifier::external_body]
    pub fn equals(&self, other: &Primitive) -> (r: Result<bool, VErr>)
        ensures r is Ok <==> equals_spec(*self, *other) is Some, r is Ok ==> r->Ok_0 == equals_spec(*self, *other)->Some_0
    { unimplemented!() }
}
// what the property says about `a == b` for operand values (a below, b on top): equality does not depend on the side
pub open spec fn eq_outcome(a: Primitive, b: Primitive, r: bool) -> bool {
    (equals_spec(a, b) is Some && r == equals_spec(a, b)->Some_0) || (equals_spec(b, a) is Some && r == equals_spec(b, a)->Some_0)
}
pub open spec fn two_values(c: &Ctx) -> bool { c.stack@.len() == 2 && moved_out(c.stack@[0]) is Some && moved_out(c.stack@[1]) is Some }
"""


def build_eq_handlers(repo):
    src = Source(repo)
    log = []
    names = ["pop", "push", "stack_size"]
    ctx = ctx_impl(src, log, names)
    extra = [Rule("R6", "ctx . pop ( ) . unwrap ( ) . move_out_of_heap_primitive ( ) ?", "move_out ( ctx . pop ( ) . unwrap ( ) ) ?", why="heap-pointer view abstract")]
    hs = {n: handler(src, log, n, extra) for n in ["equ", "neq"]}
    gen = header(log, f"{INSTR}: equ, neq; {CTXF}: Ctx methods") + prelude("ctx.rs") + ctx + EQ_SPEC + f"""
//@ OBL C05.handler.equ
pub fn equ(ctx: &mut Ctx, _args: &Vec<VString>) -> (r: Result<(), VErr>)
    ensures
        r is Ok ==> two_values(old(ctx)) && final(ctx).stack@.len() == 1 && final(ctx).stack@[0] is Bool
            && eq_outcome(moved_out(old(ctx).stack@[0])->Some_0, moved_out(old(ctx).stack@[1])->Some_0, final(ctx).stack@[0]->Bool_0),
        // two comparable values are compared: no spurious failure
        (two_values(old(ctx)) && equals_spec(moved_out(old(ctx).stack@[0])->Some_0, moved_out(old(ctx).stack@[1])->Some_0) is Some
            && equals_spec(moved_out(old(ctx).stack@[1])->Some_0, moved_out(old(ctx).stack@[0])->Some_0) is Some) ==> r is Ok,
        rest(final(ctx)) == rest(old(ctx)),
{{
{render(hs['equ'], 1)}
}}

//@ OBL C05.handler.neq
// `a != b` is true exactly when `a == b` is false
pub fn neq(ctx: &mut Ctx, _args: &Vec<VString>) -> (r: Result<(), VErr>)
    ensures
        r is Ok ==> two_values(old(ctx)) && final(ctx).stack@.len() == 1 && final(ctx).stack@[0] is Bool
            && eq_outcome(moved_out(old(ctx).stack@[0])->Some_0, moved_out(old(ctx).stack@[1])->Some_0, !final(ctx).stack@[0]->Bool_0),
        (two_values(old(ctx)) && equals_spec(moved_out(old(ctx).stack@[0])->Some_0, moved_out(old(ctx).stack@[1])->Some_0) is Some
            && equals_spec(moved_out(old(ctx).stack@[1])->Some_0, moved_out(old(ctx).stack@[0])->Some_0) is Some) ==> r is Ok,
        rest(final(ctx)) == rest(old(ctx)),
{{
{render(hs['neq'], 1)}
}}
}} // verus!
fn main() {{}}
"""
    obls = ctx_obls(names, ["C05"]) + [
        Obl("C05.handler.equ", ["C05", "C12", "C13"], fn="equ", desc="equ (`==`): pushes Primitive::equals of the two operands' VALUES (through pointers); fails only when they cannot be compared"),
        Obl("C05.handler.neq", ["C05", "C12", "C13"], fn="neq", desc="neq (`!=`): pushes the negation of Primitive::equals of the two operands' values -- the same notion of equality as `==`"),
    ]
    return gen, obls, log


U_EQH = VUnit("c05_eq_handlers", ["C05", "C12", "C13"], "handlers of == and !=: Primitive::equals and its negation", build_eq_handlers)
U_EQH.assumes = ["Primitive::equals abstract (units c05_ops: numeric cells, c12_equals: optionals, c13_lists: lists)", "heap pointers abstract (moved_out)"]
UNITS.append(U_EQH)


# =====================================================================================================================
# C05 / C15: the frame of `bin_op` -- which operand is the left one, values through pointers, the result replaces the operands
BINOP_SPEC = r"""
// the operator table of bin_op (unit c05_dispatch, K-t: symbol -> operator on (left, right), all operand values): None = failure
pub uninterp spec fn table_result(sym: Seq<char>, left: Primitive, right: Primitive) -> Option<Primitive>;
#[verifier::external_body]
pub fn apply_symbol(symbols: &VString, left: Primitive, right: Primitive) -> (r: Result<Primitive, VErr>)
    ensures r is Ok <==> table_result(text_of(symbols), left, right) is Some, r is Ok ==> r->Ok_0 == table_result(text_of(symbols), left, right)->Some_0
{ unimplemented!() }
pub fn opt_ctx<'a>(o: Option<&'a VString>) -> (r: Result<&'a VString, VErr>) ensures o is Some <==> r is Ok, r is Ok ==> Some(r->Ok_0) == o
{ match o { Some(x) => Ok(x), None => Err(VErr) } }
"""


def build_binop_frame(repo):
    src = Source(repo)
    log = []
    names = ["pop", "clear_and_set_stack", "get_local_operating_stack"]
    ctx = ctx_impl(src, log, names)
    extra = [Rule("R9", "args . first ( ) . context ( $m ) ?", "opt_ctx ( args_first ( args ) ) ?", why="Option::context: an error when absent"),
             Rule("R6", "match ( symbols . as_str ( ) , & left , & right ) { $$arms } . context ( $m ) ?", "apply_symbol ( symbols , left , right ) ?",
                  why="the operator table: its own obligations C05.dispatch.* (K-t, verbatim text); here an abstract function of (symbol, left, right)")]
    b = handler(src, log, "bin_op", extra)
    gen = header(log, f"{INSTR}: bin_op (frame); {CTXF}: Ctx methods") + prelude("ctx.rs") + ctx + BINOP_SPEC + f"""
//@ OBL C05.handler.bin_op
// the compiled layout (C15.binop.layout) leaves the left operand's value below the right operand's: the one on top is the RIGHT operand
pub fn bin_op(ctx: &mut Ctx, args: &Vec<VString>) -> (r: Result<(), VErr>)
    ensures
        r is Ok ==> args@.len() >= 1 && old(ctx).stack@.len() >= 2 && ({{
            let n = old(ctx).stack@.len(); let left = moved_out(old(ctx).stack@[n - 2]); let right = moved_out(old(ctx).stack@[n - 1]);
            left is Some && right is Some && table_result(text_of(&args@[0]), left->Some_0, right->Some_0) is Some
            && final(ctx).stack@ == seq![table_result(text_of(&args@[0]), left->Some_0, right->Some_0)->Some_0] }}),
        // no spurious failure: two operand values the operator accepts give a result
        (args@.len() >= 1 && old(ctx).stack@.len() >= 2 && ({{
            let n = old(ctx).stack@.len(); let left = moved_out(old(ctx).stack@[n - 2]); let right = moved_out(old(ctx).stack@[n - 1]);
            left is Some && right is Some && table_result(text_of(&args@[0]), left->Some_0, right->Some_0) is Some }})) ==> r is Ok,
        rest(final(ctx)) == rest(old(ctx)),
{{
{render(b, 1)}
}}
}} // verus!
fn main() {{}}
"""
    obls = ctx_obls(names, ["C05"]) + [
        Obl("C05.handler.bin_op", ["C05", "C15", "C01", "C13"], fn="bin_op", desc="bin_op: the operand on top is the right one, the one below the left one; both are used by VALUE (through element / field pointers); the operator table's result replaces the operand stack; an MScript error otherwise"),
    ]
    return gen, obls, log


U_BINF = VUnit("c05_binop_frame", ["C05", "C15", "C01", "C13"], "bin_op handler: operand sides, values through pointers, result", build_binop_frame)
U_BINF.assumes = ["the operator table is abstract here (unit c05_dispatch decides it on the verbatim text)", "heap pointers abstract (moved_out)"]
UNITS.append(U_BINF)


# =====================================================================================================================
# C01 / C17: `assert`
def _bail_citing(b):
    """R3 (refined for `assert`): bail!("text {a} .. {}", b) -> an error that CITES the values it mentions (the text itself is dropped)"""
    import re as _re
    inner = b["a"][1:-1]
    if not inner or not inner[0].startswith('"'):
        return None
    names = [m for m in _re.findall(r"\{(\w+)(?::[^}]*)?\}", inner[0])]
    rest = inner[1:]
    i = 0
    while i < len(rest):
        if rest[i] == ",":
            i += 1; continue
        if _re.fullmatch(r"[A-Za-z_]\w*", rest[i]) and (i + 1 == len(rest) or rest[i + 1] == ","):
            names.append(rest[i])
        i += 1
    e = "verr_plain ( )"
    for n in names:
        e += f" . citing ( & {n} )"
    return f"return Err ( {e} )"


def build_assert(repo):
    src = Source(repo)
    log = []
    names = ["pop", "stack_size"]
    ctx = ctx_impl(src, log, names)
    b = handler(src, log, "assert", [
        Rule("R3", "bail ! $a", _bail_citing, why="bail! -> return Err; the error CITES the values its message mentions (text dropped)"),
        Rule("R6", "ctx . pop ( ) . unwrap ( ) . move_out_of_heap_primitive ( ) ?", "move_out ( ctx . pop ( ) . unwrap ( ) ) ?", why="heap-pointer view abstract"),
        Rule("R6", "item . equals ( & bool ! ( true ) ) ?", "equals_true ( & item ) ?", why="Primitive::equals against `true` (C05 / C12 obligations): true for Bool(true), false for Bool(false) and for nil, an error for other kinds"),
        Rule("R8", "let span = & args [ 0 ] ;", "let span = arg0 ( args ) ;", why="slice index with its panic precondition (R8)"),
    ])
    b = Rule("R3", "Err ( VErr )", "Err ( verr_plain ( ) )", why="an error without a cited value").apply(b, log)
    pre = prelude("ctx.rs").replace("pub struct VErr;", """// an error and the texts its message cites (the message itself is not modelled)
pub struct VErr { pub cites: Ghost<Set<Seq<char>>> }
pub trait Cite { spec fn cited(&self) -> Set<Seq<char>>; }
pub fn verr_plain() -> (r: VErr) ensures r.cites@ == Set::<Seq<char>>::empty() { VErr { cites: Ghost(Set::empty()) } }
impl VErr { pub fn citing<A: Cite>(self, a: &A) -> (r: VErr) ensures r.cites@ == self.cites@.union(a.cited()) { VErr { cites: Ghost(self.cites@.union(a.cited())) } } }""")
    if "pub struct VErr {" not in pre:
        raise Undecided("prelude ctx.rs: `pub struct VErr;` not found")
    gen = header(log, f"{INSTR}: assert; {CTXF}: Ctx::pop, Ctx::stack_size") + pre + """
impl Cite for VString { open spec fn cited(&self) -> Set<Seq<char>> { set![text_of(self)] } }
impl Cite for &VString { open spec fn cited(&self) -> Set<Seq<char>> { set![text_of(*self)] } }
impl Cite for Primitive { open spec fn cited(&self) -> Set<Seq<char>> { Set::empty() } }
""" + ctx + f"""
// Primitive::equals(x, true): the comparison itself is C05.eq / C12.equals; here only its outcome on a bool and on nil matters
#[verifier::external_body] pub fn equals_true(p: &Primitive) -> (r: Result<bool, VErr>)
    ensures *p is Bool ==> r == Ok::<bool, VErr>(p->Bool_0), *p == Primitive::Optional(None) ==> r == Ok::<bool, VErr>(false),
            !(*p is Bool) ==> (r is Err || r == Ok::<bool, VErr>(false)) {{ unimplemented!() }}
pub fn arg0(a: &Vec<VString>) -> (r: &VString) requires a@.len() > 0 ensures *r == a@[0] {{ &a[0] }}

//@ OBL C01.handler.assert
// `assert e`: continues exactly when the VALUE of e is true (an element / field holding true counts); a false value stops the program
// with an MScript error that carries the source position the compiler passed -- never a panic.  C17: the error of a FAILED assert -- the
// operand is false, or nil where a bool was promised (a missing map entry, an unset field) -- names the position of that assert
pub fn assert(ctx: &mut Ctx, args: &Vec<VString>) -> (r: Result<(), VErr>)
    requires args@.len() >= 1            // the compiler always passes the position (Assertion::compile)
    ensures
        (old(ctx).stack@.len() == 1 && moved_out(old(ctx).stack@[0]) == Some(Primitive::Bool(true))) ==> r is Ok && final(ctx).stack@.len() == 0,
        (old(ctx).stack@.len() == 1 && moved_out(old(ctx).stack@[0]) == Some(Primitive::Bool(false))) ==> r is Err && r->Err_0.cites@.contains(text_of(&args@[0])),
        (old(ctx).stack@.len() == 1 && moved_out(old(ctx).stack@[0]) == Some(Primitive::Optional(None))) ==> r is Err && r->Err_0.cites@.contains(text_of(&args@[0])),
        r is Ok ==> old(ctx).stack@.len() == 1 && moved_out(old(ctx).stack@[0]) == Some(Primitive::Bool(true)),
        rest(final(ctx)) == rest(old(ctx)),
{{
{render(b, 1)}
}}
}} // verus!
fn main() {{}}
"""
    obls = ctx_obls(names, ["C01"]) + [Obl("C01.handler.assert", ["C01", "C17", "C02"], fn="assert", desc="assert: Ok exactly when the single operand's value is true (through element / field pointers); false or nil is an MScript error that cites the assert's source position; no panic")]
    return gen, obls, log


U_ASSERT = VUnit("c01_assert", ["C01", "C17", "C02"], "assert handler", build_assert)
U_ASSERT.assumes = ["Primitive::equals against `true` is abstract (true / false on bools); heap pointers abstract"]
UNITS.append(U_ASSERT)


# =====================================================================================================================
# C08 / C13: `ptr_mut` -- `obj.field = v`, `xs[i] = v`, `m[k] = v`
def build_ptr_mut(repo):
    src = Source(repo)
    log = []
    names = ["pop", "stack_size"]
    ctx = ctx_impl(src, log, names)
    b = handler(src, log, "ptr_mut", [
        Rule("R13", "vec_ptr . set ( new_val ) ?", "vec_ptr . set ( new_val , writes ) ?", why="write through the pointer recorded in an explicit write log (HeapPrimitive::set itself: obligation C08.ptr.set)"),
        Rule("R9", "if let HeapPrimitive :: $k ( .. ) = $v {", lambda bb: f'if heap_kind_is ( & {text(bb["v"])} , "{text(bb["k"])}" ) {{', why="test on the kind of pointer (list slot / field / map entry): uninterpreted"),
        Rule("R9", "matches ! ( $v , HeapPrimitive :: $k ( .. ) )", lambda bb: f'heap_kind_is ( & {text(bb["v"])} , "{text(bb["k"])}" )', why="test on the kind of pointer: uninterpreted"),
    ])
    gen = header(log, f"{INSTR}: ptr_mut; {CTXF}: Ctx::pop, Ctx::stack_size") + prelude("ctx.rs") + ctx + f"""
// every write through a pointer, in order: which pointer, which value
#[verifier::external_body] pub struct Writes {{ x: usize }}
pub uninterp spec fn written(w: &Writes) -> Seq<(HeapV, Primitive)>;
impl HeapV {{
    #[verifier::external_body] pub fn set(&self, v: Primitive, w: &mut Writes) -> (r: Result<(), VErr>)
        ensures r is Ok <==> set_ok(*self, v), r is Ok ==> written(final(w)) == written(old(w)).push((*self, v)), r is Err ==> written(final(w)) == written(old(w)) {{ unimplemented!() }}
    // what the slot holds now (HeapPrimitive::to_owned_primitive): uninterpreted
    #[verifier::external_body] pub fn to_owned_primitive(&self) -> (r: Result<Primitive, VErr>) ensures r is Ok ==> heap_deref(self) == Some(r->Ok_0) {{ unimplemented!() }}
}}
// HeapPrimitive::set itself (obligation C08.ptr.set): fails only for a map pointer whose key cannot be inserted
pub uninterp spec fn set_ok(h: HeapV, v: Primitive) -> bool;
pub uninterp spec fn heap_kind(h: &HeapV, k: &str) -> bool;
#[verifier::external_body] pub fn heap_kind_is(h: &HeapV, k: &str) -> (r: bool) ensures r == heap_kind(h, k) {{ unimplemented!() }}
// run-time type tags a change may compare: equality uninterpreted
#[verifier::external_body] pub struct TypeTag {{ x: usize }}
pub uninterp spec fn tag_eq(a: TypeTag, b: TypeTag) -> bool;
impl vstd::std_specs::cmp::PartialEqSpecImpl for TypeTag {{
    open spec fn obeys_eq_spec() -> bool {{ true }}
    open spec fn eq_spec(&self, other: &TypeTag) -> bool {{ tag_eq(*self, *other) }}
}}
impl PartialEq for TypeTag {{ #[verifier::external_body] fn eq(&self, other: &TypeTag) -> (r: bool) ensures r == tag_eq(*self, *other) {{ unimplemented!() }} }}
impl Primitive {{ #[verifier::external_body] pub fn ty(&self) -> (r: TypeTag) {{ unimplemented!() }} }}

//@ OBL C08.handler.ptr_mut
// `place = v` with the place's pointer and v on the stack: exactly one write, of exactly v, through exactly that pointer -- whatever
// the slot held before (an equal-looking value is still another value: lists and maps are compared by content, objects by identity)
pub fn ptr_mut(ctx: &mut Ctx, _args: &Vec<VString>, writes: &mut Writes) -> (r: Result<(), VErr>)
    ensures
        r is Ok ==> ({{ let s = old(ctx).stack@; let n = s.len() as int;
            n >= 2 && s[n - 2] is HeapPrimitive && final(ctx).stack@ == s.subrange(0, n - 2)
            && written(final(writes)) == written(old(writes)).push((s[n - 2]->HeapPrimitive_0, s[n - 1])) }}),
        // UNCONDITIONALLY: with a pointer and a value on the stack the only failure is that of the write itself -- no test on what the slot held or holds
        ({{ let s = old(ctx).stack@; let n = s.len() as int; n >= 2 && s[n - 2] is HeapPrimitive && set_ok(s[n - 2]->HeapPrimitive_0, s[n - 1]) }}) ==> r is Ok,
        r is Err ==> written(final(writes)) == written(old(writes)),
        rest(final(ctx)) == rest(old(ctx)),
{{
{render(b, 1)}
}}
}} // verus!
fn main() {{}}
"""
    obls = ctx_obls(names, ["C08"]) + [Obl("C08.handler.ptr_mut", ["C08", "C13"], fn="ptr_mut", desc="ptr_mut: exactly one write, of exactly the popped value, through exactly the popped pointer, unconditionally")]
    return gen, obls, log


U_PTRMUT = VUnit("c08_ptr_mut", ["C08", "C13"], "ptr_mut handler: field / element / entry assignment", build_ptr_mut)
U_PTRMUT.assumes = ["HeapPrimitive::set is an abstract callee here (its effect on the heap: obligation C08.ptr.set)"]
UNITS.append(U_PTRMUT)


# =====================================================================================================================
# C07: `call_self` -- a closure recursing with self(..) passes its captured variables on AND keeps them
def build_call_self(repo):
    src = Source(repo)
    log = []
    names = ["signal", "clear_stack", "get_local_operating_stack"]
    ctx = ctx_impl(src, log, names)
    # Ctx::get_callback_variables: receiver taken from the real signature (a `&mut self` version may change the context)
    fg = src.fn(CTXF, "get_callback_variables", "impl < 'a > Ctx < 'a >")
    mut_recv = "mut" in fg["sig"][:fg["sig"].index(")")] if ")" in fg["sig"] else False
    bg = translate(fg["body"], [Rule("R1", "self . callback_state . as_ref ( ) . cloned ( )", "clone_caps_opt ( & self . callback_state )", why="Option<VariableMapping> clone (same cells)")], log, "Ctx::get_callback_variables")
    check_closed(bg, "Ctx::get_callback_variables")
    recv = "&mut self" if mut_recv else "&self"
    keep = ("final(self).callback_state == old(self).callback_state, final(self).stack == old(self).stack, final(self).exit_state == old(self).exit_state, rest(final(self)) == rest(old(self)),"
            if mut_recv else "")
    me = "old(self)" if mut_recv else "self"
    getter = f"""impl Ctx {{
    //@ OBL CTX.get_callback_variables
    // the captured variables of the running closure, for passing on: a copy of the mapping (same cells); the context KEEPS its own
    pub fn get_callback_variables({recv}) -> (r: Option<Caps>)
        ensures {keep} r is Some <==> {me}.callback_state is Some, r is Some ==> caps_view(&r->Some_0) == caps_view(&{me}.callback_state->Some_0)
    {{
{render(bg, 2)}
    }}
}}
"""
    b = handler(src, log, "call_self", [
        Rule("R1", "ctx . get_local_operating_stack ( ) . clone ( )", "clone_stack ( ctx . get_local_operating_stack ( ) )", why="Vec<Primitive>::clone"),
        Rule("R10", "let name = { let stack_view = stack . borrow ( ) ; stack_view . get_executing_function_label ( ) . context ( $m ) ? . to_owned ( ) } ;",
             "let name = executing_function_label ( & stack ) ? ;", count=1, why="Rc<RefCell<Stack>> borrow + Stack::get_executing_function_label (obligation C01.stack.executing_function): abstract"),
    ])
    gen = header(log, f"{INSTR}: call_self; {CTXF}: Ctx::get_callback_variables, signal, clear_stack, get_local_operating_stack") + prelude("ctx.rs") + ctx + getter + f"""
pub uninterp spec fn executing_label(s: &StackRef) -> Option<VString>;
#[verifier::external_body] pub fn executing_function_label(s: &StackRef) -> (r: Result<VString, VErr>) ensures r is Ok <==> executing_label(s) is Some, r is Ok ==> r->Ok_0 == executing_label(s)->Some_0 {{ unimplemented!() }}

//@ OBL C07.handler.call_self
// `self(args)`: the running function is called again with the operand stack as arguments and -- for a closure -- with ITS captured variables;
// the caller's own context (captured variables included) is as before, so it can go on using them after the call returns
pub fn call_self(ctx: &mut Ctx, _args: &Vec<VString>) -> (r: Result<(), VErr>)
    ensures
        r is Ok ==> executing_label(&old(ctx).call_stack) is Some && final(ctx).stack@.len() == 0 && (final(ctx).exit_state matches Exit::JumpRequest(req) && {{
            &&& req.destination == JumpRequestDestination::Standard(executing_label(&old(ctx).call_stack)->Some_0)
            &&& req.arguments@ == old(ctx).stack@
            &&& (req.callback_state is Some <==> old(ctx).callback_state is Some)
            &&& (req.callback_state is Some ==> caps_view(&req.callback_state->Some_0) == caps_view(&old(ctx).callback_state->Some_0))
            &&& req.stack == old(ctx).call_stack
        }}),
        rest(final(ctx)) == rest(old(ctx)),
{{
{render(b, 1)}
}}
}} // verus!
fn main() {{}}
"""
    obls = ctx_obls(names, ["C07"]) + [Obl("CTX.get_callback_variables", ["C07"], fn="Ctx::get_callback_variables", desc="get_callback_variables: a copy of the captured-variable mapping; the context keeps its own"),
                                       Obl("C07.handler.call_self", ["C07", "C01"], fn="call_self", desc="call_self: recursion through self(..) passes the closure's captured variables on and leaves the caller's context unchanged")]
    return gen, obls, log


U_CALLSELF = VUnit("c07_call_self", ["C07", "C01"], "call_self handler: recursion of a closure", build_call_self)
U_CALLSELF.assumes = ["Stack::get_executing_function_label is an abstract callee here (obligation C01.stack.executing_function)", "gc cell semantics assumed"]
UNITS.append(U_CALLSELF)


# =====================================================================================================================
# C01 / C15 / C06: the small handlers every expression goes through -- literal constructors, pop, void, fast_rev2, arg, the temporaries'
# delete, reserve_primitive, load_callback, make_vector, printn
LIT_SPEC = r"""
// Primitive::make_bool / make_int / make_float / make_byte / make_bigint (bytecode/src/variables/primitive.rs; their own obligations are
// C01.literal.* below): what a literal's text denotes
pub uninterp spec fn lit_value(kind: int, text: Seq<char>) -> Option<Primitive>;     // kind: 0 bool, 1 int, 2 float, 3 byte, 4 bigint
#[verifier::external_body] pub fn prim_make(kind: u8, s: &VString) -> (r: Result<Primitive, VErr>)
    ensures r is Ok <==> lit_value(kind as int, text_of(s)) is Some, r is Ok ==> r->Ok_0 == lit_value(kind as int, text_of(s))->Some_0 { unimplemented!() }
pub uninterp spec fn str_prim(t: Seq<char>) -> Primitive;                           // string!(raw s): the string value with exactly that text
#[verifier::external_body] pub fn make_string_raw(s: &VString) -> (r: Primitive) ensures r == str_prim(text_of(s)) { unimplemented!() }
#[verifier::external_body] pub fn empty_text() -> (r: VString) ensures text_of(&r) == Seq::<char>::empty() { unimplemented!() }
pub uninterp spec fn vector_of(items: Seq<Primitive>) -> Primitive;                 // vector!(raw v): a NEW list holding exactly these items
#[verifier::external_body] pub fn make_vector_raw(v: Vec<Primitive>) -> (r: Primitive) ensures r == vector_of(v@) { unimplemented!() }
#[verifier::external_body] pub fn empty_vec(cap: usize) -> (r: Vec<Primitive>) ensures r@ == Seq::<Primitive>::empty() { unimplemented!() }
pub open spec fn nil_value() -> Primitive { Primitive::Optional(None) }
// the arguments the executing function was called with (Ctx.args)
pub uninterp spec fn fn_args(f: &Frames) -> Seq<Primitive>;
// variables deleted from the innermost frame, in order (Stack::delete_variable_local: abstract; fails when the name is not there)
pub uninterp spec fn deleted(f: &Frames) -> Seq<Seq<char>>;
pub uninterp spec fn local_cell(f: &Frames, name: Seq<char>) -> Option<Handle>;
impl Ctx {
    #[verifier::external_body] pub fn nth_arg(&self, n: usize) -> (r: Option<&Primitive>)
        ensures r is Some <==> (n as int) < fn_args(&self.frames).len(), r is Some ==> *r->Some_0 == fn_args(&self.frames)[n as int] { unimplemented!() }
    #[verifier::external_body] pub fn argc(&self) -> (r: usize) ensures r as int == fn_args(&self.frames).len() { unimplemented!() }
    #[verifier::external_body] pub fn delete_variable_local(&mut self, name: &VString) -> (r: Result<Handle, VErr>)
        ensures final(self).stack == old(self).stack, final(self).exit_state == old(self).exit_state, final(self).callback_state == old(self).callback_state,
                r is Ok <==> local_cell(&old(self).frames, text_of(name)) is Some,
                r is Ok ==> cell_id(&r->Ok_0) == cell_id(&local_cell(&old(self).frames, text_of(name))->Some_0) && deleted(&final(self).frames) == deleted(&old(self).frames).push(text_of(name))
                    && (forall|n: Seq<char>| n != text_of(name) ==> local_cell(&final(self).frames, n) == local_cell(&old(self).frames, n)),
                r is Err ==> final(self).frames == old(self).frames && final(self).locals == old(self).locals
    { unimplemented!() }
}
pub uninterp spec fn cell_value(id: int) -> Primitive;
impl Handle { #[verifier::external_body] pub fn verif_value(&self) -> (r: Primitive) ensures r == cell_value(cell_id(self)) { unimplemented!() } }
// ---- standard output as a ghost log: finished lines + the line being written
pub uninterp spec fn shown(p: Primitive) -> Seq<char>;                               // Display for Primitive
pub struct Out { pub lines: Ghost<Seq<Seq<char>>>, pub cur: Ghost<Seq<char>> }
pub open spec fn comma_space() -> Seq<char> { seq![',', ' '] }
pub fn out_print(out: &mut Out, p: &Primitive) ensures final(out).lines@ == old(out).lines@, final(out).cur@ == old(out).cur@ + shown(*p) { out.cur = Ghost(out.cur@ + shown(*p)); }
pub fn out_print_sep(out: &mut Out, p: &Primitive) ensures final(out).lines@ == old(out).lines@, final(out).cur@ == old(out).cur@ + comma_space() + shown(*p) { out.cur = Ghost(out.cur@ + comma_space() + shown(*p)); }
pub fn out_newline(out: &mut Out) ensures final(out).lines@ == old(out).lines@.push(old(out).cur@), final(out).cur@ == Seq::<char>::empty() { out.lines = Ghost(out.lines@.push(out.cur@)); out.cur = Ghost(Seq::empty()); }
// what `print a, b, c` writes: the operands in order, separated by ", "
pub open spec fn joined(s: Seq<Primitive>, n: int) -> Seq<char> decreases n {
    if n <= 0 { Seq::empty() } else if n == 1 { shown(s[0]) } else { joined(s, n - 1) + comma_space() + shown(s[n - 1]) }
}
#[verifier::external_body] pub fn text_is_star(s: &VString) -> (r: bool) ensures r == (text_of(s) == seq!['*']) { unimplemented!() }
"""

LIT_KINDS = {"make_bool": 0, "make_int": 1, "make_float": 2, "make_byte": 3, "make_bigint": 4}


def build_literals(repo):
    src = Source(repo)
    log = []
    names = ["pop", "push", "clear_stack", "stack_size", "get_local_operating_stack"]
    ctx = ctx_impl(src, log, names)
    extra = [Rule("R6", f"Primitive :: {n} ( & args [ 0 ] ) ?", f"prim_make ( {k}u8 /*{n}*/ , & args [ 0 ] ) ?", why=f"Primitive::{n}: the literal parser (its own obligation)") for n, k in LIT_KINDS.items()]
    extra += [
        Rule("R9", "args . is_empty ( )", "( args . len ( ) == 0 )", why="slice::is_empty"),
        Rule("R1", "0 => \"\" ,", "0 => & verif_empty ,", why="the empty string literal as a text value"),
        Rule("R1", "let raw_str = match", "let verif_empty = empty_text ( ) ; let raw_str = match", why="the empty string literal as a text value"),
        Rule("R1", "crate :: string ! ( raw raw_str )", "make_string_raw ( raw_str )", why="string!(raw s): Primitive::Str of exactly that text"),
        Rule("R1", "optional ! ( empty )", "Primitive :: Optional ( None )", why="optional!(empty): nil"),
        Rule("R1", "vector ! ( raw Vec :: with_capacity ( capacity ) )", "make_vector_raw ( empty_vec ( capacity ) )", why="vector!(raw v): a new list with the items of v"),
        Rule("R1", "vector ! ( raw vec )", "make_vector_raw ( vec )", why="vector!(raw v): a new list with the items of v"),
        Rule("R1", "ctx . get_local_operating_stack ( ) . clone ( )", "clone_stack ( ctx . get_local_operating_stack ( ) )", why="Vec clone"),
        Rule("R1", "nth_arg . clone ( )", "clone_prim ( nth_arg )", why="Primitive::clone"),
        Rule("R1", "var . primitive ( ) . clone ( )", "var . verif_value ( )", why="content of the variable's cell"),
        Rule("R1", "deleted . primitive ( ) . clone ( )", "deleted . verif_value ( )", why="content of the variable's cell"),
        Rule("R1", "let deleted : PrimitiveFlagsPair =", "let deleted : Handle =", why="type renamed in the model"),
        Rule("R8", "args . first ( ) . unwrap ( )", "& args [ 0 ]", why="first().unwrap(): index 0 with its bounds obligation (R8)"),
        # fast_rev2: two &mut into the operand stack -> take / mutate / put back (R13)
        Rule("R13", "let Some ( [ first , second ] ) = ctx . get_many_op_items_mut ( 0 .. 2 ) else { $$e } ;",
             "if ctx . stack . len ( ) < 2 { $$e } let mut first = clone_prim ( & ctx . stack [ 0 ] ) ; let mut second = clone_prim ( & ctx . stack [ 1 ] ) ;", why="&mut to the two bottom operands -> copies, written back at the end (same final stack)"),
        Rule("R13", "* first = $$e ;", "first = $$e ;", why="write through &mut -> local"),
        Rule("R13", "* second = $$e ;", "second = $$e ;", why="write through &mut -> local"),
        Rule("R1", "first . clone ( )", "clone_prim ( & first )", why="Primitive::clone"),
        Rule("R1", "second . clone ( )", "clone_prim ( & second )", why="Primitive::clone"),
        Rule("R1", "$v . clone ( )", lambda b: f'clone_prim ( & {text(b["v"])} )' if len(b["v"]) == 1 and b["v"][0] not in ("name", "args", ")") and b["v"][0].isidentifier() else None, why="Primitive::clone of a local"),
        # printn
        Rule("R9", "arg == \"*\"", "text_is_star ( arg )", why="String == literal"),
        Rule("R3", "log :: warn ! $a ;", "", why="logging dropped"),
        Rule("R9", "# [ cfg ( feature = \"debug\" ) ] stdout ( ) . flush ( ) ? ;", "", why="cfg(feature = \"debug\") is off in the default build"),
        Rule("R9", "print ! ( \"{first}\" ) ;", "out_print ( out , first ) ;", why="print! of one value: appended to the current output line"),
        Rule("R9", "print ! ( \", {var}\" )", "out_print_sep ( out , var ) ;", why="print! of `, ` and one value"),
        Rule("R9", "println ! ( ) ;", "out_newline ( out ) ;", why="println!(): the current line is finished"),
        Rule("R9", "println ! ( \"{}\" , $$e ) ;", "{ let verif_p = $$e ; out_print ( out , verif_p ) ; out_newline ( out ) ; }", why="println! of one value"),
        Rule("R9", "ctx . get_nth_op_item ( $$i ) . context ( $m ) ?", "stack_get_req ( & ctx . stack , $$i ) ?", why="slice::get on the operand stack; None -> error (context text dropped)"),
        Rule("R9", "ctx . get_nth_op_item ( $$i )", "stack_get ( & ctx . stack , $$i )", why="slice::get on the operand stack"),
    ]
    simple = ["pop", "void", "make_bool", "make_int", "make_float", "make_byte", "make_bigint", "make_str", "arg", "reserve_primitive", "load_callback", "make_vector", "delete_name_reference_scoped"]
    hs = {n: handler(src, log, n, extra) for n in simple}
    # fast_rev2: write-back before the final Ok(())
    fr = handler(src, log, "fast_rev2", extra)
    if fr[-5:] != ["Ok", "(", "(", ")", ")"]:
        raise Undecided("fast_rev2: final Ok(()) not found")
    fr = fr[:-5] + lex("ctx . stack . set ( 0 , first ) ; ctx . stack . set ( 1 , second ) ;") + fr[-5:]
    log.append(("R13", "(end of fast_rev2)", "ctx.stack.set(0, first); ctx.stack.set(1, second);", "write-back of the two operands taken out above"))
    # delete_name_scoped: loop with invariant
    fd = src.fn(INSTR, "delete_name_scoped", "pub mod implementations")
    INVD = ("invariant verif_k <= args.len(), ctx.stack == old(ctx).stack, ctx.exit_state == old(ctx).exit_state, ctx.callback_state == old(ctx).callback_state, "
            "deleted(&ctx.frames) == deleted(&old(ctx).frames) + args@.subrange(0, verif_k as int).map_values(|a: VString| text_of(&a)) decreases args.len() - verif_k")
    dl = translate(list(fd["body"]), [
        Rule("R2", "for name in args { $$body }", lambda b: ["let mut verif_k : usize = 0 ; while verif_k < args . len ( )", G(INVD), "{ let name = & args [ verif_k ] ; verif_k += 1 ;", *b["body"],
                                                              G("proof { assert(args@.subrange(0, verif_k as int).map_values(|a: VString| text_of(&a)) =~= args@.subrange(0, verif_k as int - 1).map_values(|a: VString| text_of(&a)).push(text_of(&args@[verif_k as int - 1]))); }"), "}"], count=1, why="for over &[String] -> indexed while"),
    ] + extra + HANDLER_RULES, log, "implementations::delete_name_scoped")
    check_closed(dl, "delete_name_scoped")
    # printn: the `*` loop
    fp = src.fn(INSTR, "printn", "pub mod implementations")
    INVP = ("invariant 1 <= verif_k <= operating_stack.len(), *operating_stack == ctx.stack, *ctx == *old(ctx), out.lines@ == old(out).lines@, "
            "out.cur@ == old(out).cur@ + joined(ctx.stack@, verif_k as int) decreases operating_stack.len() - verif_k")
    pr = translate(list(fp["body"]), [
        Rule("R2", "for var in operating_stack . iter ( ) . skip ( $n ) { $$body }",
             lambda b: [f"let mut verif_k : usize = {text(b['n'])} ; while verif_k < operating_stack . len ( )", G(INVP), "{ let var = & operating_stack [ verif_k ] ; verif_k += 1 ;", *b["body"],
                        G("proof { assert(out.cur@ =~= old(out).cur@ + joined(ctx.stack@, verif_k as int)); }"), "}"], count=1, why="for over iter().skip(n) -> indexed while from n"),
    ] + extra + HANDLER_RULES, log, "implementations::printn", generic=False)
    from vlib.core import _generic_rules
    for r in _generic_rules():
        pr = r.apply(pr, log)
    check_closed(pr, "printn")
    lit_fns = "\n".join(f"""
//@ OBL C01.handler.{n}
pub fn {n}(ctx: &mut Ctx, args: &Vec<VString>) -> (r: Result<(), VErr>)
    ensures r is Ok <==> (args@.len() == 1 && lit_value({k}, text_of(&args@[0])) is Some),
            r is Ok ==> final(ctx).stack@ == old(ctx).stack@.push(lit_value({k}, text_of(&args@[0]))->Some_0),
            r is Err ==> final(ctx).stack@ == old(ctx).stack@,
            rest(final(ctx)) == rest(old(ctx)), final(ctx).exit_state == old(ctx).exit_state,
{{
{render(hs[n], 1)}
}}""" for n, k in LIT_KINDS.items())
    gen = header(log, f"{INSTR}: pop, void, make_bool/int/float/byte/bigint/str, fast_rev2, arg, reserve_primitive, load_callback, make_vector, delete_name_scoped, delete_name_reference_scoped, printn; {CTXF}: Ctx methods") + \
        prelude("ctx.rs") + ctx.replace("impl Ctx {\n", "impl Ctx {\n    //@ OBL CTX.load_callback_variable\n    " + CTX_METHODS["load_callback_variable"][0] + "\n        " + CTX_METHODS["load_callback_variable"][1] + "\n    {\n" + render(translate(src.fn(CTXF, "load_callback_variable", "impl < 'a > Ctx < 'a >")["body"], CTX_RULES, log, "Ctx::load_callback_variable"), 2) + "\n    }\n", 1) + LIT_SPEC + """
#[verifier::external_body] pub fn stack_get(v: &Vec<Primitive>, i: usize) -> (r: Option<&Primitive>) ensures (i as int) < v@.len() <==> r is Some, r is Some ==> *r->Some_0 == v@[i as int] { unimplemented!() }
#[verifier::external_body] pub fn stack_get_req(v: &Vec<Primitive>, i: usize) -> (r: Result<&Primitive, VErr>) ensures (i as int) < v@.len() <==> r is Ok, r is Ok ==> *r->Ok_0 == v@[i as int] { unimplemented!() }
""" + lit_fns + f"""
//@ OBL C01.handler.pop
// `pop`: the top operand is dropped (nothing else)
pub fn pop(ctx: &mut Ctx, args: &Vec<VString>) -> (r: Result<(), VErr>)
    ensures r is Ok <==> args@.len() == 0,
            r is Ok ==> final(ctx).stack@ == (if old(ctx).stack@.len() > 0 {{ old(ctx).stack@.drop_last() }} else {{ old(ctx).stack@ }}),
            rest(final(ctx)) == rest(old(ctx)), final(ctx).exit_state == old(ctx).exit_state,
{{
{render(hs['pop'], 1)}
}}
//@ OBL C01.handler.void
// `void`: the operand stack is emptied (an expression statement's value is thrown away)
pub fn void(ctx: &mut Ctx, _args: &Vec<VString>) -> (r: Result<(), VErr>)
    ensures r is Ok, final(ctx).stack@.len() == 0, rest(final(ctx)) == rest(old(ctx)), final(ctx).exit_state == old(ctx).exit_state,
{{
{render(Rule("R1", "_ : & [ String ]", "_args", why="").apply(hs['void'], log), 1)}
}}
//@ OBL C01.handler.make_str
// `make_str [TEXT]`: the string value with exactly the argument's text (no argument: the empty string)
pub fn make_str(ctx: &mut Ctx, args: &Vec<VString>) -> (r: Result<(), VErr>)
    ensures r is Ok <==> args@.len() <= 1,
            r is Ok ==> final(ctx).stack@ == old(ctx).stack@.push(str_prim(if args@.len() == 0 {{ Seq::<char>::empty() }} else {{ text_of(&args@[0]) }})),
            rest(final(ctx)) == rest(old(ctx)), final(ctx).exit_state == old(ctx).exit_state,
{{
{render(hs['make_str'], 1)}
}}
//@ OBL C15.handler.fast_rev2
// `fast_rev2`: exactly two operands, exchanged (the binary-operator layout relies on it to restore source order: C15)
pub fn fast_rev2(ctx: &mut Ctx, _args: &Vec<VString>) -> (r: Result<(), VErr>)
    ensures r is Ok <==> old(ctx).stack@.len() == 2,
            r is Ok ==> final(ctx).stack@ == seq![old(ctx).stack@[1], old(ctx).stack@[0]],
            r is Err ==> final(ctx).stack@ == old(ctx).stack@,
            rest(final(ctx)) == rest(old(ctx)), final(ctx).exit_state == old(ctx).exit_state,
{{
{render(fr, 1)}
}}
//@ OBL C01.handler.arg
// `arg N`: pushes the N-th argument the function was called with
pub fn arg(ctx: &mut Ctx, args: &Vec<VString>) -> (r: Result<(), VErr>)
    ensures r is Ok <==> (args@.len() >= 1 && parses_usize(&args@[0]) && num_of(&args@[0]) < fn_args(&old(ctx).frames).len()),
            r is Ok ==> final(ctx).stack@ == old(ctx).stack@.push(fn_args(&old(ctx).frames)[num_of(&args@[0])]),
            r is Err ==> final(ctx).stack@ == old(ctx).stack@,
            rest(final(ctx)) == rest(old(ctx)), final(ctx).exit_state == old(ctx).exit_state,
{{
{render(hs['arg'], 1)}
}}
//@ OBL C12.handler.reserve_primitive
// `reserve_primitive`: pushes nil
pub fn reserve_primitive(ctx: &mut Ctx, _args: &Vec<VString>) -> (r: Result<(), VErr>)
    ensures r is Ok, final(ctx).stack@ == old(ctx).stack@.push(nil_value()), rest(final(ctx)) == rest(old(ctx)), final(ctx).exit_state == old(ctx).exit_state,
{{
{render(hs['reserve_primitive'], 1)}
}}
//@ OBL C07.handler.load_callback
// `load_callback NAME`: pushes the current content of the captured variable's own cell
pub fn load_callback(ctx: &mut Ctx, args: &Vec<VString>) -> (r: Result<(), VErr>)
    ensures r is Ok <==> (args@.len() >= 1 && old(ctx).callback_state is Some && caps_view(&old(ctx).callback_state->Some_0).contains_key(text_of(&args@[0]))),
            r is Ok ==> final(ctx).stack@ == old(ctx).stack@.push(cell_value(cell_id(&caps_view(&old(ctx).callback_state->Some_0)[text_of(&args@[0])]))),
            rest(final(ctx)) == rest(old(ctx)), final(ctx).exit_state == old(ctx).exit_state,
{{
{render(hs['load_callback'], 1)}
}}
//@ OBL C13.handler.make_vector
// `make_vector` without argument: a NEW list of exactly the operands, in order; the operand stack then holds only the list
pub fn make_vector(ctx: &mut Ctx, args: &Vec<VString>) -> (r: Result<(), VErr>)
    ensures args@.len() == 0 ==> r is Ok && final(ctx).stack@ == seq![vector_of(old(ctx).stack@)],
            args@.len() == 1 ==> (r is Ok <==> parses_usize(&args@[0])) && (r is Ok ==> final(ctx).stack@ == old(ctx).stack@.push(vector_of(Seq::<Primitive>::empty()))),
            args@.len() > 1 ==> r is Err,
            rest(final(ctx)) == rest(old(ctx)), final(ctx).exit_state == old(ctx).exit_state,
{{
{render(hs['make_vector'], 1)}
}}
//@ OBL C15.handler.delete_name_scoped
// `delete_name_scoped R..`: every listed temporary is removed from the innermost frame, in order; a missing one is an error
pub fn delete_name_scoped(ctx: &mut Ctx, args: &Vec<VString>) -> (r: Result<(), VErr>)
    ensures r is Ok ==> args@.len() > 0 && deleted(&final(ctx).frames) == deleted(&old(ctx).frames) + args@.map_values(|a: VString| text_of(&a)),
            final(ctx).stack == old(ctx).stack, final(ctx).exit_state == old(ctx).exit_state, final(ctx).callback_state == old(ctx).callback_state,
{{
{render(dl, 1)}
}}
//@ OBL C15.handler.delete_name_reference_scoped
// `delete_name_reference_scoped R`: the temporary is removed and its content pushed
pub fn delete_name_reference_scoped(ctx: &mut Ctx, args: &Vec<VString>) -> (r: Result<(), VErr>)
    ensures r is Ok <==> (args@.len() == 1 && local_cell(&old(ctx).frames, text_of(&args@[0])) is Some),
            r is Ok ==> final(ctx).stack@ == old(ctx).stack@.push(cell_value(cell_id(&local_cell(&old(ctx).frames, text_of(&args@[0]))->Some_0)))
                && deleted(&final(ctx).frames) == deleted(&old(ctx).frames).push(text_of(&args@[0])),
            r is Err ==> final(ctx).stack@ == old(ctx).stack@,
            final(ctx).exit_state == old(ctx).exit_state, final(ctx).callback_state == old(ctx).callback_state,
{{
{render(hs['delete_name_reference_scoped'], 1)}
}}
//@ OBL C01.handler.printn
// `printn *` (what `print a, b, ..` compiles to): ONE line -- the operands in order, separated by `, ` -- is added to the output; no operand: an
// empty line; `printn N`: one line showing operand N.  The operand stack is not touched.
#[verifier::loop_isolation(false)]
pub fn printn(ctx: &mut Ctx, args: &Vec<VString>, out: &mut Out) -> (r: Result<(), VErr>)
    requires old(out).cur@.len() == 0,
    ensures *final(ctx) == *old(ctx),
            (args@.len() >= 1 && text_of(&args@[0]) == seq!['*']) ==> r is Ok && final(out).lines@ == old(out).lines@.push(joined(old(ctx).stack@, old(ctx).stack@.len() as int)) && final(out).cur@.len() == 0,
            (args@.len() >= 1 && text_of(&args@[0]) != seq!['*']) ==> (r is Ok <==> (parses_usize(&args@[0]) && num_of(&args@[0]) < old(ctx).stack@.len()))
                && (r is Ok ==> final(out).lines@ == old(out).lines@.push(shown(old(ctx).stack@[num_of(&args@[0])])) && final(out).cur@.len() == 0),
            r is Err ==> final(out).lines@ == old(out).lines@,
            args@.len() == 0 ==> r is Err,
{{
    proof {{ assert(out.cur@ =~= Seq::<char>::empty()); assert(Seq::<char>::empty() + shown(ctx.stack@[0]) =~= shown(ctx.stack@[0])) by {{ }} }}
{render(pr, 1)}
}}
}} // verus!
fn main() {{}}
"""
    obls = ctx_obls(names, ["C01"]) + [Obl("CTX.load_callback_variable", ["C07"], fn="Ctx::load_callback_variable", desc="context.rs Ctx::load_callback_variable: the captured variable's own cell")]
    for n in LIT_KINDS:
        obls.append(Obl(f"C01.handler.{n}", ["C01", "C06", "C15"], fn=n, desc=f"{n}: exactly one argument; pushes the value its text denotes (Primitive::{n}); anything else is an error and pushes nothing"))
    obls += [
        Obl("C01.handler.pop", ["C01", "C15"], fn="pop", desc="pop: drops the top operand, nothing else"),
        Obl("C01.handler.void", ["C01", "C15"], fn="void", desc="void: empties the operand stack"),
        Obl("C01.handler.make_str", ["C01", "C04", "C18"], fn="make_str", desc="make_str: the string value with exactly the argument's text"),
        Obl("C15.handler.fast_rev2", ["C15", "C01", "C05"], fn="fast_rev2", desc="fast_rev2: exactly two operands, exchanged"),
        Obl("C01.handler.arg", ["C01", "C07"], fn="arg", desc="arg N: pushes the N-th call argument; out of range is an error"),
        Obl("C12.handler.reserve_primitive", ["C12"], fn="reserve_primitive", desc="reserve_primitive: pushes nil"),
        Obl("C07.handler.load_callback", ["C07"], fn="load_callback", desc="load_callback: pushes the content of the captured variable's own cell"),
        Obl("C13.handler.make_vector", ["C13", "C15"], fn="make_vector", desc="make_vector: a new list of exactly the operands in order"),
        Obl("C15.handler.delete_name_scoped", ["C15", "C01"], fn="delete_name_scoped", desc="delete_name_scoped: every listed temporary removed, in order"),
        Obl("C15.handler.delete_name_reference_scoped", ["C15", "C13"], fn="delete_name_reference_scoped", desc="delete_name_reference_scoped: removes the temporary and pushes its content"),
        Obl("C01.handler.printn", ["C01", "C15"], fn="printn", desc="printn: `print a, b, ..` adds exactly one line, the operands in order separated by `, `; the operand stack is untouched"),
    ]
    return gen, obls, log


U_LIT = VUnit("c01_small_handlers", ["C01", "C15", "C06", "C07", "C12", "C13", "C04", "C18", "C05"], "literal constructors, pop, void, fast_rev2, arg, temporaries, make_vector, printn", build_literals)
U_LIT.assumes = ["Primitive::make_* are abstract callees here (obligations C01.literal.* of unit c01_literal_parsers)", "Display for Primitive (`shown`) is uninterpreted: the TEXT of a value is not under contract here, only which values are printed, in which order, on how many lines",
                 "standard output as a ghost log of lines (print!/println! append); Stack::delete_variable_local abstract; gc cell semantics assumed"]
UNITS.append(U_LIT)


# =====================================================================================================================
# C08 / C11: the object and module handlers -- call_object, lookup, module_entry, load_self_export, export_special, ret_mod
OBJ_SPEC = r"""
// Rc::new(RefCell::new(Stack::new())): a call stack of its own -- with no frame of the running program on it
#[verifier::external_body] pub fn fresh_call_stack() -> (r: StackRef) ensures frame_labels(&r).len() == 0 { unimplemented!() }
// an object: its variables (the cells its methods captured: unit c08_object_fields) -- a handle of the same mapping
pub struct ObjV { pub object_variables: Caps }
#[verifier::external_body] pub fn clone_caps(c: &Caps) -> (r: Caps) ensures caps_view(&r) == caps_view(c) { unimplemented!() }
// Primitive::lookup (units c14_lookup, c08_lookup): the member's own cell, or the value that has no such member, or a failure
pub uninterp spec fn member_of(p: Primitive, name: Seq<char>) -> Result<Result<Handle, Primitive>, VErr>;
impl Primitive {
    #[verifier::external_body] pub fn lookup(&self, name: &VString) -> (r: Result<Result<Handle, Primitive>, VErr>)
        ensures (r is Ok) == (member_of(*self, text_of(name)) is Ok),
                r is Ok ==> (r->Ok_0 is Ok) == (member_of(*self, text_of(name))->Ok_0 is Ok),
                (r is Ok && r->Ok_0 is Ok) ==> cell_id(&r->Ok_0->Ok_0) == cell_id(&member_of(*self, text_of(name))->Ok_0->Ok_0) { unimplemented!() }
}
// HeapPrimitive::new_lookup_view: a pointer to exactly that cell
pub uninterp spec fn lookup_target(h: &HeapV) -> Option<int>;
#[verifier::external_body] pub fn new_lookup_view(c: Handle) -> (r: HeapV) ensures lookup_target(&r) == Some(cell_id(&c)) { unimplemented!() }
pub uninterp spec fn cell_value(id: int) -> Primitive;
impl Handle { #[verifier::external_body] pub fn verif_value(&self) -> (r: Primitive) ensures r == cell_value(cell_id(self)) { unimplemented!() } }
// the executing file's export table and module value
#[verifier::external_body] pub struct Exports { x: usize }
pub uninterp spec fn exports_view(e: &Exports) -> Map<Seq<char>, Handle>;
#[verifier::external_body] pub fn register_export(e: &mut Exports, name: VString, pair: Handle) -> (r: Result<(), VErr>)
    ensures r is Ok <==> !exports_view(old(e)).contains_key(text_of(&name)),
            r is Ok ==> exports_view(final(e)) == exports_view(old(e)).insert(text_of(&name), pair) { unimplemented!() }       // unit c11_export_chain
// MScriptFile::replace_export (through Ctx::register_export_replacing): the registration under that name, old or not, is this one; fails only when
// the executing file is gone (`could not upgrade reference to file`)
pub uninterp spec fn registration_possible(e: &Exports) -> bool;
#[verifier::external_body] pub fn register_export_replacing(e: &mut Exports, name: VString, pair: Handle) -> (r: Result<(), VErr>)
    ensures r is Ok <==> registration_possible(old(e)), r is Ok ==> exports_view(final(e)) == exports_view(old(e)).insert(text_of(&name), pair), r is Err ==> exports_view(final(e)) == exports_view(old(e)) { unimplemented!() }
#[verifier::external_body] pub fn load_self_export_of(e: &Exports, name: &VString) -> (r: Option<Handle>)
    ensures r is Some <==> exports_view(e).contains_key(text_of(name)), r is Some ==> cell_id(&r->Some_0) == cell_id(&exports_view(e)[text_of(name)]) { unimplemented!() }
pub uninterp spec fn module_value(e: &Exports) -> Primitive;                  // Ctx::get_file_module: the module value of the executing file
#[verifier::external_body] pub fn get_file_module(e: &Exports) -> (r: Primitive) ensures r == module_value(e) { unimplemented!() }
pub struct VariableFlags(pub u8);
pub const READ_ONLY: u8 = 1;
pub uninterp spec fn cell_read_only(id: int) -> bool;
// PrimitiveFlagsPair::new: a NEW cell with that content and those flags
#[verifier::external_body] pub fn new_pair(v: Primitive, f: VariableFlags) -> (r: Handle) ensures cell_value(cell_id(&r)) == v, cell_read_only(cell_id(&r)) == (f.0 == READ_ONLY) { unimplemented!() }
// Ctx::ref_variable: binds a name of the current frame to an existing cell
pub uninterp spec fn refs(f: &Frames) -> Seq<(Seq<char>, int)>;
impl Ctx {
    #[verifier::external_body] pub fn ref_variable(&mut self, name: VString, var: Handle)
        ensures final(self).stack == old(self).stack, final(self).exit_state == old(self).exit_state, final(self).callback_state == old(self).callback_state, final(self).call_stack == old(self).call_stack,
                refs(&final(self).frames) == refs(&old(self).frames).push((text_of(&name), cell_id(&var))) { unimplemented!() }
}
pub enum ReturnValue { FFIError(VString), NoValue, Value(Primitive) }
#[verifier::external_body] pub fn stack_get(v: &Vec<Primitive>, i: usize) -> (r: Option<&Primitive>) ensures (i as int) < v@.len() <==> r is Some, r is Some ==> *r->Some_0 == v@[i as int] { unimplemented!() }
"""


def build_object_handlers(repo):
    src = Source(repo)
    log = []
    names = ["pop", "push", "signal", "clear_stack", "stack_size", "get_local_operating_stack"]
    ctx = ctx_impl(src, log, names)
    extra = [
        Rule("R9", "args . last ( ) . context ( $m ) ?", "args_last ( args ) ?", why="slice::last; None -> error"),
        Rule("R9", "ctx . get_nth_op_item ( $$i )", "stack_get ( & ctx . stack , $$i )", why="slice::get on the operand stack"),
        Rule("R1", "o . object_variables . clone ( )", "clone_caps ( & o . object_variables )", why="VariableMapping handle clone: the same cells"),
        Rule("R1", "ctx . get_local_operating_stack ( ) . clone ( )", "clone_stack ( ctx . get_local_operating_stack ( ) )", why="Vec<Primitive>::clone"),
        Rule("R1", "path . clone ( )", "clone_vs ( path )", why="String clone"),
        Rule("R1", "first . clone ( )", "clone_vs ( first )", why="String clone"),
        Rule("R6", "HeapPrimitive :: new_lookup_view ( $$a )", "new_lookup_view ( $$a )", why="pointer to the member's cell"),
        Rule("R3", ". with_context ( $$c ) ?", ". ok_or ( VErr ) ?", why="Option::with_context: None -> error (text dropped)"),
        Rule("R10", "ctx . load_self_export ( $$a )", "load_self_export_of ( exports , $$a )", why="the executing file's export table as explicit state (R10)"),
        Rule("R1", "bundle . primitive ( ) . clone ( )", "bundle . verif_value ( )", why="content of the cell"),
        Rule("R9", "args . get ( 1 ) . unwrap_or ( name )", "args_get_or ( args , 1 , name )", why="slice::get(..).unwrap_or(default)"),
        Rule("R6", "PrimitiveFlagsPair :: new ( $$a )", "new_pair ( $$a )", why="a NEW cell"),
        Rule("R10", "ctx . register_export ( $$a ) ?", "register_export ( exports , $$a ) ?", why="the executing file's export table as explicit state (R10)"),
        Rule("R10", "ctx . register_export_replacing ( $$a ) ?", "register_export_replacing ( exports , $$a ) ?", why="the executing file's export table as explicit state (R10)"),
        Rule("R1", "export_name . to_owned ( )", "clone_vs ( export_name )", why="String clone"),
        Rule("R1", "variable . clone ( )", "clone_handle ( & variable )", why="handle clone: the same cell"),
        Rule("R1", "Cow :: Owned ( name . to_owned ( ) )", "clone_vs ( name )", why="Cow<str> name"),
        Rule("R10", "ctx . get_file_module ( )", "get_file_module ( exports )", why="the executing file's module value (R10)"),
        Rule("R10", "Rc :: new ( RefCell :: new ( Stack :: new ( ) ) )", "fresh_call_stack ( )", why="a NEW, empty call stack (R10): not the one the instruction runs on"),
    ]
    hs = {n: handler(src, log, n, extra) for n in ["call_object", "lookup", "module_entry", "load_self_export", "export_special", "ret_mod"]}
    pre = prelude("ctx.rs").replace("    Other(OtherV),                   // Vector, Object, Module, Map", "    Object(ObjV),\n    Other(OtherV),                   // Vector, Module, Map") \
        .replace("ReturnValue(Box<Primitive>)", "ReturnValue(ReturnValue)")
    if "Object(ObjV)" not in pre:
        raise Undecided("prelude ctx.rs: Primitive::Other line not found")
    gen = header(log, f"{INSTR}: call_object, lookup, module_entry, load_self_export, export_special, ret_mod; {CTXF}: Ctx methods") + pre + ctx + OBJ_SPEC + f"""
#[verifier::external_body] pub fn args_last(a: &Vec<VString>) -> (r: Result<&VString, VErr>) ensures a@.len() == 0 ==> r is Err, a@.len() > 0 ==> r == Ok::<&VString, VErr>(&a@[a@.len() - 1]) {{ unimplemented!() }}
#[verifier::external_body] pub fn args_get_or<'a>(a: &'a Vec<VString>, i: usize, d: &'a VString) -> (r: &'a VString) ensures a@.len() > i ==> r == &a@[i as int], a@.len() <= i ==> r == d {{ unimplemented!() }}

//@ OBL C08.handler.call_object
// `obj.method(args)`: the method named by the LAST argument is called with the whole operand stack as arguments (the object first: `self`) and
// with the variables OF THAT OBJECT as its captured variables -- so it reads and updates the fields of that object only
pub fn call_object(ctx: &mut Ctx, args: &Vec<VString>) -> (r: Result<(), VErr>)
    ensures
        r is Ok <==> (args@.len() >= 1 && old(ctx).stack@.len() >= 1 && old(ctx).stack@[0] is Object),
        r is Ok ==> final(ctx).stack@.len() == 0 && (final(ctx).exit_state matches Exit::JumpRequest(req) && {{
            &&& req.destination == JumpRequestDestination::Standard(args@[args@.len() - 1])
            &&& req.arguments@ == old(ctx).stack@
            &&& req.callback_state is Some && caps_view(&req.callback_state->Some_0) == caps_view(&old(ctx).stack@[0]->Object_0.object_variables)
            &&& req.stack == old(ctx).call_stack
        }}),
        r is Err ==> final(ctx).stack@ == old(ctx).stack@ && final(ctx).exit_state == old(ctx).exit_state,
        rest(final(ctx)) == rest(old(ctx)),
{{
{render(hs['call_object'], 1)}
}}
//@ OBL C08.handler.lookup
// `x.name`: the single operand is replaced by a pointer to exactly the member's own cell (a later write through it reaches the object's field)
pub fn lookup(ctx: &mut Ctx, args: &Vec<VString>) -> (r: Result<(), VErr>)
    ensures
        r is Ok ==> old(ctx).stack@.len() == 1 && args@.len() >= 1 && ({{ let m = member_of(old(ctx).stack@[0], text_of(&args@[0]));
            m is Ok && m->Ok_0 is Ok && final(ctx).stack@.len() == 1 && final(ctx).stack@[0] is HeapPrimitive && lookup_target(&final(ctx).stack@[0]->HeapPrimitive_0) == Some(cell_id(&m->Ok_0->Ok_0)) }}),
        (old(ctx).stack@.len() == 1 && args@.len() >= 1 && ({{ let m = member_of(old(ctx).stack@[0], text_of(&args@[0])); m is Ok && m->Ok_0 is Ok }})) ==> r is Ok,
        rest(final(ctx)) == rest(old(ctx)), final(ctx).exit_state == old(ctx).exit_state,
{{
{render(hs['lookup'], 1)}
}}
//@ OBL C11.handler.module_entry
// `import`: a request for exactly the named module, no captured variables, the operand stack as arguments; the operand stack is left empty
pub fn module_entry(ctx: &mut Ctx, args: &Vec<VString>) -> (r: Result<(), VErr>)
    ensures
        r is Ok <==> args@.len() >= 1,
        r is Ok ==> final(ctx).stack@.len() == 0 && (final(ctx).exit_state matches Exit::JumpRequest(req) && {{
            &&& req.destination == JumpRequestDestination::Module(args@[0])
            &&& req.callback_state is None && req.arguments@ == old(ctx).stack@ && req.stack == old(ctx).call_stack
        }}),
        rest(final(ctx)) == rest(old(ctx)),
{{
{render(hs['module_entry'], 1)}
}}
//@ OBL C11.handler.load_self_export
// a module reading one of its own exports (a class's constructor): the content of the exported cell
pub fn load_self_export(ctx: &mut Ctx, args: &Vec<VString>, exports: &Exports) -> (r: Result<(), VErr>)
    ensures
        r is Ok <==> (args@.len() >= 1 && exports_view(exports).contains_key(text_of(&args@[0]))),
        r is Ok ==> final(ctx).stack@ == old(ctx).stack@.push(cell_value(cell_id(&exports_view(exports)[text_of(&args@[0])]))),
        rest(final(ctx)) == rest(old(ctx)), final(ctx).exit_state == old(ctx).exit_state,
{{
{render(hs['load_self_export'], 1)}
}}
//@ OBL C11.handler.export_special
// a class declaration: the operand's VALUE goes into ONE new read-only cell; that cell is registered in the file's export table under the export
// name (args[1], else the name) and the local name is bound to the same cell.  A declaration may be executed MORE THAN ONCE (a class declared
// inside a function is declared on every call): an earlier registration of the name is no reason to fail -- the new one replaces it (D98)
pub fn export_special(ctx: &mut Ctx, args: &Vec<VString>, exports: &mut Exports) -> (r: Result<(), VErr>)
    ensures
        r is Ok ==> args@.len() >= 1 && old(ctx).stack@.len() == 1 && moved_out(old(ctx).stack@[0]) is Some && final(ctx).stack@.len() == 0 && ({{
            let en = text_of(if args@.len() > 1 {{ &args@[1] }} else {{ &args@[0] }});
            &&& exports_view(final(exports)).dom() == exports_view(old(exports)).dom().insert(en)
            &&& (forall|k: Seq<char>| k != en && exports_view(old(exports)).contains_key(k) ==> exports_view(final(exports))[k] == exports_view(old(exports))[k])
            &&& cell_value(cell_id(&exports_view(final(exports))[en])) == moved_out(old(ctx).stack@[0])->Some_0 && cell_read_only(cell_id(&exports_view(final(exports))[en]))
            &&& refs(&final(ctx).frames) == refs(&old(ctx).frames).push((text_of(&args@[0]), cell_id(&exports_view(final(exports))[en])))
        }}),
        r is Err ==> refs(&final(ctx).frames) == refs(&old(ctx).frames),
        // whether the name is already registered plays no part in success: only the shape of the instruction and the movability of the value do
        (args@.len() >= 1 && old(ctx).stack@.len() == 1 && moved_out(old(ctx).stack@[0]) is Some && registration_possible(old(exports))) ==> r is Ok,
{{
{render(hs['export_special'], 1)}
}}
//@ OBL C11.handler.ret_mod
// the end of a module's top-level code: with a clean operand stack, the value of the run is the module value of the executing file
pub fn ret_mod(ctx: &mut Ctx, _args: &Vec<VString>, exports: &Exports) -> (r: Result<(), VErr>)
    ensures
        r is Ok <==> old(ctx).stack@.len() == 0,
        r is Ok ==> final(ctx).exit_state == Exit::ReturnValue(ReturnValue::Value(module_value(exports))) && final(ctx).stack@ == old(ctx).stack@,
        rest(final(ctx)) == rest(old(ctx)),
{{
{render(hs['ret_mod'], 1)}
}}
}} // verus!
fn main() {{}}
"""
    obls = ctx_obls(names, ["C08"]) + [
        Obl("C08.handler.call_object", ["C08", "C01"], fn="call_object", desc="call_object: the method named last is called with the whole operand stack and with the variables of THAT object as captured variables"),
        Obl("C08.handler.lookup", ["C08", "C13"], fn="lookup", desc="lookup: the operand is replaced by a pointer to exactly the member's own cell"),
        Obl("C11.handler.module_entry", ["C11", "C17"], fn="module_entry", desc="module_entry: a request for exactly the named module, operand stack as arguments, stack cleared; the module's top-level code runs on the importer's call stack (a failure while it loads is traced down to the entry module: C17)"),
        Obl("C11.handler.load_self_export", ["C11", "C08"], fn="load_self_export", desc="load_self_export: pushes the content of the exported cell of that name"),
        Obl("C11.handler.export_special", ["C11", "C10"], fn="export_special", desc="export_special: one new read-only cell with the operand's value, registered once under the export name and bound to the local name"),
        Obl("C11.handler.ret_mod", ["C11"], fn="ret_mod", desc="ret_mod: with a clean operand stack the run's value is the executing file's module value"),
    ]
    return gen, obls, log


U_OBJH = VUnit("c08_object_handlers", ["C08", "C11", "C10", "C13", "C01", "C17"], "object and module handlers: call_object, lookup, module_entry, load_self_export, export_special, ret_mod", build_object_handlers)
U_OBJH.assumes = ["Primitive::lookup (c14_lookup / c08_lookup), the export table (MScriptFile::add_export / update_once) and Ctx::ref_variable are abstract callees; gc cell semantics assumed"]
UNITS.append(U_OBJH)

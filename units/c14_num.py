"""C14 (numeric built-in methods) + C17 re-reading: arms of BuiltInFunction::run extracted as plain Rust (K-t) and checked by
loop-free Kani harnesses over the full receiver domain (all i32 / i128 / f64 / u8 receivers)."""
import os, re
from pathlib import Path
from vlib.rules import *
from vlib.extract import extract_match_arm
from vlib import kani as K
from vlib.core import UnitResult
from units.c05_ops import SHIMS

FUNC = "bytecode/src/function.rs"
ARMS = ["GenericToInt", "GenericToBigint", "GenericToByte", "GenericToFloat", "GenericAbs",
        "FloatFPart", "FloatIPart", "FloatRound", "FloatFloor", "FloatCeil"]

HARNESS = r"""
#[cfg(kani)]
mod verif {
    use super::*;
    fn recv(k: u8) -> Primitive { match k { 0 => Primitive::Int(kani::any()), 1 => Primitive::BigInt(kani::any()), 2 => Primitive::Float(kani::any()), _ => Primitive::Byte(kani::any()) } }
    fn one(p: Primitive) -> Vec<Primitive> { let mut v = Vec::new(); v.push(p); v }
    fn val(r: Result<(Option<Primitive>, Option<Bridge>)>) -> Option<Primitive> { match r { Ok((Some(p), _)) => Some(p), _ => None } }
    // the integer a float denotes after truncation toward zero, when it is finite and -2^127 <= x < 2^127
    fn trunc_i128(x: f64) -> Option<i128> { if x.is_nan() || x.is_infinite() || x >= 1.7014118346046923e38 || x < -1.7014118346046923e38 { None } else { Some(x as i128) } }
    fn same_f64(a: f64, b: f64) -> bool { a.to_bits() == b.to_bits() || (a.is_nan() && b.is_nan()) }

    // to_int / to_bigint / to_byte : value-preserving (float: truncation toward zero) or failure
    fn check_to_integer(which: u8, k: u8) {
        let a = recv(k);
        let exact: Option<i128> = match &a { Primitive::Int(x) => Some(*x as i128), Primitive::BigInt(x) => Some(*x), Primitive::Byte(x) => Some(*x as i128), Primitive::Float(x) => trunc_i128(*x), _ => None };
        let (lo, hi) = match which { 0 => (i32::MIN as i128, i32::MAX as i128), 1 => (i128::MIN, i128::MAX), _ => (0, 255) };
        let want = match exact { Some(v) if v >= lo && v <= hi => Some(v), _ => None };
        let got = match which { 0 => val(arm_GenericToInt(one(a))), 1 => val(arm_GenericToBigint(one(a))), _ => val(arm_GenericToByte(one(a))) };
        match (want, got) {
            (Some(v), Some(Primitive::Int(g))) => assert!(which == 0 && g as i128 == v, "C14.value: conversion result differs from the receiver's value"),
            (Some(v), Some(Primitive::BigInt(g))) => assert!(which == 1 && g == v, "C14.value: conversion result differs from the receiver's value"),
            (Some(v), Some(Primitive::Byte(g))) => assert!(which == 2 && g as i128 == v, "C14.value: conversion result differs from the receiver's value"),
            (Some(_), Some(_)) => assert!(false, "C14.kind: result kind differs from the declared one"),
            (Some(_), None) => assert!(false, "C14.spurious: conversion fails although the value is representable"),
            (None, Some(_)) => assert!(false, "C14.wrong-value: a value is produced although the receiver is not representable in the target kind (NaN, infinite or out of range)"),
            (None, None) => (),
        }
    }
    fn check_to_float(k: u8) {
        let a = recv(k);
        let want = match &a { Primitive::Int(x) => *x as f64, Primitive::BigInt(x) => *x as f64, Primitive::Byte(x) => *x as f64, Primitive::Float(x) => *x, _ => 0.0 };
        match val(arm_GenericToFloat(one(a))) {
            Some(Primitive::Float(g)) => assert!(same_f64(g, want), "C14.value: to_float differs from the nearest double of the receiver"),
            Some(_) => assert!(false, "C14.kind: result kind differs from the declared one"),
            None => assert!(false, "C14.spurious: to_float fails although every number has a nearest double"),
        }
    }
    fn check_abs(k: u8) {
        let a = recv(k);
        match &a {
            Primitive::Float(x) => { let x = *x; match val(arm_GenericAbs(one(a))) { Some(Primitive::Float(g)) => assert!(same_f64(g, x.abs()), "C14.value: abs"), _ => assert!(false, "C14.kind/spurious: abs of a float") } }
            _ => {
                let x = match &a { Primitive::Int(x) => *x as i128, Primitive::BigInt(x) => *x, Primitive::Byte(x) => *x as i128, _ => 0 };
                let repr = !(k == 0 && x == i32::MIN as i128) && !(k == 1 && x == i128::MIN);
                kani::assume(repr);          // |MIN| is not representable: the method must fail there (checked by check_abs_fail)
                let want = if x < 0 { -x } else { x };
                match val(arm_GenericAbs(one(a))) {
                    Some(Primitive::Int(g)) => assert!(k == 0 && g as i128 == want, "C14.value: abs"),
                    Some(Primitive::BigInt(g)) => assert!(k == 1 && g == want, "C14.value: abs"),
                    Some(Primitive::Byte(g)) => assert!(k == 3 && g as i128 == want, "C14.value: abs"),
                    _ => assert!(false, "C14.kind/spurious: abs"),
                }
            }
        }
    }
    fn check_abs_fail(k: u8) {
        let a = if k == 0 { Primitive::Int(i32::MIN) } else { Primitive::BigInt(i128::MIN) };
        assert!(val(arm_GenericAbs(one(a))).is_none(), "C14.wrong-value: abs(MIN) produces a value");
    }
    // floor / ceil / round / ipart / fpart: a float, never a failure, and -- for every finite receiver -- the value the name says, stated without
    // the library function itself: an integer-valued float on the right side of x and less than 1 away from it
    fn integral(r: f64) -> bool { r.abs() >= 4503599627370496.0 || ((r as i64) as f64 == r) }
    fn same_side(r: f64, x: f64) -> bool { r == 0.0 || (r < 0.0) == (x < 0.0) }
    fn check_float_part(which: u8) {
        let x: f64 = kani::any();
        let a = one(Primitive::Float(x));
        let r = match which { 0 => arm_FloatFPart(a), 1 => arm_FloatIPart(a), 2 => arm_FloatRound(a), 3 => arm_FloatFloor(a), _ => arm_FloatCeil(a) };
        match val(r) {
            Some(Primitive::Float(r)) => {
                if x.is_finite() && x.abs() >= 4503599627370496.0 {
                    // every float of this size is an integer already
                    assert!(if which == 0 { r == 0.0 } else { r == x }, "C14.value: an integer-valued receiver is its own integer part / floor / ceil / round");
                } else if x.is_finite() {
                    match which {
                        0 => assert!(r.abs() < 1.0 && same_side(r, x) && integral(x - r), "C14.value: fpart is what is left of x after its integer part"),
                        1 => assert!(integral(r) && same_side(r, x) && r.abs() <= x.abs() && x.abs() < r.abs() + 1.0, "C14.value: ipart is x rounded toward zero"),
                        2 => assert!(integral(r) && (x - r).abs() <= 0.5 && ((x - r).abs() < 0.5 || r.abs() > x.abs()), "C14.value: round is the nearest integer, halves away from zero"),
                        3 => assert!(integral(r) && r <= x && x < r + 1.0, "C14.value: floor is the largest integer <= x"),
                        _ => assert!(integral(r) && r >= x && r - 1.0 < x, "C14.value: ceil is the smallest integer >= x"),
                    }
                }
            }
            _ => assert!(false, "C14.kind: float method does not return a float"),
        }
    }
    macro_rules! h { ($name:ident, $f:ident ( $($a:expr),* )) => { #[kani::proof] fn $name() { $f($($a),*) } } }
HARNESSES
}
"""

KINDS = ["int", "bigint", "float", "byte"]


def harness_list():
    hs = []
    for w, nm in enumerate(["to_int", "to_bigint", "to_byte"]):
        for k, kn in enumerate(KINDS):
            hs.append((f"h_{nm}_{kn}", f"check_to_integer({w}, {k})", f"C14.{nm}.{kn}"))
    for k, kn in enumerate(KINDS):
        hs.append((f"h_to_float_{kn}", f"check_to_float({k})", f"C14.to_float.{kn}"))
        hs.append((f"h_abs_{kn}", f"check_abs({k})", f"C14.abs.{kn}"))
    hs.append(("h_abs_min_int", "check_abs_fail(0)", "C14.abs.int.min"))
    hs.append(("h_abs_min_bigint", "check_abs_fail(1)", "C14.abs.bigint.min"))
    for w, nm in enumerate(["fpart", "ipart", "round", "floor", "ceil"]):
        hs.append((f"h_{nm}", f"check_float_part({w})", f"C14.{nm}.float"))
    return hs


class NumUnit:
    engine = "kani"
    uid = "c14_num"
    props = ["C14", "C17", "C02"]
    title = "numeric built-in methods: conversions, abs, float parts (K-t, full receiver domain)"
    timeout = 1800
    assumes = [
        "K-t extraction: each `Self::<Method> => { .. }` arm of BuiltInFunction::run becomes `fn arm_<Method>(arguments: Vec<Primitive>)`; Primitive reduced to scalar variants; anyhow replaced by unit shims; the argument marshalling in front of the match (move_out_of_heap_primitive per argument) is not part of the arm",
        "float -> integer casts and int -> float conversions have Rust/CBMC semantics (saturating `as`)",
        "floor/ceil/round/trunc/fract themselves are std's: only kind and totality are checked for them",
    ]

    def run(self, repo, workdir, tier):
        res = UnitResult(self.uid)
        res.engine = "kani 0.68 / cbmc 6.11 (K-t: real text in a dependency-free crate)"
        src = Source(repo)
        frun = src.fn(FUNC, "run", "impl BuiltInFunction")
        parts = []
        for a in ARMS:
            try:
                arm = extract_match_arm(frun["body"], f"Self :: {a}")
            except Exception as e:
                raise Undecided(f"{FUNC}: arm Self::{a} of BuiltInFunction::run not found: {e}")
            parts.append(f"// {FUNC}: BuiltInFunction::run, arm Self::{a} (verbatim)\npub fn arm_{a}(arguments: Vec<Primitive>) -> Result<(Option<Primitive>, Option<Bridge>)> {{\n{render(arm['body'], 1)}\n}}")
        hs = harness_list()
        htext = "\n".join(f"    h!({n}, {c});" for n, c, _ in hs)
        lib = SHIMS + "pub type Bridge = ();\n// ======== real text, extracted on this run ========\n" + "\n".join(parts) + "\n" + HARNESS.replace("HARNESSES", htext)
        crate = K.write_crate(Path(workdir) / "kt_num", "kt_num", "// GENERATED (K-t) from bytecode/src/function.rs\n" + lib)
        res.gen_path = str(crate / "src/lib.rs")
        per, raw, wall, cmd, timed_out = K.run_kani(crate, jobs=int(os.environ.get("VERIF_KANI_JOBS", "12")), timeout=self.timeout, harness_timeout=300)
        res.raw = raw[-12000:]; res.checker_cmd = cmd
        res.functions = [f"function.rs: BuiltInFunction::run arm {a}" for a in ARMS]
        res.samples = [f"{o}: {c}" for _, c, o in hs[:3]]
        if not per:
            res.undecided = "kani produced no harness results: " + raw[-2500:]
            return res
        obls = []
        for n, call, oid in hs:
            r = per.get(n)
            o14 = Obl(oid, ["C14", "C02"], fn=n, engine="kani/cbmc", desc=f"{call}: all receivers of the kind")
            o17 = Obl("C17.nopanic.builtin." + oid[4:], ["C17"], fn=n, engine="kani/cbmc", desc=f"no Rust panic inside the method for any receiver [{call}]")
            if r is None or r["status"] is None or r["oom"] or r["unwind"] or r["unsupported"]:
                why = "not run" if r is None else ("timeout" if r.get("timeout") else "oom" if r["oom"] else "unsupported/unwinding" if (r["unwind"] or r["unsupported"]) else "no verdict")
                for o in (o14, o17):
                    o.status = "undecided"; o.detail = why
                obls += [o14, o17]; continue
            named, panics, ign, other = K.classify(r["failed"])
            o14.time_s = r["time"]
            if other:
                for o in (o14, o17):
                    o.status = "undecided"; o.detail = "unclassified failed check: " + repr(other[:2])
            else:
                # a Rust panic is not a wrong value (C14 allows "the program stops"), but it is a C17 matter
                o14.status = "failed" if named else "discharged"
                o14.detail = "\n".join(f"{d} @ {l}" for d, l in named)
                o17.status = "failed" if panics else "discharged"
                o17.detail = "\n".join(f"Rust panic instead of an MScript error: {d} @ {l}" for d, l in panics)
            obls += [o14, o17]
        res.obls = obls
        return res

    def witness(self, repo, o, res):
        from units.c05_ops import OpsUnit
        return OpsUnit.witness(self, repo, o, res)

    def cli_replay(self, repo, o, vals):
        """receiver decoded from kani's bytes -> `r = a.<method>()` on the real CLI, against the conversion the property states"""
        import math
        from vlib import numreplay as N, cli
        parts = o.oid.split(".")
        parts = parts[3:] if parts[0] == "C17" else parts[1:]          # C17.nopanic.builtin.<m>.<k> / C14.<m>.<k>[.min]
        m, k = parts[0], parts[1]
        if len(parts) > 2 and parts[2] == "min":
            a = -2**31 if k == "int" else -2**127
        else:
            if not vals:
                return {"replayed_on_real_cli": False, "why": "no symbolic input"}
            a = N.decode(k, vals[0])
        la = N.literal(k, a)
        if la is None:
            # NaN / infinities are not literals, but they are values programs compute
            if k == "float" and math.isnan(a): la = "(0.0 - 1.0).sqrt()"
            elif k == "float" and math.isinf(a):
                big = N.literal("float", 1e200)
                la = f"({big} * {big})" if a > 0 else f"((0.0 - {big}) * {big})"
            else:
                return {"replayed_on_real_cli": False, "why": "receiver cannot be written as an MScript expression", "receiver": repr(a)}
        tgt = {"to_int": "int", "to_bigint": "bigint", "to_byte": "byte"}.get(m)
        if tgt:
            ex = a if k != "float" else (None if (math.isnan(a) or math.isinf(a)) else int(a))
            lo, hi = N.RANGE[tgt]
            expect = ("ok", tgt, ex) if ex is not None and lo <= ex <= hi else ("fail",)
        elif m == "to_float":
            expect = ("ok", "float", float(a))
        elif m == "abs":
            if k == "float": expect = ("ok", "float", abs(a))
            else:
                lo, hi = N.RANGE[k]
                expect = ("ok", k, abs(a)) if abs(a) <= hi else ("fail",)
        else:
            f = {"fpart": lambda x: math.fmod(x, 1.0), "ipart": lambda x: float(math.trunc(x)), "round": lambda x: float(math.floor(abs(x) + 0.5)) * (1 if x >= 0 else -1),
                 "floor": lambda x: float(math.floor(x)), "ceil": lambda x: float(math.ceil(x))}[m]
            try: expect = ("ok", "float", f(a))
            except Exception: expect = ("ok", "float", a)
        prog = f"a = {la}\nr = a.{m}()\nprint typeof r\nprint r\n"
        run = cli.run_program(repo, prog)
        rep, actual = N.judge(expect, run)
        return {"replayed_on_real_cli": True, "reproduced_on_real_cli": rep, "receiver": f"{k} {a!r}",
                "expected_by_the_property": "a failure (no value)" if expect[0] == "fail" else f"{expect[1]} {expect[2]!r}", "actual": actual, **run}


UNITS = [NumUnit()]

"""C06: Value::try_negate (compiler/src/ast/value.rs) -- the step between the folding walk (unit c06_walk: `-e` folds by calling try_negate on
the folded operand) and the literal negation (unit c06_negate: Number::negate keeps the kind and toggles the sign).  It must hand the
negated literal on UNCHANGED -- same kind, same text -- so that the folded `-x` has the kind the run-time `neg` gives (int stays int, bigint
stays bigint: the run time never re-labels a bigint that happens to fit an int)."""
from vlib.rules import *

FILE = "compiler/src/ast/value.rs"

SPEC = r"""
use vstd::prelude::*;
verus! {
pub struct VErr;
#[verifier::external_body] pub struct NumText { x: usize }
#[verifier::external_body] pub fn parses_to_i32(t: &NumText, v: i32) -> (r: bool) { unimplemented!() }
#[verifier::external_body] pub fn parses_to_i128(t: &NumText, v: i128) -> (r: bool) { unimplemented!() }
#[verifier::external_body] pub fn parses_as_i32(t: &NumText) -> (r: bool) { unimplemented!() }
pub enum Number { Integer(NumText), BigInt(NumText), Float(NumText), Byte(NumText) }
// Number::negate (obligation C06.negate): None when the literal cannot be negated at compile time
pub uninterp spec fn num_negated(n: Number) -> Result<Option<Number>, VErr>;
impl Number { #[verifier::external_body] pub fn negate(&self) -> (r: Result<Option<Number>, VErr>) ensures r == num_negated(*self) { unimplemented!() } }
#[verifier::external_body] pub struct ExprV { x: usize }
#[verifier::external_body] pub struct OtherV { x: usize }
pub enum Value { Number(Number), MathExpr(Box<ExprV>), Other(OtherV) }
pub enum ConstexprEvaluation { Impossible, Owned(Value) }
pub uninterp spec fn folded(e: ExprV) -> Result<ConstexprEvaluation, VErr>;
impl ExprV { #[verifier::external_body] pub fn try_constexpr_eval(&self) -> (r: Result<ConstexprEvaluation, VErr>) ensures r == folded(*self) { unimplemented!() } }
impl ConstexprEvaluation {
    pub fn is_impossible(&self) -> (r: bool) ensures r == (*self is Impossible) { match self { ConstexprEvaluation::Impossible => true, _ => false } }
    pub fn as_ref(&self) -> (r: Option<&Value>) ensures (*self is Impossible) == (r is None), r is Some ==> *r->Some_0 == self->Owned_0 { match self { ConstexprEvaluation::Owned(v) => Some(v), _ => None } }
}
pub fn unwrap_val<'a>(o: Option<&'a Value>) -> (r: &'a Value) requires o is Some ensures r == o->Some_0 { o.unwrap() }
pub fn map_number(o: Option<Number>) -> (r: Option<Value>) ensures (o is None) == (r is None), o is Some ==> r == Some(Value::Number(o->Some_0)) { match o { Some(n) => Some(Value::Number(n)), None => None } }
// the negation of a value that is a literal, or folds to one (recursion of try_negate on the folded value): uninterpreted for the non-literal case
pub uninterp spec fn negated_value(v: Value) -> Result<Option<Value>, VErr>;
"""


def build(repo):
    src = Source(repo)
    log = []
    f = src.fn(FILE, "try_negate", "impl Value")
    b = translate(list(f["body"]), [
        Rule("R1", "Self :: $v", "Value :: $v", why="Self"),
        Rule("R5", "$x . parse :: < i32 > ( ) == Ok ( $$v )", "parses_to_i32 ( & $x , $$v )", why="a test on the number a literal's text denotes: uninterpreted"),
        Rule("R5", "$x . parse :: < i128 > ( ) == Ok ( $$v )", "parses_to_i128 ( & $x , $$v )", why="a test on the number a literal's text denotes: uninterpreted"),
        Rule("R5", "$x . parse :: < i32 > ( ) . is_ok ( )", "parses_as_i32 ( & $x )", why="a test on a literal's text: uninterpreted"),
        Rule("R9", ". map ( Value :: Number )", ". verif_map_number ( )", why="Option::map with the variant constructor"),
        Rule("R8", "x . as_ref ( ) . unwrap ( ) . try_negate ( )", "try_negate_rec ( unwrap_val ( x . as_ref ( ) ) )", why="recursive call on the folded value (abstract: the same contract); unwrap with its precondition (R8)"),
        Rule("R1", "_ => Ok ( None )", "_ => Ok ( None )", why=""),
    ], log, "Value::try_negate")
    b = Rule("R9", "Ok ( number . negate ( ) ? . verif_map_number ( ) )", "Ok ( map_number ( number . negate ( ) ? ) )", why="Option::map(Value::Number)").apply(b, log)
    check_closed(b, "Value::try_negate")
    gen = header(log, f"{FILE}: Value::try_negate") + SPEC + f"""
#[verifier::external_body] pub fn try_negate_rec(v: &Value) -> (r: Result<Option<Value>, VErr>) ensures r == negated_value(*v) {{ unimplemented!() }}
//@ OBL C06.try_negate
pub fn try_negate(this: &Value) -> (r: Result<Option<Value>, VErr>)
    ensures
        // a literal: exactly what Number::negate gives -- kind and text untouched -- wrapped as a value; its failure is the failure
        *this matches Value::Number(n) ==> (match num_negated(n) {{ Ok(Some(m)) => r == Ok::<Option<Value>, VErr>(Some(Value::Number(m))), Ok(None) => r == Ok::<Option<Value>, VErr>(None), Err(_) => r is Err }}),
        // an expression: the negation of what it folds to; not foldable: not negated here
        *this matches Value::MathExpr(e) ==> (match folded(*e) {{ Ok(ConstexprEvaluation::Owned(v)) => r == negated_value(v), Ok(ConstexprEvaluation::Impossible) => r == Ok::<Option<Value>, VErr>(None), Err(_) => r is Err }}),
        *this is Other ==> r == Ok::<Option<Value>, VErr>(None),
{{
{render(Rule("R1", "self", "this", why="receiver renamed").apply(b, log), 1)}
}}
}} // verus!
fn main() {{}}
"""
    return gen, [Obl("C06.try_negate", ["C06", "C02"], fn="Value::try_negate", desc="Value::try_negate: a literal's negation is Number::negate's result handed on unchanged (kind and text); an expression: the negation of what it folds to")], log


UNITS = [VUnit("c06_try_negate", ["C06", "C02"], "folding of unary minus: the negated literal is handed on unchanged", build)]
UNITS[0].assumes = ["Number::negate (C06.negate) and the fold of the operand are abstract callees; the recursive call is abstract"]

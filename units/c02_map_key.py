"""C02 / C17: the key type of a map.  The interpreter hashes a key with `Hash for Primitive` (bytecode/src/variables/primitive.rs), which walks
through list elements and the payload of an optional and has NO case for a map (`unimplemented!("you may not use a map as a key")`, an
internal panic).  An accepted program must therefore never have a map type whose key type admits a value with a map inside it.
Under contract: `Parser::map_type` (compiler/src/ast/map.rs) and the predicate it asks, `TypeLayout::contains_map` (type.rs)."""
from vlib.rules import *
from vlib.pattern import Pat

MAP = "compiler/src/ast/map.rs"
TYPE = "compiler/src/ast/type.rs"

SPEC = r"""
use vstd::prelude::*;
verus! {
pub struct VErr;
#[verifier::external_body] pub struct OtherV { x: usize }
#[verifier::external_body] pub struct MapV { x: usize }
#[verifier::external_body] pub struct VString { x: usize }
#[verifier::external_body] pub struct Node { x: usize }
#[verifier::external_body] pub struct Span { x: usize }
pub enum ListType { Mixed(Vec<TypeLayout>), Open(Box<TypeLayout>) }
pub enum TypeLayout { Map(MapV), Alias(VString, Box<TypeLayout>), CallbackVariable(Box<TypeLayout>), Optional(Option<Box<TypeLayout>>), List(ListType), Other(OtherV) }
// "a value of this type may have a map inside it where Hash for Primitive reaches": the value itself, an element of a list (Vector(x) => x.hash),
// the payload of an optional (Optional(x) => x.hash); an alias and the capture wrapper stand for the type they wrap.  (Stated on the shape of
// t, as a match on t finds it.)  NOT covered: the fields of an object (Hash for Object walks them too) -- stated in the unit's assumptions.
pub uninterp spec fn holds_map(t: TypeLayout) -> bool;
pub broadcast axiom fn ax_map(t: TypeLayout) requires t is Map ensures #[trigger] holds_map(t);
pub broadcast axiom fn ax_alias(t: TypeLayout) requires t is Alias ensures #![trigger holds_map(t), t->Alias_1] holds_map(t) == holds_map(*t->Alias_1);
pub broadcast axiom fn ax_cb(t: TypeLayout) requires t is CallbackVariable ensures #![trigger holds_map(t), t->CallbackVariable_0] holds_map(t) == holds_map(*t->CallbackVariable_0);
pub broadcast axiom fn ax_opt(t: TypeLayout) requires t is Optional ensures #![trigger holds_map(t), t->Optional_0] holds_map(t) == (t->Optional_0 is Some && holds_map(*t->Optional_0->Some_0));
pub broadcast axiom fn ax_open(t: TypeLayout) requires t is List, t->List_0 is Open ensures #![trigger holds_map(t), t->List_0] holds_map(t) == holds_map(*t->List_0->Open_0);
pub broadcast axiom fn ax_mixed(t: TypeLayout) requires t is List, t->List_0 is Mixed
    ensures #![trigger holds_map(t), t->List_0] holds_map(t) == (exists|i: int| 0 <= i < t->List_0->Mixed_0@.len() && holds_map(#[trigger] t->List_0->Mixed_0@[i]));
pub broadcast axiom fn ax_other(t: TypeLayout) requires t is Other ensures #[trigger] holds_map(t) == false;
pub broadcast group type_axioms { ax_map, ax_alias, ax_cb, ax_opt, ax_open, ax_mixed, ax_other }

// TypeLayout::is_map (the test map_type used before D107): looks at the outermost constructor only -- true implies holds_map, false says nothing
impl TypeLayout { #[verifier::external_body] pub fn is_map(&self) -> (r: bool) ensures r ==> holds_map(*self) { unimplemented!() } }
// ---- Parser::map_type's surroundings
pub struct MapType { pub key: TypeLayout, pub value: TypeLayout }
impl MapType { pub fn new(key: TypeLayout, value: TypeLayout) -> (r: MapType) ensures r.key == key, r.value == value { MapType { key, value } } }
pub struct Children { pub rest: Ghost<Seq<Node>> }
impl Children {
    #[verifier::external_body] pub fn next(&mut self) -> (r: Option<Node>) ensures old(self).rest@.len() > 0 ==> r == Some(old(self).rest@[0]) && final(self).rest@ == old(self).rest@.skip(1), old(self).rest@.len() == 0 ==> r is None { unimplemented!() }
}
pub uninterp spec fn children_of(n: &Node) -> Seq<Node>;
#[verifier::external_body] pub fn children(n: &Node) -> (r: Children) ensures r.rest@ == children_of(n) { unimplemented!() }
#[verifier::external_body] pub fn as_span(n: &Node) -> (r: Span) { unimplemented!() }
#[verifier::external_body] pub fn opt_unwrap(o: Option<Node>) -> (r: Node) requires o is Some ensures r == o->Some_0 { unimplemented!() }
// Parser::type on a node: the type written there (abstract)
pub uninterp spec fn type_at(n: Node) -> Option<TypeLayout>;
#[verifier::external_body] pub fn parse_type(n: Node) -> (r: Result<TypeLayout, VErr>) ensures r is Ok <==> type_at(n) is Some, r is Ok ==> r->Ok_0 == type_at(n)->Some_0 { unimplemented!() }
#[verifier::external_body] pub fn new_err_v(s: Span, n: &Node) -> (r: VErr) { unimplemented!() }
"""


def build(repo):
    src = Source(repo)
    log = []
    fc = src.fn(TYPE, "contains_map", "impl TypeLayout")
    fm = src.fn(MAP, "map_type", "impl Parser")

    def any_loop(b):
        a, x, body = text(b["a"]), text(b["x"]), b["body"]
        return ["{", f"let mut verif_i : usize = 0 ; let mut verif_r = false ; while verif_i < {a} . len ( )",
                G(f"invariant verif_i <= {a}.len(), verif_r == (exists|verif_j: int| 0 <= verif_j < verif_i && holds_map(#[trigger] {a}@[verif_j])) decreases {a}.len() - verif_i"),
                "{", f"let {x} = & {a} [ verif_i ] ; if (", *body, ") { verif_r = true ; } verif_i += 1 ;", "}", "verif_r", "}"]

    bc = translate(list(fc["body"]), [
        Rule("R2", "$a . iter ( ) . any ( | $x | $$body )", any_loop, why="any() over the element types -> counting loop (invariant: some element so far holds a map)"),
        Rule("R1", "Self :: $v", "TypeLayout :: $v", why="Self spelled out"),
    ], log, "TypeLayout::contains_map")
    check_closed(bc, "TypeLayout::contains_map")
    bm = translate(list(fm["body"]), [
        Rule("R6", "input . children ( )", "children ( & input )", why="pest children: abstract sequence"),
        Rule("R8", "children . next ( ) . unwrap ( )", "opt_unwrap ( children . next ( ) )", why="Option::unwrap with its panic precondition"),
        Rule("R6", "$n . as_span ( )", "as_span ( & $n )", why="span: abstract"),
        Rule("R6", "Self :: r#type ( $n ) ?", "parse_type ( $n ) ?", why="Parser::type abstract: the type written at that node"),
        Rule("R3", "new_err ( $s , $$rest )", "new_err_v ( $s , & input )", why="diagnostic construction: abstract"),
        Rule("R1", "$k . into_owned ( ) . into ( )", "$k", why="Cow -> owned -> Box<Cow>: the same type"),
    ], log, "Parser::map_type")
    check_closed(bm, "Parser::map_type")
    gen = header(log, f"{TYPE}: TypeLayout::contains_map; {MAP}: Parser::map_type") + SPEC + f"""
impl TypeLayout {{
    //@ OBL C02.mapkey.contains_map
    #[verifier::exec_allows_no_decreases_clause]
    pub fn contains_map(&self) -> (r: bool)
        ensures r == holds_map(*self)
    {{
        broadcast use type_axioms;
{render(bc, 2)}
    }}
}}
//@ OBL C02.mapkey.rejected
// a map type is accepted only when no value of its key type has a map inside it (hashing such a key panics inside the interpreter)
pub fn map_type(input: Node) -> (r: Result<MapType, VErr>)
    requires children_of(&input).len() == 2        // grammar: map_type = key type, value type
    ensures r is Ok ==> type_at(children_of(&input)[0]) is Some && r->Ok_0.key == type_at(children_of(&input)[0])->Some_0 && !holds_map(r->Ok_0.key)
                     && type_at(children_of(&input)[1]) is Some && r->Ok_0.value == type_at(children_of(&input)[1])->Some_0,
{{
{render(bm, 1)}
}}
}} // verus!
fn main() {{}}
"""
    obls = [Obl("C02.mapkey.contains_map", ["C02", "C17"], fn="TypeLayout::contains_map", desc="TypeLayout::contains_map: true exactly when a value of the type may have a map inside it where key hashing reaches (the value itself, a list element, the payload of an optional; through aliases)"),
            Obl("C02.mapkey.rejected", ["C02", "C17", "C13"], fn="Parser::map_type", desc="Parser::map_type: a map type whose key type may hold a map is a diagnostic -- an accepted program cannot make the interpreter hash a map (an internal panic); key and value types are the ones written")]
    return gen, obls, log


UNITS = [VUnit("c02_map_key", ["C02", "C17", "C13"], "map key types: nothing the interpreter cannot hash", build)]
UNITS[0].assumes = ["the shapes of values `Hash for Primitive` walks: list elements and optional payloads (read off bytecode/src/variables/primitive.rs); `Hash for Object` also walks the fields of an object -- a class with a map field as key type is NOT covered",
                    "Parser::type is abstract (the type written at a node); recursion of contains_map: termination not proved (exec_allows_no_decreases_clause), the types are finite trees"]

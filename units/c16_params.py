"""C16 / C03: Parser::function_parameters -- a class instance function / constructor is accepted only with `self` as its first parameter
(Constructor::compile computes `parameters.len() - 1`: an empty list there is a compiler panic), every other parameter needs a type."""
from vlib.rules import *

FILE = "compiler/src/ast/function_parameters.rs"

SPEC = r"""
pub struct Ident { pub name: VStr, pub ty: Option<TypeLayout>, pub read_only: bool }
// Parser::ident begins with `debug_assert_eq!(input.as_rule(), Rule::ident)`: handed any other node it panics (R8) -- `fn f(self: int)` in a class hands
// it the type node behind `self` (D92)
pub uninterp spec fn is_ident_rule(n: &Node) -> bool;
#[verifier::external_body] pub fn node_is_ident(n: &Node) -> (r: bool) ensures r == is_ident_rule(n) { unimplemented!() }
#[verifier::external_body] pub fn parse_ident(n: Node) -> (r: Result<Ident, VErr>) requires is_ident_rule(&n) { unimplemented!() }
#[verifier::external_body] pub fn ident_self() -> (r: Ident) { unimplemented!() }                         // Ident::new("self", Some(ClassSelf(None)), false)
#[verifier::external_body] pub fn add_dependency(n: &Node, i: &Ident) { unimplemented!() }
#[verifier::external_body] pub fn link_force_no_inherit(i: &mut Ident, n: &Node, t: TypeLayout) -> (r: Result<(), VErr>) { unimplemented!() }
// C02 / C07 (D94): the pre-walk of a class (add_to_scope_dependencies == false) only wants the parameter TYPES; registering the parameters there puts them
// into the CLASS scope, where every other method then resolves them at compile time (`fn g(self) -> int { return q }`, q a parameter of the constructor)
// and fails at run time with `q is not in scope`.  Registering is only allowed when the caller asked for it.
pub uninterp spec fn may_register(n: &Node) -> bool;
#[verifier::external_body] pub fn add_dependency_g(n: &Node, i: &Ident) requires may_register(n) { unimplemented!() }
#[verifier::external_body] pub fn link_force_no_inherit_g(i: &mut Ident, n: &Node, t: TypeLayout) -> (r: Result<(), VErr>) requires may_register(n) { unimplemented!() }
impl Ident { #[verifier::external_body] pub fn set_type_no_link(&mut self, t: TypeLayout) { unimplemented!() } }
pub uninterp spec fn in_class_method(n: &Node) -> bool;
#[verifier::external_body] pub fn is_function_a_class_method(n: &Node) -> (r: bool) ensures r == in_class_method(n) { unimplemented!() }
pub uninterp spec fn is_self_text(n: &Node) -> bool;                                                      // ident_node.as_str() == "self"
#[verifier::external_body] pub fn node_is_self(n: &Node) -> (r: bool) ensures r == is_self_text(n) { unimplemented!() }
pub uninterp spec fn is_type_rule(n: &Node) -> bool;
#[verifier::external_body] pub fn node_is_type(n: &Node) -> (r: bool) ensures r == is_type_rule(n) { unimplemented!() }
pub uninterp spec fn spec_is_class_self(t: &TypeLayout) -> bool;
#[verifier::external_body] pub fn is_class_self(t: &TypeLayout) -> (r: bool) ensures r == spec_is_class_self(t) { unimplemented!() }
pub enum FunctionParameters { Named(Vec<Ident>), TypesOnly(Vec<TypeLayout>) }
"""


def build(repo):
    src = Source(repo)
    log = []
    f = src.fn(FILE, "function_parameters", "impl Parser")
    loop_inv = ("invariant_except_break children.items@.len() <= node_children(&input).len(), "
                "(verif_c == 0 ==> children.items@ == node_children(&input) && satifies_self_param == !require_self_param), "
                "(verif_c > 0 && require_self_param && satifies_self_param) ==> (node_children(&input).len() >= 1 && is_self_text(&node_children(&input)[0]) && in_class_method(&input)), "
                "(verif_c > 0 && !(node_children(&input).len() >= 1 && is_self_text(&node_children(&input)[0]) && in_class_method(&input))) ==> satifies_self_param == !require_self_param "
                "invariant true "
                "ensures (require_self_param && satifies_self_param) ==> (node_children(&input).len() >= 1 && is_self_text(&node_children(&input)[0]) && in_class_method(&input)) "
                "decreases children.items@.len()")
    rules = [
        Rule("R6", "input . children ( )", "children ( & input )", why="pest API abstract"),
        Rule("R1", "let file_name = input . user_data ( ) . get_source_file_name ( ) ;", "", why="only feeds diagnostics"),
        Rule("R3", "let err = || { $$b } ;", "", count=1, why="diagnostic-building closure: its calls become `return Err`"),
        Rule("R3", "err ( ) ?", "return Err ( VErr )", why="the closure always bails"),
        Rule("R2", "for c in 0 .. { $$body }", ["let mut verif_c : usize = 0 ; loop", G(loop_inv), "{ let c = verif_c ; if verif_c < usize :: MAX { verif_c += 1 ; } $$body }"], count=1,
             why="for over 0.. -> loop with a counter (saturating: only `c == 0` is ever tested)"),
        Rule("R1", "let ident_str = ident_node . as_str ( ) ;", "", why="text of the node: only compared with \"self\""),
        Rule("R6", "ident_str == \"self\" && input . user_data ( ) . is_function_a_class_method ( )", "node_is_self ( & ident_node ) && is_function_a_class_method ( & input )", why="node text test / scope query abstract"),
        Rule("R1", "let ident = Ident :: new ( $$a ) ;", "let ident = ident_self ( ) ;", why="the `self` identifier"),
        Rule("R6", "input . user_data ( ) . add_dependency ( & ident ) ;", "add_dependency ( & input , & ident ) ;", why="scope registration abstract"),
        Rule("R1", "let ident_span = ident_node . as_span ( ) ;", "", why="span only feeds diagnostics"),
        Rule("R1", "let ty_span = ty . as_span ( ) ;", "", why="span only feeds diagnostics"),
        Rule("R6", "Self :: ident ( ident_node ) ?", "parse_ident ( ident_node ) ?", why="sub-parser abstract"),
        Rule("R6", "ty . as_rule ( ) != Rule :: r#type", "! node_is_type ( & ty )", why="pest rule test abstract"),
        Rule("R6", "ident_node . as_rule ( ) != Rule :: ident", "! node_is_ident ( & ident_node )", why="pest rule test abstract"),
        Rule("R6", "let ty : Cow < 'static , TypeLayout > = Self :: r#type ( ty ) ? ;", "let ty = parse_type ( ty ) ? ;", why="sub-parser abstract"),
        Rule("R6", "ty . is_class_self ( )", "is_class_self ( & ty )", why="type query abstract"),
        Rule("R3", "return Err ( new_err ( $$a ) ) ;", "return Err ( VErr ) ;", why="diagnostic construction dropped"),
        Rule("R6", "ident . link_force_no_inherit ( input . user_data ( ) , ty ) ?", "link_force_no_inherit ( & mut ident , & input , ty ) ?", why="abstract callee"),
        Rule("R6", "ident . link_force_no_inherit ( input . user_data ( ) , ty ) ? ;", "link_force_no_inherit ( & mut ident , & input , ty ) ? ;", why="abstract callee"),
        Rule("R12", "let mut result : Vec < Ident > = Vec :: new ( ) ;", "let mut result : Vec < Ident > = Vec :: new ( ) ;"),
    ]
    b = translate(f["body"], rules, log, "Parser::function_parameters")
    check_closed(b, "Parser::function_parameters")
    bg = [{"add_dependency": "add_dependency_g", "link_force_no_inherit": "link_force_no_inherit_g"}.get(t, t) for t in b]
    bg = [t.replace("invariant true ", "invariant add_to_scope_dependencies ==> may_register(&input) ") if t.startswith(G("")) else t for t in bg]
    gen = header(log, f"{FILE}: Parser::function_parameters") + prelude("parser.rs") + SPEC + f"""
//@ OBL C16.params.self-required
pub fn function_parameters(input: Node, add_to_scope_dependencies: bool, require_self_param: bool, allow_self_type: bool) -> (r: Result<FunctionParameters, VErr>)
    ensures
        // a class instance function / constructor is accepted only if its FIRST parameter is `self` (inside a class): in particular never with
        // an empty parameter list
        (r is Ok && require_self_param) ==> node_children(&input).len() >= 1 && is_self_text(&node_children(&input)[0]) && in_class_method(&input),
{{
{render(b, 1)}
}}

//@ OBL C02.params.registers-only-on-request
// the same text: nothing is registered in the current scope unless the caller asked for it
pub fn function_parameters_scope(input: Node, add_to_scope_dependencies: bool, require_self_param: bool, allow_self_type: bool) -> (r: Result<FunctionParameters, VErr>)
    requires add_to_scope_dependencies ==> may_register(&input)
{{
{render(bg, 1)}
}}
}} // verus!
fn main() {{}}
"""
    return gen, [Obl("C02.params.registers-only-on-request", ["C02", "C03", "C07"], fn="Parser::function_parameters", desc="function_parameters registers a parameter in the current scope only when the caller asked for it: the class pre-walk (types only) leaves the class scope alone, so one method's parameters are not names of the others (D94)"),
                 Obl("C16.params.self-required", ["C16", "C03", "C08"], fn="Parser::function_parameters",
                     desc="Parser::function_parameters: with require_self_param the list is accepted only if its first entry is `self` in a class method (so constructors / methods never have an empty parameter list); Parser::ident is only handed ident nodes (never panics on `self: T`)")], log


UNITS = [VUnit("c16_params", ["C16", "C03", "C08", "C02", "C07"], "function parameters: `self` first where required", build)]
UNITS[0].assumes = ["pest API and sub-parsers abstract; diagnostics dropped", "Constructor::compile's `parameters.len() - 1` relies on this check: that function itself is not under contract"]

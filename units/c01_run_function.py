"""C01 / C07 / C17: from a label's name to the code that runs -- MScriptFile::run_function (bytecode/src/file.rs) and Functions::run_function
(bytecode/src/function.rs).  The function that runs is THE function registered under exactly that name in THIS file's table (what the loader put
there: units c04_loader / c04_inmem), and it is run with exactly the arguments, the call stack and the captured variables of the request --
nothing is looked up under another name, nothing of the request is dropped or replaced.  A file whose functions were never loaded is a failure;
a name the table does not have is a Rust `panic!` in Functions::run_function -- a precondition here (labels are the compiler's)."""
from vlib.rules import *

FFILE = "bytecode/src/file.rs"
FFUNC = "bytecode/src/function.rs"

SPEC = r"""
use vstd::prelude::*;
verus! {
pub struct VErr;
#[verifier::external_body] pub struct NameV { x: usize }
#[verifier::external_body] pub struct ArgsV { x: usize }
#[verifier::external_body] pub struct StackV { x: usize }
#[verifier::external_body] pub struct CapsV { x: usize }
#[verifier::external_body] pub struct CallbackV { x: usize }
#[verifier::external_body] pub struct ReturnValue { x: usize }
#[verifier::external_body] pub struct FunctionH { x: usize }
pub uninterp spec fn name_text(n: &NameV) -> Seq<char>;
// what running a function with a request yields (the interpreter loop: units c01_run_frame / c01_run_step)
pub uninterp spec fn run_of(f: &FunctionH, args: &ArgsV, frame: &StackV, caps: &Option<CapsV>) -> Result<ReturnValue, VErr>;
impl FunctionH { #[verifier::external_body] pub fn run(&self, args: ArgsV, frame: StackV, caps: Option<CapsV>, cb: &mut CallbackV) -> (r: Result<ReturnValue, VErr>) ensures r == run_of(self, &args, &frame, &caps) { unimplemented!() } }
// HashMap<String, Function>
#[verifier::external_body] pub struct FnMap { x: usize }
pub uninterp spec fn table(m: &FnMap) -> Map<Seq<char>, FunctionH>;
impl FnMap { #[verifier::external_body] pub fn get(&self, n: &NameV) -> (r: Option<&FunctionH>) ensures r is Some <==> table(self).contains_key(name_text(n)), r is Some ==> *r->Some_0 == table(self)[name_text(n)] { unimplemented!() } }
pub struct Functions { pub map: FnMap }
#[verifier::external_body] pub fn vpanic() requires false { unimplemented!() }
"""

SPEC2 = r"""
pub struct MScriptFile { pub functions: Option<Functions> }
"""


def build(repo):
    src = Source(repo)
    log = []
    f1 = src.fn(FFUNC, "run_function")
    b1 = translate(f1["body"], [
        Rule("R1", "let Some ( function ) = & self . map . get ( name ) else", "let Some ( function ) = self . map . get ( name ) else", why="reference to a temporary Option"),
        Rule("R8", "panic ! ( $$a ) ;", "vpanic ( ) ; return Err ( VErr ) ;", why="panic!: excluded by the precondition (the name is in the table)"),
        Rule("R8", "panic ! ( $$a )", "{ vpanic ( ) ; return Err ( VErr ) ; }", why="panic!: excluded by the precondition"),
    ], log, "Functions::run_function")
    f2 = src.fn(FFILE, "run_function", "impl MScriptFile")
    b2 = translate(f2["body"], [
        Rule("R10", "let functions = self . functions . borrow ( ) ;", "let functions = & self . functions ;", why="RefCell borrow of the function table (R10)"),
        Rule("R3", "bail ! $a", "return Err ( VErr )", why="bail! -> return Err"),
        Rule("R8", "unreachable ! ( )", "{ vpanic ( ) ; return Err ( VErr ) ; }", why="unreachable!: the None case returned just above"),
    ], log, "MScriptFile::run_function")
    check_closed(b1, "Functions::run_function"); check_closed(b2, "MScriptFile::run_function")
    gen = header(log, f"{FFUNC}: Functions::run_function; {FFILE}: MScriptFile::run_function") + SPEC + f"""
impl Functions {{
    //@ OBL C01.run_function.by-name
    pub fn run_function(&self, name: &NameV, args: ArgsV, current_frame: StackV, callback_state: Option<CapsV>, jump_callback: &mut CallbackV) -> (r: Result<ReturnValue, VErr>)
        requires table(&self.map).contains_key(name_text(name))          // R8: `panic!("not found")` otherwise
        ensures r == run_of(&table(&self.map)[name_text(name)], &args, &current_frame, &callback_state)
    {{
{render(b1, 2)}
    }}
}}
""" + SPEC2 + f"""
impl MScriptFile {{
    //@ OBL C01.run_function.in-this-file
    pub fn run_function(&self, name: &NameV, args: ArgsV, current_frame: StackV, callback_state: Option<CapsV>, jump_callback: &mut CallbackV) -> (r: Result<ReturnValue, VErr>)
        requires self.functions is Some ==> table(&self.functions->Some_0.map).contains_key(name_text(name))
        ensures self.functions is None ==> r is Err,
                self.functions is Some ==> r == run_of(&table(&self.functions->Some_0.map)[name_text(name)], &args, &current_frame, &callback_state)
    {{
{render(b2, 2)}
    }}
}}
}} // verus!
fn main() {{}}
"""
    return gen, [Obl("C01.run_function.by-name", ["C01", "C07", "C17"], fn="Functions::run_function", desc="the function run is the one the table holds under exactly that name, with exactly the request's arguments, stack and captured variables"),
                 Obl("C01.run_function.in-this-file", ["C01", "C07", "C17"], fn="MScriptFile::run_function", desc="..looked up in THIS file's table; a file whose functions were never loaded is a failure")], log


UNITS = [VUnit("c01_run_function", ["C01", "C07", "C17"], "from a label's name to the function that runs", build)]
UNITS[0].assumes = ["HashMap::get; RefCell borrow of the table as a plain reference (R10); Function::run abstract (units c01_run_frame / c01_run_step)",
                    "precondition (R8): the name is in the table -- Functions::run_function `panic!`s otherwise (labels are written by the compiler; a hand-made bytecode file can violate it)"]

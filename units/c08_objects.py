"""C08: objects -- writes through a field / element pointer reach exactly the pointed-to slot unconditionally (HeapPrimitive::set,
V-t with an explicit heap); compound assignment through a pointer applies the operator to (current, operand) in that order
(bin_op_assign, K-t); `is` compares identities (runtime_addr_check, V-t)."""
import os, re
from pathlib import Path
from vlib.rules import *
from vlib.pattern import Pat
from vlib.extract import extract_match_arm, split_arms
from vlib.lexer import match_close
from vlib import kani as K
from vlib.core import UnitResult

PRIM = "bytecode/src/variables/primitive.rs"
INSTR = "bytecode/src/instruction.rs"

SET_SPEC = r"""
use vstd::prelude::*;
verus! {
pub struct VErr;
#[verifier::external_body] pub struct OtherV { x: usize }
#[verifier::external_body] pub struct Cell { x: usize }        // PrimitiveFlagsPair: handle of a variable / field cell
pub uninterp spec fn cid(c: &Cell) -> int;
#[verifier::external_body] pub struct VecH { x: usize }        // GcVector
pub uninterp spec fn vid(h: &VecH) -> int;
#[verifier::external_body] pub struct MapH { x: usize }        // GcMap
pub uninterp spec fn mid(h: &MapH) -> int;
#[derive(PartialEq, Eq, Structural)]
pub enum Type { Nil, Int, Bool, Other }
pub enum Primitive { Nil, Int(i32), Bool(bool), Other(OtherV) }
impl Primitive {
    pub fn ty(&self) -> (r: Type) ensures r == (match *self { Primitive::Nil => Type::Nil, Primitive::Int(_) => Type::Int, Primitive::Bool(_) => Type::Bool, _ => Type::Other })
    { match self { Primitive::Nil => Type::Nil, Primitive::Int(_) => Type::Int, Primitive::Bool(_) => Type::Bool, _ => Type::Other } }
    #[verifier::external_body] pub fn vclone(&self) -> (r: Primitive) ensures r == *self { unimplemented!() }
}
pub enum HeapPrimitive { ArrayPtr(VecH, usize), Lookup(Cell), MapPtr(MapH, Box<Primitive>) }

// the heap every alias observes
#[verifier::external_body] pub struct Heap { x: usize }
pub uninterp spec fn cells(h: &Heap) -> Map<int, Primitive>;
pub uninterp spec fn vecs(h: &Heap) -> Map<int, Seq<Primitive>>;
pub uninterp spec fn maps(h: &Heap) -> Map<int, Map<Primitive, Primitive>>;
// PrimitiveFlagsPair::set_primitive / primitive (assumed gc cell semantics)
#[verifier::external_body] pub fn cell_set(h: &mut Heap, c: &Cell, v: Primitive) requires cells(old(h)).contains_key(cid(c))
    ensures cells(final(h)) == cells(old(h)).insert(cid(c), v), vecs(final(h)) == vecs(old(h)), maps(final(h)) == maps(old(h)) { unimplemented!() }
#[verifier::external_body] pub fn cell_get(h: &Heap, c: &Cell) -> (r: Primitive) requires cells(h).contains_key(cid(c)) ensures r == cells(h)[cid(c)] { unimplemented!() }
// `*array.0.borrow_mut().get_mut(i).unwrap() = v` : the unwrap is a panic precondition (index in range)
#[verifier::external_body] pub fn vec_set_at(h: &mut Heap, a: &VecH, i: usize, v: Primitive) requires vecs(old(h)).contains_key(vid(a)), i < vecs(old(h))[vid(a)].len()
    ensures vecs(final(h)) == vecs(old(h)).insert(vid(a), vecs(old(h))[vid(a)].update(i as int, v)), cells(final(h)) == cells(old(h)), maps(final(h)) == maps(old(h)) { unimplemented!() }
#[verifier::external_body] pub fn map_insert(h: &mut Heap, m: &MapH, k: Primitive, v: Primitive) -> (r: Result<Option<Primitive>, VErr>) requires maps(old(h)).contains_key(mid(m))
    ensures r is Ok ==> maps(final(h)) == maps(old(h)).insert(mid(m), maps(old(h))[mid(m)].insert(k, v)), r is Err ==> maps(final(h)) == maps(old(h)),
            cells(final(h)) == cells(old(h)), vecs(final(h)) == vecs(old(h)) { unimplemented!() }
// a pointer is well-formed when it points into the heap (established where the pointer is created: lookup / vec_op bounds check)
pub open spec fn ptr_ok(h: &Heap, p: &HeapPrimitive) -> bool {
    match *p { HeapPrimitive::Lookup(c) => cells(h).contains_key(cid(&c)),
               HeapPrimitive::ArrayPtr(a, i) => vecs(h).contains_key(vid(&a)) && i < vecs(h)[vid(&a)].len(),
               HeapPrimitive::MapPtr(m, _) => maps(h).contains_key(mid(&m)) }
}
// identity tokens
#[verifier::external_body] pub struct ObjH { x: usize }
pub uninterp spec fn oid(o: &ObjH) -> int;                      // Object::id_addr: the identity token an object got from ObjectBuilder::build
#[verifier::external_body] pub fn id_addr(o: &ObjH) -> (r: usize) ensures r as int == oid(o) { unimplemented!() }
pub enum PrimI { Object(ObjH), Other(OtherV) }
// ---- identity of lists and maps (`a is b`) ----
// what std says about the addresses involved: the Gc cell of a list / map is an allocation of its own (distinct cells, distinct addresses);
// the BUFFER of a Vec is an allocation only when the Vec has capacity -- an empty Vec that never allocated points to a dangling, well-aligned
// address that is the same for every such Vec
pub uninterp spec fn cell_addr(cell: int) -> int;
pub uninterp spec fn buffer_addr(cell: int) -> int;
pub uninterp spec fn has_buffer(h: &Heap, cell: int) -> bool;
pub open spec fn dangling() -> int { 8 }
pub broadcast axiom fn cell_addr_injective(a: int, b: int) ensures #[trigger] cell_addr(a) == #[trigger] cell_addr(b) ==> a == b;
pub broadcast axiom fn buffer_addr_injective(a: int, b: int) ensures #[trigger] buffer_addr(a) == #[trigger] buffer_addr(b) ==> a == b;
// `self.0.borrow().as_ptr()` : the Vec's buffer pointer
#[verifier::external_body] pub fn vec_buffer_ptr(h: &Heap, v: &VecH) -> (r: usize) ensures r as int == (if has_buffer(h, vid(v)) { buffer_addr(vid(v)) } else { dangling() }) { unimplemented!() }
// `&*self.0 as *const _` / Gc::ptr_eq : the address of the Gc cell itself
#[verifier::external_body] pub fn vec_cell_ptr(v: &VecH) -> (r: usize) ensures r as int == cell_addr(vid(v)) { unimplemented!() }
#[verifier::external_body] pub fn map_cell_ptr(m: &MapH) -> (r: usize) ensures r as int == cell_addr(mid(m)) { unimplemented!() }
#[verifier::external_body] pub fn vec_ptr_eq(a: &VecH, b: &VecH) -> (r: bool) ensures r == (vid(a) == vid(b)) { unimplemented!() }
#[verifier::external_body] pub fn map_ptr_eq(a: &MapH, b: &MapH) -> (r: bool) ensures r == (mid(a) == mid(b)) { unimplemented!() }
"""


def build_set(repo):
    src = Source(repo)
    log = []
    f = src.fn(PRIM, "set", "impl HeapPrimitive")
    rules = [
        Rule("R3", "bail ! $a", "return Err ( VErr )", why="bail! -> return Err"),
        Rule("R1", "Self :: Lookup", "HeapPrimitive :: Lookup"), Rule("R1", "Self :: ArrayPtr", "HeapPrimitive :: ArrayPtr"), Rule("R1", "Self :: MapPtr", "HeapPrimitive :: MapPtr"),
        Rule("R13", "cell . set_primitive ( new_val ) ;", "cell_set ( heap , cell , new_val ) ;", why="write through the cell handle"),
        Rule("R13", "cell . primitive ( ) . ty ( )", "cell_get ( heap , cell ) . ty ( )", why="read through the cell handle"),
        Rule("R13", "* array . 0 . borrow_mut ( ) . get_mut ( * index ) . unwrap ( ) = new_val ;", "vec_set_at ( heap , array , * index , new_val ) ;", why="write of the list slot (unwrap: index in range, R8)"),
        Rule("R13", "map . insert ( ( * * key ) . clone ( ) , new_val ) ?", "map_insert ( heap , map , ( * * key ) . vclone ( ) , new_val ) ?", why="GcMap::insert as finite-map update"),
    ]
    b = translate(f["body"], rules, log, "HeapPrimitive::set")
    check_closed(b, "HeapPrimitive::set")
    # runtime_addr_check: the Object arm
    fa = src.fn(PRIM, "runtime_addr_check")
    try:
        arm = extract_match_arm(fa["body"], "( Self :: Object ( o1 ) , Self :: Object ( o2 ) )")
    except Exception as e:
        raise Undecided(f"{PRIM}: arm (Object, Object) of runtime_addr_check not found: {e}")
    ba = translate(arm["body"], [Rule("R1", "Primitive :: Bool ( $$e )", "$$e", why="result wrapped in Bool: the flag itself"),
                                 Rule("R1", "$o . id_addr ( )", "id_addr ( $o )", why="identity token"),
                                 Rule("R1", "return Ok ( $$e )", "return $$e", why="")], log, "runtime_addr_check[Object]")
    # runtime_addr_check: the Vector and Map arms, with GcVector::addr / GcMap::addr carried along (their own bodies are their contracts)
    def arm_of(pat, what):
        try:
            a = extract_match_arm(fa["body"], pat)
        except Exception as e:
            raise Undecided(f"{PRIM}: arm {what} of runtime_addr_check not found: {e}")
        return translate(a["body"], [Rule("R1", "Primitive :: Bool ( $$e )", "$$e", why="result wrapped in Bool: the flag itself"),
                                     Rule("R1", "$o . addr ( )", "$o . addr ( heap )", why="explicit heap (R10)"),
                                     Rule("R10", "Gc :: ptr_eq ( & $a . 0 , & $b . 0 )", lambda b: None, why=""),
                                     Rule("R1", "return Ok ( $$e )", "return $$e", why="")], log, f"runtime_addr_check[{what}]")
    bv = arm_of("( Self :: Vector ( v1 ) , Self :: Vector ( v2 ) )", "Vector")
    bm = arm_of("( Self :: Map ( m1 ) , Self :: Map ( m2 ) )", "Map")
    addr_rules = [
        Rule("R10", "self . 0 . borrow ( ) . as_ptr ( )", "vec_buffer_ptr ( heap , self )", why="Vec::as_ptr of the list's storage: the BUFFER address (std: dangling for a Vec without capacity)"),
        Rule("R10", "let view = self . 0 . borrow ( ) ; & * view as * const _", "map_cell_ptr ( self )", why="address of the HashMap inside the Gc cell: one per cell"),
        Rule("R10", "& * self . 0 as * const _", "SELF_CELL_PTR", why="address of the Gc cell: one per cell"),
        Rule("R10", "Gc :: as_ptr ( & self . 0 )", "SELF_CELL_PTR", why="address of the Gc cell: one per cell"),
    ]
    fva = src.fn(PRIM, "addr", "impl GcVector")
    fma = src.fn(PRIM, "addr", "impl GcMap")
    bva = Rule("R10", "SELF_CELL_PTR", "vec_cell_ptr ( self )", why="").apply(translate(list(fva["body"]), addr_rules, log, "GcVector::addr"), log)
    bma = Rule("R10", "SELF_CELL_PTR", "map_cell_ptr ( self )", why="").apply(translate(list(fma["body"]), addr_rules, log, "GcMap::addr"), log)
    # the callee is inlined at its call sites (it is a one-expression accessor): the caller is then checked against what `addr` computes
    def inline_addr(arm_toks, body, what):
        if ";" in body or "return" in body:
            raise Undecided(f"{what} is no longer a single expression: not inlined")
        def repl(b):
            o = b["o"]
            return ["("] + [t if t != "self" else text(o) for t in body] + [")"]
        return Rule("R14", "$o . addr ( heap )", repl, count=2, why=f"{what}: one-expression accessor inlined at the call").apply(arm_toks, log)
    bv = inline_addr(bv, bva, "GcVector::addr")
    bm = inline_addr(bm, bma, "GcMap::addr")
    for bb, w in ((bv, "is[Vector]"), (bm, "is[Map]"), (bva, "GcVector::addr"), (bma, "GcMap::addr")):
        check_closed(bb, w)
    gen = header(log, f"{PRIM}: HeapPrimitive::set; Primitive::runtime_addr_check (object, list and map arms); GcVector::addr, GcMap::addr") + SET_SPEC + f"""
impl HeapPrimitive {{
    //@ OBL C08.ptr.set
    pub fn set(&self, new_val: Primitive, heap: &mut Heap) -> (r: Result<(), VErr>)
        requires ptr_ok(old(heap), self)
        ensures
            // a field pointer: ANY value (of any kind, nil included) is stored into exactly the pointed-to cell; nothing else changes
            self is Lookup ==> r is Ok && cells(final(heap)) == cells(old(heap)).insert(cid(&self->Lookup_0), new_val)
                                && vecs(final(heap)) == vecs(old(heap)) && maps(final(heap)) == maps(old(heap)),
            // a list element pointer: exactly the indexed slot
            self is ArrayPtr ==> r is Ok && vecs(final(heap)) == vecs(old(heap)).insert(vid(&self->ArrayPtr_0), vecs(old(heap))[vid(&self->ArrayPtr_0)].update(self->ArrayPtr_1 as int, new_val))
                                && cells(final(heap)) == cells(old(heap)) && maps(final(heap)) == maps(old(heap)),
            // a map entry pointer: exactly the key
            (self is MapPtr && r is Ok) ==> maps(final(heap)) == maps(old(heap)).insert(mid(&self->MapPtr_0), maps(old(heap))[mid(&self->MapPtr_0)].insert(*self->MapPtr_1, new_val))
                                && cells(final(heap)) == cells(old(heap)) && vecs(final(heap)) == vecs(old(heap)),
    {{
{render(b, 2)}
    }}
}}

//@ OBL C08.is.identity
// `a is b` on two objects: true exactly when both references denote the same object (same identity token)
pub fn is_same_object(o1: &ObjH, o2: &ObjH) -> (r: bool)
    ensures r == (oid(o1) == oid(o2))
{{
{render(ba, 1)}
}}

//@ OBL C13.is.list-identity
// `a is b` on two lists: true exactly when both denote the same list -- two distinct lists are never `is`-identical, whatever they hold (also when
// both are empty), and a list is identical to every alias of itself
pub fn is_same_list(v1: &VecH, v2: &VecH, heap: &Heap) -> (r: bool)
    ensures r == (vid(v1) == vid(v2))
{{
    broadcast use cell_addr_injective, buffer_addr_injective;
{render(bv, 1)}
}}
//@ OBL C13.is.map-identity
pub fn is_same_map(m1: &MapH, m2: &MapH, heap: &Heap) -> (r: bool)
    ensures r == (mid(m1) == mid(m2))
{{
    broadcast use cell_addr_injective, buffer_addr_injective;
{render(bm, 1)}
}}
}} // verus!
fn main() {{}}
"""
    return gen, [Obl("C13.is.list-identity", ["C13", "C08"], fn="is_same_list", desc="runtime_addr_check on two lists: identity of the list (the shared cell), not of its storage: two distinct empty lists are not identical"),
                 Obl("C13.is.map-identity", ["C13", "C08"], fn="is_same_map", desc="runtime_addr_check on two maps: identity of the map (the shared cell)"),
                 Obl("C08.ptr.set", ["C08", "C13"], fn="HeapPrimitive::set", desc="HeapPrimitive::set: the value (any kind) is written into exactly the field cell / list slot / map key the pointer denotes; nothing else changes"),
                 Obl("C08.is.identity", ["C08"], fn="is_same_object", desc="runtime_addr_check on two objects compares their identity tokens")], log


U_SET = VUnit("c08_ptr_set", ["C08", "C13"], "writes through field / element pointers; object identity", build_set)
U_SET.assumes = ["gc cell semantics assumed (a handle denotes a heap cell; every alias observes the write)",
                 "pointers are well-formed (created by lookup / the bounds-checked vec_op); object identity tokens come from ObjectBuilder::build (Gc::new allocations are distinct: assumed)",
                 "make_object / call_object / ld_self handle routing are not yet under contract"]


# ---------------------------------------------------------------------------------------------------------------------
HARNESS = r"""
// ======== real text: the two operator tables of `bin_op_assign` (instruction.rs), operands renamed ========
// named-variable form: `&*bundle.primitive()` -> current, `no_mut` -> value ;  pointer form: `current.deref()` -> current, `&value` -> value
pub fn combine_named(op: &String, current: &Primitive, value: &Primitive) -> Result<Primitive> {
    Ok(NAMED)
}
pub fn combine_ptr(op: &String, current: &Primitive, value: &Primitive) -> Result<Primitive> {
    Ok(PTR)
}
#[cfg(kani)]
mod verif {
    use super::*;
    fn check(which: u8, opi: u8) {
        // `+ - *` on int operands, `/ %` on byte operands (8-bit division keeps the SAT problem small); the table does not
        // look at the operand kinds, only the operator's own dispatch does
        let (cur, val) = if opi < 3 { (Primitive::Int(kani::any()), Primitive::Int(kani::any())) } else { (Primitive::Byte(kani::any()), Primitive::Byte(kani::any())) };
        let sym = String::from(match opi { 0 => "+=", 1 => "-=", 2 => "*=", 3 => "/=", _ => "%=" });
        let got = if which == 0 { combine_named(&sym, &cur, &val) } else { combine_ptr(&sym, &cur, &val) };
        // `x op= v` means x := x op v : the current value is the LEFT operand
        let want = match opi { 0 => &cur + &val, 1 => &cur - &val, 2 => &cur * &val, 3 => &cur / &val, _ => &cur % &val };
        match (got, want) {
            (Ok(a), Ok(b)) => assert!(a == b, "C08.opassign: `x op= v` does not compute x op v"),
            (Err(_), Err(_)) => (),
            _ => assert!(false, "C08.opassign: `x op= v` fails / succeeds differently from x op v"),
        }
    }
    macro_rules! h { ($name:ident, $f:ident ( $($a:expr),* )) => { #[kani::proof] fn $name() { $f($($a),*) } } }
HARNESSES
}
"""


class OpAssignUnit:
    engine = "kani"
    uid = "c08_opassign"
    props = ["C08", "C13", "C01"]
    title = "compound assignment: operator and operand order in both forms of bin_op_assign (K-t)"
    timeout = 1500
    assumes = ["K-t: only the two `match op.as_str()` tables of bin_op_assign are extracted (operands renamed); loading the variable / pointer and storing the result back are not part of this unit",
               "`* ` on int operands uses wrapping-free machine multiplication; `/ %` are checked on byte operands only (operand kinds do not influence the table)"]

    def run(self, repo, workdir, tier):
        from units.c05_ops import extract_crate, SHIMS
        res = UnitResult(self.uid)
        res.engine = "kani 0.68 / cbmc 6.11 (K-t)"
        src = Source(repo)
        f = src.fn(INSTR, "bin_op_assign", "pub mod implementations")
        body = f["body"]
        p = Pat("match op . as_str ( ) {")
        tables = []
        i = 0
        while i < len(body):
            r = p.match_at(body, i)
            if r:
                o = r[0] - 1
                c = match_close(body, o)
                tables.append(body[i:c + 1]); i = c + 1
            else:
                i += 1
        if len(tables) != 2:
            raise Undecided(f"bin_op_assign: expected two `match op.as_str()` tables, found {len(tables)}")
        log = []
        named = Rule("Kt", "& * bundle . primitive ( )", "current", count="+", why="the variable's current value").apply(tables[0], log)
        named = Rule("Kt", "no_mut", "value", count="+", why="the operand").apply(named, log)
        ptr = Rule("Kt", "current . deref ( )", "current", count="+", why="the pointed-to current value").apply(tables[1], log)
        ptr = Rule("Kt", "& value", "value", count="+", why="the operand").apply(ptr, log)
        real, dropped = extract_crate(repo)
        hs = [(f"h_{'named' if w == 0 else 'ptr'}_{n}", f"check({w}, {k})", f"C08.opassign.{'named' if w == 0 else 'pointer'}.{n}") for w in (0, 1) for k, n in enumerate(["add", "sub", "mul", "div", "rem"])]
        htext = "\n".join(f"    h!({n}, {c});" for n, c, _ in hs)
        lib = SHIMS + "\n" + real + "\n" + HARNESS.replace("NAMED", render(named, 1)).replace("PTR", render(ptr, 1)).replace("HARNESSES", htext)
        crate = K.write_crate(Path(workdir) / "kt_opassign", "kt_opassign", "// GENERATED (K-t) from bytecode/src/instruction.rs bin_op_assign + the operator impls\n" + lib)
        res.gen_path = str(crate / "src/lib.rs")
        per, raw, wall, cmd, timed_out = K.run_kani(crate, jobs=10, timeout=self.timeout, harness_timeout=400)
        res.raw = raw[-8000:]; res.checker_cmd = cmd
        res.functions = ["instruction.rs: bin_op_assign (both operator tables)"]
        res.samples = [f"{o}: {c}" for _, c, o in hs[:2]]
        if not per:
            res.undecided = "kani produced no harness results: " + raw[-2500:]
            return res
        obls = []
        for n, call, oid in hs:
            r = per.get(n)
            o = Obl(oid, ["C08", "C13", "C01"], fn=n, engine="kani/cbmc", desc=f"{call}: `x op= v` computes x op v (current value is the left operand), all operand values")
            if r is None or r["status"] is None or r["oom"] or r["unwind"] or r["unsupported"]:
                o.status = "undecided"; o.detail = "no verdict" if r is None or not r.get("timeout") else "CBMC timed out"
            else:
                named_f, panics, ign, other = K.classify(r["failed"])
                o.time_s = r["time"]
                # overflow panics of the operators themselves are D9 (C17), not this obligation
                if other:
                    o.status = "undecided"; o.detail = repr(other[:2])
                else:
                    o.status = "failed" if named_f else "discharged"; o.detail = "\n".join(f"{d} @ {l}" for d, l in named_f)
            obls.append(o)
        res.obls = obls
        return res

    def witness(self, repo, o, res):
        from units.c05_ops import OpsUnit
        return OpsUnit.witness(self, repo, o, res)

    def cli_replay(self, repo, o, vals):
        """operands decoded from kani's bytes -> `x op= v` on a variable (named form) / on a list element (pointer form), real CLI"""
        from vlib import numreplay as N, cli
        parts = o.oid.split(".")                      # C08.opassign.<named|pointer>.<op>
        form, op = parts[2], parts[3]
        k = "int" if op in ("add", "sub", "mul") else "byte"
        if len(vals) < 2:
            return {"replayed_on_real_cli": False, "why": "unexpected number of symbolic inputs"}
        a, b = N.decode(k, vals[0]), N.decode(k, vals[1])
        expect = N.spec_binop(op, k, a, k, b)
        la, lb = N.literal(k, a), N.literal(k, b)
        if form == "named":
            prog = f"x = {la}\nv = {lb}\nx {N.SYMS[op]}= v\nprint typeof x\nprint x\n"
        else:
            ty = "int" if k == "int" else "byte"
            prog = f"l: [{ty}...] = [{la}]\nv = {lb}\nl[0] {N.SYMS[op]}= v\nr = l[0]\nprint typeof r\nprint r\n"
        run = cli.run_program(repo, prog)
        rep, actual = N.judge(expect, run)
        return {"replayed_on_real_cli": True, "reproduced_on_real_cli": rep, "operands": {"x": f"{k} {a}", "v": f"{k} {b}"},
                "expected_by_the_property": "a failure (no value)" if expect[0] == "fail" else f"{expect[1]} {expect[2]!r}", "actual": actual, **run}


UNITS = [U_SET, OpAssignUnit()]

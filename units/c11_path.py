"""C11: which file an import names -- Import::path_from_parts (import.rs): the directory of the importing file joined with the written path,
WITHOUT `.` components, so that `import m` and `import ./m` give one path (one compiled file, one module-cache key, one instance)."""
from vlib.rules import *

FILE = "compiler/src/ast/import.rs"

SPEC = r"""
use vstd::prelude::*;
verus! {
pub struct VErr;
#[verifier::external_body] pub struct NameV { x: usize }
pub enum Comp { CurDir, ParentDir, Root, Normal(NameV) }
// std::path as component sequences (assumed std contracts)
#[verifier::external_body] pub struct PathV { x: usize }
pub uninterp spec fn comps(p: &PathV) -> Seq<Comp>;
#[verifier::external_body] pub struct StrV { x: usize }
pub uninterp spec fn parsed(s: &StrV) -> Seq<Comp>;                     // Path::new(s).components()
#[verifier::external_body] pub fn path_new(s: &StrV) -> (r: PathV) ensures comps(&r) == parsed(s) { unimplemented!() }
impl PathV {
    #[verifier::external_body] pub fn parent(&self) -> (r: Option<PathV>) ensures r is Some ==> comps(&r->Some_0) == comps(self).drop_last() { unimplemented!() }
    // join of a relative path: concatenation
    #[verifier::external_body] pub fn join(&self, o: PathV) -> (r: PathV) ensures comps(&r) == comps(self) + comps(&o) { unimplemented!() }
    // .components().filter(|c| !matches!(c, Component::CurDir)).collect::<PathBuf>()
    #[verifier::external_body] pub fn without_cur_dir(&self) -> (r: PathV) ensures comps(&r) == comps(self).filter(|c: Comp| !(c is CurDir)) { unimplemented!() }
}
#[verifier::external_body] pub fn opt_ctx(o: Option<PathV>) -> (r: Result<PathV, VErr>) ensures r is Ok <==> o is Some, r is Ok ==> Some(r->Ok_0) == o { unimplemented!() }
#[verifier::external_body] pub struct UD { x: usize }
pub uninterp spec fn source_file(u: &UD) -> StrV;
#[verifier::external_body] pub fn get_source_file_name(u: &UD) -> (r: StrV) ensures r == source_file(u) { unimplemented!() }
pub open spec fn no_dot(s: Seq<Comp>) -> bool { forall|i: int| 0 <= i < s.len() ==> !(#[trigger] s[i] is CurDir) }
pub proof fn lemma_filter_no_dot(s: Seq<Comp>) ensures no_dot(s.filter(|c: Comp| !(c is CurDir))) decreases s.len() {
    reveal(Seq::filter);
    if s.len() > 0 { lemma_filter_no_dot(s.drop_last()); }
}
"""


def build(repo):
    src = Source(repo)
    log = []
    f = src.fn(FILE, "path_from_parts")
    b = translate(f["body"], [
        Rule("R1", "let src : & str = & user_data . get_source_file_name ( ) ;", "let src = get_source_file_name ( user_data ) ;", why="source file name (abstract)"),
        Rule("R9", "Path :: new ( src )", "path_new ( & src )", why="std::path::Path::new"),
        Rule("R9", "Path :: new ( str_part )", "path_new ( str_part )", why="std::path::Path::new"),
        Rule("R3", "path . parent ( ) . context ( $m ) ?", "opt_ctx ( path . parent ( ) ) ?", why="Option::context"),
        Rule("R9", ". components ( ) . filter ( | $c | ! matches ! ( $c , std :: path :: Component :: CurDir ) ) . collect ( )", ". without_cur_dir ( )", why="components().filter(not CurDir).collect(): the path without `.` components (assumed std contract)"),
    ], log, "Import::path_from_parts")
    check_closed(b, "Import::path_from_parts")
    gen = header(log, f"{FILE}: Import::path_from_parts") + SPEC + f"""
//@ OBL C11.path.no-dot
pub fn path_from_parts(user_data: &UD, str_part: &StrV) -> (r: Result<PathV, VErr>)
    ensures r is Ok ==> no_dot(comps(&r->Ok_0))
        // ... and it is the importing file's directory followed by the written path, minus the `.` components: two spellings that differ
        // only in `.` components name the same file
        && comps(&r->Ok_0) == (parsed(&source_file(user_data)).drop_last() + parsed(str_part)).filter(|c: Comp| !(c is CurDir)),
{{
    proof {{ lemma_filter_no_dot(parsed(&source_file(user_data)).drop_last() + parsed(str_part)); }}
{render(b, 1)}
}}
}} // verus!
fn main() {{}}
"""
    return gen, [Obl("C11.path.no-dot", ["C11", "C16"], fn="Import::path_from_parts", desc="path_from_parts: the importing file's directory joined with the written path, without `.` components (`m` and `./m` are one module); total: a diagnostic or a path for every written path, no index or arithmetic that can panic")], log


UNITS = [VUnit("c11_path", ["C11", "C16"], "import path: one path per module whatever the spelling", build)]
UNITS[0].assumes = ["std::path modelled as component sequences (assumed contracts of Path::new / parent / join / components().filter().collect())", "`..` components and symlinks are not normalised (a/../m and m are still two modules)"]

"""C10 / C03 / C07: Ident flag propagation and the declaration-side of assignments.

 - Ident::{new, mark_const, is_const, wrap_in_callback, clone_with_type}: the const flag survives wrapping and re-typing
 - Parser::assignment_type / assignment_no_type: the previous declaration handed to the const / type checks of
   Parser::assignment is the lookup over ALL enclosing blocks of the running function (plain / const assignment) or over
   the captured scopes (`modify`); a `modify` target is always marked as captured; `const` marks the new ident read-only;
   a typed declaration whose value has a known incompatible type is rejected."""
from vlib.rules import *

IDENT = "compiler/src/ast/ident.rs"
AT = "compiler/src/ast/assignment/assignment_type.rs"
ANT = "compiler/src/ast/assignment/assignment_no_type.rs"

SPEC = r"""
pub struct Ident { pub name: VStr, pub ty: Option<TypeLayout>, pub read_only: bool }
"""

UD = r"""
// ---- scope data (AssocFileData): the three lookups, abstract
pub uninterp spec fn lookup_in_function(n: &Node, name: Seq<char>) -> Option<Ident>;    // has_name_been_mapped_in_function: all blocks up to the function boundary
pub uninterp spec fn lookup_local(n: &Node, name: Seq<char>) -> Option<Ident>;          // get_ident_from_name_local: innermost scope only
pub uninterp spec fn lookup_dependency(n: &Node, name: Seq<char>) -> Option<Ident>;     // get_dependency_flags_from_name(..).0: every visible scope
#[verifier::external_body] pub fn has_name_been_mapped_in_function(n: &Node, name: &VStr) -> (r: Option<Ident>) ensures r == lookup_in_function(n, str_view(name)) { unimplemented!() }
#[verifier::external_body] pub fn get_ident_from_name_local(n: &Node, name: &VStr) -> (r: Option<Ident>) ensures r == lookup_local(n, str_view(name)) { unimplemented!() }
#[verifier::external_body] pub fn get_dependency_ident_from_name(n: &Node, name: &VStr) -> (r: Option<Ident>) ensures r == lookup_dependency(n, str_view(name)) { unimplemented!() }
// Parser::ident: a fresh, untyped, non-const ident with the node's text
#[verifier::external_body] pub fn parse_ident(n: Node) -> (r: Result<Ident, VErr>) ensures r is Ok ==> str_view(&r->Ok_0.name) == node_text(&n) && r->Ok_0.ty is None && !r->Ok_0.read_only { unimplemented!() }
#[verifier::external_body] pub fn get_type_recursively(t: &TypeLayout) -> (r: &TypeLayout) { unimplemented!() }
#[verifier::external_body] pub struct Assignment { x: usize }
pub uninterp spec fn assignment_ident(a: &Assignment) -> Ident;
pub uninterp spec fn assignment_value(a: &Assignment) -> Value;
#[verifier::external_body] pub fn assignment_new(ident: Ident, value: Value) -> (r: Assignment) ensures assignment_ident(&r) == ident, assignment_value(&r) == value { unimplemented!() }
// Ident::link_force_no_inherit: sets the type, registers the dependency; name and const flag untouched
#[verifier::external_body] pub fn link_force_no_inherit(i: &mut Ident, n: &Node, ty: TypeLayout) -> (r: Result<(), VErr>)
    ensures final(i).name == old(i).name, final(i).read_only == old(i).read_only, final(i).ty == Some(ty) { unimplemented!() }
// Value::associate_with_ident: infers and sets the type; name and const flag untouched
#[verifier::external_body] pub fn associate_with_ident(v: &Value, i: &mut Ident, n: &Node) -> (r: Result<(), VErr>)
    ensures final(i).name == old(i).name, final(i).read_only == old(i).read_only, r is Ok ==> final(i).ty is Some { unimplemented!() }
#[verifier::external_body] pub fn map_err_messages(r: Result<(), VErr>, s: Span, n: &Node) -> (o: Result<(), VErr>) ensures o is Ok <==> r is Ok { unimplemented!() }
"""

IDENT_FNS = {
    "new": ("pub fn new(name: VStr, ty: Option<TypeLayout>, read_only: bool) -> (r: Ident)", "ensures r.name == name, r.ty == ty, r.read_only == read_only"),
    "mark_const": ("pub fn mark_const(&mut self)", "ensures final(self).read_only, final(self).name == old(self).name, final(self).ty == old(self).ty"),
    "is_const": ("pub fn is_const(&self) -> (r: bool)", "ensures r == self.read_only"),
    "wrap_in_callback": ("pub fn wrap_in_callback(self) -> (r: Result<Ident, VErr>)",
                         "ensures r is Ok <==> self.ty is Some, r is Ok ==> r->Ok_0.name == self.name && r->Ok_0.read_only == self.read_only && r->Ok_0.ty == Some(callback_of(self.ty->Some_0))"),
    "clone_with_type": ("pub fn clone_with_type(&self, ty: TypeLayout) -> (r: Ident)", "ensures r.name == self.name, r.read_only == self.read_only, r.ty == Some(ty)"),
}
IDENT_RULES = [
    Rule("R3", "bail ! $a", "return Err ( VErr )", why="bail! -> return Err"),
    Rule("R1", "Cow :: Owned ( $$e )", "$$e", why="Cow::Owned -> value"),
    Rule("R1", "TypeLayout :: CallbackVariable ( ty . into_owned ( ) . into ( ) , )", "mk_callback ( ty )", why="TypeLayout::CallbackVariable(Box::new(ty)) as abstract constructor"),
    Rule("R1", "TypeLayout :: CallbackVariable ( ty . into_owned ( ) . into ( ) )", "mk_callback ( ty )", why="TypeLayout::CallbackVariable(Box::new(ty)) as abstract constructor"),
    Rule("R1", "self . name . clone ( )", "clone_str ( & self . name )", why="String clone"),
]


def ident_impl(src, log):
    parts = []
    for n, (sig, contract) in IDENT_FNS.items():
        f = src.fn(IDENT, n, "impl Ident")
        b = translate(f["body"], IDENT_RULES, log, f"Ident::{n}")
        if n == "wrap_in_callback":
            # by-value `self` (possibly `mut self`): bind it to a mutable local and use that throughout
            b = lex("let mut verif_self = self ;") + ["verif_self" if t == "self" else t for t in b]
            log.append(("R1", "self", "verif_self", "by-value (mut) self receiver -> mutable local"))
        check_closed(b, f"Ident::{n}")
        if n == "wrap_in_callback":
            b = Rule("R1", "let Some ( ty ) = verif_self . ty else { $$e } ;", "let Some ( ty ) = verif_self . ty else { $$e } ; verif_self . ty = None ;", why="ty moved out of the Option").apply(b, log) if False else b
        parts.append(f"    //@ OBL C10.ident.{n}\n    {sig}\n        {contract}\n    {{\n{render(b, 2)}\n    }}\n")
    return "impl Ident {\n" + "\n".join(parts) + "}\n"


def assign_rules(typed):
    R = [
        Rule("R6", "input . children ( )", "children ( & input )", why="pest API abstract"),
        Rule("R8", "children . next ( ) . unwrap ( )", "unwrap_node ( children . next ( ) )", why="unwrap of a child: panic precondition from the grammar"),
        Rule("R6", "ty . as_span ( )", "as_span ( & ty )", why="pest API abstract"),
        Rule("R6", "input . as_span ( )", "as_span ( & input )", why="pest API abstract"),
        Rule("R6", "Self :: ident ( ident ) . to_err_vec ( ) ?", "parse_ident ( ident ) ?", why="sub-parser abstract"),
        Rule("R6", "input . user_data ( ) . has_name_been_mapped_in_function ( ident . name ( ) )", "has_name_been_mapped_in_function ( & input , & ident . name )", why="scope lookup abstract"),
        Rule("R6", "input . user_data ( ) . get_ident_from_name_local ( ident . name ( ) )", "get_ident_from_name_local ( & input , & ident . name )", why="scope lookup abstract"),
        Rule("R6", "input . user_data ( ) . get_dependency_flags_from_name ( ident . name ( ) ) . map ( | x | x . 0 . to_owned ( ) )", "get_dependency_ident_from_name ( & input , & ident . name )", why="scope lookup abstract (the ident of the pair)"),
        Rule("R1", ". map ( | x | x . to_owned ( ) )", "", why="Option<&Ident> -> Option<Ident>: the abstract lookup already returns an owned ident"),
        Rule("R6", "Self :: r#type ( ty ) . to_err_vec ( ) ?", "parse_type ( ty ) ?", why="sub-parser abstract"),
        Rule("R6", "Self :: value ( value ) ?", "parse_value ( value ) ?", why="sub-parser abstract"),
        Rule("R6", "Self :: value ( rhs ) ?", "parse_value ( rhs ) ?", why="sub-parser abstract"),
        Rule("R6", "value . for_type ( & TypecheckFlags :: use_class ( self_type ) )", "value_for_type ( & value , self_type )", why="type query abstract"),
        Rule("R6", "! ty . as_ref ( ) . get_type_recursively ( ) . eq_complex ( assignment_ty . get_type_recursively ( ) , & TypecheckFlags :: use_class ( self_type ) . lhs_unwrap ( false ) , )",
             "! eq_complex ( & ty , assignment_ty , self_type , false )", why="declared.eq_complex(value type, lhs_unwrap(false)); callback wrappers disregarded on both sides"),
        Rule("R3", "let hint = $$a ; let message = $$b ; return Err ( $$c ) ;", "return Err ( VErr ) ;", why="diagnostic text dropped"),
        Rule("R6", "ident . link_force_no_inherit ( input . user_data ( ) , ty ) . to_err_vec ( ) ?", "link_force_no_inherit ( & mut ident , & input , ty ) ?", why="abstract callee"),
        Rule("R6", "ident . wrap_in_callback ( ) . to_err_vec ( ) ?", "ident . wrap_in_callback ( ) ?", why="error vector wrapper dropped"),
        Rule("R6", "Assignment :: new ( ident , value )", "assignment_new ( ident , value )", why="abstract constructor"),
        Rule("R6", "let user_data = input . user_data ( ) ;", "", why="scope data handle dropped"),
        Rule("R6", "value . associate_with_ident ( & mut ident , user_data )", "associate_with_ident ( & value , & mut ident , & input )", why="abstract callee"),
        Rule("R6", "map_err_messages ( maybe_error , $$rest ) . to_err_vec ( ) ?", "map_err_messages ( maybe_error , as_span ( & input ) , & input ) ?", why="diagnostic text dropped"),
        Rule("R1", "let ident : Node =", "let ident =", why="type ascription on an abstract node"),
        Rule("R1", "let ty : Node =", "let ty =", why="type ascription"), Rule("R1", "let value : Node =", "let value =", why="type ascription"),
        Rule("R1", "let mut ident : Ident =", "let mut ident =", why="type ascription"), Rule("R1", "let value : Value =", "let value =", why="type ascription"),
    ]
    return R


def build(repo):
    src = Source(repo)
    log = []
    ident = ident_impl(src, log)
    ft = src.fn(AT, "assignment_type", "impl Parser")
    fn = src.fn(ANT, "assignment_no_type", "impl Parser")
    bt = translate(ft["body"], assign_rules(True), log, "Parser::assignment_type")
    bn = translate(fn["body"], assign_rules(False), log, "Parser::assignment_no_type")
    check_closed(bt, "assignment_type"); check_closed(bn, "assignment_no_type")
    common_post = """
        // the previous declaration the const / type checks of Parser::assignment are run against
        (r is Ok && !is_modify) ==> r->Ok_0.1 == lookup_in_function(&input, node_text(&node_children(&input)[0])),
        (r is Ok && is_modify) ==> r->Ok_0.1 == lookup_dependency(&input, node_text(&node_children(&input)[0])),
        // the declared ident: named after the first child; `const` makes it read-only; `modify` marks it as a captured variable
        r is Ok ==> str_view(&assignment_ident(&r->Ok_0.0).name) == node_text(&node_children(&input)[0]),
        (r is Ok && is_const) ==> assignment_ident(&r->Ok_0.0).read_only,
        (r is Ok && is_modify) ==> assignment_ident(&r->Ok_0.0).ty is Some && is_callback_ty(assignment_ident(&r->Ok_0.0).ty->Some_0),"""
    gen = header(log, f"{IDENT}: Ident flag methods; {AT}: Parser::assignment_type; {ANT}: Parser::assignment_no_type") + prelude("parser.rs") + SPEC + ident + UD + f"""
//@ OBL C10.assignment_type
pub fn assignment_type(input: Node, is_const: bool, is_modify: bool, self_type: Option<&ClassType>) -> (r: Result<(Assignment, Option<Ident>), VErr>)
    requires node_children(&input).len() >= 3          // grammar: assignment_type = {{ ident ~ ":" ~ type ~ "=" ~ value }}
    ensures{common_post}
        // C03: a typed declaration whose value has a known type that is not compatible with the declared type is rejected
        r is Ok ==> (type_of(&assignment_value(&r->Ok_0.0), self_type) is Some ==> exists|declared: TypeLayout| #[trigger] compatible(&declared, &type_of(&assignment_value(&r->Ok_0.0), self_type)->Some_0, self_type, false)),
{{
    broadcast use callback_facts;
{render(bt, 1)}
}}

//@ OBL C10.assignment_no_type
pub fn assignment_no_type(input: Node, is_const: bool, is_modify: bool) -> (r: Result<(Assignment, Option<Ident>), VErr>)
    requires node_children(&input).len() >= 2          // grammar: assignment_no_type = {{ ident ~ "=" ~ value }}
    ensures{common_post}
{{
    broadcast use callback_facts;
{render(bn, 1)}
}}

}} // verus!
fn main() {{}}
"""
    obls = [Obl(f"C10.ident.{n}", ["C10"], fn=f"Ident::{n}", desc=f"Ident::{n}: name / const flag / type as the const checks rely on") for n in IDENT_FNS] + [
        Obl("C10.assignment_type", ["C10", "C03", "C07"], fn="assignment_type", desc="Parser::assignment_type: previous declaration = lookup over all blocks of the function (or the captured scopes for modify); const marks read-only; modify marks captured; incompatible typed initializer rejected"),
        Obl("C10.assignment_no_type", ["C10", "C07"], fn="assignment_no_type", desc="Parser::assignment_no_type: same lookup / flag contract for untyped assignments"),
    ]
    return gen, obls, log


UNITS = [VUnit("c10_assign", ["C10", "C03", "C07"], "Ident const flag propagation; assignment declaration side", build)]
UNITS[0].assumes = ["pest API, scope lookups and sub-parsers are abstract (arbitrary results): the contracts hold for every parse tree and context",
                    "child counts of the nodes are the grammar's productions (preconditions, not proved against pest)",
                    "the const test itself is in Parser::assignment (separate obligation); diagnostics' text is dropped"]

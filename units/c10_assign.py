"""C10 / C03 / C07: Ident flag propagation and the declaration-side of assignments.

 - Ident::{new, mark_const, is_const, wrap_in_callback, clone_with_type}: the const flag survives wrapping and re-typing
 - Parser::assignment_type / assignment_no_type: the previous declaration handed to the const / type checks of
   Parser::assignment is the lookup over ALL enclosing blocks of the running function (plain / const assignment) or over
   the captured scopes (`modify`); a `modify` target is always marked as captured; `const` marks the new ident read-only;
   a typed declaration whose value has a known incompatible type is rejected."""
from vlib.rules import *
from vlib.lexer import match_close
from vlib.pattern import Pat

IDENT = "compiler/src/ast/ident.rs"
AT = "compiler/src/ast/assignment/assignment_type.rs"
ANT = "compiler/src/ast/assignment/assignment_no_type.rs"

SPEC = r"""
pub struct Ident { pub name: VStr, pub ty: Option<TypeLayout>, pub read_only: bool }
"""

UD = r"""
// ---- scope data (AssocFileData): the three lookups, abstract
pub uninterp spec fn lookup_in_function(n: &Node, name: Seq<char>) -> Option<Ident>;    // has_name_been_mapped_in_function: all blocks up to the function boundary
pub uninterp spec fn lookup_local(n: &Node, name: Seq<char>) -> Option<Ident>;          // get_ident_from_name_local: innermost scope only
pub uninterp spec fn lookup_dependency(n: &Node, name: Seq<char>) -> Option<Ident>;     // get_dependency_flags_from_name(..).0: every visible scope
#[verifier::external_body] pub fn has_name_been_mapped_in_function(n: &Node, name: &VStr) -> (r: Option<Ident>) ensures r == lookup_in_function(n, str_view(name)) { unimplemented!() }
#[verifier::external_body] pub fn get_ident_from_name_local(n: &Node, name: &VStr) -> (r: Option<Ident>) ensures r == lookup_local(n, str_view(name)) { unimplemented!() }
#[verifier::external_body] pub fn get_dependency_ident_from_name(n: &Node, name: &VStr) -> (r: Option<Ident>) ensures r == lookup_dependency(n, str_view(name)) { unimplemented!() }
// Parser::ident: a fresh, untyped, non-const ident with the node's text
#[verifier::external_body] pub fn parse_ident(n: Node) -> (r: Result<Ident, VErr>) ensures r is Ok ==> str_view(&r->Ok_0.name) == node_text(&n) && r->Ok_0.ty is None && !r->Ok_0.read_only { unimplemented!() }
#[verifier::external_body] pub fn is_directly_callback(t: &TypeLayout) -> (r: bool) ensures r == is_callback_ty(*t) { unimplemented!() }
// Assignment::modify_target (obligation C07.modify.target-is-captured): the variable `modify NAME` names, which must be a captured one
pub uninterp spec fn lookup_is_captured(n: &Node, name: Seq<char>) -> bool;             // get_dependency_flags_from_name(..).1: a function boundary lies in between
pub open spec fn registered_as_captured(i: Ident) -> bool { i.ty is Some && is_callback_ty(i.ty->Some_0) }
#[verifier::external_body] pub fn modify_target(n: &Node, name: &VStr) -> (r: Result<Option<Ident>, VErr>)
    ensures lookup_dependency(n, str_view(name)) is None ==> r == Ok::<Option<Ident>, VErr>(None),
        lookup_dependency(n, str_view(name)) is Some ==> (r is Ok <==> (lookup_is_captured(n, str_view(name)) || registered_as_captured(lookup_dependency(n, str_view(name))->Some_0))),
        r is Ok ==> r->Ok_0 == lookup_dependency(n, str_view(name)) { unimplemented!() }
#[verifier::external_body] pub fn get_type_recursively(t: &TypeLayout) -> (r: &TypeLayout) { unimplemented!() }
#[verifier::external_body] pub struct Assignment { x: usize }
pub uninterp spec fn assignment_ident(a: &Assignment) -> Ident;
pub uninterp spec fn assignment_value(a: &Assignment) -> Value;
#[verifier::external_body] pub fn assignment_new(ident: Ident, value: Value) -> (r: Assignment) ensures assignment_ident(&r) == ident, assignment_value(&r) == value { unimplemented!() }
// Ident::link_force_no_inherit: sets the type, registers the dependency; name and const flag untouched
// the entry the current scope holds for the name this statement declares (ghost): what later statements of the function find
pub struct Reg { pub entry: Ghost<Option<Ident>> }
#[verifier::external_body] pub fn link_force_no_inherit(i: &mut Ident, n: &Node, ty: TypeLayout, reg: &mut Reg) -> (r: Result<(), VErr>)
    ensures final(i).name == old(i).name, final(i).read_only == old(i).read_only, final(i).ty == Some(ty), r is Ok ==> final(reg).entry@ == Some(*final(i)) { unimplemented!() }
// AssocFileData::add_dependency: the scope's entry for the name is replaced by this identifier (unit c10_scope_add)
#[verifier::external_body] pub fn add_dependency(reg: &mut Reg, i: &Ident) ensures final(reg).entry@ == Some(*i) { unimplemented!() }
// Value::associate_with_ident: infers and sets the type; name and const flag untouched
#[verifier::external_body] pub fn associate_with_ident(v: &Value, i: &mut Ident, n: &Node, reg: &mut Reg) -> (r: Result<(), VErr>)
    ensures final(i).name == old(i).name, final(i).read_only == old(i).read_only, r is Ok ==> final(i).ty is Some && final(reg).entry@ == Some(*final(i)) { unimplemented!() }
#[verifier::external_body] pub fn map_err_messages(r: Result<(), VErr>, s: Span, n: &Node) -> (o: Result<(), VErr>) ensures o is Ok <==> r is Ok { unimplemented!() }
"""

IDENT_FNS = {
    "new": ("pub fn new(name: VStr, ty: Option<TypeLayout>, read_only: bool) -> (r: Ident)", "ensures r.name == name, r.ty == ty, r.read_only == read_only"),
    "mark_const": ("pub fn mark_const(&mut self)", "ensures final(self).read_only, final(self).name == old(self).name, final(self).ty == old(self).ty"),
    "is_const": ("pub fn is_const(&self) -> (r: bool)", "ensures r == self.read_only"),
    "wrap_in_callback": ("pub fn wrap_in_callback(self) -> (r: Result<Ident, VErr>)",
                         "ensures r is Ok <==> self.ty is Some, r is Ok ==> r->Ok_0.name == self.name && r->Ok_0.read_only == self.read_only && r->Ok_0.ty == Some(if is_callback_ty(self.ty->Some_0) { self.ty->Some_0 } else { callback_of(self.ty->Some_0) })"),
    "clone_with_type": ("pub fn clone_with_type(&self, ty: TypeLayout) -> (r: Ident)", "ensures r.name == self.name, r.read_only == self.read_only, r.ty == Some(ty)"),
}
IDENT_RULES = [
    Rule("R3", "bail ! $a", "return Err ( VErr )", why="bail! -> return Err"),
    Rule("R1", "Cow :: Owned ( $$e )", "$$e", why="Cow::Owned -> value"),
    Rule("R1", "TypeLayout :: CallbackVariable ( ty . into_owned ( ) . into ( ) , )", "mk_callback ( ty )", why="TypeLayout::CallbackVariable(Box::new(ty)) as abstract constructor"),
    Rule("R1", "TypeLayout :: CallbackVariable ( ty . into_owned ( ) . into ( ) )", "mk_callback ( ty )", why="TypeLayout::CallbackVariable(Box::new(ty)) as abstract constructor"),
    Rule("R6", "ty . is_directly_callback_variable ( )", "is_directly_callback ( & ty )", why="TypeLayout::is_directly_callback_variable: the type IS the captured-variable wrapper (unit c02_type_predicates)"),
    Rule("R1", "self . name . clone ( )", "clone_str ( & self . name )", why="String clone"),
]


def ident_impl(src, log):
    parts = []
    for n, (sig, contract) in IDENT_FNS.items():
        f = src.fn(IDENT, n, "impl Ident")
        b = translate(f["body"], IDENT_RULES, log, f"Ident::{n}")
        if n == "wrap_in_callback":
            # by-value `self` (possibly `mut self`): bind it to a mutable local and use that throughout
            b = lex("let mut verif_self = self ;") + ["verif_self" if t == "self" else t for t in b]
            log.append(("R1", "self", "verif_self", "by-value (mut) self receiver -> mutable local"))
        check_closed(b, f"Ident::{n}")
        if n == "wrap_in_callback":
            b = Rule("R1", "let Some ( ty ) = verif_self . ty else { $$e } ;", "let Some ( ty ) = verif_self . ty else { $$e } ; verif_self . ty = None ;", why="ty moved out of the Option").apply(b, log) if False else b
        parts.append(f"    //@ OBL C10.ident.{n}\n    {sig}\n        {contract}\n    {{\n{render(b, 2)}\n    }}\n")
    return "impl Ident {\n" + "\n".join(parts) + "}\n"


def assign_rules(typed):
    R = [
        Rule("R6", "input . children ( )", "children ( & input )", why="pest API abstract"),
        Rule("R8", "children . next ( ) . unwrap ( )", "unwrap_node ( children . next ( ) )", why="unwrap of a child: panic precondition from the grammar"),
        Rule("R6", "ty . as_span ( )", "as_span ( & ty )", why="pest API abstract"),
        Rule("R6", "input . as_span ( )", "as_span ( & input )", why="pest API abstract"),
        Rule("R6", "Self :: ident ( ident ) . to_err_vec ( ) ?", "parse_ident ( ident ) ?", why="sub-parser abstract"),
        Rule("R6", "input . user_data ( ) . has_name_been_mapped_in_function ( $i . name ( ) )", "has_name_been_mapped_in_function ( & input , & $i . name )", why="scope lookup abstract"),
        Rule("R6", "input . user_data ( ) . get_ident_from_name_local ( $i . name ( ) )", "get_ident_from_name_local ( & input , & $i . name )", why="scope lookup abstract (innermost scope only)"),
        Rule("R6", "input . user_data ( ) . get_dependency_flags_from_name ( ident . name ( ) ) . map ( | x | x . 0 . to_owned ( ) )", "get_dependency_ident_from_name ( & input , & ident . name )", why="scope lookup abstract (the ident of the pair)"),
        Rule("R6", "map_err ( Assignment :: modify_target ( input . user_data ( ) , ident . name ( ) ) , $$rest ) . to_err_vec ( ) ?", "modify_target ( & input , & ident . name ) ?", why="abstract callee (obligation C07.modify.target-is-captured); diagnostic dropped"),
        Rule("R1", ". map ( | x | x . to_owned ( ) )", "", why="Option<&Ident> -> Option<Ident>: the abstract lookup already returns an owned ident"),
        Rule("R1", ". map ( | $p | Ident :: clone ( & $p ) )", "", why="Option<Ref<Ident>> -> Option<Ident>: the abstract lookup already returns an owned ident"),
        Rule("R1", ". map ( | $p | $p . clone ( ) )", "", why="Option<Ref<Ident>> -> Option<Ident>: the abstract lookup already returns an owned ident"),
        Rule("R1", ". map ( | $v | $v . clone ( ) )", "", why="Option<&Ident> -> Option<Ident>"),
        Rule("R1", ". cloned ( )", "", why="Option<&Ident> -> Option<Ident>"),
        Rule("R6", "Self :: r#type ( ty ) . to_err_vec ( ) ?", "parse_type ( ty ) ?", why="sub-parser abstract"),
        Rule("R6", "Self :: value ( value ) ?", "parse_value ( value ) ?", why="sub-parser abstract"),
        Rule("R6", "Self :: value ( rhs ) ?", "parse_value ( rhs ) ?", why="sub-parser abstract"),
        Rule("R6", "value . for_type ( & TypecheckFlags :: use_class ( self_type ) )", "value_for_type ( & value , self_type )", why="type query abstract"),
        Rule("R6", "! ty . as_ref ( ) . get_type_recursively ( ) . eq_complex ( assignment_ty . get_type_recursively ( ) , & TypecheckFlags :: use_class ( self_type ) . lhs_unwrap ( false ) , )",
             "! eq_complex ( & ty , assignment_ty , self_type , false )", why="declared.eq_complex(value type, lhs_unwrap(false)); callback wrappers disregarded on both sides"),
        Rule("R3", "let hint = $$a ; let message = $$b ; return Err ( $$c ) ;", "return Err ( VErr ) ;", why="diagnostic text dropped"),
        Rule("R6", "ident . link_force_no_inherit ( input . user_data ( ) , ty ) . to_err_vec ( ) ?", "link_force_no_inherit ( & mut ident , & input , ty , verif_reg ) ?", why="abstract callee (registers the typed identifier in the current scope)"),
        Rule("R6", "input . user_data ( ) . add_dependency ( & ident ) ;", "add_dependency ( verif_reg , & ident ) ;", why="AssocFileData::add_dependency: the scope's entry for the name"),
        Rule("R6", "ident . wrap_in_callback ( ) . to_err_vec ( ) ?", "ident . wrap_in_callback ( ) ?", why="error vector wrapper dropped"),
        Rule("R6", "Assignment :: new ( ident , value )", "assignment_new ( ident , value )", why="abstract constructor"),
        Rule("R6", "let user_data = input . user_data ( ) ;", "", why="scope data handle dropped"),
        Rule("R6", "value . associate_with_ident ( & mut ident , user_data )", "associate_with_ident ( & value , & mut ident , & input , verif_reg )", why="abstract callee (registers the typed identifier in the current scope)"),
        Rule("R6", "map_err_messages ( maybe_error , $$rest ) . to_err_vec ( ) ?", "map_err_messages ( maybe_error , as_span ( & input ) , & input ) ?", why="diagnostic text dropped"),
        Rule("R1", "let ident : Node =", "let ident =", why="type ascription on an abstract node"),
        Rule("R1", "let ty : Node =", "let ty =", why="type ascription"), Rule("R1", "let value : Node =", "let value =", why="type ascription"),
        Rule("R1", "let mut ident : Ident =", "let mut ident =", why="type ascription"), Rule("R1", "let value : Value =", "let value =", why="type ascription"),
    ]
    return R


def build(repo):
    src = Source(repo)
    log = []
    ident = ident_impl(src, log)
    ft = src.fn(AT, "assignment_type", "impl Parser")
    fn = src.fn(ANT, "assignment_no_type", "impl Parser")
    bt = translate(ft["body"], assign_rules(True), log, "Parser::assignment_type")
    bn = translate(fn["body"], assign_rules(False), log, "Parser::assignment_no_type")
    check_closed(bt, "assignment_type"); check_closed(bn, "assignment_no_type")
    common_post = """
        // the previous declaration the const / type checks of Parser::assignment are run against
        (r is Ok && !is_modify) ==> r->Ok_0.1 == lookup_in_function(&input, node_text(&node_children(&input)[0])),
        (r is Ok && is_modify) ==> r->Ok_0.1 == lookup_dependency(&input, node_text(&node_children(&input)[0])),
        // C07: what `modify` names -- innermost scope first, before this statement registers anything -- is a CAPTURED variable: a parameter or a variable
        // of this function is refused (D120)
        (r is Ok && is_modify && lookup_dependency(&input, node_text(&node_children(&input)[0])) is Some) ==>
            lookup_is_captured(&input, node_text(&node_children(&input)[0])) || registered_as_captured(lookup_dependency(&input, node_text(&node_children(&input)[0]))->Some_0),
        // the declared ident: named after the first child; `const` makes it read-only; `modify` marks it as a captured variable
        r is Ok ==> str_view(&assignment_ident(&r->Ok_0.0).name) == node_text(&node_children(&input)[0]),
        (r is Ok && is_const) ==> assignment_ident(&r->Ok_0.0).read_only,
        (r is Ok && is_modify) ==> assignment_ident(&r->Ok_0.0).ty is Some && is_callback_ty(assignment_ident(&r->Ok_0.0).ty->Some_0),
        // what the scope holds for the name afterwards IS the declared identifier: after a `modify` the name stands for the captured variable in the rest of
        // the function too (a later `modify` in a nested block finds it as such -- D116), after a declaration for the typed variable
        r is Ok ==> final(verif_reg).entry@ == Some(assignment_ident(&r->Ok_0.0)),"""
    gen = header(log, f"{IDENT}: Ident flag methods; {AT}: Parser::assignment_type; {ANT}: Parser::assignment_no_type") + prelude("parser.rs") + SPEC + ident + UD + f"""
//@ OBL C10.assignment_type
pub fn assignment_type(input: Node, is_const: bool, is_modify: bool, self_type: Option<&ClassType>, verif_reg: &mut Reg) -> (r: Result<(Assignment, Option<Ident>), VErr>)
    requires node_children(&input).len() >= 3          // grammar: assignment_type = {{ ident ~ ":" ~ type ~ "=" ~ value }}
    ensures{common_post}
        // C03: a typed declaration whose value has a known type that is not compatible with the declared type is rejected
        r is Ok ==> (type_of(&assignment_value(&r->Ok_0.0), self_type) is Some ==> exists|declared: TypeLayout| #[trigger] compatible(&declared, &type_of(&assignment_value(&r->Ok_0.0), self_type)->Some_0, self_type, false)),
{{
    broadcast use callback_facts;
{render(bt, 1)}
}}

//@ OBL C10.assignment_no_type
pub fn assignment_no_type(input: Node, is_const: bool, is_modify: bool, verif_reg: &mut Reg) -> (r: Result<(Assignment, Option<Ident>), VErr>)
    requires node_children(&input).len() >= 2          // grammar: assignment_no_type = {{ ident ~ "=" ~ value }}
    ensures{common_post}
{{
    broadcast use callback_facts;
{render(bn, 1)}
}}

}} // verus!
fn main() {{}}
"""
    obls = [Obl(f"C10.ident.{n}", ["C10", "C11"] + (["C07"] if n == "wrap_in_callback" else []), fn=f"Ident::{n}",
                desc=f"Ident::{n}: name / const flag / type as the const checks rely on" + ("; a captured variable seen from a deeper function is wrapped as captured ONCE (D119)" if n == "wrap_in_callback" else "")) for n in IDENT_FNS] + [
        Obl("C10.assignment_type", ["C10", "C03", "C07", "C02"], fn="assignment_type", desc="Parser::assignment_type: previous declaration = lookup over all blocks of the function (or the captured scopes for modify); const marks read-only; modify marks captured; incompatible typed initializer rejected"),
        Obl("C10.assignment_no_type", ["C10", "C07", "C02"], fn="assignment_no_type", desc="Parser::assignment_no_type: same lookup / flag contract for untyped assignments"),
    ]
    return gen, obls, log


UNITS = [VUnit("c10_assign", ["C10", "C03", "C07", "C11", "C02"], "Ident const flag propagation; assignment declaration side", build)]
UNITS[0].assumes = ["pest API, scope lookups and sub-parsers are abstract (arbitrary results): the contracts hold for every parse tree and context",
                    "child counts of the nodes are the grammar's productions (preconditions, not proved against pest)",
                    "the const test itself is in Parser::assignment (separate obligation); diagnostics' text is dropped"]


# =====================================================================================================================
# Expr::for_type, arm Expr::BinOp: the const test of the writing operators (`+=` family and `?=`) and the operator check
MATH = "compiler/src/ast/math_expr.rs"
FT_SPEC = r"""
pub struct Ident { pub name: VStr, pub ty: Option<TypeLayout>, pub read_only: bool }
impl Ident {
    pub fn is_const(&self) -> (r: bool) ensures r == self.read_only { self.read_only }
    #[verifier::external_body] pub fn name(&self) -> (r: &VStr) ensures *r == self.name { unimplemented!() }
}
#[verifier::external_body] pub struct ExprV { x: usize }
pub enum ValueE { Ident(Ident), MathExpr(Box<Expr>), Other(ExprV) }
impl ValueE {
    #[verifier::external_body] pub fn for_type(&self, f: &Flags) -> (r: Result<TypeLayout, VErr>) { unimplemented!() }     // Value::for_type (abstract)
}
pub enum Expr { Value(ValueE), Index { lhs_raw: Box<Expr>, x: ExprV }, DotLookup { lhs: Box<Expr>, expected_type: TypeLayout, x: ExprV },
                UnaryUnwrap { value: Box<Expr>, span: ExprV }, NilEval { primary: Box<Expr>, fallback: ValueE }, Other(ExprV) }
// THE VARIABLES A PLACE IS ROOTED AT (from the property: "index or field assignment rooted at it"): the variables whose object the store may
// go into.  `a[0].x[1]` -> a; `get a` is the object a holds -> a; `(a) or b` is a's object when a is present and b's otherwise -> both
pub open spec fn roots(e: Expr) -> Set<Ident> decreases e {
    match e {
        Expr::Value(ValueE::Ident(i)) => set![i],
        Expr::Value(ValueE::MathExpr(x)) => roots(*x),
        Expr::Index { lhs_raw, .. } => roots(*lhs_raw),
        Expr::DotLookup { lhs, .. } => roots(*lhs),
        Expr::UnaryUnwrap { value, .. } => roots(*value),
        Expr::NilEval { primary, fallback } => roots(*primary).union(roots_v(fallback)),
        _ => Set::empty(),
    }
}
// a value: a name, or an expression in its own right
pub open spec fn roots_v(v: ValueE) -> Set<Ident> decreases v {
    match v { ValueE::Ident(i) => set![i], ValueE::MathExpr(x) => roots(*x), _ => Set::empty() }
}
// std: Option::or
pub assume_specification<T>[Option::<T>::or](a: Option<T>, b: Option<T>) -> (r: Option<T>) ensures r == (if a is Some { a } else { b });
// "one of them is const" (the same recursion, folded: no quantifier for the solver to instantiate)
pub open spec fn has_const_root(e: Expr) -> bool decreases e {
    match e {
        Expr::Value(ValueE::Ident(i)) => i.read_only,
        Expr::Value(ValueE::MathExpr(x)) => has_const_root(*x),
        Expr::Index { lhs_raw, .. } => has_const_root(*lhs_raw),
        Expr::DotLookup { lhs, .. } => has_const_root(*lhs),
        Expr::UnaryUnwrap { value, .. } => has_const_root(*value),
        Expr::NilEval { primary, fallback } => has_const_root(*primary) || has_const_root_v(fallback),
        _ => false,
    }
}
pub open spec fn has_const_root_v(v: ValueE) -> bool decreases v {
    match v { ValueE::Ident(i) => i.read_only, ValueE::MathExpr(x) => has_const_root(*x), _ => false }
}
pub proof fn lemma_const_root(e: Expr) ensures has_const_root(e) <==> exists|i: Ident| #[trigger] roots(e).contains(i) && i.read_only decreases e {
    match e {
        Expr::Value(ValueE::Ident(i)) => { assert(roots(e).contains(i)); assert forall|j: Ident| roots(e).contains(j) implies j == i by {} }
        Expr::Value(ValueE::MathExpr(x)) => { lemma_const_root(*x); assert(roots(e) == roots(*x)); }
        Expr::Value(ValueE::Other(_)) => {}
        Expr::Index { lhs_raw, .. } => { lemma_const_root(*lhs_raw); assert(roots(e) == roots(*lhs_raw)); }
        Expr::DotLookup { lhs, .. } => { lemma_const_root(*lhs); assert(roots(e) == roots(*lhs)); }
        Expr::UnaryUnwrap { value, .. } => { lemma_const_root(*value); assert(roots(e) == roots(*value)); }
        Expr::NilEval { primary, fallback } => {
            lemma_const_root(*primary); lemma_const_root_v(fallback);
            assert forall|j: Ident| roots(e).contains(j) <==> (roots(*primary).contains(j) || roots_v(fallback).contains(j)) by {}
        }
        Expr::Other(_) => {}
    }
}
pub proof fn lemma_const_root_v(v: ValueE) ensures has_const_root_v(v) <==> exists|i: Ident| #[trigger] roots_v(v).contains(i) && i.read_only decreases v {
    match v {
        ValueE::Ident(i) => { assert(roots_v(v).contains(i)); assert forall|j: Ident| roots_v(v).contains(j) implies j == i by {} }
        ValueE::MathExpr(x) => { lemma_const_root(*x); assert(roots_v(v) == roots(*x)); }
        ValueE::Other(_) => {}
    }
}
#[derive(PartialEq, Eq)]
pub enum Op { Add, Subtract, Multiply, Divide, Modulo, Lt, Gt, Lte, Gte, Eq, Neq, And, Or, Xor, Unwrap, AddAssign, SubAssign, MulAssign, DivAssign, ModAssign, BinaryXor, BinaryOr, BinaryAnd, BitwiseLs, BitwiseRs, Is }
pub open spec fn op_assigns(o: Op) -> bool { o is AddAssign || o is SubAssign || o is MulAssign || o is DivAssign || o is ModAssign }
// every operator that stores into its left operand
pub open spec fn op_writes(o: Op) -> bool { op_assigns(o) || o is Unwrap }
pub fn is_op_assign(o: &Op) -> (r: bool) ensures r == op_assigns(*o) { o.is_op_assign() }
#[verifier::external_body] pub struct Flags { x: usize }
// the recursive type query on an operand (abstract: arbitrary result)
pub uninterp spec fn expr_type(e: &Expr, f: &Flags) -> Option<TypeLayout>;
#[verifier::external_body] pub fn expr_for_type(e: &Expr, f: &Flags) -> (r: Result<TypeLayout, VErr>) ensures r is Ok <==> expr_type(e, f) is Some, r is Ok ==> r->Ok_0 == expr_type(e, f)->Some_0 { unimplemented!() }
// the static operator table (unit c02_optable) incl. its wrappers
pub uninterp spec fn output_type(l: &TypeLayout, r: &TypeLayout, o: Op, f: &Flags) -> Option<TypeLayout>;
#[verifier::external_body] pub fn get_output_type(l: &TypeLayout, r: &TypeLayout, o: &Op, f: &Flags) -> (res: Option<TypeLayout>) ensures res == output_type(l, r, *o, f) { unimplemented!() }
#[verifier::external_body] pub fn clone_ty(t: &TypeLayout) -> (r: TypeLayout) ensures r == *t { unimplemented!() }
pub uninterp spec fn compat_f(expected: TypeLayout, supplied: TypeLayout, f: Flags) -> bool;        // TypeLayout::eq_complex under the given flags
pub trait VerifEq { fn eq_complex(&self, other: &TypeLayout, f: &Flags) -> bool; }
impl VerifEq for TypeLayout {
    #[verifier::external_body] fn eq_complex(&self, other: &TypeLayout, f: &Flags) -> (r: bool) ensures r == compat_f(*self, *other, *f) { unimplemented!() }
}
#[verifier::external_body] pub fn opt_ctx(o: Option<TypeLayout>) -> (r: Result<TypeLayout, VErr>) ensures r is Ok <==> o is Some, r is Ok ==> Some(r->Ok_0) == o { unimplemented!() }
// "this type (aliases / optional / captured wrappers looked through) is a module" -- abstract kind test
pub uninterp spec fn is_module_ty(t: TypeLayout) -> bool;
#[verifier::external_body] pub fn type_is_module(t: &TypeLayout) -> (r: bool) ensures r == is_module_ty(*t) { unimplemented!() }
pub uninterp spec fn raw_is_module_ty(t: TypeLayout) -> bool;           // the same test on the type as written: NOT known to see every module value
#[verifier::external_body] pub fn raw_type_is_module(t: &TypeLayout) -> (r: bool) ensures r == raw_is_module_ty(*t) { unimplemented!() }
"""


def build_for_type(repo):
    from vlib.extract import extract_match_arm
    src = Source(repo)
    log = []
    f = src.fn(MATH, "for_type", "impl Expr")
    try:
        arm = extract_match_arm(f["body"], "Expr :: BinOp { lhs , op , rhs }")
    except Exception as e:
        raise Undecided(f"{MATH}: arm Expr::BinOp of Expr::for_type not found: {e}")
    rules = [
        Rule("R3", "bail ! $a", "return Err ( VErr )", why="bail! -> return Err (diagnostic text dropped)"),
        Rule("R1", "op . is_op_assign ( )", "is_op_assign ( op )", why="Op::is_op_assign with its spec"),
        Rule("R1", "lhs . as_ref ( )", "lhs", why="Box<Expr> deref"),
        Rule("R1", "Cow :: Owned ( $$e )", "$$e", why="Cow -> owned value"),
        Rule("R1", "Cow :: Borrowed ( expected_type )", "clone_ty ( expected_type )", why="Cow::Borrowed -> copy of the type"),
        Rule("R6", "index . for_type ( flags ) ?", "expr_for_type ( index , flags ) ?", why="recursive type query abstract"),
        Rule("R6", "lhs . for_type ( flags ) ?", "expr_for_type ( lhs , flags ) ?", why="recursive type query abstract"),
        Rule("R6", "rhs . for_type ( flags ) ?", "expr_for_type ( rhs , flags ) ?", why="recursive type query abstract"),
        Rule("R1", "index @ Expr :: Index { .. }", "Expr :: Index { .. }", why="binding of the scrutinee itself"),
        Rule("R1", "lookup @ Expr :: DotLookup", "Expr :: DotLookup", why="binding of the scrutinee itself"),
        Rule("R6", "matches ! ( object . for_type ( flags ) ? . disregard_distractors ( false ) , TypeLayout :: Module ( .. ) )", "type_is_module ( & expr_for_type ( & * * object , flags ) ? )", why="kind test on the (unwrapped) type of the object: abstract predicate"),
        Rule("R6", "matches ! ( object . for_type ( flags ) ? , TypeLayout :: Module ( .. ) )", "raw_type_is_module ( & expr_for_type ( & * * object , flags ) ? )", why="kind test on the type as written: a different abstract predicate"),
        Rule("R1", "index . root_ident ( )", "lhs . root_ident ( )", why="`index @ pattern` names the scrutinee"),
        Rule("R1", "lookup . root_ident ( )", "lhs . root_ident ( )", why="`lookup @ pattern` names the scrutinee"),
        Rule("R6", "lhs . get_output_type ( & rhs , op , flags ) . with_context ( $$c ) ?", "opt_ctx ( get_output_type ( & lhs , & rhs , op , flags ) ) ?", why="operator table abstract; context text dropped"),
        Rule("R6", "lhs . get_output_type ( & rhs , op , flags ) . with_context ( $$c )", "opt_ctx ( get_output_type ( & lhs , & rhs , op , flags ) )", why="operator table abstract; context text dropped"),
        Rule("R1", "Value :: Ident", "ValueE :: Ident", why="enum renamed in the model"),
        Rule("R6", "expr_for_type ( index , flags )", "expr_for_type ( lhs , flags )", why="`index @ pattern` names the scrutinee"),
    ]
    b = translate(arm["body"], rules, log, "Expr::for_type[BinOp]")
    b = ["lhs_e" if (t == "lhs" and False) else t for t in b]
    check_closed(b, "Expr::for_type[BinOp]")
    # cost discipline (C16): the same text with every recursive type query counted -- an operand is typed at most once per level
    b_once, k = [], 0
    while k < len(b):
        if b[k] == "expr_for_type" and k + 1 < len(b) and b[k + 1] == "(":
            c = match_close(b, k + 1)
            b_once += ["expr_for_type_once", "("] + b[k + 2:c] + [",", "verif_typed", ")"]
            k = c + 1
        else:
            b_once.append(b[k]); k += 1
    # inside the Index arm `index` names the scrutinee: bind it
    txt = render(b, 1)
    fia = src.fn(MATH, "is_op_assign", "impl Op")
    bia = translate(fia["body"], [Rule("R9", "matches ! ( self , $$p )", "( match self { $$p => true , _ => false } )", count=1, why="matches! -> match"),
                                  Rule("R1", "use Op :: * ;", "", why="glob import of the variants: written qualified")], log, "Op::is_op_assign")
    bia = [("Op :: " + t) if t in ("AddAssign", "SubAssign", "MulAssign", "DivAssign", "ModAssign", "Add", "Subtract", "Multiply", "Divide", "Modulo", "Unwrap") else t for t in bia]
    bia = lex(" ".join(bia))
    check_closed(bia, "Op::is_op_assign")
    froot = src.fn(MATH, "root_ident", "impl Expr")
    broot = translate(froot["body"], [Rule("R1", "Value :: Ident", "ValueE :: Ident", why="enum renamed in the model"),
                                      Rule("R1", "$x . as_ref ( )", "( & * * $x )", why="Box<Expr>::as_ref on a by-reference binding")], log, "Expr::root_ident")
    check_closed(broot, "Expr::root_ident")
    VALUE = "compiler/src/ast/value.rs"
    fvroot = src.fn(VALUE, "root_ident", "impl Value")
    bvroot = translate(fvroot["body"], [Rule("R1", "Value :: Ident", "ValueE :: Ident", why="enum renamed in the model"),
                                        Rule("R1", "Value :: MathExpr", "ValueE :: MathExpr", why="enum renamed in the model")], log, "Value::root_ident")
    check_closed(bvroot, "Value::root_ident")
    gen = header(log, f"{MATH}: Expr::for_type, arm Expr::BinOp; Expr::root_ident") + prelude("parser.rs") + FT_SPEC + f"""
impl Op {{
    //@ OBL C10.op.is_op_assign
    // the operators whose const test for_type runs: every compound assignment
    pub fn is_op_assign(&self) -> (r: bool) ensures r == op_assigns(*self)
    {{
{render(bia, 2)}
    }}
}}
impl ValueE {{
    //@ OBL C10.root_ident.value
    pub fn root_ident(&self) -> (r: Option<&Ident>)
        ensures
            r is Some ==> roots_v(*self).contains(*r->Some_0),
            has_const_root_v(*self) ==> r is Some && r->Some_0.read_only,
        decreases self
    {{
{render(bvroot, 2)}
    }}
}}
impl Expr {{
    //@ OBL C10.root_ident
    pub fn root_ident(&self) -> (r: Option<&Ident>)
        ensures
            r is Some ==> roots(*self).contains(*r->Some_0),       // a variable the place is rooted at ...
            has_const_root(*self) ==> r is Some && r->Some_0.read_only,   // ... and a const one whenever there is one
        decreases self
    {{
{render(broot, 2)}
    }}
}}

//@ OBL C10.for_type.binop
pub fn for_type_binop(lhs: &Expr, op: &Op, rhs: &Expr, flags: &Flags) -> (r: Result<TypeLayout, VErr>)
    ensures
        // C10: every operator that stores into its left operand is rejected when that operand is a const name
        (r is Ok && op_writes(*op) && lhs is Value && lhs->Value_0 is Ident) ==> !lhs->Value_0->Ident_0.read_only,
        // ... including an element or field reached through a const variable
        (r is Ok && op_assigns(*op)) ==> !has_const_root(*lhs),
        // ... and a member of a MODULE, whatever (non-const) name the module value is reached through: `x = m; x.k += 3` must not change m's export
        (r is Ok && op_assigns(*op) && lhs is DotLookup) ==> !(expr_type(&*lhs->DotLookup_lhs, flags) is Some && is_module_ty(expr_type(&*lhs->DotLookup_lhs, flags)->Some_0)),
        // C03 / C16: a compound assignment is accepted only onto an assignable place: a name, an element or a field (code generation
        // has no case for anything else and would panic)
        (r is Ok && op_assigns(*op)) ==> (lhs is Value && lhs->Value_0 is Ident) || lhs is Index || lhs is DotLookup,
        // `?=` binds a NAME: accepted only with a variable name on its left (code generation has no other case)
        (r is Ok && *op is Unwrap) ==> lhs is Value && lhs->Value_0 is Ident,
        // C03: an accepted binary operation is supported by the operator table for the operand types
        r is Ok ==> exists|l: TypeLayout, rt: TypeLayout| #[trigger] output_type(&l, &rt, *op, flags) == Some(r->Ok_0)
                        // C02: `x op= v` stores the result back into x, so the result must still have x's type (int += float would leave a float in an int)
                        && (op_assigns(*op) ==> compat_f(l, r->Ok_0, *flags)),
{{
{txt}
}}

// ---- C16 (terminates promptly): the type of a BinOp is not cached, so typing an operand TWICE at one level makes the cost of a chain `a op b op c ..` (a left-deep
// tree) 2^length.  Every recursive type query of the arm consumes the right to type that operand: a second query of the same operand is a violated precondition.
pub struct Typed {{ pub s: Ghost<Set<int>> }}
pub uninterp spec fn expr_id(e: &Expr) -> int;
#[verifier::external_body] pub fn expr_for_type_once(e: &Expr, f: &Flags, t: &mut Typed) -> (r: Result<TypeLayout, VErr>)
    requires !old(t).s@.contains(expr_id(e))
    ensures final(t).s@ == old(t).s@.insert(expr_id(e)), r is Ok <==> expr_type(e, f) is Some, r is Ok ==> r->Ok_0 == expr_type(e, f)->Some_0 {{ unimplemented!() }}
//@ OBL C16.for_type.operands-once
pub fn for_type_binop_once(lhs: &Expr, op: &Op, rhs: &Expr, flags: &Flags, verif_typed: &mut Typed) -> (r: Result<TypeLayout, VErr>)
    requires old(verif_typed).s@ == Set::<int>::empty(), expr_id(lhs) != expr_id(rhs),
             // the object of a field access is a part of the left operand, not the operand itself
             lhs is DotLookup ==> expr_id(&*lhs->DotLookup_lhs) != expr_id(lhs) && expr_id(&*lhs->DotLookup_lhs) != expr_id(rhs),
{{
{render(b_once, 1)}
}}
}} // verus!
fn main() {{}}
"""
    return gen, [Obl("C16.for_type.operands-once", ["C16"], fn="Expr::for_type[BinOp]", desc="Expr::for_type (BinOp): each operand is typed at most once per level (BinOp types are not cached: a second query per level makes an operator chain cost 2^length)"),
                 Obl("C10.op.is_op_assign", ["C10", "C03", "C02"], fn="Op::is_op_assign", desc="Op::is_op_assign: true exactly for += -= *= /= %= (the operators whose const test Expr::for_type runs)"),
                 Obl("C10.root_ident.value", ["C10"], fn="Value::root_ident", desc="Value::root_ident: the same for a value (a name, or an expression in its own right)"),
                 Obl("C10.root_ident", ["C10"], fn="Expr::root_ident", desc="Expr::root_ident: a variable the place is rooted at -- through index, field, `get` and `or` -- and a const one whenever there is one"),
                 Obl("C10.for_type.binop", ["C10", "C03", "C16", "C02", "C11"], fn="for_type_binop",
                     desc="Expr::for_type (BinOp): `+= -= *= /= %=` and `?=` on a const name are rejected; an accepted operation has an entry in the operator table")], log


UNITS.append(VUnit("c10_for_type", ["C10", "C03", "C16", "C02", "C11"], "const test of the writing operators; operator check", build_for_type))


# =====================================================================================================================
# Parser::number_loop, tail: the loop counter name (collision with an existing variable, const test) -- C01 / C10
NL = "compiler/src/ast/number_loop.rs"
NL_SPEC = r"""
pub struct Ident { pub name: VStr, pub ty: Option<TypeLayout>, pub read_only: bool }
impl Ident {
    pub fn is_const(&self) -> (r: bool) ensures r == self.read_only { self.read_only }
}
#[verifier::external_body] pub fn ident_ty(i: &Ident) -> (r: &TypeLayout) requires i.ty is Some ensures *r == i.ty->Some_0 { unimplemented!() }   // ty().unwrap(): R8
pub uninterp spec fn lookup_in_function(n: &Node, name: Seq<char>) -> Option<Ident>;
pub uninterp spec fn lookup_local(n: &Node, name: Seq<char>) -> Option<Ident>;
// idents registered in a scope are typed (AssocFileData::add_dependency is only called on typed idents): assumed
#[verifier::external_body] pub fn has_name_been_mapped_in_function(n: &Node, name: &VStr) -> (r: Option<Ident>) ensures r == lookup_in_function(n, str_view(name)), r is Some ==> r->Some_0.ty is Some { unimplemented!() }
#[verifier::external_body] pub fn get_ident_from_name_local(n: &Node, name: &VStr) -> (r: Option<Ident>) ensures r == lookup_local(n, str_view(name)), r is Some ==> r->Some_0.ty is Some { unimplemented!() }
pub uninterp spec fn lookup_dependency(n: &Node, name: Seq<char>) -> Option<Ident>;      // every visible scope, captured variables of enclosing functions included
#[verifier::external_body] pub fn get_dependency_ident_from_name(n: &Node, name: &VStr) -> (r: Option<Ident>) ensures r == lookup_dependency(n, str_view(name)), r is Some ==> r->Some_0.ty is Some { unimplemented!() }
#[verifier::external_body] pub struct Block { x: usize }
pub struct NumberLoop { pub inclusive: bool, pub val_start: Value, pub val_end: Value, pub step: Option<Value>, pub name: Option<Ident>, pub body: Block, pub name_is_collision: bool }
pub uninterp spec fn inclusive_rule(n: &Node) -> bool;
#[verifier::external_body] pub fn is_inclusive_rule(n: &Node) -> (r: bool) ensures r == inclusive_rule(n) { unimplemented!() }
#[verifier::external_body] pub fn unwrap_block(b: Option<Block>) -> (r: Block) requires b is Some ensures Some(r) == b { unimplemented!() }
#[verifier::external_body] pub fn opt_fst_ident(o: Option<(Ident, Span)>) -> (r: Option<Ident>) ensures o is None ==> r is None, o is Some ==> r == Some(o->Some_0.0) { unimplemented!() }
#[verifier::external_body] pub fn opt_fst_value(o: Option<(Value, Span)>) -> (r: Option<Value>) ensures o is None ==> r is None, o is Some ==> r == Some(o->Some_0.0) { unimplemented!() }
#[verifier::external_body] pub fn span_of_name(o: Option<(Ident, Span)>) -> (r: Span) { unimplemented!() }
"""


def slice_from(body, start_pat):
    p = Pat(start_pat)
    for i in range(len(body)):
        if p.match_at(body, i):
            return body[i:]
    raise Undecided(f"fragment start `{start_pat}` not found")


def build_number_loop(repo):
    src = Source(repo)
    log = []
    f = src.fn(NL, "number_loop", "impl Parser")
    frag = slice_from(f["body"], "let name_is_collision =")
    rules = [
        Rule("R3", "return Err ( vec ! [ new_err ( $$a ) ] ) ;", "return Err ( VErr ) ;", why="diagnostic dropped"),
        Rule("R9", "name . as_ref ( ) . and_then ( | ( ident , _ ) | { $$b } )", "match & name { Some ( ( ident , _ ) ) => { $$b } , None => None }", why="Option::and_then with a closure -> match"),
        Rule("R6", "input . user_data ( ) . has_name_been_mapped_in_function ( $i . name ( ) )", "has_name_been_mapped_in_function ( & input , & $i . name )", why="scope lookup abstract"),
        Rule("R6", "input . user_data ( ) . get_ident_from_name_local ( $i . name ( ) )", "get_ident_from_name_local ( & input , & $i . name )", why="scope lookup abstract (innermost scope only)"),
        Rule("R6", "input . user_data ( ) . get_dependency_flags_from_name ( $i . name ( ) ) . map ( | ( $p , _ ) | $p . clone ( ) )", "get_dependency_ident_from_name ( & input , & $i . name )", why="scope lookup abstract (every visible scope: beyond the function too)"),
        Rule("R1", ". map ( | $v | $v . clone ( ) )", "", why="Option<&Ident> -> Option<Ident>: the abstract lookup already returns an owned ident"),
        Rule("R1", ". cloned ( )", "", why="Option<&Ident> -> Option<Ident>"),
        Rule("R6", "! collision . ty ( ) . unwrap ( ) . eq_complex ( & step_output_type , & TypecheckFlags :: < & ClassType > :: classless ( ) , )",
             "! eq_complex ( ident_ty ( collision ) , & step_output_type , None , false )", why="existing.eq_complex(counter type) classless"),
        Rule("R6", "inclusive_or_exclusive . as_rule ( ) == Rule :: number_loop_inclusive", "is_inclusive_rule ( & inclusive_or_exclusive )", why="pest rule test abstract"),
        Rule("R8", "body . unwrap ( )", "unwrap_block ( body )", why="unwrap: the grammar guarantees a body block (precondition)"),
        Rule("R9", "name . map ( | ( name , _ ) | name )", "opt_fst_ident ( name )", why="Option::map(first of pair)"),
        Rule("R9", "step . map ( | ( val , _ ) | val )", "opt_fst_value ( step )", why="Option::map(first of pair)"),
    ]
    b = translate(frag, rules, log, "Parser::number_loop[tail]")
    check_closed(b, "number_loop[tail]")
    gen = header(log, f"{NL}: Parser::number_loop, from `let name_is_collision = ..` to the end") + prelude("parser.rs") + NL_SPEC + f"""
//@ OBL C10.number_loop.counter
pub fn number_loop_tail(input: Node, name: Option<(Ident, Span)>, step: Option<(Value, Span)>, body: Option<Block>, val_start: Value, val_end: Value,
                        inclusive_or_exclusive: Node, step_output_type: TypeLayout) -> (r: Result<NumberLoop, VErr>)
    requires body is Some                                   // grammar: a `from` loop always has a block
    ensures r is Ok ==> ({{
        let existing = if name is Some {{ lookup_in_function(&input, str_view(&name->Some_0.0.name)) }} else {{ None::<Ident> }};
        // C01: the counter is "colliding" exactly when a variable of that name is visible in ANY enclosing block of the function
        &&& r->Ok_0.name_is_collision == (existing is Some)
        // C10: a const variable is never reused (and thereby overwritten) as a loop counter
        &&& (existing is Some ==> !existing->Some_0.read_only)
        // C03: the existing variable's type accepts the counter's type
        &&& (existing is Some ==> compatible(&existing->Some_0.ty->Some_0, &step_output_type, None, false))
        &&& r->Ok_0.inclusive == inclusive_rule(&inclusive_or_exclusive)
        &&& (name is Some ==> r->Ok_0.name == Some(name->Some_0.0)) && (name is None ==> r->Ok_0.name is None)
    }})
{{
{render(b, 1)}
}}
}} // verus!
fn main() {{}}
"""
    return gen, [Obl("C10.number_loop.counter", ["C10", "C01", "C03", "C07"], fn="number_loop_tail",
                     desc="Parser::number_loop (tail): collision flag = lookup over all blocks of the function; a const or incompatible existing variable is rejected as counter; to/through flag from the grammar rule")], log


UNITS.append(VUnit("c10_number_loop", ["C10", "C01", "C03", "C07"], "from-loop counter: collision lookup, const test", build_number_loop))


# =====================================================================================================================
# Parser::assignment, tail: the const / type test of `=` and `modify` against the previous declaration
ASG = "compiler/src/ast/assignment.rs"
ASG_SPEC = NL_SPEC.split("#[verifier::external_body] pub struct Block")[0] + r"""
pub struct AssignmentM { pub idents: Vec<Ident>, pub value: Value }
#[verifier::external_body] pub fn opt_as_ref(o: &Option<Ident>) -> (r: Option<&Ident>) ensures o is None ==> r is None, o is Some ==> r == Some(&o->Some_0) { unimplemented!() }
// Assignment::can_modify_if_applicable (its own lookup of the target; abstract here)
pub uninterp spec fn can_modify_spec(n: &Node, a: &AssignmentM, is_modify: bool) -> Option<bool>;
#[verifier::external_body] pub fn can_modify_if_applicable(a: &AssignmentM, n: &Node, is_modify: bool) -> (r: Result<bool, VErr>)
    ensures r is Ok <==> can_modify_spec(n, a, is_modify) is Some, r is Ok ==> r->Ok_0 == can_modify_spec(n, a, is_modify)->Some_0 { unimplemented!() }
"""


def build_assignment_tail(repo):
    src = Source(repo)
    log = []
    f = src.fn(ASG, "assignment", "impl Parser")
    frag = slice_from(f["body"], "if x . idents . len ( ) == 1 { if let Some ( previous_ident )")
    rules = [
        Rule("R3", "return Err ( vec ! [ new_err ( $$a ) ] ) ;", "return Err ( VErr ) ;", why="diagnostic dropped"),
        Rule("R1", "did_exist_before . as_ref ( )", "opt_as_ref ( & did_exist_before )", why="Option::as_ref"),
        Rule("R6", "! previous_ident . ty ( ) . unwrap ( ) . eq_complex ( ident . ty ( ) . unwrap ( ) , & TypecheckFlags :: use_class ( self_type . as_ref ( ) ) , )",
             "! eq_complex ( ident_ty ( previous_ident ) , ident_ty ( ident ) , self_type , false )", why="previous.eq_complex(new)"),
        Rule("R6", "! previous_ty . ty ( ) . unwrap ( ) . eq_complex ( x . idents [ 0 ] . ty ( ) . unwrap ( ) , & TypecheckFlags :: use_class ( self_type . as_ref ( ) ) , )",
             "! eq_complex ( ident_ty ( & previous_ty ) , ident_ty ( & x . idents [ 0 ] ) , self_type , false )", why="previous.eq_complex(new)"),
        Rule("R6", "map_err ( x . can_modify_if_applicable ( user_data , is_modify ) , $$rest ) . to_err_vec ( ) ?", "can_modify_if_applicable ( & x , & input , is_modify ) ?", why="abstract callee; diagnostic dropped"),
    ]
    b = translate(frag, rules, log, "Parser::assignment[tail]")
    check_closed(b, "assignment[tail]")
    gen = header(log, f"{ASG}: Parser::assignment, from the checks against the previous declaration to the end") + prelude("parser.rs") + ASG_SPEC + f"""
//@ OBL C10.assignment.const-test
pub fn assignment_tail(input: Node, x: AssignmentM, did_exist_before: Option<Ident>, is_modify: bool, is_const: bool, is_export: bool, self_type: Option<&ClassType>) -> (r: Result<AssignmentM, VErr>)
    // (is_const / is_export: the declaration's own qualifiers, locals of Parser::assignment in scope here -- the const test must not depend on them)
    requires
        forall|i: int| 0 <= i < x.idents@.len() ==> (#[trigger] x.idents@[i]).ty is Some,      // assignment_* link a type to every declared ident
        did_exist_before is Some ==> did_exist_before->Some_0.ty is Some,                      // registered idents are typed
    ensures
        // C10: `=` / `modify` on a single name is accepted only if the previous declaration of that name (the lookup result
        // handed over by assignment_type / assignment_no_type) is not const ...
        (r is Ok && x.idents@.len() == 1 && did_exist_before is Some) ==> !did_exist_before->Some_0.read_only,
        // ... C03: and has a type the new value's type is compatible with
        (r is Ok && x.idents@.len() == 1 && did_exist_before is Some) ==> compatible(&did_exist_before->Some_0.ty->Some_0, &x.idents@[0].ty->Some_0, self_type, false),
        // and the target may be modified according to its own scope lookup whenever a previous declaration exists or `modify` is used
        (r is Ok && x.idents@.len() == 1 && (did_exist_before is Some || is_modify)) ==> can_modify_spec(&input, &x, is_modify) == Some(true),
        r is Ok ==> r->Ok_0 == x,
{{
{render(b, 1)}
}}
}} // verus!
fn main() {{}}
"""
    return gen, [Obl("C10.assignment.const-test", ["C10", "C03"], fn="assignment_tail",
                     desc="Parser::assignment (tail): an assignment / modify to an existing single name is rejected when the previous declaration is const or has an incompatible type")], log


UNITS.append(VUnit("c10_assignment", ["C10", "C03"], "const / type test of `=` and `modify` against the previous declaration", build_assignment_tail))


# =====================================================================================================================
# Parser::number_loop, middle: `from` bounds must be numeric (C02 / C03)
NB_SPEC = r"""
pub uninterp spec fn spec_is_numeric(t: TypeLayout, allow_byte: bool) -> bool;
pub uninterp spec fn spec_is_float(t: TypeLayout) -> bool;
pub uninterp spec fn stripped(t: TypeLayout, include_optional: bool) -> TypeLayout;
impl TypeLayout {
    #[verifier::external_body] pub fn is_numeric(&self, allow_byte: bool) -> (r: bool) ensures r == spec_is_numeric(*self, allow_byte) { unimplemented!() }
    #[verifier::external_body] pub fn is_float(&self) -> (r: bool) ensures r == spec_is_float(*self) { unimplemented!() }
    #[verifier::external_body] pub fn disregard_distractors(&self, include_optional: bool) -> (r: &TypeLayout) ensures *r == stripped(*self, include_optional) { unimplemented!() }
}
"""


def build_number_bounds(repo):
    src = Source(repo)
    log = []
    f = src.fn(NL, "number_loop", "impl Parser")
    frag = slice_from(f["body"], "if ! start_ty . is_numeric (")
    p_end = Pat("let name_is_collision =")
    end = None
    for i in range(len(frag)):
        if p_end.match_at(frag, i):
            end = i; break
    if end is None:
        raise Undecided("number_loop: end of the bounds checks (`let name_is_collision =`) not found")
    frag = frag[:end]
    b = translate(frag, [
        Rule("R3", "return Err ( vec ! [ new_err ( $$a ) ] ) ;", "return Err ( VErr ) ;", why="diagnostic dropped (that a diagnostic IS returned is kept)"),
        Rule("R10", "number_loop_scope . consume ( ) ;", "", why="scope handle: not part of the bounds checks"),
        Rule("R1", "let span = if start_is_float { val_start_span } else { val_end_span } ;", "", why="span only feeds the diagnostic"),
    ], log, "Parser::number_loop[bounds]")
    check_closed(b, "number_loop[bounds]")
    gen = header(log, f"{NL}: Parser::number_loop, the numeric-bounds checks (from `if !start_ty.is_numeric(..)` up to `let name_is_collision`)") + prelude("parser.rs") + NB_SPEC + f"""
//@ OBL C02.number_loop.bounds
pub fn number_loop_bounds(start_ty: TypeLayout, end_ty: TypeLayout, step: Option<(Value, Span)>) -> (r: Result<(), VErr>)
    ensures
        // a `from` loop is accepted only with numeric start AND end bounds (the run-time comparison `counter < end` needs numbers)
        r is Ok ==> spec_is_numeric(start_ty, true) && spec_is_numeric(end_ty, true),
        // mixing a float bound with a non-float bound needs an explicit step
        r is Ok ==> (spec_is_float(start_ty) != spec_is_float(end_ty) ==> step is Some),
{{
{render(b, 1)}
    Ok(())
}}
}} // verus!
fn main() {{}}
"""
    return gen, [Obl("C02.number_loop.bounds", ["C02", "C03"], fn="Parser::number_loop[bounds]", desc="Parser::number_loop: both bounds must be numeric; a float bound mixed with a non-float bound needs an explicit step")], log


UNITS.append(VUnit("c02_number_bounds", ["C02", "C03"], "from-loop bounds must be numeric", build_number_bounds))
UNITS[-1].assumes = ["fragment: the checks between the operator-table test of the step and the counter-name handling; start_ty / end_ty are the types Value::for_type delivered for the bounds"]

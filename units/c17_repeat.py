"""C14 / C17: string repetition -- the `str * int`, `str * bigint`, `int * str`, `bigint * str` arms of `impl Mul for &Primitive`
(bytecode/src/variables/ops/mul.rs) and their helper `repeat_str` (V-t).  `s * n` is n copies of s; a negative count, or a count for
which the result cannot exist (`str::repeat` panics with `capacity overflow`), is a failure of the program -- never a panic."""
from vlib.rules import *
from vlib.extract import extract_match_arm

FILE = "bytecode/src/variables/ops/mul.rs"

SPEC = r"""
use vstd::prelude::*;
verus! {
pub struct VErr;
#[verifier::external_body] pub struct OtherV { x: usize }
#[verifier::external_body] pub struct Str { s: String }
pub uninterp spec fn bytes(s: &Str) -> Seq<u8>;
impl Str {
    #[verifier::external_body] pub fn to_owned(&self) -> (r: Str) ensures bytes(&r) == bytes(self) { unimplemented!() }
    #[verifier::external_body] pub fn to_string(&self) -> (r: Str) ensures bytes(&r) == bytes(self) { unimplemented!() }
    #[verifier::external_body] pub fn clone(&self) -> (r: Str) ensures bytes(&r) == bytes(self) { unimplemented!() }
}
pub broadcast axiom fn len_bound(s: &Str) ensures #[trigger] bytes(s).len() <= isize::MAX;
pub enum Primitive { Str(Str), Int(i32), BigInt(i128), Other(OtherV) }
// n copies of b
pub open spec fn copies(b: Seq<u8>, n: nat) -> Seq<u8> decreases n { if n == 0 { Seq::empty() } else { copies(b, (n - 1) as nat) + b } }
// str::repeat PANICS (`capacity overflow`) when len * n does not fit the address space (R8)
#[verifier::external_body] pub fn str_repeat(s: &Str, n: usize) -> (r: Str) requires bytes(s).len() * n <= isize::MAX ensures bytes(&r) == copies(bytes(s), n as nat) { unimplemented!() }
#[verifier::external_body] pub fn str_len(s: &Str) -> (r: usize) ensures r == bytes(s).len() { unimplemented!() }
#[verifier::external_body] pub fn i32_to_usize(x: i32) -> (r: Result<usize, VErr>) ensures r is Ok <==> x >= 0, r is Ok ==> r->Ok_0 == x { unimplemented!() }
#[verifier::external_body] pub fn i128_to_usize(x: i128) -> (r: Result<usize, VErr>) ensures r is Ok <==> 0 <= x <= usize::MAX, r is Ok ==> r->Ok_0 == x { unimplemented!() }
// the domain: a count that is a machine size (an unrepresentable conversion is a failure) and a result that can exist
pub open spec fn can_repeat(s: &Str, n: int) -> bool { 0 <= n <= usize::MAX && bytes(s).len() * n <= isize::MAX }
"""

ARMS = [("str_int", "( Str ( x ) , Int ( y ) )", "i32"), ("str_bigint", "( Str ( x ) , BigInt ( y ) )", "i128"),
        ("int_str", "( Int ( y ) , Str ( x ) )", "i32"), ("bigint_str", "( BigInt ( y ) , Str ( x ) )", "i128")]


def build(repo):
    src = Source(repo)
    log = []
    f = src.fn(FILE, "mul", "impl std :: ops :: Mul for & Primitive")
    body = f["body"]
    common = [
        Rule("R3", "bail ! $a", "return Err ( VErr )", why="bail! -> return Err"),
        Rule("R1", "string ! ( $$e )", "Primitive :: Str ( $$e )", why="string! shorthand"),
        Rule("R8", "$x . repeat ( $$n )", "str_repeat ( $x , $$n )", why="str::repeat with its panic precondition (capacity overflow)"),
        Rule("R9", "original . len ( )", "str_len ( original )", why="str::len"),
    ]
    # the helper the arms call (if there is one): carried along under its own contract
    helper = ""
    obls = []
    try:
        h = src.fn(FILE, "repeat_str", "impl std :: ops :: Mul for & Primitive")
    except Undecided:
        h = None
    if h is not None:
        hb = translate(h["body"], common, log, "repeat_str")
        check_closed(hb, "repeat_str")
        helper = f"""
//@ OBL C17.repeat.helper
pub fn repeat_str(original: &Str, times: usize) -> (r: Result<Str, VErr>)
    ensures can_repeat(original, times as int) <==> r is Ok, r is Ok ==> bytes(&r->Ok_0) == copies(bytes(original), times as nat),
{{
    broadcast use len_bound;
    proof {{ if bytes(original).len() * times <= usize::MAX {{ }} }}
{render(hb, 1)}
}}
"""
        obls.append(Obl("C17.repeat.helper", ["C17", "C14"], fn="repeat_str", desc="repeat_str: n copies exactly when the result can exist; an error (not str::repeat's capacity-overflow panic) otherwise"))
    fns = []
    for name, pat, ty in ARMS:
        try:
            arm = extract_match_arm(body, pat)
        except Exception as e:
            raise Undecided(f"{FILE}: arm {pat} of Mul for &Primitive not found: {e}")
        conv = Rule("R7", "( * y ) . try_into ( ) ?", f"{ty}_to_usize ( * y ) ?", why=f"{ty} -> usize conversion: fails outside usize")
        b = translate(arm["body"], [conv] + common, log, f"Mul[{name}]")
        check_closed(b, f"Mul[{name}]")
        fns.append(f"""
//@ OBL C14.repeat.{name}
pub fn mul_{name}(x: &Str, y: &{ty}) -> (r: Result<Primitive, VErr>)
    ensures
        // in the domain: exactly n copies; outside (negative count, a result that cannot exist): a failure -- never a panic, never a wrapped count
        can_repeat(x, *y as int) ==> r is Ok && r->Ok_0 is Str && bytes(&r->Ok_0->Str_0) == copies(bytes(x), *y as nat),
        !can_repeat(x, *y as int) ==> r is Err,
{{
    broadcast use len_bound;
    Ok({render(b, 1).strip().rstrip(',')})
}}
""")
        obls.append(Obl(f"C14.repeat.{name}", ["C14", "C17"], fn=f"Mul for &Primitive[{pat.replace(' ', '')}]", desc=f"string repetition ({name}): n copies for a count in the domain, a failure for a negative or unrepresentable one; no panic"))
    gen = header(log, f"{FILE}: impl Mul for &Primitive, string repetition arms" + (" + repeat_str" if helper else "")) + SPEC + helper + "\n".join(fns) + "\n} // verus!\nfn main() {}\n"
    return gen, obls, log


UNITS = [VUnit("c17_repeat", ["C14", "C17"], "string repetition: n copies, failure outside the domain, no panic (V-t)", build)]
UNITS[0].assumes = ["str::repeat: n copies, panics on capacity overflow (assumed std contract, R8); memory exhaustion of a representable result is not modelled",
                    "the list repetition arms (repeat_vec) are not reachable from well-typed programs (`list * int` is rejected by the operator table: C03.optable.rejects) and are not under contract"]

"""C13: a map keyed by floats behaves like a finite map keyed by those numbers -- two keys that compare equal (`==`, derived PartialEq of
Primitive: f64 equality) name ONE entry.  The map is a hash table: equal keys must hash alike.  `impl Hash for Primitive`, arm `Float(x)`
(bytecode/src/variables/primitive.rs) and `integer_decode`, extracted as plain Rust (K-t) and checked by a loop-free Kani harness over
all pairs of f64 (complete: no loop, full domain).  D123: `0.0` and `-0.0` are equal and hashed differently."""
import os, re, subprocess
from pathlib import Path
from vlib.rules import *
from vlib.extract import extract_match_arm
from vlib import kani as K
from vlib.core import UnitResult

PRIM = "bytecode/src/variables/primitive.rs"

HARNESS = r"""
#[cfg(kani)]
mod verif {
    use super::*;
    // equal keys hash alike (what is fed to the hasher is equal)
    #[kani::proof]
    fn h_equal_float_keys_hash_alike() {
        let a: f64 = kani::any(); let b: f64 = kani::any();
        kani::assume(a == b);
        assert!(hashed_as(&a) == hashed_as(&b), "C13.map.float-key: two floats that compare equal are hashed differently (one map entry would be two)");
    }
    // and the hash input still tells different numbers apart (a constant would satisfy the first harness and make every lookup a collision chain)
    #[kani::proof]
    fn h_different_float_keys_differ() {
        let a: f64 = kani::any(); let b: f64 = kani::any();
        kani::assume(a.is_finite() && b.is_finite() && a != b);
        assert!(hashed_as(&a) != hashed_as(&b), "C13.map.float-key: two different finite floats feed the same value to the hasher");
    }
}
"""


class FloatKeyUnit:
    engine = "kani"
    uid = "c13_float_key"
    props = ["C13"]
    title = "float map keys: equal keys hash alike (K-t, all pairs of f64)"
    timeout = 900
    assumes = ["K-t extraction: `integer_decode` verbatim and the expression the `Float(x)` arm of `Hash for Primitive::hash` feeds to the hasher, as `fn hashed_as(x: &f64)`",
               "std's Hash for (u64, i16, i8) and the HashMap are the library's: equal inputs hash alike",
               "key equality is the derived PartialEq of Primitive (f64 `==`); NaN equals nothing, so a NaN key is never found again (a key that equals no key, not a wrong entry)"]

    def run(self, repo, workdir, tier):
        res = UnitResult(self.uid)
        res.engine = "kani 0.68 / cbmc 6.11 (K-t: real text in a dependency-free crate)"
        src = Source(repo)
        fdec = src.fn(PRIM, "integer_decode")
        fh = src.fn(PRIM, "hash", "impl Hash for Primitive")
        try:
            arm = extract_match_arm(fh["body"], "Float ( x )")
        except Exception as e:
            raise Undecided(f"{PRIM}: arm Float(x) of Hash for Primitive not found: {e}")
        body = list(arm["body"])
        tail = [".", "hash", "(", "state", ")"]
        if body[-1] == ";":
            body = body[:-1]
        if body[-5:] != tail:
            raise Undecided(f"{PRIM}: arm Float(x) of Hash for Primitive is not `<expr>.hash(state)`: {text(body)[:120]}")
        expr = body[:-5]
        lib = ("// GENERATED (K-t) from " + PRIM + "\n#![allow(unused)]\n// ======== real text, extracted on this run ========\n"
               f"{text(fdec['sig'])} {{\n{render(fdec['body'], 1)}\n}}\n"
               f"// Hash for Primitive, arm Float(x): what is fed to the hasher\npub fn hashed_as(x: &f64) -> (u64, i16, i8) {{\n    {text(expr)}\n}}\n" + HARNESS)
        crate = K.write_crate(Path(workdir) / "kt_float_key", "kt_float_key", lib)
        res.gen_path = str(crate / "src/lib.rs")
        per, raw, wall, cmd, timed_out = K.run_kani(crate, jobs=2, timeout=self.timeout, harness_timeout=600)
        res.raw = raw[-8000:]; res.checker_cmd = cmd
        res.functions = [f"{PRIM}: integer_decode", f"{PRIM}: Hash for Primitive::hash arm Float(x)"]
        if not per:
            res.undecided = "kani produced no harness results: " + raw[-2500:]
            return res
        obls = []
        for n, oid, d in (("h_equal_float_keys_hash_alike", "C13.map.float-key.equal-hash-alike", "two float keys that compare equal feed the same value to the hasher: one entry, found under either (all pairs of f64)"),
                          ("h_different_float_keys_differ", "C13.map.float-key.distinct-kept-apart", "two different finite floats feed different values to the hasher (all pairs of f64)")):
            o = Obl(oid, ["C13"], fn=n, engine="kani/cbmc", desc=d)
            r = per.get(n)
            if r is None or r["status"] is None or r["oom"] or r["unwind"] or r["unsupported"]:
                o.status = "undecided"; o.detail = "not run" if r is None else ("timeout" if r.get("timeout") else "no verdict")
            else:
                named, panics, ign, other = K.classify(r["failed"])
                o.time_s = r["time"]
                if other or panics:
                    o.status = "undecided"; o.detail = "unclassified failed check: " + repr((other + panics)[:2])
                else:
                    o.status = "failed" if named else "discharged"
                    o.detail = "\n".join(f"{d_} @ {l}" for d_, l in named)
            obls.append(o)
        res.obls = obls
        return res

    def witness(self, repo, o, res):
        """kani concrete playback gives the two floats; replayed on the real CLI as a map lookup"""
        try:
            crate = Path(res.gen_path).parent.parent
            env = dict(os.environ, CARGO_NET_OFFLINE="true"); env.pop("RUSTUP_TOOLCHAIN", None)
            p = subprocess.run(["cargo", "kani", "--harness", o.fn, "-Z", "concrete-playback", "--concrete-playback=print"], cwd=crate, capture_output=True, text=True, timeout=600, env=env)
            m = re.search(r"Concrete playback unit test for `[^`]*`:\n```\n(.*?)```", p.stdout, re.S)
            if not m:
                return None
            w = {"found": True, "kani_concrete_playback_test": m.group(1), "note": "byte vectors are the values of kani::any() in harness order (a, b: f64, little endian)"}
            try:
                import struct
                from vlib import numreplay, cli
                vals = numreplay.parse_playback(m.group(1))
                a, b = (struct.unpack("<d", bytes(v))[0] for v in vals[:2])
                lit = lambda x: ("0.0 * -1.0" if str(x) == "-0.0" else repr(float(x)))
                prog = f"a = {lit(a)}\nb = {lit(b)}\nm = map[float, int]{{a: 1}}\nprint a == b\nprint m.contains_key(b)\n"
                w["real_cli"] = cli.run_program(repo, prog) if hasattr(cli, "run_program") else {"replayed_on_real_cli": False, "program": prog, "why": "no CLI runner in this build of the machinery"}
                w["program"] = prog
            except Exception as e:
                w["real_cli"] = {"replayed_on_real_cli": False, "why": f"replay aid failed: {e}"}
            return w
        except Exception as e:
            return {"found": False, "error": str(e)}


UNITS = [FloatKeyUnit()]

"""C04 / C18: MScriptFile::open (bytecode/src/file.rs) -- how `execute` gets a bytecode file's functions.  Whatever the loader's record loop
(unit c04_loader) makes of the file is what is installed and run: opening succeeds exactly when loading succeeds, and the installed function
table IS the loaded one -- no further acceptance test stands between a file the compiler wrote and its execution (`run` has none either)."""
from vlib.rules import *

FILE = "bytecode/src/file.rs"

SPEC = r"""
use vstd::prelude::*;
verus! {
pub struct VErr;
#[verifier::external_body] pub struct PathV { x: usize }
#[verifier::external_body] pub struct FunctionsV { x: usize }
#[verifier::external_body] pub struct ExportsV { x: usize }
#[verifier::external_body] pub fn exports_default() -> (r: ExportsV) { unimplemented!() }
pub struct MScriptFile { pub path: PathV, pub functions: Option<FunctionsV>, pub exports: ExportsV }
// MScriptFile::get_functions (record loop: obligation C04.loader.record): a function of the file's path
pub uninterp spec fn loaded(p: PathV) -> Result<FunctionsV, VErr>;
impl MScriptFile {
    #[verifier::external_body] pub fn get_functions(&self) -> (r: Result<FunctionsV, VErr>) ensures r == loaded(self.path) { unimplemented!() }
}
"""


def build(repo):
    src = Source(repo)
    log = []
    f = src.fn(FILE, "open", "impl MScriptFile")
    b = translate(f["body"], [
        Rule("R10", "let new_uninit = Rc :: new ( Self { path , functions : RefCell :: new ( None ) , exports : Gc :: new ( GcCell :: new ( VariableMapping :: default ( ) ) ) , } ) ;",
             "let mut new_uninit = MScriptFile { path , functions : None , exports : exports_default ( ) } ;", count=1, why="Rc / RefCell / Gc wrappers dropped: the file under construction is a plain value (R10)"),
        Rule("R10", "{ let mut borrow = new_uninit . functions . borrow_mut ( ) ; * borrow = Some ( functions ) ; }", "new_uninit . functions = Some ( functions ) ;", count=1, why="write through the RefCell -> field assignment"),
        Rule("R3", ". with_context ( $$c ) ?", "?", why="context text dropped"),
    ], log, "MScriptFile::open")
    check_closed(b, "MScriptFile::open")
    gen = header(log, f"{FILE}: MScriptFile::open") + SPEC + f"""
//@ OBL C04.open.installs-loaded
pub fn open(path: PathV) -> (r: Result<MScriptFile, VErr>)
    ensures
        r is Ok <==> loaded(path) is Ok,
        r is Ok ==> r->Ok_0.path == path && r->Ok_0.functions == Some(loaded(path)->Ok_0),
{{
{render(b, 1)}
}}
}} // verus!
fn main() {{}}
"""
    return gen, [Obl("C04.open.installs-loaded", ["C04", "C18"], fn="MScriptFile::open", desc="MScriptFile::open: succeeds exactly when the loader does, and installs exactly the function table the loader produced")], log


UNITS = [VUnit("c04_open", ["C04", "C18"], "opening a bytecode file: what is loaded is what is installed", build)]
UNITS[0].assumes = ["Rc / RefCell / Gc wrappers as plain values (R10); the loader itself is unit c04_loader"]

"""C02 / C03: `x.name(args)` -- Parser::dot_chain_option (compiler/src/ast/dot_lookup.rs), the part of the `dot_function_call` arm that decides
WHAT is called.  Executing an accepted program never fails because a non-function is called: the member must hold a function value (a method,
a built-in method, a field of function type) -- or be a class, called (constructed) under its own name through the module that exports it.
A field or an exported variable whose type is a class holds an INSTANCE: `t.leaf()` with `leaf: Leaf` is refused (D122: it compiled as a
constructor call and died at run time with "is not a function")."""
from vlib.rules import *
from vlib.pattern import Pat

FILE = "compiler/src/ast/dot_lookup.rs"

SPEC = r"""
use vstd::prelude::*;
verus! {
pub struct VErr;
#[verifier::external_body] pub struct VStr { x: usize }
#[verifier::external_body] pub struct FunctionType { x: usize }
#[verifier::external_body] pub struct ModuleType { x: usize }
#[verifier::external_body] pub struct OtherT { x: usize }
#[verifier::external_body] pub struct ClassType { x: usize }
pub uninterp spec fn class_name(c: &ClassType) -> VStr;
pub uninterp spec fn ctor_of(c: &ClassType) -> FunctionType;
impl ClassType { #[verifier::external_body] pub fn name(&self) -> (r: &VStr) ensures *r == class_name(self) { unimplemented!() } }
#[verifier::external_body] pub fn str_eq(a: &VStr, b: &VStr) -> (r: bool) ensures r == (*a == *b) { unimplemented!() }
pub enum TypeLayout { Function(FunctionType), Class(ClassType), Module(ModuleType), Other(OtherT) }
// the type behind aliases and captured-variable wrappers (TypeLayout::get_type_recursively)
pub uninterp spec fn strip(t: &TypeLayout) -> TypeLayout;
impl TypeLayout {
    #[verifier::external_body] pub fn get_type_recursively(&self) -> (r: &TypeLayout) ensures *r == strip(self) { unimplemented!() }
    // a function value is callable; a class only where the caller says a class may stand there (then: its constructor)
    #[verifier::external_body] pub fn is_callable_allow_class(&self, allow_class: bool) -> (r: Option<FunctionType>)
        ensures strip(self) is Function ==> r == Some(strip(self)->Function_0),
                strip(self) is Class ==> r == (if allow_class { Some(ctor_of(&strip(self)->Class_0)) } else { None::<FunctionType> }),
                !(strip(self) is Function) && !(strip(self) is Class) ==> r is None { unimplemented!() }
}
"""


def build(repo):
    src = Source(repo)
    log = []
    f = src.fn(FILE, "dot_chain_option", "impl Parser")
    body = list(f["body"])
    p1 = Pat("let Some ( function_type ) = type_of_property . is_callable_allow_class ( $$a ) else { $$e } ;")
    z = a = None
    for i in range(len(body)):
        r = p1.match_at(body, i)
        if r:
            a, z = i, r[0]; break
    if z is None:
        raise Undecided(f"{FILE}: the callee decision of dot_chain_option (`let Some(function_type) = type_of_property.is_callable_allow_class(..) else {{ .. }};`) not found")
    # with it, the `let` statements directly in front that compute its argument (back to the `Rule::dot_function_call => {{` arm opening)
    p0 = Pat("Rule :: dot_function_call => {")
    s = next((i + 5 for i in range(a, -1, -1) if p0.match_at(body, i)), None)
    if s is None:
        raise Undecided(f"{FILE}: arm Rule::dot_function_call of dot_chain_option not found")
    frag = body[s:z]
    log.append(("R0", "Parser::dot_chain_option, arm Rule::dot_function_call", "from the arm's opening to `let Some(function_type) = type_of_property.is_callable_allow_class(..) else { .. };`", "fragment: which member types may be called, as a function of the receiver's type, the member's type and its name"))
    b = translate(frag, [
        Rule("R3", "return Err ( vec ! [ $$e ] ) ;", "return Err ( VErr ) ;", why="diagnostic text dropped"),
        Rule("R1", "class_type . name ( ) == ident_str", "str_eq ( class_type . name ( ) , & ident_str )", why="str == String"),
    ], log, "dot_chain_option[callee]")
    check_closed(b, "dot_chain_option[callee]")
    TYPE = "compiler/src/ast/type.rs"
    fc = src.fn(TYPE, "is_callable_allow_class", "impl TypeLayout")
    bc = translate(fc["body"], [
        Rule("R1", "Cow :: Borrowed ( f )", "clone_ft ( f )", why="Cow::Borrowed(&FunctionType): that function type"),
        Rule("R1", "Cow :: Owned ( $$e )", "$$e", why="Cow::Owned: the value"),
        Rule("R1", "Self :: $v", "TypeLayout :: $v", why="Self -> type name"),
    ], log, "TypeLayout::is_callable_allow_class")
    check_closed(bc, "is_callable_allow_class")
    gen = header(log, f"{FILE}: Parser::dot_chain_option, arm dot_function_call (what may be called); {TYPE}: TypeLayout::is_callable_allow_class") + SPEC + f"""
#[verifier::external_body] pub fn clone_ft(f: &FunctionType) -> (r: FunctionType) ensures r == *f {{ unimplemented!() }}
impl ClassType {{ #[verifier::external_body] pub fn constructor(&self) -> (r: FunctionType) ensures r == ctor_of(self) {{ unimplemented!() }} }}
impl TypeLayout {{
    //@ OBL C02.callable.allow-class
    // the contract the callee decision below assumes of it, proved of the real text: a function value is callable; a class only where the caller allows one (its constructor)
    pub fn is_callable_allow_class_real(&self, allow_class: bool) -> (r: Option<FunctionType>)
        ensures strip(self) is Function ==> r == Some(strip(self)->Function_0),
                strip(self) is Class ==> r == (if allow_class {{ Some(ctor_of(&strip(self)->Class_0)) }} else {{ None::<FunctionType> }}),
                !(strip(self) is Function) && !(strip(self) is Class) ==> r is None
    {{
{render(bc, 2)}
    }}
}}
//@ OBL C02.member-call.callee-is-callable
pub fn member_callee(lhs_ty: &TypeLayout, type_of_property: &TypeLayout, ident_str: VStr) -> (r: Result<FunctionType, VErr>)
    ensures
        // what is called is a function value -- or a class under its own name, through the module that exports it: never an instance
        r is Ok ==> (strip(type_of_property) is Function && r->Ok_0 == strip(type_of_property)->Function_0)
            || (*lhs_ty is Module && strip(type_of_property) is Class && class_name(&strip(type_of_property)->Class_0) == ident_str && r->Ok_0 == ctor_of(&strip(type_of_property)->Class_0)),
        // and every member that holds a function IS callable
        strip(type_of_property) is Function ==> r is Ok,
        (*lhs_ty is Module && strip(type_of_property) is Class && class_name(&strip(type_of_property)->Class_0) == ident_str) ==> r is Ok,
{{
{render(b, 1)}
    Ok(function_type)
}}
}} // verus!
fn main() {{}}
"""
    return gen, [Obl("C02.callable.allow-class", ["C02", "C03", "C08"], fn="TypeLayout::is_callable_allow_class", desc="is_callable_allow_class: a function type is callable as it is; a class only where allowed, as its constructor; nothing else"),
                 Obl("C02.member-call.callee-is-callable", ["C02", "C03", "C08"], fn="Parser::dot_chain_option[dot_function_call]",
                     desc="`x.name(args)`: the member called holds a function value, or is a class constructed under its own name through its module; a field / exported variable typed as a class (an instance) is refused")], log


UNITS = [VUnit("c02_member_callable", ["C02", "C03", "C08"], "a member call calls a function value or a module's class, never an instance", build)]
UNITS[0].assumes = ["fragment of the dot_function_call arm of Parser::dot_chain_option; TypeLayout reduced to the four shapes the decision distinguishes",
                    "TypeLayout::get_type_recursively abstract (the type behind aliases and captured-variable wrappers); is_callable_allow_class is used under the contract proved of its text in the same unit (C02.callable.allow-class)",
                    "a module exports a class under the class's own name (ModuleType::from_node, unit c11_export_type) and a class name is never rebound (C10)"]

"""C11 (run-time half) + C19: Program::process_jump_request -- module cache (once-only, same instance) and the routing of
library calls; Program::process_library_jump_request with libloading as assumed contracts."""
from vlib.rules import *

FILE = "bytecode/src/interpreter.rs"

SPEC = r"""
use vstd::prelude::*;
verus! {
pub struct VErr;
#[verifier::external_body] pub struct VString { s: String }
// String methods a change may route a name through: results are uninterpreted (NOT known to be the identity)
pub uninterp spec fn replaced(t: Seq<char>, from: char, to: Seq<char>) -> Seq<char>;
pub uninterp spec fn lowered(t: Seq<char>) -> Seq<char>;
pub uninterp spec fn trimmed(t: Seq<char>) -> Seq<char>;
impl VString {
    #[verifier::external_body] pub fn replace(&self, from: char, to: &str) -> (r: VString) ensures text_of(&r) == replaced(text_of(self), from, to@) { unimplemented!() }
    #[verifier::external_body] pub fn to_lowercase(&self) -> (r: VString) ensures text_of(&r) == lowered(text_of(self)) { unimplemented!() }
    #[verifier::external_body] pub fn trim(&self) -> (r: VString) ensures text_of(&r) == trimmed(text_of(self)) { unimplemented!() }
}
pub uninterp spec fn text_of(s: &VString) -> Seq<char>;
#[verifier::external_body] pub fn clone_vs(s: &VString) -> (r: VString) ensures r == *s { unimplemented!() }

// a module instance = its export table (Gc<GcCell<..>> handle): opaque, identified by the cell.  Assumed gc semantics: clone keeps the cell.
#[verifier::external_body] pub struct ModuleH { x: usize }
pub uninterp spec fn mod_id(m: &ModuleH) -> int;
#[verifier::external_body] pub fn clone_mod(m: &ModuleH) -> (r: ModuleH) ensures mod_id(&r) == mod_id(m) { unimplemented!() }
#[verifier::external_body] pub fn modh_nonempty(m: &ModuleH) -> (r: bool) { unimplemented!() }     // arbitrary: contents of the table are not modelled

#[verifier::external_body] pub struct PrimV { x: usize }
pub enum Primitive { Module(ModuleH), Other(PrimV) }
pub enum ReturnValue { FFIError(VString), NoValue, Value(Primitive) }
#[verifier::external_body] pub struct Caps { x: usize }
#[verifier::external_body] pub struct StackRef { x: usize }
pub enum JumpRequestDestination { Standard(VString), Module(VString), Library { lib_name: VString, func_name: VString } }
pub struct JumpRequest { pub destination: JumpRequestDestination, pub callback_state: Option<Caps>, pub stack: StackRef, pub arguments: Vec<Primitive> }

// module_cache: RefCell<HashMap<String, RefCell<ExportMap>>> as a finite map from cache keys to module instances (R10: RefCell -> &mut)
#[verifier::external_body] pub struct ModuleCache { x: usize }
pub uninterp spec fn cache_view(c: &ModuleCache) -> Map<Seq<char>, ModuleH>;
#[verifier::external_body]
pub fn cache_get(c: &ModuleCache, k: &VString) -> (r: Option<ModuleH>)
    ensures r is Some <==> cache_view(c).contains_key(text_of(k)), r is Some ==> mod_id(&r->Some_0) == mod_id(&cache_view(c)[text_of(k)]) { unimplemented!() }
#[verifier::external_body]
pub fn cache_insert(c: &mut ModuleCache, k: VString, v: ModuleH) -> (r: Option<ModuleH>)
    ensures cache_view(final(c)) == cache_view(old(c)).insert(text_of(&k), v), r is Some <==> cache_view(old(c)).contains_key(text_of(&k)) { unimplemented!() }

// the foreign function a (library, symbol) pair denotes, applied to an argument slice (libloading + the dylib: outside the contract)
pub uninterp spec fn ffi_result(lib: Seq<char>, func: Seq<char>, args: Seq<Primitive>) -> ReturnValue;
pub uninterp spec fn lib_exists(lib: Seq<char>) -> bool;
pub uninterp spec fn sym_exists(lib: Seq<char>, func: Seq<char>) -> bool;
#[verifier::external_body] pub struct Library { x: usize }
pub uninterp spec fn lib_of(l: &Library) -> Seq<char>;
#[verifier::external_body] pub struct Symbol { x: usize }
pub uninterp spec fn sym_of(s: &Symbol) -> (Seq<char>, Seq<char>);
#[verifier::external_body] pub fn library_new(name: &VString) -> (r: Result<Library, VErr>)
    ensures r is Ok <==> lib_exists(text_of(name)), r is Ok ==> lib_of(&r->Ok_0) == text_of(name) { unimplemented!() }
#[verifier::external_body] pub fn library_get(l: &Library, func: &VString) -> (r: Result<Symbol, VErr>)
    ensures r is Ok <==> sym_exists(lib_of(l), text_of(func)), r is Ok ==> sym_of(&r->Ok_0) == (lib_of(l), text_of(func)) { unimplemented!() }
#[verifier::external_body] pub fn symbol_call(s: &Symbol, args: &Vec<Primitive>) -> (r: ReturnValue)
    ensures r == ffi_result(sym_of(s).0, sym_of(s).1, args@) { unimplemented!() }

pub struct Program { pub module_cache: ModuleCache, pub ran: Ghost<Seq<JumpRequest>> }
// a change may build a different request for the callee: vocabulary
#[verifier::external_body] pub fn fresh_stack() -> (r: StackRef) { unimplemented!() }              // Rc::new(RefCell::new(Stack::new())): NOT the caller's stack
impl JumpRequest { #[verifier::external_body] pub fn clone(&self) -> (r: JumpRequest) ensures r == *self { unimplemented!() } }
"""


def build(repo):
    src = Source(repo)
    log = []
    f = src.fn(FILE, "process_jump_request", "impl Program")
    fl = src.fn(FILE, "process_library_jump_request", "impl Program")
    drop_log = [Rule("R3", "log :: info ! $a ;", "", why="logging dropped"), Rule("R3", "log :: trace ! $a ;", "", why="logging dropped"), Rule("R3", "log :: debug ! $a ;", "", why="logging dropped")]
    rules = drop_log + [
        Rule("R3", "bail ! $a", "return Err ( VErr )", why="bail! -> return Err"),
        Rule("R9", "Rc :: new ( RefCell :: new ( Stack :: new ( ) ) )", "fresh_stack ( )", why="a new, empty call stack (not the requester's)"),
        Rule("R10", "let view = self . module_cache . borrow_mut ( ) ;", "", count=1, why="RefCell borrow of the cache dropped (cache is a &mut field)"),
        Rule("R6", "view . get ( path )", "cache_get ( & self . module_cache , path )", count=1, why="HashMap::get as finite-map lookup"),
        Rule("R10", "let module = cached . borrow ( ) ;", "let module = cached ;", count=1, why="RefCell<ExportMap> borrow -> the handle"),
        Rule("R9", "module . borrow ( ) . iter ( ) . next ( ) . is_some ( )", "modh_nonempty ( & module )", why="contents of an export table: abstract predicate"),
        Rule("R1", "raw_module . clone ( )", "clone_mod ( & raw_module )", why="ExportMap handle clone keeps the cell"),
        Rule("R1", "module . clone ( )", "clone_mod ( & module )", why="ExportMap handle clone keeps the cell"),
        Rule("R1", "BytecodePrimitive :: Module", "Primitive :: Module", why="type alias"),
        Rule("R1", "let ReturnValue :: Value ( Primitive :: Module ( ref raw_module ) ) = result else { $$b } ;",
             "let raw_module = match & result { ReturnValue :: Value ( Primitive :: Module ( m ) ) => clone_mod ( m ) , _ => { $$b } } ;", count=1, why="let-else with a ref binding -> match on a reference (handle clone keeps the cell)"),
        Rule("R10", "self . module_cache . borrow_mut ( ) . insert ( path . to_owned ( ) , RefCell :: new ( $$v ) )", "cache_insert ( & mut self . module_cache , clone_vs ( path ) , $$v )", count=1, why="HashMap::insert as finite-map update"),
        Rule("R3", "Self :: process_library_jump_request ( $$a ) . context ( $m )", "process_library_jump_request ( $$a )", count=1, why="context text dropped"),
    ]
    b = translate(f["body"], rules, log, "Program::process_jump_request")
    rules_l = [
        Rule("R1", "use libloading :: { Library , Symbol } ;", "", why="import dropped"),
        Rule("R1", "unsafe { $$b }", "$$b", count=1, why="unsafe block (FFI call) -> its body over the assumed libloading contracts"),
        Rule("R6", "Library :: new ( lib_name ) . with_context ( $$c ) ?", "library_new ( lib_name ) ?", count=1, why="libloading::Library::new as assumed contract"),
        Rule("R6", "let lib_fn : $$t = lib . get ( func_name . as_bytes ( ) ) . with_context ( $$c ) ? ;", "let lib_fn = library_get ( & lib , func_name ) ? ;", count=1, why="libloading::Library::get as assumed contract"),
        Rule("R6", "lib_fn ( args )", "symbol_call ( & lib_fn , args )", count=1, why="call through the symbol as assumed contract"),
    ]
    bl = translate(fl["body"], rules_l, log, "Program::process_library_jump_request")
    check_closed(b, "process_jump_request"); check_closed(bl, "process_library_jump_request")
    gen = header(log, f"{FILE}: Program::process_jump_request, Program::process_library_jump_request") + SPEC + f"""
//@ OBL C19.library.call
pub fn process_library_jump_request(lib_name: &VString, func_name: &VString, args: &Vec<Primitive>) -> (r: Result<ReturnValue, VErr>)
    ensures
        // the named function of the named library receives exactly the argument slice; its return value is the result
        r is Ok ==> lib_exists(text_of(lib_name)) && sym_exists(text_of(lib_name), text_of(func_name)) && r->Ok_0 == ffi_result(text_of(lib_name), text_of(func_name), args@),
        // a missing library or a missing symbol is an error
        !(lib_exists(text_of(lib_name)) && sym_exists(text_of(lib_name), text_of(func_name))) ==> r is Err,
{{
{render(bl, 1)}
}}

pub open spec fn key_of(req: &JumpRequest) -> Seq<char> {{ match req.destination {{ JumpRequestDestination::Module(p) => text_of(&p), _ => Seq::empty() }} }}

impl Program {{
    // "run the callee": for a module destination this executes the module's top-level code.  Its precondition IS the
    // once-only requirement: a module that is already cached must never be run again.
    #[verifier::external_body]
    pub fn process_standard_jump_request(&mut self, request: &JumpRequest) -> (r: Result<ReturnValue, VErr>)
        requires request.destination is Module ==> !cache_view(&old(self).module_cache).contains_key(key_of(request)),
        ensures forall|k: Seq<char>| cache_view(&old(self).module_cache).contains_key(k) ==> #[trigger] cache_view(&final(self).module_cache).contains_key(k)
                    && mod_id(&cache_view(&final(self).module_cache)[k]) == mod_id(&cache_view(&old(self).module_cache)[k]),
                // ghost log: which request was run (destination, arguments, captured variables AND call stack)
                final(self).ran@ == old(self).ran@.push(*request),
    {{ unimplemented!() }}

    //@ OBL C11.module.once
    pub fn process_jump_request(&mut self, request: &JumpRequest) -> (r: Result<ReturnValue, VErr>)
        ensures
            // cache hit: the very instance that is cached is returned, nothing is executed and the cache is unchanged
            (request.destination is Module && cache_view(&old(self).module_cache).contains_key(key_of(request))) ==> (
                r is Ok && r->Ok_0 is Value && r->Ok_0->Value_0 is Module
                && mod_id(&r->Ok_0->Value_0->Module_0) == mod_id(&cache_view(&old(self).module_cache)[key_of(request)])
                && cache_view(&final(self).module_cache) == cache_view(&old(self).module_cache)),
            // cache miss: after a successful run the module is cached under exactly its key, as the instance returned
            (request.destination is Module && !cache_view(&old(self).module_cache).contains_key(key_of(request)) && r is Ok) ==> (
                r->Ok_0 is Value && r->Ok_0->Value_0 is Module
                && cache_view(&final(self).module_cache).contains_key(key_of(request))
                && mod_id(&cache_view(&final(self).module_cache)[key_of(request)]) == mod_id(&r->Ok_0->Value_0->Module_0)),
            // C17 (trace) / C11: whatever is run for a module or a function request is run as THE request -- on the requester's call stack (a failure
            // inside an import is reported with the importer's frames beneath it), with its arguments and captured variables
            (!(request.destination is Library) && final(self).ran@.len() > old(self).ran@.len()) ==> final(self).ran@ == old(self).ran@.push(*request),
            // a library destination is the foreign call with exactly the request's names and arguments; its error is propagated
            request.destination is Library ==> (
                (r is Ok ==> r->Ok_0 == ffi_result(text_of(&request.destination->lib_name), text_of(&request.destination->func_name), request.arguments@))
                && (!(lib_exists(text_of(&request.destination->lib_name)) && sym_exists(text_of(&request.destination->lib_name), text_of(&request.destination->func_name))) ==> r is Err)
                && cache_view(&final(self).module_cache) == cache_view(&old(self).module_cache)),
    {{
{render(b, 2)}
    }}
}}

}} // verus!
fn main() {{}}
"""
    obls = [
        Obl("C19.library.call", ["C19"], fn="process_library_jump_request", desc="process_library_jump_request: opens the named library, resolves the named symbol, calls it with the argument slice and returns its value; missing library/symbol -> Err"),
        Obl("C11.module.once", ["C11", "C19", "C17"], fn="Program::process_jump_request",
            desc="process_jump_request: a cached module is never run again (callee precondition) and the cached instance itself is returned; on a miss the result is cached under exactly the request's key; library requests are routed with their own names and arguments"),
    ]
    return gen, obls, log


UNITS = [VUnit("c11_module", ["C11", "C19", "C17"], "module cache once-only / same instance; library call routing", build)]
UNITS[0].assumes = ["RefCell<HashMap> fields as &mut finite maps (R10): single-threaded, no re-entrant borrow is checked",
                    "process_standard_jump_request (runs the callee, may import further modules) is an abstract callee that only adds cache entries",
                    "libloading::Library::new / get and the call through the symbol are assumed contracts; the dylib ABI is not modelled",
                    "compile-time half of C11 (queue of files, typing of exports) is not covered"]

"""C03: indexing with a non-index is rejected -- TypeLayout::get_output_type_from_index (type.rs), its head up to the per-kind part: for
everything that is not a map, the index expression's TYPE must be one a list / string position can have, whether or not the index is a
compile-time constant."""
from vlib.rules import *
from vlib.pattern import Pat

FILE = "compiler/src/ast/type.rs"

SPEC = r"""
use vstd::prelude::*;
verus! {
pub struct VErr;
#[verifier::external_body] pub struct OtherV { x: usize }
#[verifier::external_body] pub struct MapTy { x: usize }
#[verifier::external_body] pub struct Flags { x: usize }
#[verifier::external_body] pub struct ValueV { x: usize }
pub enum TypeLayout { Map(MapTy), Other(OtherV) }
pub enum ValToUsize { Ok(usize), NotConstexpr, NaN }
pub uninterp spec fn stripped(t: TypeLayout) -> TypeLayout;
pub uninterp spec fn may_be_nil(t: TypeLayout) -> bool;
pub uninterp spec fn index_kind_ok(t: TypeLayout) -> bool;          // can_be_used_as_list_index: int / bigint / byte
pub uninterp spec fn value_type(v: &ValueV, f: &Flags) -> Option<TypeLayout>;
pub uninterp spec fn key_ok(m: &MapTy, t: TypeLayout, f: &Flags) -> bool;
impl TypeLayout {
    #[verifier::external_body] pub fn disregard_distractors(&self, o: bool) -> (r: &TypeLayout) ensures *r == stripped(*self) { unimplemented!() }
    #[verifier::external_body] pub fn is_optional(&self) -> (r: (bool, Option<&TypeLayout>)) ensures r.0 == may_be_nil(*self) { unimplemented!() }
    #[verifier::external_body] pub fn can_be_used_as_list_index(&self) -> (r: bool) ensures r == index_kind_ok(*self) { unimplemented!() }
}
impl ValueV {
    #[verifier::external_body] pub fn for_type(&self, f: &Flags) -> (r: Result<TypeLayout, VErr>) ensures r is Ok <==> value_type(self, f) is Some, r is Ok ==> r->Ok_0 == value_type(self, f)->Some_0 { unimplemented!() }
    #[verifier::external_body] pub fn get_usize(&self) -> (r: Result<ValToUsize, VErr>) { unimplemented!() }      // its own contract: C16.index.get_usize
}
impl MapTy {
    #[verifier::external_body] pub fn key_fits(&self, t: &TypeLayout, f: &Flags) -> (r: bool) ensures r == key_ok(self, *t, f) { unimplemented!() }
    #[verifier::external_body] pub fn value_type_owned(&self) -> (r: TypeLayout) { unimplemented!() }
}
// the per-kind remainder of the function (string / list bounds): abstract
#[verifier::external_body] pub fn rest_of_index(me: &TypeLayout, i: ValToUsize) -> (r: Result<TypeLayout, VErr>) { unimplemented!() }
"""


def build(repo):
    src = Source(repo)
    log = []
    f = src.fn(FILE, "get_output_type_from_index", "impl TypeLayout")
    body = f["body"]
    p = Pat("if let Self :: Native ( NativeType :: Str ( StrWrapper ( maybe_length ) ) ) = me")
    at = None
    for i in range(len(body)):
        if p.match_at(body, i):
            at = i; break
    if at is None:
        raise Undecided(f"{FILE}: the string part (`if let Self::Native(NativeType::Str(..)) = me`) of get_output_type_from_index not found")
    frag = body[:at] + lex("return rest_of_index ( me , index_as_usize ) ;")
    log.append(("R0", "get_output_type_from_index", "its head up to the per-kind part; the remainder is one abstract call", "fragment"))
    b = translate(frag, [
        Rule("R3", "bail ! $a", "return Err ( VErr )", why="bail! -> return Err"),
        Rule("R3", ". context ( $m )", "", why="context text dropped"),
        Rule("R1", "Self :: Map", "TypeLayout :: Map", why="Self -> TypeLayout"),
        Rule("R6", "! map . key_type ( ) . eq_complex ( & index_ty , flags )", "! map . key_fits ( & index_ty , flags )", why="key compatibility abstract"),
        Rule("R1", "return Ok ( Cow :: Borrowed ( map . value_type ( ) ) ) ;", "return Ok ( map . value_type_owned ( ) ) ;", why="Cow::Borrowed -> owned copy"),
        Rule("R1", "ValToUsize :: NaN = index_as_usize", "ValToUsize :: NaN = & index_as_usize", why="pattern on a reference (the value is used afterwards)"),
    ], log, "get_output_type_from_index[head]")
    check_closed(b, "get_output_type_from_index[head]")
    gen = header(log, f"{FILE}: TypeLayout::get_output_type_from_index (head)") + SPEC + f"""
impl TypeLayout {{
    //@ OBL C03.index.kind
    pub fn get_output_type_from_index(&self, index: &ValueV, flags: &Flags) -> (r: Result<TypeLayout, VErr>)
        ensures
            // an optional is not indexed; a map takes keys of its key type; everything else takes only an index whose type is an index kind --
            // checked on the TYPE, so also for an index that is not a compile-time constant
            r is Ok ==> !may_be_nil(stripped(*self)),
            (r is Ok && stripped(*self) is Map) ==> value_type(index, flags) is Some && key_ok(&stripped(*self)->Map_0, value_type(index, flags)->Some_0, flags),
            (r is Ok && !(stripped(*self) is Map)) ==> value_type(index, flags) is Some && index_kind_ok(value_type(index, flags)->Some_0),
    {{
{render(b, 2)}
    }}
}}
}} // verus!
fn main() {{}}
"""
    return gen, [Obl("C03.index.kind", ["C03", "C02"], fn="TypeLayout::get_output_type_from_index", desc="get_output_type_from_index: a non-map is indexed only with a value whose type is an index kind (constant or not); a map only with its key type; an optional never")], log


UNITS = [VUnit("c03_index", ["C03", "C02"], "indexing: the index's type is checked, constant or not", build)]
UNITS[0].assumes = ["fragment: the head of the function; the per-kind bounds part is one abstract call", "Value::for_type, can_be_used_as_list_index, key compatibility abstract"]

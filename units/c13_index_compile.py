"""C13 / C15 / C02: code generated for an index chain `v[i][j]..` -- `impl Compile for Index` (compiler/src/ast/list.rs).  Every link of the chain is
compiled by its OWN kind: a link on a map becomes `map_op`, a link on a list / string `vec_op`; the links in source order, each link's index
expression evaluated once, after the receiver was saved.  The constant-index short form `vec_op [n]` is used only for a single link that is a
list / string access.  (A `vec_op` on a map stops the program with "Cannot perform a vector operation on a non-vector": a valid program
crashing, C02.)"""
from vlib.rules import *
from units.c15_seq import SPEC as SEQ_SPEC

LIST = "compiler/src/ast/list.rs"

SPEC = r"""
#[verifier::external_body] pub struct NumV { x: usize }
pub enum Value { Number(NumV), Other(ValueV) }
pub enum ConstexprEvaluation { Owned(Value), Impossible }
impl ConstexprEvaluation {
    pub fn as_ref(&self) -> (r: Option<&Value>) ensures self is Impossible ==> r is None, self is Owned ==> r == Some(&self->Owned_0) { match self { ConstexprEvaluation::Owned(v) => Some(v), _ => None } }
}
#[derive(PartialEq, Eq, Structural, Clone, Copy)]
pub enum IndexInstruction { VecOp, MapOp }
pub struct Index { pub origin_is_map: bool, pub parts: Vec<(ValueV, IndexInstruction)> }
// Index::try_constexpr_eval (abstract): a constant only for a single link
pub uninterp spec fn const_of(i: &Index) -> Option<ConstexprEvaluation>;
#[verifier::external_body] pub fn index_constexpr(i: &Index) -> (r: Result<ConstexprEvaluation, VErr>)
    ensures r is Ok <==> const_of(i) is Some, r is Ok ==> r->Ok_0 == const_of(i)->Some_0, (r is Ok && r->Ok_0 is Owned) ==> i.parts@.len() == 1 { unimplemented!() }
#[verifier::external_body] pub fn number_to_usize(n: &NumV) -> (r: Result<usize, VErr>) { unimplemented!() }
pub uninterp spec fn bracket_num(n: int) -> Seq<char>;             // "[" n "]"
pub uninterp spec fn bracket_reg(r: int) -> Seq<char>;             // "[" register "]"
#[verifier::external_body] pub fn bracketed_usize(n: usize) -> (s: VString) ensures text_of(&s) == bracket_num(n as int), !is_reg_arg(&s) { unimplemented!() }
#[verifier::external_body] pub fn bracketed_reg(r: &Reg) -> (s: VString) ensures text_of(&s) == bracket_reg(reg_id(r)), !is_reg_arg(&s) { unimplemented!() }
pub fn vec1(a: CompiledItem) -> (r: Vec<CompiledItem>) ensures r@ == seq![a] { let mut v = Vec::new(); v.push(a); v }
pub fn vec3(a: CompiledItem, b: CompiledItem, c: CompiledItem) -> (r: Vec<CompiledItem>) ensures r@ == seq![a, b, c] { let mut v = Vec::new(); v.push(a); v.push(b); v.push(c); v }
pub fn kind_is_map(k: &IndexInstruction) -> (r: bool) ensures r == (*k is MapOp) { match k { IndexInstruction::MapOp => true, _ => false } }

// one link: the receiver is saved in L, the index expression is evaluated (once), then the access of the link's OWN kind on L
pub open spec fn link_ok(seg: Seq<CompiledItem>, code: Seq<CompiledItem>, kind: IndexInstruction) -> bool {
    let c = code.len() as int;
    &&& seg.len() == 1 + c + (if kind is MapOp { 1int } else { 3int })
    &&& is_instr(seg[0], STORE_FAST) && nargs(seg[0]) == 1
    &&& seg.subrange(1, 1 + c) == code
    &&& (kind is MapOp ==> is_instr(seg[1 + c], MAP_OP) && nargs(seg[1 + c]) == 1 && argn(seg[1 + c], 0) == argn(seg[0], 0))
    &&& (kind is VecOp ==> is_instr(seg[1 + c], STORE_FAST) && nargs(seg[1 + c]) == 1
                           && is_instr(seg[2 + c], DELETE_NAME_REFERENCE_SCOPED) && nargs(seg[2 + c]) == 1 && argn(seg[2 + c], 0) == argn(seg[0], 0)
                           && is_instr(seg[3 + c], VEC_OP) && nargs(seg[3 + c]) == 1 && argt(seg[3 + c], 0) == bracket_reg(argn(seg[1 + c], 0)))
}
pub open spec fn seg_len(code: Seq<CompiledItem>, kind: IndexInstruction) -> int { 1 + code.len() + (if kind is MapOp { 1int } else { 3int }) }
// the chain: the links one after the other, in source order
pub open spec fn links_ok(out: Seq<CompiledItem>, codes: Seq<Seq<CompiledItem>>, kinds: Seq<IndexInstruction>) -> bool decreases codes.len() {
    if codes.len() == 0 { out.len() == 0 && kinds.len() == 0 } else {
        let n = seg_len(codes.last(), kinds.last());
        &&& kinds.len() == codes.len() && out.len() >= n
        &&& link_ok(out.subrange(out.len() - n, out.len() as int), codes.last(), kinds.last())
        &&& links_ok(out.subrange(0, out.len() - n), codes.drop_last(), kinds.drop_last())
    }
}
pub proof fn lemma_links_step(out: Seq<CompiledItem>, codes: Seq<Seq<CompiledItem>>, kinds: Seq<IndexInstruction>, seg: Seq<CompiledItem>, code: Seq<CompiledItem>, kind: IndexInstruction)
    requires links_ok(out, codes, kinds), kinds.len() == codes.len(), link_ok(seg, code, kind)
    ensures links_ok(out + seg, codes.push(code), kinds.push(kind))
{
    let o2 = out + seg; let n = seg_len(code, kind);
    assert(seg.len() == n);
    assert(codes.push(code).last() == code); assert(kinds.push(kind).last() == kind);
    assert(o2.subrange(o2.len() - n, o2.len() as int) =~= seg);
    assert(o2.subrange(0, o2.len() - n) =~= out);
    assert(codes.push(code).drop_last() =~= codes); assert(kinds.push(kind).drop_last() =~= kinds);
}
// the short form: one constant index into a list / string
pub open spec fn short_form(out: Seq<CompiledItem>, parts: Seq<(ValueV, IndexInstruction)>) -> bool { out.len() == 1 && is_instr(out[0], VEC_OP) && parts.len() == 1 && parts[0].1 is VecOp }
// the general form: every link by its own kind, in order
pub open spec fn chain_form(out: Seq<CompiledItem>, parts: Seq<(ValueV, IndexInstruction)>) -> bool { exists|codes: Seq<Seq<CompiledItem>>| codes.len() == parts.len() && #[trigger] links_ok(out, codes, kinds_of(parts)) }
pub open spec fn kinds_of(p: Seq<(ValueV, IndexInstruction)>) -> Seq<IndexInstruction> { p.map_values(|x: (ValueV, IndexInstruction)| x.1) }
"""


def build(repo):
    src = Source(repo)
    log = []
    ids = opcode_ids(repo)
    f = src.fn(LIST, "compile", "impl Compile for Index")
    INV = ("invariant i <= registerc, registerc == self.parts@.len(), codes.len() == i, links_ok(result@, codes, kinds_of(self.parts@).take(i as int)), "
           "count(state) == c0, decreases registerc - i,")
    b = translate(f["body"], [
        Rule("R6", "self . try_constexpr_eval ( ) ?", "index_constexpr ( self ) ?", why="Index::try_constexpr_eval abstract"),
        Rule("R1", "let mut result = vec ! [ ] ;", "let mut result : Vec < CompiledItem > = Vec :: new ( ) ;", why="type ascription"),
        Rule("R7", "number . try_into ( ) ?", "number_to_usize ( number ) ?", why="TryFrom<&Number> for usize (obligation C16.nopanic.number_to_usize)"),
        Rule("R9", "format ! ( \"[{index}]\" )", "bracketed_usize ( index )", why="format!(\"[{index}]\")"),
        Rule("R9", "format ! ( \"[{index_temp_register}]\" )", "bracketed_reg ( & index_temp_register )", why="format!(\"[{register}]\")"),
        r_instruction(ids),
        Rule("R12", "vec ! [ $$a , $$b , $$c , ]", "vec3 ( $$a , $$b , $$c )", why="vec![a, b, c]"),
        Rule("R12", "vec ! [ $$a ]", "vec1 ( $$a )", why="vec![a]"),
        Rule("R6", "state . poll_temporary_register ( )", "poll_temporary_register ( state )", why="register allocator abstract"),
        Rule("R6", "state . free_temporary_register ( $r ) ;", "free_temporary_register ( state , $r ) ;", why="register allocator abstract"),
        Rule("R2", "for i in 0 .. registerc { $$body }", lambda bd: ["let mut i : usize = 0 ; while i < registerc", G(INV), "{", G("let ghost verif_before = result@;"), *bd["body"],
                                                                  G("proof { let ghost k = self.parts@[i as int].1; let ghost seg = result@.subrange(verif_before.len() as int, result@.len() as int); "
                                                                    "assert(result@ =~= verif_before + seg); assert(seg.subrange(1, 1 + vi.len() as int) =~= vi); assert(link_ok(seg, vi, k)); "
                                                                    "lemma_links_step(verif_before, codes, kinds_of(self.parts@).take(i as int), seg, vi, k); "
                                                                    "assert(kinds_of(self.parts@).take(i as int).push(k) =~= kinds_of(self.parts@).take(i as int + 1)); codes = codes.push(vi); }"),
                                                                  "i += 1 ;", "}"], count=1, why="for over a range -> while"),
        Rule("R1", "let ( i_value , i_type ) = & self . parts [ i ] ;", "let i_value = & self . parts [ i ] . 0 ; let i_type = & self . parts [ i ] . 1 ;", why="tuple pattern on a reference"),
        Rule("R6", "i_value . compile ( state ) ?", "compile_value ( i_value , state ) ?", why="index expression's code: abstract (register frame contract)"),
        Rule("R13", "let mut val_init = compile_value ( i_value , state ) ? ;", ["let mut val_init = compile_value ( i_value , state ) ? ;", G("let ghost vi = val_init@;")], count=1, why="ghost: the index expression's code"),
        Rule("R1", "i_type == & IndexInstruction :: MapOp", "kind_is_map ( i_type )", why="comparison of the link's kind"),
        Rule("R1", "* i_type == IndexInstruction :: MapOp", "kind_is_map ( i_type )", why="comparison of the link's kind"),
        Rule("R13", "result . append ( & mut $$v ) ;", lambda bb: None if text(bb["v"]) == "val_init" else f"{{ let mut verif_t = {text(bb['v'])} ; result . append ( & mut verif_t ) ; }}", why="temporary named"),
    ], log, "Index::compile")
    check_closed(b, "Index::compile")
    gen = header(log, f"{LIST}: impl Compile for Index") + prelude("compile.rs") + opcode_consts(ids, ["store_fast", "store_skip", "vec_op", "map_op", "delete_name_reference_scoped"]) + SEQ_SPEC + SPEC + f"""
impl Index {{
    //@ OBL C13.index.compile
    #[verifier::loop_isolation(false)]
    pub fn compile(&self, state: &mut State) -> (r: Result<Vec<CompiledItem>, VErr>)
        requires self.parts@.len() >= 1, self.origin_is_map == (self.parts@[0].1 is MapOp),        // Parser::list_index builds both from the receiver's type
                 0 <= count(old(state)) < usize::MAX - 2,
        ensures
            r is Ok ==> short_form(r->Ok_0@, self.parts@) || chain_form(r->Ok_0@, self.parts@),
    {{
        let ghost c0 = count(state);
        let ghost mut codes: Seq<Seq<CompiledItem>> = Seq::empty();
        proof {{ assert(kinds_of(self.parts@).take(0) =~= Seq::<IndexInstruction>::empty()); }}
{render(Rule("R11", "Ok ( result )", [G("proof { assert(kinds_of(self.parts@).take(registerc as int) =~= kinds_of(self.parts@)); assert(links_ok(result@, codes, kinds_of(self.parts@))); }"), "Ok ( result )"], count=1, why="ghost").apply(b, log), 2)}
    }}
}}
}} // verus!
fn main() {{}}
"""
    return gen, [Obl("C13.index.compile", ["C13", "C15", "C02"], fn="Index::compile", desc="Index::compile: every link of an index chain is compiled by its own kind (map_op / vec_op), links in order, index expression once; the constant short form only for a single list / string access")], log


UNITS = [VUnit("c13_index_compile", ["C13", "C15", "C02"], "index chains: each link compiled by its own kind", build)]
UNITS[0].assumes = ["Index::try_constexpr_eval abstract (a constant only for a single link); the index expressions' code abstract; register allocator abstract",
                    "precondition: origin_is_map agrees with the kind of the first link (both derived from the receiver's type by Parser::list_index -- not under contract)"]

"""C10 / C11: `import a, b from m` -- Parser::import_names (import.rs), the part of the `import_name` arm that binds one imported member in the
importing scope: the member is registered (and listed) as a constant, whatever flag the exporter's declaration carries -- an importer
can never rebind an exported member."""
from vlib.rules import *
from vlib.extract import extract_match_arm
from vlib.pattern import Pat

FILE = "compiler/src/ast/import.rs"

SPEC = r"""
pub struct Ident { pub name: VStr, pub ty: Option<TypeLayout>, pub read_only: bool }
impl Ident {
    pub fn mark_const(&mut self) ensures final(self).read_only, final(self).name == old(self).name, final(self).ty == old(self).ty { self.read_only = true; }     // obligation C10.ident.mark_const
    #[verifier::external_body] pub fn to_owned(&self) -> (r: Ident) ensures r == *self { unimplemented!() }
    #[verifier::external_body] pub fn clone(&self) -> (r: Ident) ensures r == *self { unimplemented!() }
}
// the re-typing of imported classes / constructors (adds the class type to the registry, gives the name its constructor type): abstract; name and flag untouched
#[verifier::external_body] pub fn retype_for_classes(i: &mut Ident, n: &Node) ensures final(i).name == old(i).name, final(i).read_only == old(i).read_only { unimplemented!() }
#[verifier::external_body] pub fn parse_ident_node(n: &Node) -> (r: Result<Ident, VErr>) ensures r is Ok ==> !r->Ok_0.read_only && r->Ok_0.ty is None { unimplemented!() }
#[verifier::external_body] pub fn set_type_no_link(i: &mut Ident) ensures final(i).name == old(i).name, final(i).read_only == old(i).read_only { unimplemented!() }
#[verifier::external_body] pub fn add_dependency_keeps(n: &Node, i: &Ident, Ghost(w): Ghost<bool>) requires w ==> i.read_only { unimplemented!() }
// registration in the importing scope: what becomes visible is a constant
#[verifier::external_body] pub fn add_dependency(n: &Node, i: &Ident) requires i.read_only { unimplemented!() }
"""


def build(repo):
    src = Source(repo)
    log = []
    f = src.fn(FILE, "import_names")
    try:
        arm = extract_match_arm(f["body"], "Rule :: import_name")
    except Exception as e:
        raise Undecided(f"{FILE}: arm Rule::import_name of import_names not found: {e}")
    body = arm["body"]
    at = None
    for pat in ("let mut ident = $$e ;", "let ident = $$e ;"):
        pp = Pat(pat)
        at = next((i for i in range(len(body)) if pp.match_at(body, i)), None)
        if at is not None:
            break
    if at is None:
        raise Undecided(f"{FILE}: `let mut ident = ..;` (the binding of the imported member) not found in the import_name arm")
    frag = body[at:]
    log.append(("R0", "import_names, arm Rule::import_name", "from `let mut ident = property.to_owned();` to the end of the arm", "fragment: `property` (the exporter's identifier, with any flag) and `names` are parameters"))
    rules = [
        Rule("R6", "match ident . ty ( ) . unwrap ( ) . as_ref ( ) { $$arms }", "retype_for_classes ( & mut ident , input ) ;", count=1, why="re-typing of imported classes / constructors: abstract (name and const flag untouched)"),
        Rule("R6", "Self :: ident ( $$n ) . to_err_vec ( ) ?", "parse_ident_node ( input ) ?", why="Parser::ident: a fresh identifier of the written name -- not a constant (its contract: unit c10_class / C10.ident.new)"),
        Rule("R6", "ident . set_type_no_link ( $$t ) ;", "set_type_no_link ( & mut ident ) ;", why="typing an identifier: name and const flag untouched"),
    ]
    b = translate(frag, rules + [Rule("R6", "input . user_data ( ) . add_dependency ( & ident ) ;", "add_dependency ( input , & ident ) ;", why="registration in the importing scope: abstract callee that requires a constant")], log, "import_names[import_name]")
    b2 = translate(frag, rules + [Rule("R6", "input . user_data ( ) . add_dependency ( & ident ) ;", "add_dependency_keeps ( input , & ident , Ghost ( property . read_only ) ) ;", why="registration in the importing scope (second reading: at least the exporter's flag)")], [], "import_names[import_name]")
    check_closed(b, "import_names[import_name]")
    gen = header(log, f"{FILE}: Parser::import_names, arm Rule::import_name (binding of one member)") + prelude("parser.rs") + SPEC + f"""
//@ OBL C10.import.member-const
pub fn bind_member(property: &Ident, input: &Node, names: &mut Vec<Ident>) -> (r: Result<(), VErr>)
    ensures r is Ok ==> final(names)@.len() == old(names)@.len() + 1 && final(names)@.subrange(0, old(names)@.len() as int) == old(names)@
            && final(names)@.last().read_only && final(names)@.last().name == property.name,
{{
{render(b, 1)}
    Ok(())
}}

// what holds today and must keep holding while D45 stands: the binding is AT LEAST as constant as the exporter's declaration (an exported class, an `export const`
// written through) -- a binding rebuilt from the written name alone loses the flag at its source
//@ OBL C10.import.member-keeps-flag
pub fn bind_member_keeps(property: &Ident, input: &Node, names: &mut Vec<Ident>) -> (r: Result<(), VErr>)
    ensures r is Ok ==> final(names)@.len() == old(names)@.len() + 1 && final(names)@.subrange(0, old(names)@.len() as int) == old(names)@
            && (property.read_only ==> final(names)@.last().read_only) && final(names)@.last().name == property.name,
{{
{render(b2, 1)}
    Ok(())
}}
}} // verus!
fn main() {{}}
"""
    return gen, [Obl("C10.import.member-keeps-flag", ["C10", "C11"], fn="Parser::import_names[import_name]", desc="import_names: the imported binding carries at least the exporter's const flag (an exported class stays a constant) and the member's name"),
                 Obl("C10.import.member-const", ["C10", "C11"], fn="Parser::import_names[import_name]", desc="import_names: an imported member is registered and listed as a constant, whatever the exporter's flag")], log


UNITS = [VUnit("c10_import_names", ["C10", "C11"], "`import a from m`: the imported member is a constant", build)]
UNITS[0].assumes = ["fragment of the import_name arm; the lookup of the member in the module's export list and the duplicate-name test in front of it are not under contract"]

"""C10 / C11: `import a, b from m` -- Parser::import_names (import.rs), the part of the `import_name` arm that binds one imported member in the
importing scope: the member is registered (and listed) as a constant, whatever flag the exporter's declaration carries -- an importer
can never rebind an exported member."""
from vlib.rules import *
from vlib.extract import extract_match_arm
from vlib.pattern import Pat

FILE = "compiler/src/ast/import.rs"

SPEC = r"""
pub struct Ident { pub name: VStr, pub ty: Option<TypeLayout>, pub read_only: bool }
impl Ident {
    pub fn mark_const(&mut self) ensures final(self).read_only, final(self).name == old(self).name, final(self).ty == old(self).ty { self.read_only = true; }     // obligation C10.ident.mark_const
    #[verifier::external_body] pub fn to_owned(&self) -> (r: Ident) ensures r == *self { unimplemented!() }
    #[verifier::external_body] pub fn clone(&self) -> (r: Ident) ensures r == *self { unimplemented!() }
}
// the re-typing of imported classes / constructors (adds the class type to the registry, gives the name its constructor type): abstract; name and flag untouched
#[verifier::external_body] pub fn retype_for_classes(i: &mut Ident, n: &Node) ensures final(i).name == old(i).name, final(i).read_only == old(i).read_only { unimplemented!() }
// registration in the importing scope: what becomes visible is a constant
#[verifier::external_body] pub fn add_dependency(n: &Node, i: &Ident) requires i.read_only { unimplemented!() }
"""


def build(repo):
    src = Source(repo)
    log = []
    f = src.fn(FILE, "import_names")
    try:
        arm = extract_match_arm(f["body"], "Rule :: import_name")
    except Exception as e:
        raise Undecided(f"{FILE}: arm Rule::import_name of import_names not found: {e}")
    body = arm["body"]
    p = Pat("let mut ident = property . to_owned ( ) ;")
    at = None
    for i in range(len(body)):
        if p.match_at(body, i):
            at = i; break
    if at is None:
        p2 = Pat("let ident = property . to_owned ( ) ;")
        for i in range(len(body)):
            if p2.match_at(body, i):
                at = i; break
    if at is None:
        raise Undecided(f"{FILE}: `let mut ident = property.to_owned();` not found in the import_name arm")
    frag = body[at:]
    log.append(("R0", "import_names, arm Rule::import_name", "from `let mut ident = property.to_owned();` to the end of the arm", "fragment: `property` (the exporter's identifier, with any flag) and `names` are parameters"))
    b = translate(frag, [
        Rule("R6", "match ident . ty ( ) . unwrap ( ) . as_ref ( ) { $$arms }", "retype_for_classes ( & mut ident , input ) ;", count=1, why="re-typing of imported classes / constructors: abstract (name and const flag untouched)"),
        Rule("R6", "input . user_data ( ) . add_dependency ( & ident ) ;", "add_dependency ( input , & ident ) ;", why="registration in the importing scope: abstract callee that requires a constant"),
    ], log, "import_names[import_name]")
    check_closed(b, "import_names[import_name]")
    gen = header(log, f"{FILE}: Parser::import_names, arm Rule::import_name (binding of one member)") + prelude("parser.rs") + SPEC + f"""
//@ OBL C10.import.member-const
pub fn bind_member(property: &Ident, input: &Node, names: &mut Vec<Ident>)
    ensures final(names)@.len() == old(names)@.len() + 1, final(names)@.subrange(0, old(names)@.len() as int) == old(names)@,
            final(names)@.last().read_only && final(names)@.last().name == property.name,
{{
{render(b, 1)}
}}
}} // verus!
fn main() {{}}
"""
    return gen, [Obl("C10.import.member-const", ["C10", "C11"], fn="Parser::import_names[import_name]", desc="import_names: an imported member is registered and listed as a constant, whatever the exporter's flag")], log


UNITS = [VUnit("c10_import_names", ["C10", "C11"], "`import a from m`: the imported member is a constant", build)]
UNITS[0].assumes = ["fragment of the import_name arm; the lookup of the member in the module's export list and the duplicate-name test in front of it are not under contract"]

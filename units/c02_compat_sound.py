"""C02: what an accepted assignment / argument / return means -- TypeLayout::eq_complex (compiler/src/ast/type.rs), the WHOLE function, against the meaning
of types as sets of run-time values: when `expected.eq_complex(supplied, flags)` answers true, every value of the supplied type is a value of the expected
type (so "every value other than nil observed at run time has the kind of the static type" survives every store the compiler accepts).

The three list arms are replaced by calls to the fragment functions unit c02_compat proves exact (C02.compat.list.*); the recursive calls on component
types are abstract with the induction hypothesis (the same statement for the components) as an axiom: the obligation is the inductive step for every arm,
in the order the match tries them.  Outside the statement: types that mention a generic or a `Self` whose class is not yet known, an expected type that is the type of the literal `nil`
(the compiler refuses to declare a variable of that type), and the two leniency flags no caller sets."""
from vlib.rules import *
from vlib.extract import extract_match_arm

TYPE = "compiler/src/ast/type.rs"

SPEC = r"""
use vstd::prelude::*;
verus! {
#[verifier::external_body] pub struct OtherV { x: usize }
#[verifier::external_body] pub struct ClassV { x: usize }
#[verifier::external_body] pub struct GenericV { x: usize }
#[verifier::external_body] pub struct StrW { x: usize }                  // StrWrapper(Option<usize>): the compile-time length, if known
#[verifier::external_body] pub struct OtherN { x: usize }
pub enum NativeType { Str(StrW), Other(OtherN) }
pub enum ListType { Mixed(Vec<TL>), Open(Box<TL>) }
pub enum TL { Generic(GenericV), ClassSelf(Option<ClassV>), List(ListType), Optional(Option<Box<TL>>), Native(NativeType), Class(ClassV), Other(OtherV) }
pub struct Flags { pub executing_class: Option<ClassV>, pub lhs_allow_optional_unwrap: bool, pub force_rhs_to_be_unwrapped_lhs: bool, pub signature_check: bool, pub enforce_str_comptime_len_if_present: bool }
// the flags every caller uses: classless(), use_class(..), signature_check() -- the two leniency switches are never set
pub open spec fn plain(f: Flags) -> bool { !f.lhs_allow_optional_unwrap && !f.force_rhs_to_be_unwrapped_lhs }

// ---- the meaning of a type: the run-time values it admits
pub enum Val { Nil, List(Seq<Val>), Other(int) }
pub uninterp spec fn inhab(t: TL, v: Val) -> bool;
pub open spec fn subset(expected: TL, supplied: TL) -> bool { forall|v: Val| #[trigger] inhab(supplied, v) ==> inhab(expected, v) }
// (stated on the shape of t, as a match on t finds it: triggers on the projection, so a nested component does not re-trigger)
pub broadcast axiom fn ax_optional(t: TL, v: Val) requires t is Optional
    ensures #![trigger inhab(t, v), t->Optional_0] inhab(t, v) == (v is Nil || (t->Optional_0 is Some && inhab(*t->Optional_0->Some_0, v)));
pub broadcast axiom fn ax_mixed(t: TL, v: Val) requires t is List, t->List_0 is Mixed
    ensures #![trigger inhab(t, v), t->List_0] inhab(t, v) == (v is List && v->List_0.len() == t->List_0->Mixed_0@.len() && forall|i: int| #![trigger t->List_0->Mixed_0@[i]] #![trigger v->List_0[i]] 0 <= i < t->List_0->Mixed_0@.len() ==> inhab(t->List_0->Mixed_0@[i], v->List_0[i]));
pub broadcast axiom fn ax_open(t: TL, v: Val) requires t is List, t->List_0 is Open
    ensures #![trigger inhab(t, v), t->List_0] inhab(t, v) == (v is List && forall|i: int| 0 <= i < v->List_0.len() ==> inhab(*t->List_0->Open_0, #[trigger] v->List_0[i]));
pub broadcast axiom fn ax_str(a: TL, b: TL, v: Val) requires a is Native, a->Native_0 is Str, b is Native, b->Native_0 is Str
    ensures #![trigger inhab(a, v), b->Native_0] inhab(a, v) == inhab(b, v);
// inside the statement: no generic and no `Self` of an unknown class anywhere in the type
pub uninterp spec fn closed(t: TL) -> bool;
pub broadcast axiom fn ax_closed(t: TL) ensures #![trigger closed(t)]
    (t is Generic || (t is ClassSelf && t->ClassSelf_0 is None)) ==> !closed(t);
// `Self` written inside class K means K
pub broadcast axiom fn ax_self(t: TL, v: Val) requires t is ClassSelf, t->ClassSelf_0 is Some
    ensures #![trigger inhab(t, v), t->ClassSelf_0] inhab(t, v) == inhab(TL::Class(t->ClassSelf_0->Some_0), v);
pub broadcast axiom fn ax_class_closed(t: TL) requires t is Class ensures #[trigger] closed(t);
pub broadcast axiom fn ax_class_nn(t: TL) requires t is Class ensures #[trigger] no_nil_slot(t);
pub broadcast axiom fn ax_closed_optional(t: TL) requires t is Optional, t->Optional_0 is Some ensures #![trigger closed(t), t->Optional_0] closed(t) == closed(*t->Optional_0->Some_0);
pub broadcast axiom fn ax_closed_mixed(t: TL) requires t is List, t->List_0 is Mixed
    ensures #![trigger closed(t), t->List_0] closed(t) == (forall|i: int| 0 <= i < t->List_0->Mixed_0@.len() ==> closed(#[trigger] t->List_0->Mixed_0@[i]));
pub broadcast axiom fn ax_closed_open(t: TL) requires t is List, t->List_0 is Open ensures #![trigger closed(t), t->List_0] closed(t) == closed(*t->List_0->Open_0);
// an EXPECTED type with no slot of the literal-nil type (`x = nil` without an annotation is rejected: "specify this optional's type")
pub uninterp spec fn no_nil_slot(t: TL) -> bool;
pub broadcast axiom fn ax_nn_optional(t: TL) requires t is Optional
    ensures #![trigger no_nil_slot(t), t->Optional_0] no_nil_slot(t) == (t->Optional_0 is Some && no_nil_slot(*t->Optional_0->Some_0));
pub broadcast axiom fn ax_nn_mixed(t: TL) requires t is List, t->List_0 is Mixed
    ensures #![trigger no_nil_slot(t), t->List_0] no_nil_slot(t) == (forall|i: int| 0 <= i < t->List_0->Mixed_0@.len() ==> no_nil_slot(#[trigger] t->List_0->Mixed_0@[i]));
pub broadcast axiom fn ax_nn_open(t: TL) requires t is List, t->List_0 is Open ensures #![trigger no_nil_slot(t), t->List_0] no_nil_slot(t) == no_nil_slot(*t->List_0->Open_0);
pub broadcast group meaning { ax_self, ax_class_closed, ax_class_nn, ax_optional, ax_mixed, ax_open, ax_str, ax_closed, ax_closed_optional, ax_closed_mixed, ax_closed_open, ax_nn_optional, ax_nn_mixed, ax_nn_open }

// ---- callees
// disregard_distractors(false): aliases and captured-variable wrappers removed at the top: the same values, the same standing
pub uninterp spec fn strip(t: TL) -> TL;
impl TL {
    #[verifier::external_body] pub fn disregard_distractors(&self, is_optional_distractor: bool) -> (r: &TL)
        ensures *r == strip(*self), forall|v: Val| inhab(strip(*self), v) == inhab(*self, v), closed(strip(*self)) == closed(*self), no_nil_slot(strip(*self)) == no_nil_slot(*self) { unimplemented!() }
    // the recursive call on component types: its result is `compat`, of which the induction hypothesis speaks
    #[verifier::external_body] pub fn eq_complex_rec(&self, rhs: &TL, flags: &Flags) -> (r: bool) ensures r == compat(*self, *rhs, *flags) { unimplemented!() }
    #[verifier::external_body] pub fn is_optional(&self) -> (r: (bool, bool)) { unimplemented!() }
}
pub uninterp spec fn compat(expected: TL, supplied: TL, f: Flags) -> bool;
pub broadcast axiom fn induction_hypothesis(a: TL, b: TL, f: Flags) ensures (#[trigger] compat(a, b, f) && plain(f) && closed(a) && closed(b) && no_nil_slot(a)) ==> subset(a, b);
// `lhs == rhs` (derived PartialEq, with ListType::eq / FunctionType::eq inside: C02.compat.listtype.eq, C02.compat.function.eq): equal types admit the same values
#[verifier::external_body] pub fn same_type(a: &TL, b: &TL) -> (r: bool) ensures r ==> subset(*a, *b) { unimplemented!() }
// C16 (cost discipline): `==` on two lists / two present optionals compares their components through eq_complex (ListType::eq, derived eq of the
// payload) -- which the arm for that pair then does again, at every level of nesting (2^depth comparisons: D88).  `==` may only be asked of a pair
// whose arm does not descend into the components.
pub open spec fn verif_by_components(a: TL, b: TL) -> bool { (a is List && b is List) || (a is Optional && a->Optional_0 is Some && b is Optional && b->Optional_0 is Some) }
#[verifier::external_body] pub fn same_type_cheap(a: &TL, b: &TL) -> (r: bool) requires !verif_by_components(*a, *b) { unimplemented!() }
impl GenericV { #[verifier::external_body] pub fn is_compatible(&self, other: &TL, flags: &Flags) -> (r: bool) { unimplemented!() } }
impl ClassV { #[verifier::external_body] pub fn to_owned(&self) -> (r: ClassV) ensures r == *self { unimplemented!() }
              pub fn deref(&self) -> (r: &ClassV) ensures *r == *self { self } }
// the list arms: exact (obligations C02.compat.list.mixed-mixed / open-open / mixed-open / open-mixed of unit c02_compat)
pub open spec fn mixed_mixed(t1: Seq<TL>, t2: Seq<TL>, f: Flags) -> bool { t1.len() == t2.len() && forall|j: int| 0 <= j < t1.len() && j < t2.len() ==> compat(t1[j], t2[j], f) }
pub open spec fn mixed_open(t1: Seq<TL>, t2: TL, f: Flags) -> bool { forall|j: int| 0 <= j < t1.len() ==> compat(t2, t1[j], f) }
#[verifier::external_body] pub fn eq_complex_arm_mixed_mixed(t1: &Vec<TL>, t2: &Vec<TL>, flags: &Flags) -> (r: bool) ensures r == mixed_mixed(t1@, t2@, *flags) { unimplemented!() }
#[verifier::external_body] pub fn eq_complex_arm_open_open(t1: &Box<TL>, t2: &Box<TL>, flags: &Flags) -> (r: bool) ensures r == compat(**t1, **t2, *flags) { unimplemented!() }
#[verifier::external_body] pub fn eq_complex_arm_mixed_open(t1: &Vec<TL>, t2: &TL, flags: &Flags) -> (r: bool) ensures r == mixed_open(t1@, *t2, *flags) { unimplemented!() }
"""

LIST_ARMS = [
    ("( Self :: List ( ListType :: Mixed ( t1 ) ) , Self :: List ( ListType :: Mixed ( t2 ) ) , _ )", "eq_complex_arm_mixed_mixed ( t1 , t2 , flags )"),
    ("( Self :: List ( ListType :: Open ( t1 ) ) , Self :: List ( ListType :: Open ( t2 ) ) , _ )", "eq_complex_arm_open_open ( t1 , t2 , flags )"),
    ("( Self :: List ( ListType :: Open ( t2 ) ) , Self :: List ( ListType :: Mixed ( t1 ) ) , _ )", "eq_complex_arm_mixed_open ( t1 , t2 , flags )"),
]


def build(repo):
    src = Source(repo)
    log = []
    f = src.fn(TYPE, "eq_complex", "impl TypeLayout")
    body = list(f["body"])
    for pat, call in LIST_ARMS:
        try:
            arm = extract_match_arm(body, pat)
        except Exception as e:
            raise Undecided(f"eq_complex: list arm not found: {e}")
        if not arm["block"]:
            raise Undecided("eq_complex: a list arm is no longer a block")
        c = arm["span"][1]
        body[c - len(arm["body"]):c] = lex(call)
        log.append(("R0", "list arm body of eq_complex", call, "fragment proved exact in unit c02_compat (C02.compat.list.*): replaced by a call under that contract"))
    b = translate(body, [
        Rule("R1", "Cow :: Borrowed ( $$e )", "$$e", why="Cow::Borrowed(&T): the same reference"),
        Rule("R1", "$v . as_ref ( )", "$v", why="Cow::as_ref / Box::as_ref: the same reference"),
        Rule("R6", "lhs == rhs", "same_type ( lhs , rhs )", why="PartialEq for TypeLayout: abstract, equal types admit the same values"),
        Rule("R1", "! rhs . is_optional ( ) . 0", "! rhs . is_optional ( ) . 0", why="(only under force_rhs_to_be_unwrapped_lhs)"),
        Rule("R1", "TypeLayout :: Class", "TL :: Class", why="TypeLayout -> model type"),
        Rule("R1", "Self :: $v", "TL :: $v", why="Self -> model type"),
        Rule("R6", ". eq_complex ( $$a )", ". eq_complex_rec ( $$a )", why="recursive call: abstract with the induction hypothesis"),
        Rule("R1", "& flags )", "flags )", why="flags are already a reference"),
    ], log, "eq_complex")
    check_closed(b, "eq_complex")
    bcost = [("same_type_cheap" if t == "same_type" else t) for t in b]
    gen = header(log, f"{TYPE}: TypeLayout::eq_complex (whole function; list arms by their fragment contracts)") + SPEC + f"""
//@ OBL C02.compat.sound
pub fn eq_complex(self_: &TL, rhs: &TL, flags: &Flags) -> (r: bool)
    ensures
        // accepted => every value the supplied type admits is a value of the expected type
        (r && plain(*flags) && closed(*self_) && closed(*rhs) && no_nil_slot(*self_)) ==> subset(*self_, *rhs),
{{
    broadcast use meaning, induction_hypothesis;
{render(b, 1)}
}}

//@ KF C02.compat.shared-lists-invariant
// lists are SHARED, not copied: `zs: [str...] = e` makes `zs` an alias of `e`, and what is later pushed through `zs` is seen through `e` and through
// every other alias.  For that to be sound an accepted list type must admit exactly the values the supplied one does (invariance) -- the same
// statement with the inclusion the other way round.  Known finding D99: the empty fixed shape `[]` is accepted as `[T...]` for every T.
pub fn eq_complex_shared(self_: &TL, rhs: &TL, flags: &Flags) -> (r: bool)
    ensures
        (r && plain(*flags) && closed(*self_) && closed(*rhs) && no_nil_slot(*self_) && strip(*rhs) is List) ==> subset(*rhs, *self_),
{{
    broadcast use meaning, induction_hypothesis;
{render(b, 1)}
}}

//@ OBL C16.compat.components-once
// the same text: the components of two lists / two present optionals are compared ONCE per level
pub fn eq_complex_cost(self_: &TL, rhs: &TL, flags: &Flags) -> (r: bool)
{{
{render(bcost, 1)}
}}

// ---- a lemma over the contract of ListType::try_coerce_to_open (obligation C02.coerce.open of unit c02_compat): a fixed-shape list is
// treated as `[T...]`, T = slot 0, only if every adjacent pair of slots is compatible -- then every value of the fixed-shape type is a value of `[T...]`
pub open spec fn adj(t: Seq<TL>, j: int, f: Flags) -> bool {{ compat(t[j], t[j + 1], f) }}
pub open spec fn chain(t: Seq<TL>, f: Flags) -> bool {{ forall|j: int| 0 <= j && j + 1 < t.len() ==> #[trigger] adj(t, j, f) }}
pub proof fn lemma_chain(ts: Seq<TL>, f: Flags, k: int)
    requires chain(ts, f), plain(f), 0 <= k < ts.len(), forall|j: int| 0 <= j < ts.len() ==> closed(#[trigger] ts[j]) && no_nil_slot(ts[j]),
    ensures subset(ts[0], ts[k]),
    decreases k,
{{
    broadcast use induction_hypothesis;
    if k > 0 {{ lemma_chain(ts, f, k - 1); assert(adj(ts, k - 1, f)); assert(subset(ts[k - 1], ts[k])); }}
}}
//@ OBL C02.coerce.sound
pub proof fn lemma_coerce_sound(ts: Vec<TL>, f: Flags, open: TL)
    requires ts@.len() > 0, chain(ts@, f), plain(f), forall|j: int| 0 <= j < ts@.len() ==> closed(#[trigger] ts@[j]) && no_nil_slot(ts@[j]),
             open is List, open->List_0 is Open, *open->List_0->Open_0 == ts@[0],           // what try_coerce_to_open returns (C02.coerce.open)
    ensures subset(open, TL::List(ListType::Mixed(ts))),
{{
    broadcast use meaning;
    let m = TL::List(ListType::Mixed(ts));
    assert forall|v: Val| #[trigger] inhab(m, v) implies inhab(open, v) by {{
        assert(m->List_0 is Mixed);
        assert forall|i: int| 0 <= i < v->List_0.len() implies inhab(ts@[0], #[trigger] v->List_0[i]) by {{
            lemma_chain(ts@, f, i);
            assert(inhab(m->List_0->Mixed_0@[i], v->List_0[i]));
        }}
        assert(open->List_0 is Open);
    }}
}}
}} // verus!
fn main() {{}}
""".replace("self.disregard_distractors", "self_.disregard_distractors")
    return gen, [Obl("C02.compat.shared-lists-invariant", ["C02"], kind="kf", finding="D99", fn="TypeLayout::eq_complex", desc="lists are shared between aliases: an accepted list type admits exactly the values of the supplied one -- known finding D99: the empty fixed shape `[]` is accepted as `[T...]` for every T (and `[T...]` as `[T?...]`), so two aliases of one list can have different element types"),
                 Obl("C16.compat.components-once", ["C16"], fn="TypeLayout::eq_complex", desc="cost discipline: `==` is only asked of a pair whose arm does not descend into the components -- two lists / two present optionals are compared by their arm alone, once per level (D88: 2^depth)"),
                 Obl("C02.coerce.sound", ["C02"], fn="ListType::try_coerce_to_open (lemma over its contract)", desc="a fixed-shape list that try_coerce_to_open accepts as `[T...]` only holds T values: every value of the fixed-shape type is a value of `[T...]` (lemma over C02.coerce.open and the induction hypothesis)"),
                 Obl("C02.compat.sound", ["C02", "C12"], fn="TypeLayout::eq_complex", desc="eq_complex answers true only if every run-time value of the supplied type is a value of the expected type (inductive step over every arm, in match order; closed types, plain flags, expected type without a literal-nil slot)")], log


UNITS = [VUnit("c02_compat_sound", ["C02", "C12", "C16"], "type compatibility is sound: accepted => the supplied type's values are values of the expected type", build)]
UNITS[0].assumes = ["induction hypothesis for the recursive calls on component types is an axiom (partial correctness; termination of eq_complex is not proved)",
                    "the meaning of types (which run-time values a type admits) is the stated axioms: nil-type, T?, fixed-shape and open lists, strings of any compile-time length; other types are opaque",
                    "PartialEq for TypeLayout (`lhs == rhs`): equal types admit the same values (assumed; its list / function parts are C02.compat.listtype.eq / function.eq); disregard_distractors keeps the admitted values",
                    "outside the statement: types mentioning a generic or a `Self` whose class is not yet known, an expected type with a literal-nil slot, flags lhs_allow_optional_unwrap / force_rhs_to_be_unwrapped_lhs (no caller sets them)"]

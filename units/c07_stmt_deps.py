"""C07: what a statement depends on (`impl Dependencies for <statement>`): a closure captures exactly the variables its body's statements
depend on, so a statement that forgets one of its parts (the else-if chain, the loop step, the place an element assignment writes
through) leaves that variable invisible to the closure once its owner has returned."""
from vlib.rules import *

AST = "compiler/src/ast/"

SPEC = r"""
use vstd::prelude::*;
verus! {
#[verifier::external_body] pub struct Dep { x: usize }
// a part of a statement (Value, Block, Index, nested statement ...): its net dependencies are an abstract callee, compared as a set
#[verifier::external_body] pub struct PartV { x: usize }
pub uninterp spec fn nd(p: PartV) -> Set<Dep>;
// what a part mentions before its OWN declarations are subtracted (`dependencies`): NOT known to equal nd -- a block's locals are in it, and
// a name that is only a block's local must not end up in the capture list of the enclosing function
pub uninterp spec fn all_mentions(p: PartV) -> Set<Dep>;
impl PartV {
    #[verifier::external_body] pub fn net_dependencies(&self) -> (r: Vec<Dep>) ensures r@.to_set() == nd(*self) { unimplemented!() }
    #[verifier::external_body] pub fn dependencies(&self) -> (r: Vec<Dep>) ensures r@.to_set() == all_mentions(*self) { unimplemented!() }
}
pub open spec fn ndo(p: Option<PartV>) -> Set<Dep> { match p { Some(x) => nd(x), None => Set::<Dep>::empty() } }
pub proof fn lemma_append_set(a: Seq<Dep>, b: Seq<Dep>) ensures (a + b).to_set() == a.to_set().union(b.to_set()) {
    assert forall|x: Dep| (a + b).to_set().contains(x) == a.to_set().union(b.to_set()).contains(x) by {
        if (a + b).contains(x) { let i = choose|i: int| 0 <= i < (a + b).len() && (a + b)[i] == x; if i < a.len() { assert(a[i] == x); } else { assert(b[i - a.len()] == x); } }
        if a.contains(x) { let i = choose|i: int| 0 <= i < a.len() && a[i] == x; assert((a + b)[i] == x); }
        if b.contains(x) { let i = choose|i: int| 0 <= i < b.len() && b[i] == x; assert((a + b)[a.len() + i] == x); }
    }
    assert((a + b).to_set() =~= a.to_set().union(b.to_set()));
}
pub proof fn lemma_empty_set() ensures Seq::<Dep>::empty().to_set() == Set::<Dep>::empty() { assert(Seq::<Dep>::empty().to_set() =~= Set::<Dep>::empty()); }
pub fn vappend(a: &mut Vec<Dep>, b: &mut Vec<Dep>) ensures final(a)@.to_set() == old(a)@.to_set().union(old(b)@.to_set()), final(a)@ == old(a)@ + old(b)@ {
    proof { lemma_append_set(a@, b@); }
    a.append(b);
}
pub fn vempty() -> (r: Vec<Dep>) ensures r@.to_set() == Set::<Dep>::empty() { proof { lemma_empty_set(); } Vec::new() }

// ---- the statements: field names and kinds as declared; every part that is evaluated when the statement runs
pub enum ElseStatement { Block(PartV), IfStatement(Box<PartV>) }
pub open spec fn nd_else(e: ElseStatement) -> Set<Dep> { match e { ElseStatement::Block(b) => nd(b), ElseStatement::IfStatement(i) => nd(*i) } }
// ElseStatement::net_dependencies: the trait default = its own `dependencies` (obligation C07.deps.stmt.else) minus its `supplies` (none)
impl ElseStatement { #[verifier::external_body] pub fn net_dependencies(&self) -> (r: Vec<Dep>) ensures r@.to_set() == nd_else(*self) { unimplemented!() } }
pub struct IfStatement { pub value: PartV, pub body: PartV, pub else_statement: Option<ElseStatement> }
pub struct WhileLoop { pub condition: PartV, pub body: PartV }
pub struct NumberLoop { pub val_start: PartV, pub val_end: PartV, pub step: Option<PartV>, pub body: PartV }
pub struct ReturnStatement { pub value: Option<PartV>, pub ends_module: bool }
pub struct Assertion { pub value: PartV }
pub struct PrintStatement(pub PartV);
pub struct Reassignment { pub path: PartV, pub value: PartV }
// collections of parts: a list literal's elements, a call's arguments, the steps of an index, a map literal's keys AND values
pub struct List { pub values: Vec<PartV> }
pub struct FunctionArguments(pub Vec<PartV>);
#[verifier::external_body] pub struct StepKind { x: usize }
pub struct Index { pub parts: Vec<(PartV, StepKind)> }
pub struct MapInitializer { pub map: Vec<(PartV, PartV)> }
pub struct Map { pub initializer: MapInitializer }
pub open spec fn deps_all(s: Seq<PartV>) -> Set<Dep> decreases s.len() { if s.len() == 0 { Set::<Dep>::empty() } else { deps_all(s.drop_last()).union(nd(s.last())) } }
pub open spec fn deps_firsts(s: Seq<(PartV, StepKind)>) -> Set<Dep> decreases s.len() { if s.len() == 0 { Set::<Dep>::empty() } else { deps_firsts(s.drop_last()).union(nd(s.last().0)) } }
pub open spec fn deps_pairs(s: Seq<(PartV, PartV)>) -> Set<Dep> decreases s.len() { if s.len() == 0 { Set::<Dep>::empty() } else { deps_pairs(s.drop_last()).union(nd(s.last().0)).union(nd(s.last().1)) } }
pub proof fn lemma_all_step(l: Seq<PartV>, k: int) requires 0 <= k < l.len() ensures deps_all(l.subrange(0, k + 1)) == deps_all(l.subrange(0, k)).union(nd(l[k])) { assert(l.subrange(0, k + 1).drop_last() =~= l.subrange(0, k)); }
pub proof fn lemma_firsts_step(l: Seq<(PartV, StepKind)>, k: int) requires 0 <= k < l.len() ensures deps_firsts(l.subrange(0, k + 1)) == deps_firsts(l.subrange(0, k)).union(nd(l[k].0)) { assert(l.subrange(0, k + 1).drop_last() =~= l.subrange(0, k)); }
pub proof fn lemma_pairs_step(l: Seq<(PartV, PartV)>, k: int) requires 0 <= k < l.len() ensures deps_pairs(l.subrange(0, k + 1)) == deps_pairs(l.subrange(0, k)).union(nd(l[k].0)).union(nd(l[k].1)) { assert(l.subrange(0, k + 1).drop_last() =~= l.subrange(0, k)); }
// a dot chain: `.field` and `.method(args)` links; it depends on the arguments of every method call in it
pub enum DotLookupOption { Name { name: PartV }, FunctionCall { function_name: PartV, arguments: PartV, assume_self_is_on_top: bool } }
pub struct DotChain { pub links: Vec<DotLookupOption> }
pub open spec fn link_deps(l: DotLookupOption) -> Set<Dep> { match l { DotLookupOption::FunctionCall { arguments, .. } => nd(arguments), _ => Set::<Dep>::empty() } }
pub open spec fn chain_deps(l: Seq<DotLookupOption>) -> Set<Dep> decreases l.len() { if l.len() == 0 { Set::<Dep>::empty() } else { chain_deps(l.drop_last()).union(link_deps(l.last())) } }
pub proof fn lemma_chain_step(l: Seq<DotLookupOption>, k: int) requires 0 <= k < l.len() ensures chain_deps(l.subrange(0, k + 1)) == chain_deps(l.subrange(0, k)).union(link_deps(l[k])) {
    assert(l.subrange(0, k + 1).drop_last() =~= l.subrange(0, k));
}
pub enum ReassignmentPath { Ident(PartV), ReferenceToSelf(Option<PartV>), Index { lhs: Box<PartV>, index: PartV }, DotLookup { lhs: Box<PartV>, dot_chain: PartV, expected_type: PartV } }
"""

# (obligation, file, impl header, receiver type, spec of the result set, description)
STMTS = [
    ("if", "if_statement.rs", "impl Dependencies for IfStatement", "IfStatement",
     "nd(self.value).union(nd(self.body)).union(match self.else_statement { Some(e) => nd_else(e), None => Set::<Dep>::empty() })", "condition, body and the whole else / else-if chain"),
    ("else", "if_statement.rs", "impl Dependencies for ElseStatement", "ElseStatement", "nd_else(*self)", "the block or the chained if"),
    ("while", "while_loop.rs", "impl Dependencies for WhileLoop", "WhileLoop", "nd(self.condition).union(nd(self.body))", "condition and body"),
    ("from", "number_loop.rs", "impl Dependencies for NumberLoop", "NumberLoop", "nd(self.val_start).union(nd(self.val_end)).union(ndo(self.step)).union(nd(self.body))", "start, end, step and body"),
    ("return", "return.rs", "impl Dependencies for ReturnStatement", "ReturnStatement", "ndo(self.value)", "the returned value"),
    ("assert", "assertion.rs", "impl Dependencies for Assertion", "Assertion", "nd(self.value)", "the asserted value"),
    ("print", "print_statement.rs", "impl Dependencies for PrintStatement", "PrintStatement", "nd(self.0)", "the printed value"),
    ("reassign", "reassignment.rs", "impl Dependencies for Reassignment", "Reassignment", "nd(self.path).union(nd(self.value))", "the place written through AND the value"),
]
PATH = ("path", "reassignment.rs", "impl Dependencies for ReassignmentPath", "ReassignmentPath",
        "match *self { ReassignmentPath::Ident(i) => nd(i), ReassignmentPath::ReferenceToSelf(_) => Set::<Dep>::empty(), ReassignmentPath::Index { lhs, index } => nd(*lhs).union(nd(index)), ReassignmentPath::DotLookup { lhs, dot_chain, .. } => nd(*lhs).union(nd(dot_chain)) }",
        "the root variable, every index expression and every method-call argument on the way")

def _array_flat_map(b):
    """R2: `[a, b, ..].into_iter().flat_map(|x| x.net_dependencies()).collect()` over a literal array: the items' results appended in order"""
    items, cur, d = [], [], 0
    for t in b["items"] + [","]:
        if t in ("(", "[", "{"): d += 1
        elif t in (")", "]", "}"): d -= 1
        if t == "," and d == 0:
            if cur: items.append(cur)
            cur = []
        else:
            cur.append(t)
    out = ["{", "let mut verif_acc = vempty ( ) ;"]
    for it in items:
        out += ["{", "let mut verif_t = (", *it, ") . net_dependencies ( ) ;", "vappend ( & mut verif_acc , & mut verif_t ) ;", "}"]
    return out + ["verif_acc", "}"]


RULES = [
    Rule("R2", "[ $$items ] . into_iter ( ) . flat_map ( | $x | $x . net_dependencies ( ) ) . collect ( )", _array_flat_map, why="flat_map over a literal array: each item's free variables, appended in order"),
    Rule("R2", "[ $$items ] . iter ( ) . flat_map ( | $x | $x . net_dependencies ( ) ) . collect ( )", _array_flat_map, why="flat_map over a literal array: each item's free variables, appended in order"),
    Rule("R1", "Vec < super :: Dependency >", "Vec < Dep >", why="type path"), Rule("R1", "Vec < Dependency >", "Vec < Dep >", why="type name"),
    Rule("R12", "vec ! [ ]", "vempty ( )", why="vec![] (with its set view)"),
    Rule("R13", "$a . append ( & mut $$b ) ;", lambda bb: f"{{ let mut verif_tmp = {text(bb['b'])} ; vappend ( & mut {text(bb['a'])} , & mut verif_tmp ) ; }}", why="Vec::append (temporary named; set view of the concatenation)"),
]


def build(repo):
    src = Source(repo)
    log = []
    parts, obls = [], []
    for (oid, file, hdr, recv, spec, desc) in STMTS + [PATH]:
        try:
            f = src.fn(AST + file, "dependencies", hdr)
        except Exception as e:
            if oid == "path":
                continue        # ReassignmentPath has no Dependencies impl of its own: then Reassignment cannot meet its contract (reported there)
            raise
        b = translate(f["body"], RULES, log, f"{recv}::dependencies")
        check_closed(b, f"{recv}::dependencies")
        parts.append(f"""impl {recv} {{
    //@ OBL C07.deps.stmt.{oid}
    pub fn dependencies(&self) -> (r: Vec<Dep>)
        ensures r@.to_set() == {spec}
    {{
{render(b, 2)}
    }}
}}
""")
        obls.append(Obl(f"C07.deps.stmt.{oid}", ["C07", "C01"] if oid in ("if", "else", "while", "from", "return") else ["C07"], fn=f"{recv}::dependencies", desc=f"{recv}::dependencies: {desc} -- each part's NET dependencies (a block's own locals are not captured)"))
    fd = src.fn(AST + "dot_lookup.rs", "dependencies", "impl Dependencies for DotChain")
    inv = ("invariant $K <= self.links@.len(), result@.to_set() == chain_deps(self.links@.subrange(0, $K as int)) decreases self.links@.len() - $K")
    bd = translate(fd["body"], RULES + [
        Rule("R2", "for $x in & self . links { $$body }", lambda b: for_in_vec("d", inv).repl({"x": b["x"], "v": ["self", ".", "links"], "body": [G("proof { lemma_chain_step(self.links@, verif_k_d as int - 1); }"), *b["body"]]}), count=1, why="for over &Vec -> indexed while"),
    ], log, "DotChain::dependencies")
    check_closed(bd, "DotChain::dependencies")
    if bd[-1] != "result":
        raise Undecided("DotChain::dependencies: final `result` not found")
    bd = bd[:-1] + [G("proof { assert(self.links@.subrange(0, self.links@.len() as int) =~= self.links@); }"), "result"]
    parts.append(f"""impl DotChain {{
    //@ OBL C07.deps.stmt.dot-chain
    #[verifier::loop_isolation(false)]
    pub fn dependencies(&self) -> (r: Vec<Dep>)
        ensures r@.to_set() == chain_deps(self.links@)
    {{
{render(bd, 2)}
    }}
}}
""")
    obls.append(Obl("C07.deps.stmt.dot-chain", ["C07"], fn="DotChain::dependencies", desc="DotChain::dependencies: the arguments of every method call in the chain"))
    # ---- collections: flat_map over the elements (List, FunctionArguments, Index) and the pair loop of Map
    def flat(label, vec, spec, lemma):
        def repl(b):
            x, body = text(b["x"]), b["body"]
            k, acc = f"verif_k_{label}", f"verif_acc_{label}"
            inv = f"invariant {k} <= {vec}@.len(), {acc}@.to_set() == {spec}({vec}@.subrange(0, {k} as int)) decreases {vec}@.len() - {k}"
            return ["{", f"let mut {acc} = vempty ( ) ; let mut {k} : usize = 0 ; while {k} < {vec} . len ( )", G(inv), "{", f"let {x} = & {vec} [ {k} ] ; {k} += 1 ;",
                    G(f"proof {{ {lemma}({vec}@, {k} as int - 1); }}"), "let mut verif_t =", *body, f"; vappend ( & mut {acc} , & mut verif_t ) ;", "}",
                    G(f"proof {{ assert({vec}@.subrange(0, {vec}@.len() as int) =~= {vec}@); }}"), acc, "}"]
        return repl
    COLL = [
        ("list", "list.rs", "impl Dependencies for List", "List", "self . values", "deps_all", "lemma_all_step", "deps_all(self.values@)", "every element"),
        ("args", "function_arguments.rs", "impl Dependencies for FunctionArguments", "FunctionArguments", "self . 0", "deps_all", "lemma_all_step", "deps_all(self.0@)", "every argument"),
        ("index", "list.rs", "impl Dependencies for Index", "Index", "self . parts", "deps_firsts", "lemma_firsts_step", "deps_firsts(self.parts@)", "every index expression"),
    ]
    for (oid, file, hdr, recv, vec, spec, lemma, post, desc) in COLL:
        fx = src.fn(AST + file, "dependencies", hdr)
        bx = translate(fx["body"], [Rule("R2", vec + " . iter ( ) . flat_map ( | $x | $$body ) . collect ( )", flat(oid, vec.replace(" ", ""), spec, lemma), count=1,
                                         why="iter().flat_map(f).collect(): the closure's results concatenated (as a set: their union)")], log, f"{recv}::dependencies")
        check_closed(bx, f"{recv}::dependencies")
        parts.append(f"""impl {recv} {{
    //@ OBL C07.deps.stmt.{oid}
    #[verifier::loop_isolation(false)]
    pub fn dependencies(&self) -> (r: Vec<Dep>)
        ensures r@.to_set() == {post}
    {{
{render(bx, 2)}
    }}
}}
""")
        obls.append(Obl(f"C07.deps.stmt.{oid}", ["C07", "C02"], fn=f"{recv}::dependencies", desc=f"{recv}::dependencies: {desc}"))
    fmp = src.fn(AST + "map.rs", "dependencies", "impl Dependencies for Map")
    invm = "invariant verif_k_m <= self.initializer.map@.len(), result@.to_set() == deps_pairs(self.initializer.map@.subrange(0, verif_k_m as int)) decreases self.initializer.map@.len() - verif_k_m"
    bmp = translate(fmp["body"], RULES + [
        Rule("R2", "for ( $k , $v ) in & self . initializer . map { $$body }", lambda b: ["let mut verif_k_m : usize = 0 ; while verif_k_m < self . initializer . map . len ( )", G(invm), "{",
             f"let {text(b['k'])} = & self . initializer . map [ verif_k_m ] . 0 ; let {text(b['v'])} = & self . initializer . map [ verif_k_m ] . 1 ; verif_k_m += 1 ;",
             G("proof { lemma_pairs_step(self.initializer.map@, verif_k_m as int - 1); }"), *b["body"], "}"], why="for over &Vec<(K, V)> -> indexed while"),
    ], log, "Map::dependencies")
    check_closed(bmp, "Map::dependencies")
    if "verif_k_m" not in bmp or bmp[-1] != "result":
        raise Undecided("Map::dependencies: the pair loop / final `result` not found")
    bmp = bmp[:-1] + [G("proof { assert(self.initializer.map@.subrange(0, self.initializer.map@.len() as int) =~= self.initializer.map@); }"), "result"]
    parts.append(f"""impl Map {{
    //@ OBL C07.deps.stmt.map
    #[verifier::loop_isolation(false)]
    pub fn dependencies(&self) -> (r: Vec<Dep>)
        ensures r@.to_set() == deps_pairs(self.initializer.map@)
    {{
{render(bmp, 2)}
    }}
}}
""")
    obls.append(Obl("C07.deps.stmt.map", ["C07", "C02"], fn="Map::dependencies", desc="Map::dependencies: every key AND every value of the literal"))
    gen = header(log, "impl Dependencies for IfStatement / ElseStatement / WhileLoop / NumberLoop / ReturnStatement / Assertion / PrintStatement / Reassignment (/ ReassignmentPath) :: dependencies") + SPEC + "\n".join(parts) + "\n} // verus!\nfn main() {}\n"
    return gen, obls, log


UNITS = [VUnit("c07_stmt_deps", ["C07", "C02", "C01"], "what a statement depends on = what a closure must capture", build)]
UNITS[0].assumes = ["the statements' struct shapes (field names, Option / Box kinds) are written by hand from the declarations; a renamed field fails closed (does not compile -> undecided)",
                    "net_dependencies of every part is an abstract callee, compared as a set; get_net_dependencies (the supplies filter), Block, Function and Class are not under contract here"]

"""C07: what a statement depends on (`impl Dependencies for <statement>`): a closure captures exactly the variables its body's statements
depend on, so a statement that forgets one of its parts (the else-if chain, the loop step, the place an element assignment writes
through) leaves that variable invisible to the closure once its owner has returned."""
from vlib.rules import *

AST = "compiler/src/ast/"

SPEC = r"""
use vstd::prelude::*;
verus! {
#[verifier::external_body] pub struct Dep { x: usize }
// a part of a statement (Value, Block, Index, nested statement ...): its net dependencies are an abstract callee, compared as a set
#[verifier::external_body] pub struct PartV { x: usize }
pub uninterp spec fn nd(p: PartV) -> Set<Dep>;
impl PartV { #[verifier::external_body] pub fn net_dependencies(&self) -> (r: Vec<Dep>) ensures r@.to_set() == nd(*self) { unimplemented!() } }
pub open spec fn ndo(p: Option<PartV>) -> Set<Dep> { match p { Some(x) => nd(x), None => Set::<Dep>::empty() } }
pub proof fn lemma_append_set(a: Seq<Dep>, b: Seq<Dep>) ensures (a + b).to_set() == a.to_set().union(b.to_set()) {
    assert forall|x: Dep| (a + b).to_set().contains(x) == a.to_set().union(b.to_set()).contains(x) by {
        if (a + b).contains(x) { let i = choose|i: int| 0 <= i < (a + b).len() && (a + b)[i] == x; if i < a.len() { assert(a[i] == x); } else { assert(b[i - a.len()] == x); } }
        if a.contains(x) { let i = choose|i: int| 0 <= i < a.len() && a[i] == x; assert((a + b)[i] == x); }
        if b.contains(x) { let i = choose|i: int| 0 <= i < b.len() && b[i] == x; assert((a + b)[a.len() + i] == x); }
    }
    assert((a + b).to_set() =~= a.to_set().union(b.to_set()));
}
pub proof fn lemma_empty_set() ensures Seq::<Dep>::empty().to_set() == Set::<Dep>::empty() { assert(Seq::<Dep>::empty().to_set() =~= Set::<Dep>::empty()); }
pub fn vappend(a: &mut Vec<Dep>, b: &mut Vec<Dep>) ensures final(a)@.to_set() == old(a)@.to_set().union(old(b)@.to_set()), final(a)@ == old(a)@ + old(b)@ {
    proof { lemma_append_set(a@, b@); }
    a.append(b);
}
pub fn vempty() -> (r: Vec<Dep>) ensures r@.to_set() == Set::<Dep>::empty() { proof { lemma_empty_set(); } Vec::new() }

// ---- the statements: field names and kinds as declared; every part that is evaluated when the statement runs
pub enum ElseStatement { Block(PartV), IfStatement(Box<PartV>) }
pub open spec fn nd_else(e: ElseStatement) -> Set<Dep> { match e { ElseStatement::Block(b) => nd(b), ElseStatement::IfStatement(i) => nd(*i) } }
// ElseStatement::net_dependencies: the trait default = its own `dependencies` (obligation C07.deps.stmt.else) minus its `supplies` (none)
impl ElseStatement { #[verifier::external_body] pub fn net_dependencies(&self) -> (r: Vec<Dep>) ensures r@.to_set() == nd_else(*self) { unimplemented!() } }
pub struct IfStatement { pub value: PartV, pub body: PartV, pub else_statement: Option<ElseStatement> }
pub struct WhileLoop { pub condition: PartV, pub body: PartV }
pub struct NumberLoop { pub val_start: PartV, pub val_end: PartV, pub step: Option<PartV>, pub body: PartV }
pub struct ReturnStatement(pub Option<PartV>);
pub struct Assertion { pub value: PartV }
pub struct PrintStatement(pub PartV);
pub struct Reassignment { pub path: PartV, pub value: PartV }
// a dot chain: `.field` and `.method(args)` links; it depends on the arguments of every method call in it
pub enum DotLookupOption { Name { name: PartV }, FunctionCall { function_name: PartV, arguments: PartV, assume_self_is_on_top: bool } }
pub struct DotChain { pub links: Vec<DotLookupOption> }
pub open spec fn link_deps(l: DotLookupOption) -> Set<Dep> { match l { DotLookupOption::FunctionCall { arguments, .. } => nd(arguments), _ => Set::<Dep>::empty() } }
pub open spec fn chain_deps(l: Seq<DotLookupOption>) -> Set<Dep> decreases l.len() { if l.len() == 0 { Set::<Dep>::empty() } else { chain_deps(l.drop_last()).union(link_deps(l.last())) } }
pub proof fn lemma_chain_step(l: Seq<DotLookupOption>, k: int) requires 0 <= k < l.len() ensures chain_deps(l.subrange(0, k + 1)) == chain_deps(l.subrange(0, k)).union(link_deps(l[k])) {
    assert(l.subrange(0, k + 1).drop_last() =~= l.subrange(0, k));
}
pub enum ReassignmentPath { Ident(PartV), ReferenceToSelf(Option<PartV>), Index { lhs: Box<PartV>, index: PartV }, DotLookup { lhs: Box<PartV>, dot_chain: PartV, expected_type: PartV } }
"""

# (obligation, file, impl header, receiver type, spec of the result set, description)
STMTS = [
    ("if", "if_statement.rs", "impl Dependencies for IfStatement", "IfStatement",
     "nd(self.value).union(nd(self.body)).union(match self.else_statement { Some(e) => nd_else(e), None => Set::<Dep>::empty() })", "condition, body and the whole else / else-if chain"),
    ("else", "if_statement.rs", "impl Dependencies for ElseStatement", "ElseStatement", "nd_else(*self)", "the block or the chained if"),
    ("while", "while_loop.rs", "impl Dependencies for WhileLoop", "WhileLoop", "nd(self.condition).union(nd(self.body))", "condition and body"),
    ("from", "number_loop.rs", "impl Dependencies for NumberLoop", "NumberLoop", "nd(self.val_start).union(nd(self.val_end)).union(ndo(self.step)).union(nd(self.body))", "start, end, step and body"),
    ("return", "return.rs", "impl Dependencies for ReturnStatement", "ReturnStatement", "ndo(self.0)", "the returned value"),
    ("assert", "assertion.rs", "impl Dependencies for Assertion", "Assertion", "nd(self.value)", "the asserted value"),
    ("print", "print_statement.rs", "impl Dependencies for PrintStatement", "PrintStatement", "nd(self.0)", "the printed value"),
    ("reassign", "reassignment.rs", "impl Dependencies for Reassignment", "Reassignment", "nd(self.path).union(nd(self.value))", "the place written through AND the value"),
]
PATH = ("path", "reassignment.rs", "impl Dependencies for ReassignmentPath", "ReassignmentPath",
        "match *self { ReassignmentPath::Ident(i) => nd(i), ReassignmentPath::ReferenceToSelf(_) => Set::<Dep>::empty(), ReassignmentPath::Index { lhs, index } => nd(*lhs).union(nd(index)), ReassignmentPath::DotLookup { lhs, dot_chain, .. } => nd(*lhs).union(nd(dot_chain)) }",
        "the root variable, every index expression and every method-call argument on the way")

RULES = [
    Rule("R12", "vec ! [ ]", "vempty ( )", why="vec![] (with its set view)"),
    Rule("R13", "$a . append ( & mut $$b ) ;", lambda bb: f"{{ let mut verif_tmp = {text(bb['b'])} ; vappend ( & mut {text(bb['a'])} , & mut verif_tmp ) ; }}", why="Vec::append (temporary named; set view of the concatenation)"),
]


def build(repo):
    src = Source(repo)
    log = []
    parts, obls = [], []
    for (oid, file, hdr, recv, spec, desc) in STMTS + [PATH]:
        try:
            f = src.fn(AST + file, "dependencies", hdr)
        except Exception as e:
            if oid == "path":
                continue        # ReassignmentPath has no Dependencies impl of its own: then Reassignment cannot meet its contract (reported there)
            raise
        b = translate(f["body"], RULES, log, f"{recv}::dependencies")
        check_closed(b, f"{recv}::dependencies")
        parts.append(f"""impl {recv} {{
    //@ OBL C07.deps.stmt.{oid}
    pub fn dependencies(&self) -> (r: Vec<Dep>)
        ensures r@.to_set() == {spec}
    {{
{render(b, 2)}
    }}
}}
""")
        obls.append(Obl(f"C07.deps.stmt.{oid}", ["C07"], fn=f"{recv}::dependencies", desc=f"{recv}::dependencies: {desc}"))
    fd = src.fn(AST + "dot_lookup.rs", "dependencies", "impl Dependencies for DotChain")
    inv = ("invariant $K <= self.links@.len(), result@.to_set() == chain_deps(self.links@.subrange(0, $K as int)) decreases self.links@.len() - $K")
    bd = translate(fd["body"], RULES + [
        Rule("R2", "for $x in & self . links { $$body }", lambda b: for_in_vec("d", inv).repl({"x": b["x"], "v": ["self", ".", "links"], "body": [G("proof { lemma_chain_step(self.links@, verif_k_d as int - 1); }"), *b["body"]]}), count=1, why="for over &Vec -> indexed while"),
    ], log, "DotChain::dependencies")
    check_closed(bd, "DotChain::dependencies")
    if bd[-1] != "result":
        raise Undecided("DotChain::dependencies: final `result` not found")
    bd = bd[:-1] + [G("proof { assert(self.links@.subrange(0, self.links@.len() as int) =~= self.links@); }"), "result"]
    parts.append(f"""impl DotChain {{
    //@ OBL C07.deps.stmt.dot-chain
    #[verifier::loop_isolation(false)]
    pub fn dependencies(&self) -> (r: Vec<Dep>)
        ensures r@.to_set() == chain_deps(self.links@)
    {{
{render(bd, 2)}
    }}
}}
""")
    obls.append(Obl("C07.deps.stmt.dot-chain", ["C07"], fn="DotChain::dependencies", desc="DotChain::dependencies: the arguments of every method call in the chain"))
    gen = header(log, "impl Dependencies for IfStatement / ElseStatement / WhileLoop / NumberLoop / ReturnStatement / Assertion / PrintStatement / Reassignment (/ ReassignmentPath) :: dependencies") + SPEC + "\n".join(parts) + "\n} // verus!\nfn main() {}\n"
    return gen, obls, log


UNITS = [VUnit("c07_stmt_deps", ["C07"], "what a statement depends on = what a closure must capture", build)]
UNITS[0].assumes = ["the statements' struct shapes (field names, Option / Box kinds) are written by hand from the declarations; a renamed field fails closed (does not compile -> undecided)",
                    "net_dependencies of every part is an abstract callee, compared as a set; get_net_dependencies (the supplies filter), Block, Function and Class are not under contract here"]

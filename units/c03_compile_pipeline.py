"""C03: the order of the compiler's stages -- compile_from_str_default_side_effects (compiler/src/lib.rs), the function behind `compile` and
`run`.  A program is parsed, then VALIDATED as a whole (Parser::file collects every diagnostic of the entry file and, through the pre-walk,
of the modules it imports); only a program without diagnostics reaches code generation -- which is also what writes the bytecode files of
imported modules.  So: when parsing or validation fails, the function fails with those diagnostics and code generation has not started
(nothing generated, nothing written)."""
from vlib.rules import *

FILE = "compiler/src/lib.rs"

SPEC = r"""
use vstd::prelude::*;
verus! {
pub struct VErr { pub id: Ghost<int> }
#[verifier::external_body] pub struct PathV { x: usize }
#[verifier::external_body] pub struct SrcText { x: usize }
#[verifier::external_body] pub struct NodeV { x: usize }
#[verifier::external_body] pub struct FileManager { x: usize }
#[verifier::external_body] pub struct Buffer { x: usize }
impl FileManager { #[verifier::external_body] pub fn clone(&self) -> (r: FileManager) ensures r == *self { unimplemented!() } }
pub uninterp spec fn parsed(p: &PathV, out: &PathV, s: &SrcText) -> Result<NodeV, VErr>;
pub uninterp spec fn validated(n: NodeV) -> Result<(), VErr>;
#[verifier::external_body] pub fn root_ast_from_str(p: &PathV, out: &PathV, s: &SrcText, fm: FileManager) -> (r: Result<NodeV, VErr>) ensures r == parsed(p, out, s) { unimplemented!() }
#[verifier::external_body] pub fn ast_file_from_str(n: NodeV, p: &PathV) -> (r: Result<(), VErr>) ensures r == validated(n) { unimplemented!() }
// code generation: everything from queueing the entry file on; it writes files and fills `result`
pub struct Gen { pub started: Ghost<bool> }
#[verifier::external_body] pub struct State { x: usize }
#[verifier::external_body] pub fn new_state() -> (r: State) { unimplemented!() }
#[verifier::external_body] pub fn queue_compilation(s: &State, p: &PathV, g: &mut Gen) ensures final(g).started@ { unimplemented!() }
#[verifier::external_body] pub fn compile_recursive(s: &State, fm: &FileManager, result: &mut Option<Buffer>, g: &mut Gen) -> (r: Result<(), VErr>)
    ensures final(g).started@, r is Ok ==> (*final(result)) is Some { unimplemented!() }           // the driver closure keeps the first file's buffer (the queue holds at least the entry file)
#[verifier::external_body] pub fn unwrap_buf(o: Option<Buffer>) -> (r: Buffer) requires o is Some ensures r == o->Some_0 { unimplemented!() }
"""


def build(repo):
    src = Source(repo)
    log = []
    f = src.fn(FILE, "compile_from_str_default_side_effects")
    b = translate(list(f["body"]), [
        Rule("R1", "let state : CompilationState = CompilationState :: new ( ) ;", "let state = new_state ( ) ;", why="compilation state: abstract"),
        Rule("R1", "input_path . as_ref ( ) . into ( )", "input_path", why="AsRef / Into: the path itself"),
        Rule("R1", "input_path . as_ref ( )", "input_path", why="AsRef<Path>: the path itself"),
        Rule("R1", "& input_path . bytecode_str ( )", "input_path", why="the path's text"),
        Rule("R10", "state . queue_compilation ( $$a ) ;", "queue_compilation ( & state , $$a , gen ) ;", why="code generation starts here: recorded (R10)"),
        Rule("R1", "let mut result = None ;", "let mut result : Option < Buffer > = None ;", why="type ascription"),
        Rule("R6", "state . compile_recursive ( $$a ) ?", "compile_recursive ( & state , & files_loaded , & mut result , gen ) ?", why="the compile queue with its driver closure: abstract callee (the closure captures `result` mutably: not translatable; its effect -- the first file's buffer is kept, the others are written -- is the callee's assumed contract)"),
        Rule("R8", "result . unwrap ( )", "unwrap_buf ( result )", why="Option::unwrap with its panic precondition (R8)"),
    ], log, "compile_from_str_default_side_effects")
    check_closed(b, "compile_from_str_default_side_effects")
    gen = header(log, f"{FILE}: compile_from_str_default_side_effects") + SPEC + f"""
//@ OBL C03.pipeline.validate-before-generate
pub fn compile_from_str_default_side_effects(input_path: &PathV, output_path: &PathV, mscript_code: &SrcText, files_loaded: FileManager, gen: &mut Gen) -> (r: Result<Buffer, VErr>)
    requires !old(gen).started@,
    ensures
        // a program that does not parse, or has diagnostics: the function fails with them, and code generation has not started
        parsed(input_path, output_path, mscript_code) is Err ==> r is Err && !final(gen).started@,
        (parsed(input_path, output_path, mscript_code) is Ok && validated(parsed(input_path, output_path, mscript_code)->Ok_0) is Err) ==> r is Err && !final(gen).started@,
        // code is only ever generated for a program that was validated
        final(gen).started@ ==> parsed(input_path, output_path, mscript_code) is Ok && validated(parsed(input_path, output_path, mscript_code)->Ok_0) is Ok,
{{
{render(b, 1)}
}}
}} // verus!
fn main() {{}}
"""
    return gen, [Obl("C03.pipeline.validate-before-generate", ["C03", "C16"], fn="compile_from_str_default_side_effects", desc="compile_from_str_default_side_effects: parse, then validate, then generate -- a program with diagnostics fails before code generation starts (nothing generated or written)")], log


UNITS = [VUnit("c03_compile_pipeline", ["C03", "C16"], "compiler stages: nothing is generated for a program with diagnostics", build)]
UNITS[0].assumes = ["root_ast_from_str, ast_file_from_str (Parser::file) and the compile queue are abstract callees; the driver closure of compile_recursive is part of that callee's assumed contract",
                    "that Parser::file reports EVERY diagnostic of the program is the business of the parser units (C03.*)"]

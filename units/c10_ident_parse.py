"""C10 / C16: Parser::ident (compiler/src/ast/ident.rs) -- the contract several units ASSUME of it (c10_assign, c10_class, c10_import_names: "a fresh, untyped,
non-const identifier with the node's text").  A name is const only through an explicit `mark_const` (a `const` declaration, a class, an import): the
identifier the parser hands out for a written name never is; it carries exactly the written text and no type yet; a reserved word is a diagnostic.
The node must be an `ident` node: anything else trips the `debug_assert_eq!` (a compiler panic, D92) -- a precondition here, discharged by the callers'
own contracts (c16_params)."""
from vlib.rules import *

FILE = "compiler/src/ast/ident.rs"

SPEC = r"""
pub struct Ident { pub name: VStr, pub ty: Option<TypeLayout>, pub read_only: bool }
pub uninterp spec fn is_keyword(t: Seq<char>) -> bool;          // KEYWORDS.contains(name)
#[verifier::external_body] pub fn keywords_contains(s: &VStr) -> (r: bool) ensures r == is_keyword(str_view(s)) { unimplemented!() }
#[verifier::external_body] pub fn node_str(n: &Node) -> (r: VStr) ensures str_view(&r) == node_text(n) { unimplemented!() }
#[verifier::external_body] pub fn vpanic() requires false { unimplemented!() }
// ---- the scope the identifier is registered in (ghost: the entry the current scope holds for the name), and the lexical lookup
pub struct Scope { pub entry: Ghost<Option<Ident>> }
#[verifier::external_body] pub fn add_dependency(sc: &mut Scope, i: &Ident) ensures final(sc).entry@ == Some(*i) { unimplemented!() }        // AssocFileData::add_dependency (unit c10_scope_add)
pub uninterp spec fn lookup(sc: &Scope, name: Seq<char>) -> Option<Ident>;                   // get_dependency_flags_from_name(..).0 (unit c07_lexical_lookup)
#[verifier::external_body] pub fn get_dependency_ident(sc: &Scope, name: &VStr) -> (r: Option<Ident>) ensures r == lookup(sc, str_view(name)) { unimplemented!() }
pub uninterp spec fn strip_cb(t: TypeLayout) -> TypeLayout;                                  // TypeLayout::get_type_recursively (obligation C12.type.get_type_recursively)
#[verifier::external_body] pub fn get_type_recursively_owned(t: &TypeLayout) -> (r: TypeLayout) ensures r == strip_cb(*t) { unimplemented!() }
pub fn opt_ctx_i(o: Option<Ident>) -> (r: Result<Ident, VErr>) ensures o is Some <==> r is Ok, r is Ok ==> Some(r->Ok_0) == o { match o { Some(x) => Ok(x), None => Err(VErr) } }
#[verifier::external_body] pub fn ty_of(i: &Ident) -> (r: &TypeLayout) requires i.ty is Some ensures *r == i.ty->Some_0 { unimplemented!() }
"""


def build(repo):
    src = Source(repo)
    log = []
    f = src.fn(FILE, "ident", "impl Parser")
    b = translate(f["body"], parser_idioms() + [
        Rule("R8", "debug_assert_eq ! ( input . as_rule ( ) , Rule :: ident ) ;", "if ! node_has_rule ( & input , \"ident\" ) { vpanic ( ) ; }", count=1, why="debug_assert_eq!: a panic of the (debug) compiler when the node is not an `ident` -- a precondition"),
        Rule("R1", "let name = input . as_str ( ) ;", "let name = node_str ( & input ) ;", why="Node::as_str: the text of the node"),
        Rule("R9", "KEYWORDS . contains ( name )", "keywords_contains ( & name )", why="membership in the keyword table: abstract predicate of the text"),
        Rule("R3", "bail ! $a", "return Err ( VErr )", why="bail! -> return Err (diagnostic text dropped)"),
        Rule("R1", "let name = name . to_owned ( ) ;", "", why="&str -> String: the same text"),
    ], log, "Parser::ident")
    check_closed(b, "Parser::ident")
    parts = {}
    LR = [
        Rule("R3", "bail ! $a", "return Err ( VErr )", why="bail! -> return Err"),
        Rule("R1", "Cow < 'static , TypeLayout >", "TypeLayout", why="Cow -> the value"),
        Rule("R1", "Cow :: Owned ( $$e )", "$$e", why="Cow::Owned -> the value"),
        Rule("R10", "user_data . add_dependency ( self ) ;", "add_dependency ( user_data , self ) ;", why="registration in the current scope: explicit state (R10)"),
        Rule("R6", "let ( ident , _ ) = user_data . get_dependency_flags_from_name ( & self . name ) . with_context ( $$c ) ? ;", "let ident = opt_ctx_i ( get_dependency_ident ( user_data , & self . name ) ) ? ;", why="lexical lookup abstract (unit c07_lexical_lookup); None -> Err"),
        Rule("R8", "ident . ty ( ) . expect ( $m ) . get_type_recursively ( )", "get_type_recursively_owned ( ty_of ( & ident ) )", why="expect on the found identifier's type: every registered identifier is typed (R8)"),
        Rule("R1", "let new_ty = new_ty . clone ( ) ;", "", why="clone of an owned value"),
        Rule("R1", "new_ty . clone ( )", "new_ty", why="clone of an owned value"),
        Rule("R1", "if let Some ( ref ty ) = self . ty {", "if let Some ( _ ) = & self . ty {", why="ref binding only used by the error text"),
    ]
    for name in ("set_type_no_link", "link_force_no_inherit", "link_from_pointed_type_with_lookup"):
        ff = src.fn(FILE, name, "impl Ident")
        bb = translate(ff["body"], LR, log, f"Ident::{name}")
        check_closed(bb, f"Ident::{name}")
        parts[name] = render(bb, 2)
    gen = header(log, f"{FILE}: Parser::ident; Ident::set_type_no_link, link_force_no_inherit, link_from_pointed_type_with_lookup") + prelude("parser.rs") + SPEC + f"""
impl Ident {{
    //@ OBL C10.ident.set_type_no_link
    pub fn set_type_no_link(&mut self, ty: TypeLayout)
        ensures final(self).ty == Some(ty), final(self).name == old(self).name, final(self).read_only == old(self).read_only,
    {{
{parts['set_type_no_link']}
    }}
    //@ OBL C10.ident.link_force_no_inherit
    // gives the identifier its type and registers it -- typed, name and const flag as they are -- in the current scope
    pub fn link_force_no_inherit(&mut self, user_data: &mut Scope, ty: TypeLayout) -> (r: Result<(), VErr>)
        ensures r is Ok, final(self).ty == Some(ty), final(self).name == old(self).name, final(self).read_only == old(self).read_only, final(user_data).entry@ == Some(*final(self)),
    {{
{parts['link_force_no_inherit']}
    }}
    //@ OBL C10.ident.link_from_lookup
    // an untyped mention of a name takes the type (behind any captured-variable wrapper) of the declaration the lexical lookup finds; nothing is registered
    pub fn link_from_pointed_type_with_lookup(&mut self, user_data: &Scope) -> (r: Result<(), VErr>)
        requires lookup(user_data, str_view(&old(self).name)) is Some ==> lookup(user_data, str_view(&old(self).name))->Some_0.ty is Some,      // registered identifiers are typed (C10.ident.link_force_no_inherit)
        ensures r is Ok <==> old(self).ty is None && lookup(user_data, str_view(&old(self).name)) is Some,
                r is Ok ==> final(self).ty == Some(strip_cb(lookup(user_data, str_view(&old(self).name))->Some_0.ty->Some_0)),
                final(self).name == old(self).name, final(self).read_only == old(self).read_only,
    {{
{parts['link_from_pointed_type_with_lookup']}
    }}
}}
"""
    gen = gen + f"""
//@ OBL C10.ident.parse
pub fn ident(input: Node) -> (r: Result<Ident, VErr>)
    requires has_rule(&input, "ident")
    ensures r is Ok <==> !is_keyword(node_text(&input)),
            r is Ok ==> str_view(&r->Ok_0.name) == node_text(&input) && r->Ok_0.ty is None && !r->Ok_0.read_only,
{{
{render(b, 1)}
}}
}} // verus!
fn main() {{}}
"""
    extra = [Obl("C10.ident.set_type_no_link", ["C10"], fn="Ident::set_type_no_link", desc="typing an identifier keeps its name and const flag"),
             Obl("C10.ident.link_force_no_inherit", ["C10", "C02"], fn="Ident::link_force_no_inherit", desc="link_force_no_inherit: the identifier gets the type and is registered -- typed, name and const flag as they are -- in the current scope"),
             Obl("C10.ident.link_from_lookup", ["C10", "C02"], fn="Ident::link_from_pointed_type_with_lookup", desc="an untyped mention takes the (unwrapped) type of the declaration the lexical lookup finds; fails when typed already or undeclared")]
    return gen, extra + [Obl("C10.ident.parse", ["C10", "C16", "C03"], fn="Parser::ident", desc="Parser::ident: the written text, no type yet, NOT const; a reserved word is a diagnostic; requires an `ident` node (else the debug assertion panics)")], log


UNITS = [VUnit("c10_ident_parse", ["C10", "C16", "C03"], "the identifier the parser hands out for a written name", build)]
UNITS[0].assumes = ["pest API abstract; the keyword table as an uninterpreted predicate of the text (which words are in it: unit c01_keywords for the grammar side)"]

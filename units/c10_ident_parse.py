"""C10 / C16: Parser::ident (compiler/src/ast/ident.rs) -- the contract several units ASSUME of it (c10_assign, c10_class, c10_import_names: "a fresh, untyped,
non-const identifier with the node's text").  A name is const only through an explicit `mark_const` (a `const` declaration, a class, an import): the
identifier the parser hands out for a written name never is; it carries exactly the written text and no type yet; a reserved word is a diagnostic.
The node must be an `ident` node: anything else trips the `debug_assert_eq!` (a compiler panic, D92) -- a precondition here, discharged by the callers'
own contracts (c16_params)."""
from vlib.rules import *

FILE = "compiler/src/ast/ident.rs"

SPEC = r"""
pub struct Ident { pub name: VStr, pub ty: Option<TypeLayout>, pub read_only: bool }
pub uninterp spec fn is_keyword(t: Seq<char>) -> bool;          // KEYWORDS.contains(name)
#[verifier::external_body] pub fn keywords_contains(s: &VStr) -> (r: bool) ensures r == is_keyword(str_view(s)) { unimplemented!() }
#[verifier::external_body] pub fn node_str(n: &Node) -> (r: VStr) ensures str_view(&r) == node_text(n) { unimplemented!() }
#[verifier::external_body] pub fn vpanic() requires false { unimplemented!() }
"""


def build(repo):
    src = Source(repo)
    log = []
    f = src.fn(FILE, "ident", "impl Parser")
    b = translate(f["body"], parser_idioms() + [
        Rule("R8", "debug_assert_eq ! ( input . as_rule ( ) , Rule :: ident ) ;", "if ! node_has_rule ( & input , \"ident\" ) { vpanic ( ) ; }", count=1, why="debug_assert_eq!: a panic of the (debug) compiler when the node is not an `ident` -- a precondition"),
        Rule("R1", "let name = input . as_str ( ) ;", "let name = node_str ( & input ) ;", why="Node::as_str: the text of the node"),
        Rule("R9", "KEYWORDS . contains ( name )", "keywords_contains ( & name )", why="membership in the keyword table: abstract predicate of the text"),
        Rule("R3", "bail ! $a", "return Err ( VErr )", why="bail! -> return Err (diagnostic text dropped)"),
        Rule("R1", "let name = name . to_owned ( ) ;", "", why="&str -> String: the same text"),
    ], log, "Parser::ident")
    check_closed(b, "Parser::ident")
    gen = header(log, f"{FILE}: Parser::ident") + prelude("parser.rs") + SPEC + f"""
//@ OBL C10.ident.parse
pub fn ident(input: Node) -> (r: Result<Ident, VErr>)
    requires has_rule(&input, "ident")
    ensures r is Ok <==> !is_keyword(node_text(&input)),
            r is Ok ==> str_view(&r->Ok_0.name) == node_text(&input) && r->Ok_0.ty is None && !r->Ok_0.read_only,
{{
{render(b, 1)}
}}
}} // verus!
fn main() {{}}
"""
    return gen, [Obl("C10.ident.parse", ["C10", "C16", "C03"], fn="Parser::ident", desc="Parser::ident: the written text, no type yet, NOT const; a reserved word is a diagnostic; requires an `ident` node (else the debug assertion panics)")], log


UNITS = [VUnit("c10_ident_parse", ["C10", "C16", "C03"], "the identifier the parser hands out for a written name", build)]
UNITS[0].assumes = ["pest API abstract; the keyword table as an uninterpreted predicate of the text (which words are in it: unit c01_keywords for the grammar side)"]

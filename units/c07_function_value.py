"""C07: a function literal used as a value -- Function::in_place_compile_for_value (compiler/src/ast/function.rs).  The function itself is compiled and
registered once (Function::compile: obligation C01.function.layout); what stands where the literal stood is ONE instruction,
`make_function FILE#id <names>`, with the label of exactly that function and with exactly the function's free variables (its net dependencies:
unit c07_net_deps) -- these are the variables the interpreter's `make_function` captures BY REFERENCE (unit c07_make_function).  A name missing
here is a variable the closure cannot see after its owner returned; an extra one is a variable that does not exist when the closure is made."""
from vlib.rules import *
from units.c08_class_compile import SPEC as CLASS_SPEC

FILE = "compiler/src/ast/function.rs"

SPEC = r"""
pub struct Function { pub deps: Vec<DepV>, pub x: usize }
pub uninterp spec fn shadow_of(f: &Function) -> Option<CompiledItem>;         // what Function::compile leaves for the literal: a reference (id, location) to the registered function
impl Function {
    // Function::compile (C01.function.layout): one item, a Function reference
    #[verifier::external_body] pub fn compile(&self, s: &mut CompilationState) -> (r: Result<Vec<CompiledItem>, VErr>)
        ensures r is Ok <==> shadow_of(self) is Some, r is Ok ==> r->Ok_0@ == seq![shadow_of(self)->Some_0] && shadow_of(self)->Some_0 is Function { unimplemented!() }
    #[verifier::external_body] pub fn net_dependencies(&self) -> (r: Vec<DepV>) ensures r@ == self.deps@ { unimplemented!() }
}
pub fn vec_remove0(v: &mut Vec<CompiledItem>) -> (r: CompiledItem) requires old(v)@.len() > 0 ensures r == old(v)@[0] { v.remove(0) }
#[verifier::external_body] pub fn vpanic() requires false { unimplemented!() }
pub fn vec1c(a: CompiledItem) -> (r: Vec<CompiledItem>) ensures r@ == seq![a] { let mut v = Vec::new(); v.push(a); v }
"""


def build(repo):
    src = Source(repo)
    ids = opcode_ids(repo)
    log = []
    f = src.fn(FILE, "in_place_compile_for_value")
    DINV = "invariant $K <= $V.len(), dependency_list.s@ == dep_names($V@.subrange(0, $K as int)) decreases $V.len() - $K"
    b = translate(f["body"], [
        Rule("R8", "let shadow_function = self . compile ( state ) ? . remove ( 0 ) ;", "let mut verif_items = self . compile ( state ) ? ; let shadow_function = vec_remove0 ( & mut verif_items ) ;", count=1, why="Vec::remove(0) with its panic precondition (non-empty)"),
        Rule("R8", "unreachable ! ( )", "{ vpanic ( ) ; return Err ( VErr ) ; }", why="unreachable!: a panic (excluded: Function::compile yields a Function reference)"),
        Rule("R9", "HashSet :: with_capacity ( $$n )", "NameSet :: with_capacity ( 0 )", why="HashSet<String> as a ghost set of names"),
        Rule("R1", "let x = location . bytecode_str ( ) ;", "let x = clone_vs ( & location ) ;", why="the path's text"),
        Rule("R1", "dependency . name ( ) . to_owned ( )", "dependency . name_owned ( )", why="the dependency's name"),
        Rule("R9", "vec ! [ format ! ( \"{x}#{id}\" ) ]", "vec1s ( fmt_label ( & x , & id ) )", count=1, why="format!(\"{x}#{id}\"): the label"),
        Rule("R9", "arguments . extend ( dependency_list ) ;", ["extend_from_set ( & mut arguments , dependency_list ) ;", G("proof { assert(arguments@.subrange(0, 1)[0] == arguments@[0]); }")], why="Vec::extend(HashSet): every member once"),
        Rule("R1", "let arguments = arguments . into_boxed_slice ( ) ;", "", why="Vec -> Box<[T]>: the same items"),
        Rule("R1", "CompiledItem :: Instruction { id : MAKE_FUNCTION , arguments , }", "CompiledItem :: Instruction { id : MAKE_FUNCTION , arguments : arguments }", why="field init shorthand"),
        Rule("R12", "vec ! [ make_function_instruction ]", "vec1c ( make_function_instruction )", why="vec![a]"),
    ], log, "Function::in_place_compile_for_value")
    b = for_in_vec("fd", DINV).apply(b, log)
    b = Rule("R11", "dependency_list . insert ( dependency . name_owned ( ) ) ;", ["dependency_list . insert ( dependency . name_owned ( ) ) ;", G("proof { lemma_dep_step(dependencies@, verif_k_fd as int - 1); }")], count=1, why="").apply(b, log)
    b = Rule("R11", "let x = clone_vs ( & location ) ;", ["let x = clone_vs ( & location ) ;"], why="").apply(b, log)
    b = Rule("R11", "let make_function_instruction =", [G("proof { assert(dependencies@.subrange(0, dependencies@.len() as int) =~= dependencies@); }"), "let make_function_instruction ="], count=1, why="").apply(b, log)
    check_closed(b, "in_place_compile_for_value")
    gen = header(log, f"{FILE}: Function::in_place_compile_for_value") + prelude("compile.rs").replace("pub struct CompilationState;", "") + \
        opcode_consts(ids, ["void", "ret", "make_function", "store_fast"]) + CLASS_SPEC + SPEC + f"""
impl Function {{
    //@ OBL C07.function-value.captures-net-deps
    #[verifier::loop_isolation(false)]
    pub fn in_place_compile_for_value(&self, state: &mut CompilationState) -> (r: Result<Vec<CompiledItem>, VErr>)
        ensures
            r is Ok <==> shadow_of(self) is Some,
            r is Ok ==> r->Ok_0@.len() == 1 && is_instr(r->Ok_0@[0], MAKE_FUNCTION) && nargs(r->Ok_0@[0]) >= 1
                && argt(r->Ok_0@[0], 0) == label_of(text_of(&shadow_of(self)->Some_0->location), text_of(&shadow_of(self)->Some_0->Function_id)),
            r is Ok ==> texts(r->Ok_0@[0]->arguments@.subrange(1, r->Ok_0@[0]->arguments@.len() as int)) == dep_names(self.deps@),
    {{
{render(b, 2)}
    }}
}}
}} // verus!
fn main() {{}}
"""
    return gen, [Obl("C07.function-value.captures-net-deps", ["C07", "C01"], fn="Function::in_place_compile_for_value",
                     desc="a function literal as a value: ONE `make_function FILE#id <names>` with the label of the function Function::compile registered and exactly its free variables (net dependencies) as the names to capture")], log


UNITS = [VUnit("c07_function_value", ["C07", "C01"], "a function literal closes over exactly its free variables", build)]
UNITS[0].assumes = ["Function::compile abstract here (its layout: C01.function.layout); net_dependencies: unit c07_net_deps / c07_block_deps",
                    "HashSet<String> as a ghost set; Vec::extend(HashSet) yields every member once in an unspecified order (the order of the captured names in the instruction is not fixed: the interpreter looks them up by name)"]

"""C16: `impl Display for ListType` (compiler/src/ast/list.rs) -- the text of a list type inside every diagnostic, property hint and `typeof`.
The compiler builds its diagnostics with it, so a panic here turns a diagnostic into a crash.  Decided: for every list type -- the empty
fixed-shape list `[]` included -- formatting performs no out-of-range slice and ends (V-t; the text written is dropped, each `write!` is an
abstract call that may fail with a formatter error)."""
from vlib.rules import *

FILE = "compiler/src/ast/list.rs"

SPEC = r"""
use vstd::prelude::*;
verus! {
pub struct FmtErr;
#[verifier::external_body] pub struct Formatter { x: usize }
#[verifier::external_body] pub struct TyV { x: usize }
pub enum ListType { Mixed(Vec<TyV>), Open(Box<TyV>) }
// write!(f, ..): appends text or reports the formatter's error; no other effect that matters here
#[verifier::external_body] pub fn fmt_write(f: &mut Formatter) -> (r: Result<(), FmtErr>) { unimplemented!() }
#[verifier::external_body] pub fn fmt_write1(f: &mut Formatter, a: &TyV) -> (r: Result<(), FmtErr>) { unimplemented!() }
#[verifier::external_body] pub fn vec_first(v: &Vec<TyV>) -> (r: Option<&TyV>) ensures v@.len() == 0 ==> r is None, v@.len() > 0 ==> r == Some(&v@[0]) { unimplemented!() }
// slice::get(a..): None when a is beyond the end; indexing `[a..]` PANICS there (R8)
#[verifier::external_body] pub fn slice_get_from(v: &Vec<TyV>, a: usize) -> (r: Option<Vec<TyV>>) ensures r is Some <==> a <= v@.len(), r is Some ==> r->Some_0@ == v@.skip(a as int) { unimplemented!() }
#[verifier::external_body] pub fn slice_index_from(v: &Vec<TyV>, a: usize) -> (r: Vec<TyV>) requires a <= v@.len() ensures r@ == v@.skip(a as int) { unimplemented!() }
#[verifier::external_body] pub fn slice_index_to(v: &Vec<TyV>, b: usize) -> (r: Vec<TyV>) requires b <= v@.len() ensures r@ == v@.take(b as int) { unimplemented!() }
#[verifier::external_body] pub fn vec_index(v: &Vec<TyV>, i: usize) -> (r: &TyV) requires i < v@.len() ensures *r == v@[i as int] { unimplemented!() }
"""


def build(repo):
    src = Source(repo)
    log = []
    f = src.fn(FILE, "fmt", "impl Display for ListType")
    _cnt = [0]

    def gfor(b):
        _cnt[0] += 1
        k = f"verif_d{_cnt[0]}"
        v, x = text(b["v"]), text(b["x"])
        return [f"let mut {k} : usize = 0 ; while {k} < {v} . len ( )", G(f"invariant {k} <= {v}.len(), decreases {v}.len() - {k},"),
                "{", f"let {x} = & {v} [ {k} ] ; {k} += 1 ;", *b["body"], "}"]

    b = translate(f["body"], [
        Rule("R9", "write ! ( f , $s )", "fmt_write ( f )", why="write! of a literal: abstract (the text is dropped)"),
        Rule("R9", "write ! ( f , $s , $$a )", "fmt_write ( f )", why="write! with explicit arguments: abstract"),
        Rule("R1", "Self :: Mixed", "ListType :: Mixed", why="Self"), Rule("R1", "Self :: Open", "ListType :: Open", why="Self"),
        Rule("R9", "types . first ( )", "vec_first ( types )", why="slice::first"),
        Rule("R9", "types . get ( $a .. )", "slice_get_from ( types , $a )", why="slice::get(a..): None beyond the end"),
        Rule("R8", "& types [ $a .. ]", "& slice_index_from ( types , $a )", why="slice indexing with its panic precondition"),
        Rule("R8", "& types [ .. $b ]", "& slice_index_to ( types , $b )", why="slice indexing with its panic precondition"),
        Rule("R8", "types [ $i ]", "( * vec_index ( types , $i ) )", why="indexing with its panic precondition"),
        Rule("R2", "for $x in & $v { $$body }", gfor, why="for over a slice -> indexed while"),
        Rule("R2", "for $x in $v { $$body }", gfor, why="for over a slice -> indexed while"),
    ], log, "Display for ListType::fmt")
    # a `write!` whose format string names a local (`{ty}`) reads that local: keep it alive for the borrow checker's sake only
    check_closed(b, "Display for ListType::fmt")
    gen = header(log, f"{FILE}: impl Display for ListType") + SPEC + f"""
//@ OBL C16.display.list-type
pub fn fmt(self_: &ListType, f: &mut Formatter) -> (r: Result<(), FmtErr>)
{{
    let verif_self = self_;
{render(Rule("R1", "match self {", "match verif_self {", why="receiver").apply(b, log), 1)}
}}
}} // verus!
fn main() {{}}
"""
    return gen, [Obl("C16.display.list-type", ["C16"], fn="Display for ListType::fmt", desc="formatting a list type (also the empty fixed-shape list `[]`) performs no out-of-range slice / index and terminates")], log


UNITS = [VUnit("c16_display", ["C16"], "Display for ListType: no panic while a diagnostic is being built", build)]
UNITS[0].assumes = ["write! abstract (may fail with the formatter's error; the text is dropped); Display of the element types not under contract"]

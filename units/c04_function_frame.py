"""C04 / C18 (file framing, writer side): the `Self::Function` arm of CompiledItem::repr (compiler/src/ast.rs).

The loader reads a bytecode file as records `f NAME\\0`, instruction records, `e\\0` (unit c04_loader); the transpiler reads the text form as
lines `function NAME`, instruction lines, `end` (unit c18_frame).  The writer's side of that framing is this arm: a function with a body
is written as exactly   OPEN ' ' NAME SEP  repr(item_0) repr(item_1) ..  CLOSE SEP   with (OPEN, CLOSE, SEP) = (`f`, `e`, NUL) in the binary
form and (`function`, `end`, LF) in the text form, the items in order, each once, each in the SAME form as the frame; a function symbol
without a body cannot be written (failure); a failing item fails the function.  The framing words are taken from what the two readers
accept, not from this arm."""
from vlib.rules import *

FILE = "compiler/src/ast.rs"

SPEC = r"""
use vstd::prelude::*;
verus! {
pub struct VErr;
#[verifier::external_body] pub struct FnId { x: usize }
pub uninterp spec fn id_text(id: &FnId) -> Seq<char>;
impl FnId { #[verifier::external_body] pub fn to_string(&self) -> (r: Vec<char>) ensures r@ == id_text(self) { unimplemented!() } }
// an item of the body: its own record text is the contract of the other arms (C04.writer.conforms / C18.text.writer); here abstract
#[verifier::external_body] pub struct Item { x: usize }
pub uninterp spec fn repr_spec(it: &Item, text_form: bool) -> Option<Seq<char>>;
impl Item {
    #[verifier::external_body] pub fn repr(&self, use_string_version: bool) -> (r: Result<Vec<char>, VErr>)
        ensures r is Ok <==> repr_spec(self, use_string_version) is Some, r is Ok ==> r->Ok_0@ == repr_spec(self, use_string_version)->Some_0
    { unimplemented!() }
}
pub open spec fn all_ok(items: Seq<Item>, text_form: bool) -> bool { forall|i: int| 0 <= i < items.len() ==> repr_spec(&#[trigger] items[i], text_form) is Some }
pub open spec fn concat_repr(items: Seq<Item>, text_form: bool) -> Seq<char> decreases items.len() {
    if items.len() == 0 { Seq::<char>::empty() } else { concat_repr(items.drop_last(), text_form) + repr_spec(&items.last(), text_form)->Some_0 }
}
pub proof fn lemma_concat_step(items: Seq<Item>, k: int, text_form: bool)
    requires 0 <= k < items.len()
    ensures concat_repr(items.subrange(0, k + 1), text_form) == concat_repr(items.subrange(0, k), text_form) + repr_spec(&items[k], text_form)->Some_0
{ assert(items.subrange(0, k + 1).drop_last() =~= items.subrange(0, k)); }

// ---- the framing the two readers accept (c04_loader: `f NAME\0` .. `e\0`; transpile_file: `function NAME` LF .. `end` LF)
pub open spec fn frame_open(text_form: bool) -> Seq<char> { if text_form { seq!['f', 'u', 'n', 'c', 't', 'i', 'o', 'n'] } else { seq!['f'] } }
pub open spec fn frame_close(text_form: bool) -> Seq<char> { if text_form { seq!['e', 'n', 'd'] } else { seq!['e'] } }
pub open spec fn frame_sep(text_form: bool) -> char { if text_form { '\n' } else { '\0' } }
pub open spec fn function_record(id: &FnId, items: Seq<Item>, text_form: bool) -> Seq<char> {
    frame_open(text_form) + seq![' '] + id_text(id) + seq![frame_sep(text_form)] + concat_repr(items, text_form) + frame_close(text_form) + seq![frame_sep(text_form)]
}

// ---- text helpers (R1: String as Vec<char>)
pub fn strlit_chars(s: &'static str) -> (r: Vec<char>) ensures r@ == s@ { s.chars().collect() }
pub fn push_chars(dst: &mut Vec<char>, src: &Vec<char>)
    ensures final(dst)@ == old(dst)@ + src@
{
    let mut i: usize = 0;
    while i < src.len()
        invariant i <= src@.len(), dst@ == old(dst)@ + src@.subrange(0, i as int)
        decreases src@.len() - i
    { dst.push(src[i]); i += 1; proof { assert(src@.subrange(0, i as int) =~= src@.subrange(0, i - 1).push(src@[i - 1])); } }
    proof { assert(src@.subrange(0, src@.len() as int) =~= src@); }
}
// one `{x}` of a format string: Display of a char / of a text is the char / the text
pub trait Disp { spec fn disp(&self) -> Seq<char>; fn push_to(&self, out: &mut Vec<char>) ensures final(out)@ == old(out)@ + self.disp(); }
impl Disp for char { open spec fn disp(&self) -> Seq<char> { seq![*self] } fn push_to(&self, out: &mut Vec<char>) { out.push(*self); } }
impl Disp for Vec<char> { open spec fn disp(&self) -> Seq<char> { self@ } fn push_to(&self, out: &mut Vec<char>) { push_chars(out, self); } }
"""


def format_inline(b):
    """format!("lit{a}lit{b}..") with only inline `{name}` placeholders -> a block that appends the pieces in order"""
    lit = b["s"][0]
    if not (lit.startswith('"') and lit.endswith('"')):
        return None
    s = lit[1:-1]
    parts, i, cur = [], 0, ""
    while i < len(s):
        if s[i] == "{":
            j = s.find("}", i)
            if j < 0:
                return None
            name = s[i + 1:j]
            if not re.match(r"[A-Za-z_]\w*$", name):
                return None
            if cur:
                parts.append(("lit", cur)); cur = ""
            parts.append(("var", name)); i = j + 1
        else:
            if s[i] == "\\":
                cur += s[i:i + 2]; i += 2
            else:
                cur += s[i]; i += 1
    if cur:
        parts.append(("lit", cur))
    out = ["{ let mut verif_out : Vec < char > = Vec :: new ( ) ;"]
    for k, v in parts:
        if k == "lit":
            out.append(f'push_chars ( & mut verif_out , & strlit_chars ( "{v}" ) ) ;')
            out.append(G(f'proof {{ reveal_strlit("{v}"); }}'))
        else:
            out.append(f"{v} . push_to ( & mut verif_out ) ;")
    out.append("verif_out }")
    return out


def build(repo):
    src = Source(repo)
    log = []
    frepr = src.fn(FILE, "repr", "impl CompiledItem")
    try:
        arm = extract_match_arm(frepr["body"], "Self :: Function { id , content , .. }")
    except Exception as e:
        raise Undecided(f"{FILE}: cannot locate the Function arm of CompiledItem::repr: {e}")
    INV = ("invariant $K <= $V.len(), all_ok($V@.subrange(0, $K as int), use_string_version), "
           "result@ == concat_repr($V@.subrange(0, $K as int), use_string_version) decreases $V.len() - $K")
    rules = [
        Rule("R3", "bail ! $a", "return Err ( VErr )", why="bail! -> return Err"),
        Rule("R1", "let Some ( ref content ) = content else", "let Some ( content ) = content else", why="ref binding on a reference"),
        Rule("R1", "String :: new ( )", "Vec :: < char > :: new ( )", why="String -> Vec<char>"),
        Rule("R1", "result += & $$e ;", "{ let verif_piece = $$e ; push_chars ( & mut result , & verif_piece ) ; }", why="String += &str -> append chars"),
        Rule("R9", "format ! ( $s )", format_inline, why="format! with inline placeholders -> the pieces appended in order (Display of char / text)"),
    ]
    b = translate(arm["body"], rules, log, "CompiledItem::repr[Function]")
    # string literals outside strlit_chars(..) (the framing words): R1
    out = []
    for i, t in enumerate(b):
        if t.startswith('"') and not (i >= 2 and b[i - 2] in ("strlit_chars", "reveal_strlit")):
            out += ["strlit_chars", "(", t, ")"]
            log.append(("R1", t, f"strlit_chars({t})", "&'static str -> Vec<char>"))
        else:
            out.append(t)
    b = out
    lits = sorted({t for t in b if t.startswith('"')})
    b = for_in_vec("fr", INV).apply(b, log)
    step = G("proof { let ghost kk = verif_k_fr as int - 1; lemma_concat_step(content@, kk, use_string_version); "
             "assert forall|i: int| 0 <= i < verif_k_fr implies repr_spec(&#[trigger] content@.subrange(0, verif_k_fr as int)[i], use_string_version) is Some by "
             "{ if i < kk { assert(content@.subrange(0, kk)[i] == content@[i]); } } }")
    b = Rule("R11", "push_chars ( & mut result , & verif_piece ) ; }", ["push_chars ( & mut result , & verif_piece ) ; }", step], count=1, why="").apply(b, log)
    reveal = G("proof { " + " ".join(f"reveal_strlit({l});" for l in lits) + " assert(content@.subrange(0, content@.len() as int) =~= content@); }")
    b = Rule("R11", "let func_name =", [reveal, "let func_name ="], count=1, why="").apply(b, log)
    check_closed(b, "CompiledItem::repr[Function]")
    gen = header(log, f"{FILE}: CompiledItem::repr, arm Self::Function (the frame of a function in a bytecode file, binary and text form)") + SPEC + f"""
//@ OBL C04.writer.function-frame
#[verifier::loop_isolation(false)]
pub fn repr_function(id: &FnId, content: &Option<Vec<Item>>, use_string_version: bool) -> (r: Result<Vec<char>, VErr>)
    ensures
        // a function symbol without a body, or a body item that cannot be written, is a failure -- never a truncated record
        r is Ok <==> (content is Some && all_ok(content->Some_0@, use_string_version)),
        // OPEN ' ' NAME SEP items.. CLOSE SEP: every item once, in order, in the form of the frame
        r is Ok ==> r->Ok_0@ =~= function_record(id, content->Some_0@, use_string_version),
{{
{render(b, 1)}
}}
}} // verus!
fn main() {{}}
"""
    return gen, [Obl("C04.writer.function-frame", ["C04", "C18"], fn="CompiledItem::repr[Function]",
                     desc="a function is written as OPEN ' ' NAME SEP repr(items).. CLOSE SEP with (f, e, NUL) / (function, end, LF): every item once, in order, in the frame's own form; no body or a failing item is a failure")], log


UNITS = [VUnit("c04_function_frame", ["C04", "C18"], "the writer's function frame: f NAME NUL .. e NUL / function NAME LF .. end LF", build)]
UNITS[0].assumes = ["text as a sequence of characters (R1); format! with inline placeholders appends the Display of each piece in order; Display of a char / String is the char / the text",
                    "CompiledFunctionId::to_string is abstract (the name's text); the items' own records are abstract here (their contracts: C04.writer.conforms, C18.text.writer)"]

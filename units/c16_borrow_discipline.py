"""C16: the compiler never dies on `RefCell already borrowed`.  The parser keeps its scope stack in a `RefCell` (compiler/src/scope.rs
ScopeStack); the accessors of AssocFileData that look something up hand out a `Ref` INTO that cell (get_type_of_executing_class,
get_current_executing_function, return_statement_expected_yield_type, get_ident_from_name_local, get_dependency_flags_from_name.., get_return_type),
and every operation that opens a scope or declares a name takes `borrow_mut` on it.  The CONTRACT of those mutating operations is
"no `Ref` into the scope stack is alive"; parsing a value, an argument list or a block may open a scope (a function literal does), so the
contract is inherited by every sub-parser that can reach one.

A `Ref` has a destructor: it lives to the END OF THE BLOCK its `let` stands in (or, as the scrutinee of `if let` / `match`, to the end of
that statement; as a temporary, to the end of its statement) -- a LEXICAL fact.  Verus has no model of destructors, so the precondition is
discharged here by a lexical lifetime analysis of the real token stream (python; labelled as such in the evidence, not a Verus proof):
for every function of compiler/src, every place where such a `Ref` is bound, and every scope-mutating call in the region where it is alive.
Which accessors return a `Ref`, which ScopeStack methods take `borrow_mut`, and which parser functions can reach one (fixpoint over the call
graph by name) are all read from the source on every run.  D117 (`self(fn() -> int { .. }, n)`) was such a site; seeds C16-7 and C16-17 are."""
import os, re
from pathlib import Path
from vlib.rules import *
from vlib.lexer import lex, match_close

PASS_THROUGH = {"unwrap", "expect", "details", "details_lazy_message", "to_err_vec", "context", "with_context", "ok_or", "ok_or_else", "ok", "unwrap_or_else"}
GENERIC = {"new", "default", "clone", "from", "into", "fmt", "eq", "ne", "hash", "drop", "next", "iter", "len", "get", "push", "pop", "insert", "remove", "map", "unwrap", "expect", "as_ref", "as_str", "to_string", "to_owned"}


def _fns(toks):
    """(name, header_tokens, body_start, body_end) of every `fn name(..) .. { body }`"""
    out = []
    i = 0
    while i < len(toks) - 2:
        if toks[i] == "fn" and re.match(r"[A-Za-z_]\w*$", toks[i + 1]):
            j = i + 2
            while j < len(toks) and toks[j] not in ("{", ";"):
                if toks[j] in ("(", "[", "<") and toks[j] != "<":
                    j = match_close(toks, j)
                j += 1
            if j < len(toks) and toks[j] == "{":
                c = match_close(toks, j)
                out.append((toks[i + 1], toks[i + 2:j], j, c))
                i = j + 1            # nested fns are found too (we continue inside the body)
                continue
        i += 1
    return out


def _sources(repo):
    root = Path(repo) / "compiler/src"
    for dp, dn, fn in os.walk(root):
        if "tests" in Path(dp).parts:
            continue
        for f in sorted(fn):
            if f.endswith(".rs"):
                p = Path(dp) / f
                yield str(p.relative_to(repo)), lex(p.read_text(encoding="utf-8"))


def analyse(repo):
    files = list(_sources(repo))
    if len(files) < 10:
        raise Undecided("compiler/src: sources not found")
    ref_fns, direct, parser_fns = set(), set(), {}
    allf = []
    for rel, toks in files:
        # functions of `impl Parser` blocks: the sub-parsers
        k = 0
        pranges = []
        while k < len(toks) - 2:
            if toks[k] == "impl" and toks[k + 1] == "Parser" and toks[k + 2] == "{":
                pranges.append((k + 2, match_close(toks, k + 2))); k = pranges[-1][1]
            k += 1
        for name, hdr, bs, be in _fns(toks):
            allf.append((rel, name, toks, bs, be))
            ret = hdr[hdr.index("->"):] if "->" in hdr else []
            if rel.endswith("parser.rs") and "Ref" in ret and "self" in hdr:
                ref_fns.add(name)
            if rel.endswith("scope.rs") and "borrow_mut" in toks[bs:be] and name not in GENERIC:
                direct.add(name)
            if any(a < bs < b for a, b in pranges):
                parser_fns[name] = (toks, bs, be)
    if not ref_fns or not direct:
        raise Undecided("compiler/src/parser.rs / scope.rs: no Ref-returning accessor or no borrow_mut method found (the scope stack is no longer a RefCell?)")
    # methods of AssocFileData / Ident / Value .. that reach a borrow_mut of the stack through `.name(` calls: fixpoint over parser.rs, ident.rs, value.rs, scope.rs
    changed = True
    while changed:
        changed = False
        for rel, name, toks, bs, be in allf:
            if name in direct or name in GENERIC or name in ref_fns or not rel.endswith(("parser.rs", "ident.rs", "scope.rs", "value.rs")) or name in parser_fns:
                continue
            body = toks[bs:be]
            if any(body[k] in direct and body[k + 1] == "(" and body[k - 1] == "." for k in range(1, len(body) - 1)):
                direct.add(name); changed = True
    # sub-parsers that can open a scope or declare a name: call one of those methods, or another such sub-parser (`Self::name(` / `Parser::name(`)
    mut_parsers = set()
    changed = True
    while changed:
        changed = False
        for name, (toks, bs, be) in parser_fns.items():
            if name in mut_parsers:
                continue
            body = toks[bs:be]
            for k in range(1, len(body) - 1):
                if body[k + 1] == "(" and ((body[k] in direct and body[k - 1] == ".") or (body[k] in mut_parsers and body[k - 1] == "::" and k >= 2 and body[k - 2] in ("Self", "Parser"))):
                    mut_parsers.add(name); changed = True
                    break
    mut = direct | mut_parsers
    findings, sites = [], 0

    def stmt_bounds(toks, k, lo, hi):
        """start and end (index of `;` or of the block's `}`) of the statement that contains token k, inside the block (lo, hi)"""
        d, s = 0, k
        while s > lo:
            t = toks[s - 1]
            if t in (")", "]", "}"):
                d += 1
            elif t in ("(", "[", "{"):
                if d == 0:
                    break
                d -= 1
            elif t == ";" and d == 0:
                break
            s -= 1
        d, e = 0, k
        while e < hi:
            t = toks[e]
            if t in ("(", "[", "{"):
                d += 1
            elif t in (")", "]", "}"):
                if d == 0:
                    break
                d -= 1
            elif t == ";" and d == 0:
                break
            e += 1
        return s, e

    def enclosing_block(toks, k, lo):
        d = 0
        j = k
        while j > lo:
            j -= 1
            if toks[j] in (")", "]", "}"):
                d += 1
            elif toks[j] in ("(", "[", "{"):
                if d == 0:
                    if toks[j] == "{":
                        return j, match_close(toks, j)
                    # inside ( .. ) or [ .. ]: keep walking out
                else:
                    d -= 1
        return lo, match_close(toks, lo)

    def mutating_calls(toks, a, b):
        out = []
        for k in range(max(a, 2), b - 1):
            if toks[k + 1] == "(" and ((toks[k] in direct and toks[k - 1] == ".") or (toks[k] in mut_parsers and toks[k - 1] == "::" and toks[k - 2] in ("Self", "Parser"))):
                out.append(k)
        return out

    for rel, fname, toks, bs, be in allf:
        if rel.endswith("scope.rs"):
            continue                      # the cell's own methods
        k = bs
        while k < be - 1:
            if toks[k] in ref_fns and toks[k + 1] == "(" and toks[k - 1] == ".":
                sites += 1
                cend = match_close(toks, k + 1)
                blo, bhi = enclosing_block(toks, k, bs)
                s, e = stmt_bounds(toks, k, blo, bhi)
                # is the Ref consumed inside the statement (cloned / mapped / tested), or does it survive into a binding?
                tail, consumed, j, d = toks[cend + 1:e], False, cend + 1, 0
                while j < e:
                    t = toks[j]
                    if t in ("(", "[", "{"):
                        j = match_close(toks, j) + 1; continue
                    if t in (")", "]", "}"):
                        break                                   # leaves the expression the call stands in: a temporary of the statement
                    if t == "." and j + 2 < e and toks[j + 2] == "(" and toks[j + 1] not in PASS_THROUGH:
                        consumed = True; break
                    if t == "." and j + 1 < e and re.match(r"\d+$", toks[j + 1]) and j + 2 < e and toks[j + 2] == ".":
                        consumed = True; break                  # `.0.to_owned()` and the like
                    j += 1
                head = toks[s:k]
                kind = None
                if not consumed and head[:1] == ["let"] and j >= e:
                    kind, a, b = "let", e, bhi                  # bound: alive to the end of the block
                    names = [t for t in head[1:head.index("=")] if re.match(r"[A-Za-z_]\w*$", t) and t not in ("mut", "ref", "Some", "Ok")] if "=" in head else []
                    for q in range(e, bhi - 3):
                        if toks[q] == "drop" and toks[q + 1] == "(" and toks[q + 2] in names:
                            b = q; break
                        # moved: `if let PAT = NAME {` / `match NAME {` take the value; what it holds dies with that statement
                        if len(names) == 1 and toks[q] == names[0] and toks[q + 1] == "{" and toks[q - 1] in ("=", "match"):
                            b = match_close(toks, q + 1)
                            while b + 1 < bhi and toks[b + 1] == "else":
                                q2 = b + 2
                                while q2 < bhi and toks[q2] != "{":
                                    q2 += 1
                                if q2 >= bhi: break
                                b = match_close(toks, q2)
                            break
                elif not consumed and head[:2] in (["if", "let"], ["while", "let"]) or (not consumed and head[:1] == ["match"]):
                    kind, a, b = "scrutinee", cend, e + 1 if toks[e] == ";" else bhi
                    # the statement is `if let .. = <call> { .. }`: the block follows the call
                    q = cend + 1
                    while q < bhi and toks[q] != "{":
                        q += 1
                    if q < bhi:
                        b = match_close(toks, q)
                        # else-branches keep the scrutinee alive too
                        while b + 1 < bhi and toks[b + 1] == "else":
                            q2 = b + 2
                            while q2 < bhi and toks[q2] != "{":
                                q2 += 1
                            b = match_close(toks, q2) if q2 < bhi else b
                            if q2 >= bhi: break
                elif not consumed:
                    kind, a, b = "temporary", cend, e           # alive to the end of the statement
                if kind:
                    for m in mutating_calls(toks, a, b):
                        findings.append(f"{rel}: fn {fname}: the `Ref` from `.{toks[k]}()` ({kind}) is alive where `{toks[m - 1]}{toks[m]}(..)` may open a scope or declare a name "
                                        f"[`{text(toks[s:min(e, s + 14)])} ..`]")
                k = cend
            k += 1
    return sorted(set(findings)), sites, sorted(ref_fns), sorted(mut)


class Unit:
    engine = "scan"
    uid = "c16_borrow_discipline"
    props = ["C16"]
    title = "no Ref into the parser's scope stack is alive where a scope may be opened (lexical lifetime analysis)"
    timeout = 120
    assumes = ["NOT a Verus proof: a lexical lifetime analysis (python) of the token stream -- a `Ref` bound by `let` lives to the end of its block, the scrutinee of `if let` / `match` to the end of that statement, a temporary to the end of its statement (Rust's drop rules); a `Ref` that is cloned / mapped / tested inside its statement is consumed there",
               "functions are identified by NAME (the call graph fixpoint is over names, generic names such as `new` / `clone` excluded): over-approximates which sub-parsers can open a scope",
               "only the scope stack's RefCell; other RefCells of the compiler (exports, declarations, loaded modules) are not analysed"]

    def run(self, repo, workdir, tier):
        from vlib.core import UnitResult
        res = UnitResult(self.uid)
        res.engine = "lexical borrow-lifetime analysis of compiler/src (python; no solver)"
        findings, sites, ref_fns, mut = analyse(repo)
        o = Obl("C16.parser.no-ref-across-scope-mutation", ["C16"], engine=res.engine, fn="compiler/src/**: every use of a Ref-returning accessor of AssocFileData",
                desc=f"{sites} places obtain a Ref into the scope stack ({', '.join(ref_fns)}); in none of them is the Ref alive where one of the {len(mut)} functions that can reach a `borrow_mut` of the stack is called")
        o.status = "failed" if findings else "discharged"
        o.detail = "\n".join(findings)
        o.pre_decided = True
        res.obls = [o]
        res.functions = ["compiler/src/parser.rs: AssocFileData accessors returning Ref", "compiler/src/scope.rs: ScopeStack methods taking borrow_mut", "every fn of compiler/src (non-test)"]
        res.checker_cmd = "python: units/c16_borrow_discipline.py analyse()"
        res.assumptions = list(self.assumes)
        res.samples = [f"Ref accessors: {', '.join(ref_fns)}", f"scope-mutating (fixpoint): {len(mut)} functions, e.g. {', '.join(mut[:12])}"]
        return res


UNITS = [Unit()]

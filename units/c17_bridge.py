"""C17 / C13: list.map / list.filter -- the notification bridges of BuiltInFunction::run (function.rs): visiting an element never
panics, and an empty receiver yields an empty list without calling the function at all."""
from vlib.rules import *
from vlib.extract import extract_match_arm, extract_fn, extract_item
from vlib.pattern import Pat

FUNC = "bytecode/src/function.rs"

SPEC = r"""
use vstd::prelude::*;
verus! {
pub struct VErr;
// a value: a bool, a pointer to a list element / field / map entry, or anything else
#[verifier::external_body] pub struct HeapP { x: usize }
#[verifier::external_body] pub struct OtherP { x: usize }
pub enum Primitive { Bool(bool), HeapPrimitive(HeapP), Optional(Option<Box<Primitive>>), Other(OtherP) }
pub uninterp spec fn pointee(h: HeapP) -> Primitive;           // what the pointer denotes at this moment
pub open spec fn deref(p: Primitive) -> Primitive { match p { Primitive::HeapPrimitive(h) => pointee(h), _ => p } }
impl Primitive {
    #[verifier::external_body] pub fn move_out_of_heap_primitive(self) -> (r: Result<Primitive, VErr>) ensures r is Ok ==> r->Ok_0 == deref(self) { unimplemented!() }
}
pub enum ReturnValue { FFIError(PathV), NoValue, Value(Primitive) }
#[verifier::external_body] pub fn i32_to_usize(x: i32) -> (r: Result<usize, VErr>) ensures r is Ok <==> x >= 0, r is Ok ==> r->Ok_0 == x { unimplemented!() }
#[verifier::external_body] pub fn clone_prim(p: &Primitive) -> (r: Primitive) ensures r == *p { unimplemented!() }
// the visited list as it is NOW (the callback runs between two visits and may have changed it)
#[verifier::external_body] pub fn verif_receiver_itself() -> (r: usize) { unimplemented!() }       // marker: the result would be the receiver's own list (nothing known about it as a NEW list)
#[verifier::external_body] pub struct ListNow { x: usize }
pub uninterp spec fn items(l: &ListNow) -> Seq<Primitive>;
impl ListNow {
    // slice indexing panics when the index is not below the length (R8)
    #[verifier::external_body] pub fn verif_index(&self, i: usize) -> (r: &Primitive) requires i < items(self).len() ensures *r == items(self)[i as int] { unimplemented!() }
    #[verifier::external_body] pub fn get(&self, i: usize) -> (r: Option<&Primitive>) ensures i < items(self).len() ==> r == Some(&items(self)[i as int]), i >= items(self).len() ==> r is None { unimplemented!() }
    #[verifier::external_body] pub fn is_empty(&self) -> (r: bool) ensures r == (items(self).len() == 0) { unimplemented!() }
    #[verifier::external_body] pub fn len(&self) -> (r: usize) ensures r == items(self).len() { unimplemented!() }
}
pub trait VerifCtx<T> { fn verif_ctx(self) -> Result<T, VErr>; }
impl<'a> VerifCtx<&'a Primitive> for Option<&'a Primitive> {
    #[verifier::external_body] fn verif_ctx(self) -> (r: Result<&'a Primitive, VErr>) ensures r is Ok <==> self is Some, r is Ok ==> Some(r->Ok_0) == self { unimplemented!() }
}
// what the bridge keeps of the function value it was given, and the request it issues per element
#[verifier::external_body] pub struct PathV { x: usize }          // String (the function's location)
#[verifier::external_body] pub struct CapsV { x: usize }          // VariableMapping: the captured variables of a closure
#[verifier::external_body] pub struct StackRef { x: usize }       // Rc<RefCell<Stack>>
impl PathV { #[verifier::external_body] pub fn verif_clone(&self) -> (r: PathV) ensures r == *self { unimplemented!() } }
impl StackRef { #[verifier::external_body] pub fn verif_clone(&self) -> (r: StackRef) ensures r == *self { unimplemented!() } }
pub trait VerifClone { fn verif_clone(&self) -> Self where Self: Sized; }
#[verifier::external_body] pub fn clone_caps(c: &Option<CapsV>) -> (r: Option<CapsV>) ensures r == *c { unimplemented!() }
pub struct PrimitiveFunction { pub location: PathV, pub callback_state: Option<CapsV> }
pub struct OpSelf { pub callback_path: PathV, pub callback_state: Option<CapsV>, pub call_stack: StackRef }
pub enum JumpRequestDestination { Standard(PathV) }
pub struct JumpRequest { pub destination: JumpRequestDestination, pub arguments: Vec<Primitive>, pub callback_state: Option<CapsV>, pub stack: StackRef }
pub fn vec1(a: Primitive) -> (r: Vec<Primitive>) ensures r@ == seq![a] { let mut v = Vec::new(); v.push(a); v }
"""


def wait_for_body(src, log, op):
    frun = src.fn(FUNC, "run", "impl BuiltInFunction")
    try:
        it = extract_item(frun["body"], f"impl RuntimeExecutionBridgeNotifier for {op}")
        f = extract_fn(it["body"], "wait_for")
    except Exception as e:
        raise Undecided(f"{FUNC}: `impl RuntimeExecutionBridgeNotifier for {op}` / wait_for not found: {e}")
    b = translate(f["body"], [
        Rule("R10", "let this_index = self . index . get ( ) ;", "let this_index = index ;", count=1, why="Cell<i32> counter as a plain value (R10)"),
        Rule("R10", "self . index . set ( this_index + 1 ) ;", "", count=1, why="counter update: not needed for the panic question (its overflow is excluded by the precondition)"),
        Rule("R10", "let underlying = self . underlying . 0 . borrow ( ) ;", "", count=1, why="GcCell borrow: the list as it is now is a parameter (R10)"),
        Rule("R8", "underlying [ this_index as usize ]", "underlying . verif_index ( this_index as usize )", why="slice index with its panic precondition"),
        Rule("R3", ". context ( $m ) ?", ". verif_ctx ( ) ?", why="context text dropped; None -> Err"),
        Rule("R1", "self . callback_state . clone ( )", "clone_caps ( & self . callback_state )", why="Option<VariableMapping>::clone"),
        Rule("R1", ". clone ( )", ". verif_clone ( )", why="clone of an opaque value"),
        Rule("R12", "vec ! [ this_value ]", "vec1 ( this_value )", why="vec![x]"),
    ], log, f"{op}::wait_for")
    check_closed(b, f"{op}::wait_for")
    return b


def then_body(src, log, op):
    frun = src.fn(FUNC, "run", "impl BuiltInFunction")
    try:
        it = extract_item(frun["body"], f"impl RuntimeExecutionBridgeNotifier for {op}")
        f = extract_fn(it["body"], "then")
    except Exception as e:
        raise Undecided(f"{FUNC}: `impl RuntimeExecutionBridgeNotifier for {op}` / then not found: {e}")
    b = translate(f["body"], [
        Rule("R10", "let mut result = self . map_result . 0 . borrow_mut ( ) ;", "", why="GcCell borrow of the result list: the list is a &mut parameter (R10)"),
        Rule("R10", "let mut result = self . filter_result . 0 . borrow_mut ( ) ;", "", why="GcCell borrow of the result list: the list is a &mut parameter (R10)"),
        Rule("R10", "let underlying = self . underlying . 0 . borrow ( ) ;", "", why="GcCell borrow: the visited list as it is now is a parameter (R10)"),
        Rule("R10", "self . underlying . 0 . borrow ( ) . len ( )", "underlying . len ( )", why="GcCell borrow (R10)"),
        Rule("R10", "self . index . get ( )", "index", why="Cell<i32> counter as a plain value (R10)"),
        Rule("R7", "< i32 as TryInto < usize >> :: try_into ( $e ) ?", "i32_to_usize ( $e ) ?", why="i32 -> usize conversion with its failure"),
        Rule("R7", "let $n : usize = ( $$e ) . try_into ( ) ? ;", "let $n : usize = i32_to_usize ( $$e ) ? ;", why="i32 -> usize conversion with its failure"),
        Rule("R8", "underlying [ $i ]", "underlying . verif_index ( $i )", why="slice index with its panic precondition"),
        Rule("R3", ". context ( $$m ) ?", ". verif_ctx ( ) ?", why="context text dropped; None -> Err"),
        Rule("R3", ". with_context ( $$m ) ?", ". verif_ctx ( ) ?", why="context text dropped; None -> Err"),
        Rule("R1", ". clone ( )", ". verif_clone ( )", why="clone of an opaque value"),
    ], log, f"{op}::then")
    check_closed(b, f"{op}::then")
    return b


def new_body(src, log, op):
    frun = src.fn(FUNC, "run", "impl BuiltInFunction")
    try:
        it = extract_item(frun["body"], f"impl {op}")
        f = extract_fn(it["body"], "new")
    except Exception as e:
        raise Undecided(f"{FUNC}: `impl {op}` / new not found: {e}")
    b = translate(f["body"], [
        Rule("R1", "let underlying_len = { underlying . 0 . borrow ( ) . len ( ) } ;", "", why="capacity hint"),
        Rule("R1", "callback_fn . callback_state . clone ( )", "clone_caps ( & callback_fn . callback_state )", why="Option<VariableMapping>::clone"),
        Rule("R1", ". clone ( )", ". verif_clone ( )", why="clone of an opaque value"),
        Rule("R10", "map_result : GcVector :: with_capacity ( underlying_len ) ,", "", why="result list / visited list / counter: plain state outside this model (R10)"),
        Rule("R10", "filter_result : GcVector :: default ( ) ,", "", why="result list: outside this model (R10)"),
        Rule("R10", "underlying , index : Cell :: new ( 0 ) ,", "", why="visited list and counter: parameters of wait_for in this model (R10)"),
        Rule("R1", "Self {", "OpSelf {", why="Self -> the model's struct"),
    ], log, f"{op}::new")
    check_closed(b, f"{op}::new")
    return b


def head_of_arm(src, log, arm_name, struct_name):
    frun = src.fn(FUNC, "run", "impl BuiltInFunction")
    arm = extract_match_arm(frun["body"], f"Self :: {arm_name}")
    body = arm["body"]
    p = Pat("# [ derive ( Debug ) ] struct " + struct_name)
    cut = None
    for i in range(len(body)):
        if p.match_at(body, i):
            cut = i; break
    if cut is None:
        raise Undecided(f"{arm_name}: `#[derive(Debug)] struct {struct_name}` not found")
    head = body[:cut]
    b = translate(head, [
        Rule("R1", "let Primitive :: Function ( ref callback_fn ) = arguments . remove ( 1 ) else { unreachable ! ( ) } ;", "", count=1, why="callback extraction: not needed for the empty-receiver question"),
        Rule("R1", "let Some ( Primitive :: Vector ( v ) ) = arguments . first ( ) else { unreachable ! ( ) } ;", "", count=1, why="receiver: the list is a parameter"),
        Rule("R10", "v . 0 . borrow ( ) . is_empty ( )", "v . is_empty ( )", why="GcCell borrow of the receiver (R10)"),
        Rule("R10", "v . 0 . borrow ( ) . len ( )", "v . len ( )", why="GcCell borrow of the receiver (R10)"),
        Rule("R6", "return Ok ( ( Some ( Primitive :: Vector ( GcVector :: default ( ) ) ) , None ) ) ;", "return Some ( 0usize ) ;", why="result: a new empty list, no bridge (modelled as Some(length of the result))"),
        Rule("R6", "return Ok ( ( Some ( Primitive :: Vector ( GcVector :: new ( Vec :: new ( ) ) ) ) , None ) ) ;", "return Some ( 0usize ) ;", why="result: a new empty list, no bridge"),
        Rule("R6", "return Ok ( ( Some ( Primitive :: Vector ( v . clone ( ) ) ) , None ) ) ;", "return Some ( verif_receiver_itself ( ) ) ;", why="result: a clone of the receiver's HANDLE, i.e. the receiver itself -- not a new list (the marker is an unknown number: C13 wants a list of its own)"),
    ], log, f"{arm_name}[head]")
    check_closed(b, f"{arm_name}[head]")
    return b


def build(repo):
    src = Source(repo)
    log = []
    fns, obls = [], []
    for arm, op in (("VecMap", "MapOp"), ("VecFilter", "FilterOp")):
        bw = ["this" if t == "self" else t for t in wait_for_body(src, log, op)]
        bn = new_body(src, log, op)
        bh = head_of_arm(src, log, arm, op)
        bt = then_body(src, log, op)
        if op == "MapOp":
            then_post = """        // C13: the result list grows by the VALUE the function returned (not by a pointer into another list / object / map)
        && (return_value is Value ==> final(result)@ == old(result)@.push(deref(return_value->Value_0)))
        && (!(return_value is Value) ==> final(result)@ == old(result)@),"""
        else:
            then_post = """        // C13: the element just visited is kept exactly when the function returned true -- as a value or through a pointer
        && (keeps(return_value) ==> 0 < index <= items(underlying).len() && final(result)@ == old(result)@.push(items(underlying)[index - 1]))
        && (!keeps(return_value) ==> final(result)@ == old(result)@),"""
        fns.append(f"""
//@ OBL C13.bridge.{arm}.then
// {op}::then: what one answer of the function does to the result list; never indexes past the list as it is at that moment
pub fn {op}_then(return_value: ReturnValue, index: i32, underlying: &ListNow, result: &mut Vec<Primitive>) -> (r: Result<bool, VErr>)
    requires 0 <= index,
        // the answer is what the function's `ret` signalled: a value, never a pointer (obligation C01.handler.ret; Function::run hands it on unchanged -- C01.run.step)
        return_value is Value ==> !(return_value->Value_0 is HeapPrimitive),
    ensures r is Ok ==> r->Ok_0 == (index < items(underlying).len())
{then_post}
{{
{render(bt, 1)}
}}
""")
        obls.append(Obl(f"C13.bridge.{arm}.then", ["C13", "C17"], fn=f"{op}::then", desc=f"{op}::then: the result list receives the returned value itself (map) / the visited element exactly when the answer is true, also through a pointer (filter); no index past the end of the list as it is then"))
        fns.append(f"""
//@ OBL C17.bridge.{arm}.visit
// {op}::wait_for: visiting the next element -- for ANY length the list has at that moment (the callback may have removed elements)
pub fn {op}_wait_for(this: &OpSelf, index: i32, underlying: &ListNow) -> (r: Result<JumpRequest, VErr>)
    requires 0 <= index < i32::MAX
    ensures r is Ok ==> index < items(underlying).len() && r->Ok_0.arguments@ == seq![items(underlying)[index as int]]
        // C07: the function is called as the closure it is -- with the captured variables it was created with -- on the caller's stack
        && r->Ok_0.callback_state == this.callback_state && r->Ok_0.destination == JumpRequestDestination::Standard(this.callback_path) && r->Ok_0.stack == this.call_stack,
{{
{render(bw, 1)}
}}

//@ OBL C07.bridge.{arm}.new
// {op}::new: the bridge keeps the function's location and its captured variables
pub fn {op}_new(callback_fn: PrimitiveFunction, call_stack: StackRef) -> (r: OpSelf)
    ensures r.callback_path == callback_fn.location, r.callback_state == callback_fn.callback_state, r.call_stack == call_stack,
{{
{render(bn, 1)}
}}

//@ OBL C13.bridge.{arm}.empty
// {arm}, before the bridge is created: an empty receiver yields an empty list and the function is never called (no bridge)
pub fn {arm}_head(v: &ListNow) -> (r: Option<usize>)
    ensures items(v).len() == 0 ==> r == Some(0usize),
{{
{render(bh, 1)}
    None
}}
""")
        obls.append(Obl(f"C07.bridge.{arm}.new", ["C07"], fn=f"{op}::new", desc=f"{op}::new keeps the callback's location and captured variables"))
        obls.append(Obl(f"C17.bridge.{arm}.visit", ["C17", "C13", "C07"], fn=f"{op}::wait_for", desc=f"{op}::wait_for: never indexes past the end of the list as it is at that moment (failure instead of a Rust panic)"))
        obls.append(Obl(f"C13.bridge.{arm}.empty", ["C13", "C17"], fn=f"BuiltInFunction::run[{arm}]", desc=f"{arm}: an empty receiver returns an empty list without starting the callback bridge (the bridge protocol calls wait_for before it tests for the end)"))
    fget = src.fn(FUNC, "get", "impl ReturnValue")
    bget = translate(fget["body"], [], log, "ReturnValue::get")
    check_closed(bget, "ReturnValue::get")
    fns.append("""
impl ReturnValue {
    //@ OBL C13.return_value.get
    // the value a call produced, if it produced one -- whatever that value is (a nil is a value)
    pub fn get(self) -> (r: Option<Primitive>)
        ensures self is Value ==> r == Some(self->Value_0), !(self is Value) ==> r is None
    {
""" + render(bget, 2) + """
    }
}
""")
    obls.append(Obl("C13.return_value.get", ["C13", "C01", "C19"], fn="ReturnValue::get", desc="ReturnValue::get: Some(v) exactly for Value(v), for every v"))
    gen = header(log, f"{FUNC}: BuiltInFunction::run arms VecMap / VecFilter (head), MapOp::wait_for, FilterOp::wait_for") + SPEC + \
        "pub open spec fn keeps(rv: ReturnValue) -> bool { rv is Value && deref(rv->Value_0) == Primitive::Bool(true) }\n" + "impl Primitive { pub fn verif_clone(&self) -> (r: Primitive) ensures r == *self { clone_prim(self) } }\n" + "\n".join(fns) + "\n} // verus!\nfn main() {}\n"
    return gen, obls, log


UNITS = [VUnit("c17_bridge", ["C17", "C13", "C07", "C19"], "list.map / list.filter bridges: no out-of-range visit, empty receiver", build)]
UNITS[0].assumes = ["fragments: the statements of the VecMap / VecFilter arms in front of the local struct definitions, and the wait_for methods of the two bridges; `finish` and the bridge loop of Function::run (abstract in C01.run.step) are not covered",
                    "Cell<i32> / GcCell as plain state (R10); the visited list is arbitrary at each visit (the callback may change it)"]

"""C12: `==` / `!=` with optionals -- the leading match of Primitive::equals (primitive.rs), extracted as a fragment.
nil equals only nil; a present optional compares by its payload, on either side of the operator."""
from vlib.rules import *
from vlib.extract import find_block_after

PRIM = "bytecode/src/variables/primitive.rs"

SPEC = r"""
pub uninterp spec fn eq_spec(a: Primitive, b: Primitive) -> Result<bool, VErr>;          // the recursive equals on a payload
#[verifier::external_body] pub fn equals_rec(a: &Primitive, b: &Primitive) -> (r: Result<bool, VErr>) ensures r == eq_spec(*a, *b) { unimplemented!() }
pub uninterp spec fn list_eq(a: OtherV, b: OtherV) -> bool;
#[verifier::external_body] pub fn other_eq(a: &OtherV, b: &OtherV) -> (r: bool) ensures r == list_eq(*a, *b) { unimplemented!() }
pub open spec fn is_nil(p: Primitive) -> bool { p == Primitive::Optional(None) }
pub fn lift(r: Result<bool, VErr>) -> (o: Result<Option<bool>, VErr>) ensures (r is Err ==> o is Err), (r is Ok ==> o == Ok::<Option<bool>, VErr>(Some(r->Ok_0))) { match r { Ok(b) => Ok(Some(b)), Err(e) => Err(e) } }
"""


def build(repo):
    src = Source(repo)
    log = []
    f = src.fn(PRIM, "equals")
    body = f["body"]
    try:
        from vlib.pattern import Pat
        st = next(i for i in range(len(body)) if Pat("use Primitive as P ;").match_at(body, i))
        h, o, c = find_block_after(body, "match ( self , rhs )", start=st)
    except Exception as e:
        raise Undecided(f"Primitive::equals: leading `match (self, rhs)` not found: {e}")
    frag = body[h:c + 1]
    rules = [
        Rule("R1", "match ( self , rhs )", "match ( this , rhs )", count=1, why="receiver renamed"),
        Rule("R1", "P :: Vector ( v1 ) , P :: Vector ( v2 )", "Primitive :: Other ( v1 ) , Primitive :: Other ( v2 )", why="Vector (and the other heap kinds) are one opaque variant in this model"),
        Rule("R6", "return Ok ( v1 . 0 . borrow ( ) [ .. ] . eq ( v2 . 0 . borrow ( ) . as_slice ( ) ) )", "return Ok ( other_eq ( v1 , v2 ) )", why="list comparison: separate obligation C13.equals.vector"),
        Rule("R6", "return maybe_unwrapped . as_ref ( ) . equals ( yes ) ;", "return lift ( equals_rec ( & * * maybe_unwrapped , yes ) ) ;", why="recursive call on the payload: abstract (modular)"),
        Rule("R6", "return maybe_unwrapped . equals ( yes ) ;", "return lift ( equals_rec ( & * * maybe_unwrapped , yes ) ) ;", why="recursive call on the payload: abstract (modular)"),
        Rule("R1", "return Ok ( $$e )", "return Ok ( Some ( $$e ) )", why="the fragment returns Some(result) where the real function returns, None where it falls through to the numeric tables"),
        Rule("R1", "P :: $v", "Primitive :: $v", why="`use Primitive as P`"),
    ]
    b = translate(frag, rules, log, "Primitive::equals[head]")
    check_closed(b, "Primitive::equals[head]")
    gen = header(log, f"{PRIM}: Primitive::equals, the leading `match (self, rhs)`") + prelude("ctx.rs") + SPEC + f"""
//@ OBL C12.equals.optional
pub fn equals_head(this: &Primitive, rhs: &Primitive) -> (r: Result<Option<bool>, VErr>)
    ensures
        // nil == x and x == nil: true exactly when x is nil
        (is_nil(*this) || is_nil(*rhs)) ==> r == Ok::<Option<bool>, VErr>(Some(is_nil(*this) && is_nil(*rhs))),
        // a PRESENT optional on the left or on the right compares by its payload
        (!is_nil(*this) && !is_nil(*rhs) && !(*this is Other && *rhs is Other)) ==> (
            (*this matches Primitive::Optional(Some(m)) ==> (eq_spec(*m, *rhs) matches Ok(v) ==> r == Ok::<Option<bool>, VErr>(Some(v))) && (eq_spec(*m, *rhs) is Err ==> r is Err))
            && (!(*this is Optional) ==> (*rhs matches Primitive::Optional(Some(m)) ==> (eq_spec(*m, *this) matches Ok(v) ==> r == Ok::<Option<bool>, VErr>(Some(v))) && (eq_spec(*m, *this) is Err ==> r is Err)))
            // two plain values: decided by the kind tables that follow
            && (!(*this is Optional) && !(*rhs is Optional) ==> r == Ok::<Option<bool>, VErr>(None))),
{{
{render(b, 1)}
    Ok(None)
}}
}} // verus!
fn main() {{}}
"""
    return gen, [Obl("C12.equals.optional", ["C12"], fn="Primitive::equals[head]", desc="Primitive::equals, leading match: nil equals only nil; a present optional on either side is compared by its payload; plain values fall through to the kind tables")], log


UNITS = [VUnit("c12_equals", ["C12"], "== / != with optionals: nil and present-payload comparison on either side", build)]
UNITS[0].assumes = ["fragment: only the leading match of Primitive::equals; the recursive call on the payload and the list comparison are abstract callees; the kind tables (impl_eq!) are C05's obligations"]

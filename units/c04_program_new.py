"""C04 / C18 / C11: Program::new (bytecode/src/interpreter.rs) -- how `execute` names the entry file.  Every function label the compiler wrote
into the bytecode starts with the file's path AS IT WAS SPELLED AT COMPILE TIME (`x.mmm#Counter::next`, `./x.mmm#__module__`); the interpreter
finds a file by that spelling.  So the entry file must be opened, and registered as the one file in use, under the path the user gave --
only `\\` is written `/` (what the compiler does to labels too) -- and be the program's entry point under the same spelling: any other
normalisation (resolving links, dropping `./`) makes the first call into the entry file load a SECOND copy of it (module state twice, a class
`not exported from the executing module`)."""
from vlib.rules import *

FILE = "bytecode/src/interpreter.rs"

SPEC = r"""
use vstd::prelude::*;
verus! {
pub struct VErr;
#[verifier::external_body] pub struct VString { x: usize }
pub uninterp spec fn text_of(s: &VString) -> Seq<char>;
pub uninterp spec fn slashed(t: Seq<char>) -> Seq<char>;                 // every `\` written `/`
pub uninterp spec fn other_text(t: Seq<char>, how: int) -> Seq<char>;    // any other rewriting of a path: nothing known about it
pub broadcast axiom fn slashed_idempotent(t: Seq<char>) ensures #[trigger] slashed(slashed(t)) == slashed(t);
// Path::new(t).components().filter(not CurDir).collect(): the path without `.` components -- the chain the compiler applies to the path it is given
// (compile, unit c03_compile_entry) and to import paths (Import::path_from_parts, unit c11_path)
pub uninterp spec fn no_curdir(t: Seq<char>) -> Seq<char>;
// the spelling a file is known by everywhere: labels inside the bytecode, module-cache keys, the entry point
pub open spec fn label_spelling(t: Seq<char>) -> Seq<char> { slashed(no_curdir(slashed(t))) }
impl VString {
    #[verifier::external_body] pub fn replace_backslashes(self) -> (r: VString) ensures text_of(&r) == slashed(text_of(&self)) { unimplemented!() }
    #[verifier::external_body] pub fn reassembled(&self) -> (r: VString) ensures text_of(&r) == other_text(text_of(self), 5) { unimplemented!() }
    #[verifier::external_body] pub fn without_cur_dir(&self) -> (r: VString) ensures text_of(&r) == no_curdir(text_of(self)) { unimplemented!() }
    #[verifier::external_body] pub fn replace(&self, a: char, b: &str) -> (r: VString) ensures text_of(&r) == other_text(text_of(self), 1) { unimplemented!() }
    #[verifier::external_body] pub fn strip_prefix(&self, p: &str) -> (r: Option<&VString>) ensures r is Some ==> text_of(r->Some_0) == other_text(text_of(self), 2) { unimplemented!() }
    #[verifier::external_body] pub fn trim_start_matches(&self, p: &str) -> (r: &VString) ensures text_of(r) == other_text(text_of(self), 3) { unimplemented!() }
    #[verifier::external_body] pub fn to_owned(&self) -> (r: VString) ensures text_of(&r) == text_of(self) { unimplemented!() }
    #[verifier::external_body] pub fn to_string(&self) -> (r: VString) ensures text_of(&r) == text_of(self) { unimplemented!() }
    #[verifier::external_body] pub fn clone(&self) -> (r: VString) ensures text_of(&r) == text_of(self) { unimplemented!() }
    #[verifier::external_body] pub fn is_empty(&self) -> (r: bool) { unimplemented!() }
    #[verifier::external_body] pub fn to_string_lossy(&self) -> (r: VString) ensures text_of(&r) == text_of(self) { unimplemented!() }
}
// std::fs::canonicalize: the resolved absolute location -- another spelling
#[verifier::external_body] pub fn fs_canonicalize(p: &VString) -> (r: Result<VString, VErr>) ensures r is Ok ==> text_of(&r->Ok_0) == other_text(text_of(p), 4) { unimplemented!() }
#[verifier::external_body] pub struct FileV { x: usize }
pub uninterp spec fn file_path(f: &FileV) -> Seq<char>;                  // the path a loaded file is known by
#[verifier::external_body] pub fn open_file(p: VString) -> (r: Result<FileV, VErr>) ensures r is Ok ==> file_path(&r->Ok_0) == text_of(&p) { unimplemented!() }
pub struct Files { pub m: Ghost<Map<Seq<char>, FileV>> }
pub fn files_with_capacity(n: usize) -> (r: Files) ensures r.m@ == Map::<Seq<char>, FileV>::empty() { Files { m: Ghost(Map::empty()) } }
impl Files { #[verifier::external_body] pub fn insert(&mut self, k: VString, f: FileV) ensures final(self).m@ == old(self).m@.insert(text_of(&k), f) { unimplemented!() } }
pub struct Program { pub entry: Ghost<Seq<char>>, pub files: Ghost<Map<Seq<char>, FileV>> }
pub fn init_module_cache(entry: VString, files: Files) -> (r: Program) ensures r.entry@ == text_of(&entry), r.files@ == files.m@ { Program { entry: Ghost(text_of(&entry)), files: Ghost(files.m@) } }
"""


def build(repo):
    src = Source(repo)
    log = []
    f = src.fn(FILE, "new", "impl Program")
    b = translate(list(f["body"]), [
        Rule("R1", "path . into ( )", "path", why="Into<String>: the text itself"),
        Rule("R9", ". replace ( '\\\\' , \"/\" )", ". replace_backslashes ( )", why="str::replace('\\\\', \"/\"): every backslash written as a slash"),
        Rule("R9", "let path : std :: path :: PathBuf = std :: path :: Path :: new ( & path ) . components ( ) . filter ( | $c | ! matches ! ( $c , std :: path :: Component :: CurDir ) ) . collect ( ) ;", "let path = path . without_cur_dir ( ) ;",
             why="components().filter(not CurDir).collect(): the path without `.` components (assumed std contract; the same chain the compiler uses)"),
        Rule("R9", "let path : std :: path :: PathBuf = std :: path :: Path :: new ( & path ) . components ( ) . collect ( ) ;", "let path = path . reassembled ( ) ;",
             why="components().collect() WITHOUT the CurDir filter: some re-assembled spelling (a leading `./` is kept) -- not the one the labels use"),
        Rule("R1", "let path = path . to_string_lossy ( ) . replace_backslashes ( ) ;", "let path = path . replace_backslashes ( ) ;", why="PathBuf -> text"),
        Rule("R1", "let entrypoint = Rc :: new ( path ) ;", "let entrypoint = path ;", why="Rc wrapper dropped (shared text)"),
        Rule("R1", "Rc :: clone ( & entrypoint )", "entrypoint . clone ( )", why="Rc clone: the same text"),
        Rule("R1", "Rc :: downgrade ( & entrypoint )", "entrypoint . clone ( )", why="Weak of the entry path: the same text"),
        Rule("R6", "MScriptFile :: open ( $$a ) ?", "open_file ( $$a ) ?", why="loading the file: abstract; the file is known by the path it was opened with"),
        Rule("R10", "HashMap :: with_capacity ( 1 )", "files_with_capacity ( 1 )", why="HashMap<path, file> as a finite map"),
        Rule("R10", "RefCell :: new ( files_in_use )", "files_in_use", why="RefCell wrapper dropped"),
        Rule("R1", "Self :: init_module_cache", "init_module_cache", why="associated fn"),
        Rule("R9", "std :: fs :: canonicalize ( $$a )", "fs_canonicalize ( $$a )", why="std::fs::canonicalize: another spelling of the path"),
        Rule("R1", "Err ( _ ) =>", "Err ( _ ) =>", why=""),
    ], log, "Program::new")
    check_closed(b, "Program::new")
    gen = header(log, f"{FILE}: Program::new") + SPEC + f"""
//@ OBL C04.execute.entry-path
pub fn program_new(path: VString) -> (r: Result<Program, VErr>)
    ensures r is Ok ==> ({{ let p = label_spelling(text_of(&path)); let prog = r->Ok_0;
        // the entry point is the path in the spelling the LABELS use (`\\` -> `/`, `.` components dropped), and the ONE file in use is the entry file, known by and registered under that same spelling
        &&& prog.entry@ == p
        &&& prog.files@.dom() =~= set![p]
        &&& file_path(&prog.files@[p]) == p }}),
{{
    broadcast use slashed_idempotent;
{render(b, 1)}
}}

// ---- D112 (fixed): `run x.ms` and `compile x.ms` + `execute ./x.mmm` are the same program: entry registration goes through the SAME spelling function as
// the labels the compiler writes (c03_compile_entry: everything downstream of `compile` sees `no_curdir(input)`; c11_path: import paths likewise)
//@ OBL C04.execute.spelling-independent
pub fn program_new_canon(path: VString) -> (r: Result<Program, VErr>)
    ensures r is Ok ==> r->Ok_0.entry@ == label_spelling(text_of(&path)) && r->Ok_0.files@.dom() =~= set![label_spelling(text_of(&path))],
{{
    broadcast use slashed_idempotent;
{render(b, 1)}
}}
}} // verus!
fn main() {{}}
"""
    return gen, [Obl("C04.execute.spelling-independent", ["C04"], fn="Program::new",
                     desc="the entry file is registered under the spelling the compiler writes labels in (`\\` -> `/`, `.` components dropped by the same std chain), so that `compile x.ms` + `execute ./x.mmm` runs the program `run x.ms` runs (D112)"),
                 Obl("C04.execute.entry-path", ["C04", "C18", "C11"], fn="Program::new",
                     desc="Program::new: the entry file is opened, registered and made the entry point under the path as the user gave it (only `\\` -> `/`): the spelling the labels inside the bytecode use")], log


UNITS = [VUnit("c04_program_new", ["C04", "C18", "C11"], "execute: the entry file keeps the spelling of its path", build)]
UNITS[0].assumes = ["MScriptFile::open abstract (a file is known by the path it was opened with); HashMap / Rc / Weak as a finite map of texts",
                    "that the compiler writes labels with the compile-time spelling of the path is the compile side (units c11_path, c11_import_path)"]

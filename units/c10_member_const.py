"""C10: `const` on a class member (Parser::class_variable, compiler/src/ast/class/member_variable.rs).  The grammar accepts
`class A { const v: int }`; a name declared `const` is never rebound by any form, field assignment included.  What every later check can see
of the declaration is the identifier the member is registered with: it must carry the const flag exactly when the declaration says `const`."""
from vlib.rules import *

FILE = "compiler/src/ast/class/member_variable.rs"

SPEC = r"""
pub struct Ident { pub name: VStr, pub ty: Option<TypeLayout>, pub read_only: bool }
impl Ident {
    pub fn mark_const(&mut self) ensures final(self).read_only, final(self).name == old(self).name, final(self).ty == old(self).ty { self.read_only = true; }
    #[verifier::external_body] pub fn name(&self) -> (r: &VStr) ensures *r == self.name { unimplemented!() }
}
#[verifier::external_body] pub fn parse_ident(n: Node) -> (r: Result<Ident, VErr>) ensures r is Ok ==> str_view(&r->Ok_0.name) == node_text(&n) && r->Ok_0.ty is None && !r->Ok_0.read_only { unimplemented!() }
#[derive(Clone, Copy)]
pub struct AssignmentFlag(pub u8);
pub uninterp spec fn flag_const(f: AssignmentFlag) -> bool;
pub uninterp spec fn default_flags() -> AssignmentFlag;
pub broadcast axiom fn default_not_const() ensures !#[trigger] flag_const(default_flags());
impl AssignmentFlag {
    #[verifier::external_body] pub fn default() -> (r: AssignmentFlag) ensures r == default_flags() { unimplemented!() }
    #[verifier::external_body] pub fn contains_const(&self) -> (r: bool) ensures r == flag_const(*self) { unimplemented!() }
}
#[verifier::external_body] pub fn parse_assignment_flags(n: Node) -> (r: Result<AssignmentFlag, VErr>) { unimplemented!() }
#[derive(PartialEq, Eq, Structural, Clone, Copy)]
pub enum RuleK { assignment_flags, ident, other }
pub uninterp spec fn rule_of(n: &Node) -> RuleK;
#[verifier::external_body] pub fn as_rule(n: &Node) -> (r: RuleK) ensures r == rule_of(n) { unimplemented!() }
// the registration of the member in the class scope: what field assignment / op-assign checks will find
#[verifier::external_body] pub fn link_member(i: &mut Ident, n: &Node, t: TypeLayout) -> (r: Result<(), VErr>)
    ensures final(i).name == old(i).name, final(i).read_only == old(i).read_only, final(i).ty is Some { unimplemented!() }
pub struct MemberVariable { pub flags: AssignmentFlag, pub ident: Ident }
"""


def build(repo):
    src = Source(repo)
    log = []
    f = src.fn(FILE, "class_variable", "impl Parser")
    b = translate(f["body"], parser_idioms() + [
        Rule("R6", "input . children ( )", "children ( & input )", why="pest API abstract"),
        Rule("R8", "children . next ( ) . unwrap ( )", "unwrap_node ( children . next ( ) )", why="unwrap on a child: grammar child count (R8)"),
        Rule("R6", "either_flags_or_ident . as_rule ( ) == Rule :: assignment_flags", "as_rule ( & either_flags_or_ident ) == RuleK :: assignment_flags", why="pest rule test abstract"),
        Rule("R6", "Self :: assignment_flags ( $n ) . to_err_vec ( ) ?", "parse_assignment_flags ( $n ) ?", why="sub-parser abstract"),
        Rule("R6", "Self :: ident ( ident ) . to_err_vec ( ) ?", "parse_ident ( ident ) ?", why="sub-parser abstract"),
        Rule("R6", "Self :: r#type ( ty_node ) . to_err_vec ( ) ?", "parse_type ( ty_node ) ?", why="sub-parser abstract"),
        Rule("R3", "let var_name = ident . name ( ) ; return Err ( vec ! [ new_err ( $$a ) ] ) ;", "return Err ( VErr ) ;", why="diagnostic construction dropped"),
        Rule("R3", "return Err ( vec ! [ new_err ( $$a ) ] ) ;", "return Err ( VErr ) ;", why="diagnostic construction dropped"),
        Rule("R6", "ident . link_force_no_inherit ( input . user_data ( ) , ty ) . to_err_vec ( ) ? ;", "link_member ( & mut ident , & input , ty ) ? ;", why="registration of the member: abstract"),
        Rule("R1", "flags . contains ( AssignmentFlag :: constant ( ) )", "flags . contains_const ( )", why="flag test"),
    ], log, "Parser::class_variable")
    check_closed(b, "Parser::class_variable")
    gen = header(log, f"{FILE}: Parser::class_variable") + prelude("parser.rs") + SPEC + f"""
//@ OBL C10.member.const-flag
pub fn class_variable(input: Node) -> (r: Result<MemberVariable, VErr>)
    requires node_children(&input).len() >= 2
    ensures
        // a member declared `const` is registered as a constant (and only then): every check that protects constants sees it
        r is Ok ==> r->Ok_0.ident.read_only == flag_const(r->Ok_0.flags),
{{
    broadcast use default_not_const;
{render(b, 1)}
}}
}} // verus!
fn main() {{}}
"""
    return gen, [Obl("C10.member.const-flag", ["C10"], fn="Parser::class_variable", desc="Parser::class_variable: the member's identifier carries the const flag exactly when the declaration says `const`")], log


UNITS = [VUnit("c10_member_const", ["C10"], "`const` on a class member reaches the identifier the member is registered with", build)]
UNITS[0].assumes = ["pest API and sub-parsers abstract; what field assignment does with the flag is unit c10_reassign (the path's const flag) -- a member flag is not consulted there yet"]

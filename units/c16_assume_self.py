"""C16: `TypeLayout::assume_type_of_self` (compiler/src/ast/type.rs) -- what `Self` stands for when a member is looked up on a value of that type
(`x.member`, `x.member = v`).  Outside a class `Self` stands for nothing: the function must return (the lookup that follows reports the type), not
unwrap the missing class (`x: Self? = nil; print (get x).foo` at module level was a compiler panic: D93)."""
from vlib.rules import *

FILE = "compiler/src/ast/type.rs"

SPEC = r"""
use vstd::prelude::*;
verus! {
#[verifier::external_body] pub struct ClassType { x: usize }
#[verifier::external_body] pub struct OtherV { x: usize }
#[verifier::external_body] pub struct AssocFileData { x: usize }
pub enum TypeLayout { Class(ClassType), ClassSelf(Option<ClassType>), Other(OtherV) }
pub uninterp spec fn executing_class(u: &AssocFileData) -> Option<ClassType>;
impl AssocFileData { #[verifier::external_body] pub fn get_type_of_executing_class(&self) -> (r: Option<&ClassType>) ensures executing_class(self) is None ==> r is None, executing_class(self) is Some ==> r == Some(&executing_class(self)->Some_0) { unimplemented!() } }
impl ClassType { #[verifier::external_body] pub fn clone(&self) -> (r: ClassType) ensures r == *self { unimplemented!() } }
pub uninterp spec fn spec_is_class_self(t: &TypeLayout) -> bool;        // TypeLayout::is_class_self (looks through wrappers)
impl TypeLayout { #[verifier::external_body] pub fn is_class_self(&self) -> (r: bool) ensures r == spec_is_class_self(self) { unimplemented!() } }
// Option::unwrap PANICS on None (R8)
pub fn opt_unwrap<'a>(o: Option<&'a ClassType>) -> (r: &'a ClassType) requires o is Some ensures Some(r) == o { o.unwrap() }
"""


def build(repo):
    src = Source(repo)
    log = []
    f = src.fn(FILE, "assume_type_of_self", "impl TypeLayout")
    b = translate(f["body"], [
        Rule("R8", "user_data . get_type_of_executing_class ( ) . unwrap ( )", "opt_unwrap ( user_data . get_type_of_executing_class ( ) )", why="Option::unwrap with its panic precondition"),
    ], log, "TypeLayout::assume_type_of_self")
    check_closed(b, "assume_type_of_self")
    body = render(b, 2)
    gen = header(log, f"{FILE}: TypeLayout::assume_type_of_self") + SPEC + f"""
impl TypeLayout {{
    //@ OBL C16.assume_self.total
    pub fn assume_type_of_self(self, user_data: &AssocFileData) -> (r: TypeLayout)
        ensures
            // in a class, `Self` stands for that class; anything else -- and `Self` outside a class -- is handed on as it is (no panic: every unwrap is an obligation)
            (spec_is_class_self(&self) && executing_class(user_data) is Some) ==> r == TypeLayout::Class(executing_class(user_data)->Some_0),
            !(spec_is_class_self(&self) && executing_class(user_data) is Some) ==> r == self,
    {{
{body}
    }}
}}
}} // verus!
fn main() {{}}
"""
    return gen, [Obl("C16.assume_self.total", ["C16", "C08"], fn="TypeLayout::assume_type_of_self", desc="assume_type_of_self: `Self` is the executing class inside a class; outside one the type is handed on unchanged -- never an unwrap of a missing class")], log


UNITS = [VUnit("c16_assume_self", ["C16", "C08"], "`Self` outside a class is not a compiler panic", build)]
UNITS[0].assumes = ["is_class_self and the scope query are abstract"]

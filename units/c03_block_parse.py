"""C03: Parser::block (compiler/src/ast/function_body.rs) -- a block is accepted only if EVERY statement in it is: one statement with diagnostics
makes the whole block fail (the diagnostics of all failing statements are collected, none is dropped in favour of the statements that parsed);
an accepted block holds its statements in source order, none skipped."""
from vlib.rules import *

FILE = "compiler/src/ast/function_body.rs"

SPEC = r"""
#[verifier::external_body] pub struct Declaration { x: usize }
pub uninterp spec fn decl_of(n: Node) -> Result<Declaration, Seq<VErr>>;          // Parser::declaration on that child
#[verifier::external_body] pub fn parse_declaration(n: Node) -> (r: Result<Declaration, Vec<VErr>>)
    ensures r is Ok <==> decl_of(n) is Ok, r is Ok ==> r->Ok_0 == decl_of(n)->Ok_0, r is Err ==> r->Err_0@.len() > 0 { unimplemented!() }
#[verifier::external_body] pub fn child_at(c: &Children, k: usize) -> (r: Node) requires k < c.items@.len() ensures r == c.items@[k as int] { unimplemented!() }
#[verifier::external_body] pub fn errs_append(a: &mut Vec<VErr>, b: &mut Vec<VErr>) ensures final(a)@.len() == old(a)@.len() + old(b)@.len() { unimplemented!() }
pub struct Block(pub Vec<Declaration>);
"""


def build(repo):
    src = Source(repo)
    log = []
    f = src.fn(FILE, "block", "impl Parser")
    INV = ("invariant verif_k <= children.items@.len(), children.items@ == node_children(&input), "
           "errors@.len() == 0 ==> (result@.len() == verif_k && forall|i: int| 0 <= i < verif_k ==> decl_of(children.items@[i]) is Ok && #[trigger] result@[i] == decl_of(children.items@[i])->Ok_0), "
           "errors@.len() > 0 <==> exists|i: int| 0 <= i < verif_k && #[trigger] decl_of(children.items@[i]) is Err, decreases children.items@.len() - verif_k,")
    b = translate(list(f["body"]), [
        Rule("R6", "input . children ( )", "children ( & input )", why="pest API abstract"),
        Rule("R1", "let mut result = vec ! [ ] ;", "let mut result : Vec < Declaration > = Vec :: new ( ) ;", why="type ascription"),
        Rule("R1", "let mut errors = vec ! [ ] ;", "let mut errors : Vec < VErr > = Vec :: new ( ) ;", why="type ascription"),
        Rule("R2", "for child in children { $$body }", lambda bb: ["let mut verif_k : usize = 0 ; while verif_k < children . items . len ( )", G(INV),
                                                                   "{ let child = child_at ( & children , verif_k ) ; verif_k += 1 ;", *bb["body"], "}"], count=1, why="for over the pest children -> indexed while"),
        Rule("R6", "Self :: declaration ( child )", "parse_declaration ( child )", why="sub-parser abstract (keeps which child it parsed)"),
        Rule("R13", "errors . append ( & mut e )", "errs_append ( & mut errors , & mut e )", why="Vec::append"),
        Rule("R9", "errors . is_empty ( )", "( errors . len ( ) == 0 )", why="Vec::is_empty"),
    ], log, "Parser::block")
    check_closed(b, "Parser::block")
    gen = header(log, f"{FILE}: Parser::block") + prelude("parser.rs") + SPEC + f"""
//@ OBL C03.block.every-statement
#[verifier::loop_isolation(false)]
pub fn block(input: Node) -> (r: Result<Block, Vec<VErr>>)
    ensures
        // accepted exactly when every statement is accepted ..
        r is Ok <==> forall|i: int| 0 <= i < node_children(&input).len() ==> #[trigger] decl_of(node_children(&input)[i]) is Ok,
        // .. and then it holds the statements in source order, none skipped
        r is Ok ==> r->Ok_0.0@.len() == node_children(&input).len() && forall|i: int| 0 <= i < node_children(&input).len() ==> #[trigger] r->Ok_0.0@[i] == decl_of(node_children(&input)[i])->Ok_0,
        r is Err ==> r->Err_0@.len() > 0,
{{
{render(b, 1)}
}}
}} // verus!
fn main() {{}}
"""
    return gen, [Obl("C03.block.every-statement", ["C03", "C01", "C16"], fn="Parser::block", desc="Parser::block: accepted exactly when every statement is; an accepted block holds the statements in source order; a rejected one carries at least one diagnostic")], log


UNITS = [VUnit("c03_block_parse", ["C03", "C01", "C16"], "a block is accepted only if every statement is", build)]
UNITS[0].assumes = ["pest API and Parser::declaration abstract (a failing statement reports at least one diagnostic)"]

"""C03: Parser::block (compiler/src/ast/function_body.rs) -- a block is accepted only if EVERY statement in it is: one statement with diagnostics
makes the whole block fail (the diagnostics of all failing statements are collected, none is dropped in favour of the statements that parsed);
an accepted block holds its statements in source order, none skipped."""
from vlib.rules import *

FILE = "compiler/src/ast/function_body.rs"

SPEC = r"""
#[verifier::external_body] pub struct Declaration { x: usize }
pub uninterp spec fn decl_of(n: Node) -> Result<Declaration, Seq<VErr>>;          // Parser::declaration on that child
#[verifier::external_body] pub fn parse_declaration(n: Node) -> (r: Result<Declaration, Vec<VErr>>)
    ensures r is Ok <==> decl_of(n) is Ok, r is Ok ==> r->Ok_0 == decl_of(n)->Ok_0, r is Err ==> r->Err_0@.len() > 0 { unimplemented!() }
#[verifier::external_body] pub fn child_at(c: &Children, k: usize) -> (r: Node) requires k < c.items@.len() ensures r == c.items@[k as int] { unimplemented!() }
#[verifier::external_body] pub fn errs_append(a: &mut Vec<VErr>, b: &mut Vec<VErr>) ensures final(a)@.len() == old(a)@.len() + old(b)@.len() { unimplemented!() }
pub struct Block(pub Vec<Declaration>);
// ---- populate_file (parser.rs): the same at the level of a file
pub struct FileV { pub decls: Ghost<Seq<Declaration>> }
impl FileV { pub fn add_declaration(&mut self, d: Declaration) ensures final(self).decls@ == old(self).decls@.push(d) { self.decls = Ghost(self.decls@.push(d)); } }
#[verifier::external_body] pub fn wipe_this_scope(n: &Node) { unimplemented!() }
#[verifier::external_body] pub fn vpanic() requires false { unimplemented!() }
// the declarations among the children, in order (the only other child the grammar gives a file is EOI)
pub open spec fn count_decl(c: Seq<Node>) -> nat decreases c.len() {
    if c.len() == 0 { 0 } else if has_rule(&c.last(), "declaration") { count_decl(c.drop_last()) + 1 } else { count_decl(c.drop_last()) }
}
// some top-level statement has diagnostics
pub open spec fn any_bad(c: Seq<Node>) -> bool decreases c.len() {
    if c.len() == 0 { false } else { any_bad(c.drop_last()) || (has_rule(&c.last(), "declaration") && decl_of(c.last()) is Err) }
}
pub proof fn lemma_dc_step(c: Seq<Node>, k: int) requires 0 <= k < c.len()
    ensures c.subrange(0, k + 1).drop_last() == c.subrange(0, k), c.subrange(0, k + 1).last() == c[k]
{ assert(c.subrange(0, k + 1).drop_last() =~= c.subrange(0, k)); }
"""


def build(repo):
    src = Source(repo)
    log = []
    f = src.fn(FILE, "block", "impl Parser")
    INV = ("invariant verif_k <= children.items@.len(), children.items@ == node_children(&input), "
           "errors@.len() == 0 ==> (result@.len() == verif_k && forall|i: int| 0 <= i < verif_k ==> decl_of(children.items@[i]) is Ok && #[trigger] result@[i] == decl_of(children.items@[i])->Ok_0), "
           "errors@.len() > 0 <==> exists|i: int| 0 <= i < verif_k && #[trigger] decl_of(children.items@[i]) is Err, decreases children.items@.len() - verif_k,")
    b = translate(list(f["body"]), [
        Rule("R6", "input . children ( )", "children ( & input )", why="pest API abstract"),
        Rule("R1", "let mut result = vec ! [ ] ;", "let mut result : Vec < Declaration > = Vec :: new ( ) ;", why="type ascription"),
        Rule("R1", "let mut errors = vec ! [ ] ;", "let mut errors : Vec < VErr > = Vec :: new ( ) ;", why="type ascription"),
        Rule("R2", "for child in children { $$body }", lambda bb: ["let mut verif_k : usize = 0 ; while verif_k < children . items . len ( )", G(INV),
                                                                   "{ let child = child_at ( & children , verif_k ) ; verif_k += 1 ;", *bb["body"], "}"], count=1, why="for over the pest children -> indexed while"),
        Rule("R6", "Self :: declaration ( child )", "parse_declaration ( child )", why="sub-parser abstract (keeps which child it parsed)"),
        Rule("R13", "errors . append ( & mut e )", "errs_append ( & mut errors , & mut e )", why="Vec::append"),
        Rule("R9", "errors . is_empty ( )", "( errors . len ( ) == 0 )", why="Vec::is_empty"),
    ], log, "Parser::block")
    check_closed(b, "Parser::block")
    PFILE = "compiler/src/parser.rs"
    fp = src.fn(PFILE, "populate_file")
    INVP = ("invariant verif_k <= verif_kids.items@.len(), verif_kids.items@ == node_children(&input), "
            "forall|i: int| 0 <= i < verif_kids.items@.len() ==> has_rule(#[trigger] &verif_kids.items@[i], \"declaration\") || has_rule(&verif_kids.items@[i], \"EOI\"), "
            "errors@.len() == 0 ==> result.decls@.len() == old(result).decls@.len() + count_decl(verif_kids.items@.subrange(0, verif_k as int)), "
            "errors@.len() > 0 <==> any_bad(verif_kids.items@.subrange(0, verif_k as int)), "
            "decreases verif_kids.items@.len() - verif_k,")
    bp = translate(list(fp["body"]), parser_idioms() + [
        Rule("R10", "input . user_data ( ) . wipe_this_scope ( ) ;", "wipe_this_scope ( & input ) ;", why="scope reset: abstract"),
        Rule("R1", "let mut errors = vec ! [ ] ;", "let mut errors : Vec < VErr > = Vec :: new ( ) ;", why="type ascription"),
        Rule("R2", "for child in input . children ( ) { $$body }", lambda bb: ["let verif_kids = node_kids ( & input ) ; let mut verif_k : usize = 0 ; while verif_k < verif_kids . items . len ( )", G(INVP),
                                                                               "{ let child = child_at ( & verif_kids , verif_k ) ; verif_k += 1 ;", G("proof { lemma_dc_step(verif_kids.items@, verif_k as int - 1); }"), *bb["body"], "}",
                                                                               G("proof { assert(verif_kids.items@.subrange(0, verif_kids.items@.len() as int) =~= verif_kids.items@); }")], count=1, why="for over the pest children -> indexed while"),
        Rule("R6", "match child . as_rule ( ) { Rule :: declaration => $$a , Rule :: EOI => ( ) , _ => $$u , }",
             "if node_has_rule ( & child , \"declaration\" ) { $$a } else if node_has_rule ( & child , \"EOI\" ) { } else { $$u }", why="match on the pest rule -> if chain in source order"),
        Rule("R8", "unreachable ! $a", "vpanic ( )", why="unreachable!: a panic (R8: excluded by the grammar precondition)"),
        Rule("R6", "Parser :: declaration ( child )", "parse_declaration ( child )", why="sub-parser abstract (keeps which child it parsed)"),
        Rule("R13", "errors . append ( & mut e )", "errs_append ( & mut errors , & mut e )", why="Vec::append"),
        Rule("R9", "errors . is_empty ( )", "( errors . len ( ) == 0 )", why="Vec::is_empty"),
    ], log, "populate_file")
    check_closed(bp, "populate_file")
    gen = header(log, f"{FILE}: Parser::block; {PFILE}: populate_file") + prelude("parser.rs") + SPEC + f"""
//@ OBL C03.file.every-statement
#[verifier::loop_isolation(false)]
pub fn populate_file(input: Node, result: &mut FileV) -> (r: Result<(), Vec<VErr>>)
    requires forall|i: int| 0 <= i < node_children(&input).len() ==> has_rule(#[trigger] &node_children(&input)[i], "declaration") || has_rule(&node_children(&input)[i], "EOI"),     // grammar: file = {{ SOI ~ declaration* ~ EOI }}
    ensures
        // the file is accepted exactly when every top-level statement is
        r is Ok <==> !any_bad(node_children(&input)),
        r is Ok ==> final(result).decls@.len() == old(result).decls@.len() + count_decl(node_children(&input)),
        r is Err ==> r->Err_0@.len() > 0,
{{
{render(bp, 1).replace("mut result", "result")}
}}
""" + f"""
//@ OBL C03.block.every-statement
#[verifier::loop_isolation(false)]
pub fn block(input: Node) -> (r: Result<Block, Vec<VErr>>)
    ensures
        // accepted exactly when every statement is accepted ..
        r is Ok <==> forall|i: int| 0 <= i < node_children(&input).len() ==> #[trigger] decl_of(node_children(&input)[i]) is Ok,
        // .. and then it holds the statements in source order, none skipped
        r is Ok ==> r->Ok_0.0@.len() == node_children(&input).len() && forall|i: int| 0 <= i < node_children(&input).len() ==> #[trigger] r->Ok_0.0@[i] == decl_of(node_children(&input)[i])->Ok_0,
        r is Err ==> r->Err_0@.len() > 0,
{{
{render(b, 1)}
}}
}} // verus!
fn main() {{}}
"""
    return gen, [Obl("C03.file.every-statement", ["C03", "C16"], fn="populate_file", desc="populate_file: a file is accepted exactly when every top-level statement is; none skipped"),
                 Obl("C03.block.every-statement", ["C03", "C01", "C16"], fn="Parser::block", desc="Parser::block: accepted exactly when every statement is; an accepted block holds the statements in source order; a rejected one carries at least one diagnostic")], log


UNITS = [VUnit("c03_block_parse", ["C03", "C01", "C16"], "a block is accepted only if every statement is", build)]
UNITS[0].assumes = ["pest API and Parser::declaration abstract (a failing statement reports at least one diagnostic)"]

"""C16: panic-freedom (every unwrap / expect / unreachable! / slice index / usize subtraction is a proof obligation, rule R8)
of pure helper functions of the compiler, relative to the lexical shape the grammar guarantees."""
from vlib.rules import *

NUM = "compiler/src/ast/number.rs"
LIST = "compiler/src/ast/list.rs"

SPEC = r"""
use vstd::prelude::*;
verus! {
pub struct VErr;
pub enum Number { Integer(Vec<char>), BigInt(Vec<char>), Float(Vec<char>), Byte(Vec<char>) }
pub enum Rule { bigint, integer, hex_int, float, byte, other }
// `string.chars().filter(|x| x != &'_').collect()`
pub open spec fn strip_us(s: Seq<char>) -> Seq<char> decreases s.len() { if s.len() == 0 { s } else if s[0] == '_' { strip_us(s.drop_first()) } else { seq![s[0]] + strip_us(s.drop_first()) } }
#[verifier::external_body] pub fn filter_underscores(s: &Vec<char>) -> (r: Vec<char>) ensures r@ == strip_us(s@) { unimplemented!() }
// `&s[k..]` panics when k > len (or off a char boundary: the lexical rules are ASCII) -- R8
#[verifier::external_body] pub fn slice_from(s: &Vec<char>, k: usize) -> (r: Vec<char>) requires k <= s@.len() ensures r@ == s@.subrange(k as int, s@.len() as int) { unimplemented!() }
#[verifier::external_body] pub fn strip_prefix_0x(s: &Vec<char>) -> (r: Option<Vec<char>>) { unimplemented!() }
#[verifier::external_body] pub fn strip_suffix_f(s: &Vec<char>) -> (r: Option<Vec<char>>) { unimplemented!() }
// from_str_radix panics when the radix is not in 2..=36 -- R8
#[verifier::external_body] pub fn i128_from_str_radix(s: &Vec<char>, radix: u32) -> (r: Result<i128, VErr>) requires 2 <= radix <= 36 { unimplemented!() }
#[verifier::external_body] pub fn u8_from_str_radix(s: &Vec<char>, radix: u32) -> (r: Result<u8, VErr>) requires 2 <= radix <= 36 { unimplemented!() }
// the integer a decimal numeral denotes (uninterpreted)
pub uninterp spec fn val(s: Seq<char>) -> int;
#[verifier::external_body] pub fn i128_to_string(x: i128) -> (r: Vec<char>) ensures val(r@) == x { unimplemented!() }
// str::parse::<i32>().is_ok() on a numeral made of digits: the value fits
#[verifier::external_body] pub fn parse_i32_ok(s: &Vec<char>) -> (r: bool) ensures r == (i32::MIN <= val(s@) <= i32::MAX) { unimplemented!() }
#[verifier::external_body] pub fn i32_try_from_ok(x: i128) -> (r: bool) ensures r == (i32::MIN <= x <= i32::MAX) { unimplemented!() }
#[verifier::external_body] pub fn u8_to_string(x: u8) -> (r: Vec<char>) { unimplemented!() }
#[verifier::external_body] pub fn parse_usize(s: &Vec<char>) -> (r: Result<usize, VErr>) { unimplemented!() }
#[verifier::external_body] pub fn to_owned_chars(s: Vec<char>) -> (r: Vec<char>) ensures r@ == s@ { unimplemented!() }
#[verifier::external_body] pub fn vexpect_u8(r: Result<u8, VErr>) -> (v: u8) requires r is Ok { unimplemented!() }      // Result::expect: R8
// a panic: must be unreachable
#[verifier::external_body] pub fn vpanic() requires false { unimplemented!() }
// what the lexical rules of grammar.pest guarantee about the matched text (stated from the grammar, not proved against pest):
//   bigint = "B" ~ (hex_int | integer)     hex_int = "0x" ~ HEX+      byte = "0b" ~ BIN+      (underscores only between digits)
pub open spec fn lexical_shape(rule: Rule, s: Seq<char>) -> bool {
    match rule { Rule::bigint => strip_us(s).len() >= 2, Rule::hex_int => strip_us(s).len() >= 3, Rule::byte => strip_us(s).len() >= 3, _ => true }
}
#[verifier::external_body] pub struct TypeV { x: usize }
pub enum ListType { Mixed(Vec<TypeV>), Open { x: TypeV } }
pub enum ListBound { Numeric(usize), Infinite }
"""


def build(repo):
    src = Source(repo)
    log = []
    f = src.fn(NUM, "number_from_string")
    rules = [
        Rule("R3", "bail ! $a", "return Err ( VErr )", why="bail! -> return Err"),
        Rule("R9", "let as_str : String = string . chars ( ) . filter ( | x | x != & '_' ) . collect ( ) ;", "let as_str = filter_underscores ( string ) ;", count=1, why="chars().filter(!= '_').collect()"),
        Rule("R8", "let no_prefix = & as_str [ $k .. ] ;", "let no_prefix = slice_from ( & as_str , $k ) ;", why="slice index with its panic precondition"),
        Rule("R8", "& as_str [ $k .. ]", "& slice_from ( & as_str , $k )", why="slice index with its panic precondition"),
        Rule("R9", "no_prefix . strip_prefix ( \"0x\" )", "strip_prefix_0x ( & no_prefix )", why="str::strip_prefix"),
        Rule("R8", "i128 :: from_str_radix ( $s , $r ) ?", "i128_from_str_radix ( & $s , $r ) ?", why="from_str_radix with its radix precondition"),
        Rule("R8", "i128 :: from_str_radix ( & $$s , $r ) ?", "i128_from_str_radix ( & $$s , $r ) ?", why="from_str_radix with its radix precondition"),
        Rule("R8", "u8 :: from_str_radix ( & $$s , $r )", "u8_from_str_radix ( & $$s , $r )", why="from_str_radix with its radix precondition"),
        Rule("R3", ". with_context ( $$c ) ?", "?", why="context text dropped"),
        Rule("R8", ". expect ( $m )", ". vexpect ( )", why="expect: a panic unless Ok"),
        Rule("R5", "let as_hex = $$e ? . to_string ( ) ;", "let as_hex = i128_to_string ( $$e ? ) ;", why="integer to_string"),
        Rule("R5", "Number :: Byte ( $$e ? . to_string ( ) , )", "Number :: Byte ( u8_to_string ( $$e ? ) )", why="integer to_string"),
        Rule("R5", "Number :: Byte ( $$e . vexpect ( ) . to_string ( ) , )", "Number :: Byte ( u8_to_string ( vexpect_u8 ( $$e ) ) )", why="expect: a panic unless Ok (R8)"),
        Rule("R5", "as_hex . to_string ( )", "i128_to_string ( as_hex )", why="integer to_string"),
        Rule("R5", "as_str . parse :: < i32 > ( ) . is_ok ( )", "parse_i32_ok ( & as_str )", why="str::parse::<i32>: succeeds exactly when the numeral's value fits"),
        Rule("R5", "i32 :: try_from ( as_hex ) . is_ok ( )", "i32_try_from_ok ( as_hex )", why="i32::try_from(i128): succeeds exactly when the value fits"),
        Rule("R1", "no_prefix . to_owned ( )", "to_owned_chars ( no_prefix )", why="&str::to_owned"),
        Rule("R1", "float_of_int . to_owned ( )", "to_owned_chars ( float_of_int )", why="&str::to_owned"),
        Rule("R9", "as_str . strip_suffix ( [ 'F' , 'f' ] )", "strip_suffix_f ( & as_str )", why="str::strip_suffix"),
    ]
    b = translate(f["body"], rules, log, "number_from_string")
    check_closed(b, 'number_from_string')
    txt = render(b, 1)
    fu = src.fn(NUM, "try_from", "impl TryFrom < & Number > for usize")
    bu = translate(fu["body"], [
        Rule("R5", "$v . parse :: < usize > ( )", "parse_usize ( $v )", why="str::parse::<usize>"),
        Rule("R8", "unreachable ! $a", "{ vpanic ( ) ; Err ( VErr ) }", why="unreachable!: a panic"),
    ], log, "TryFrom<&Number> for usize")
    bu = ["int_v" if t == "int" else t for t in bu]        # `int` is a Verus type name
    check_closed(bu, "TryFrom<&Number> for usize")
    fb = src.fn(LIST, "upper_bound", "impl ListType")
    bb = translate(fb["body"], [Rule("R1", "Self :: Open { .. }", "ListType :: Open { .. }"), Rule("R1", "Self :: Mixed", "ListType :: Mixed")], log, "ListType::upper_bound")
    gen = header(log, f"{NUM}: number_from_string, TryFrom<&Number> for usize; {LIST}: ListType::upper_bound") + SPEC + f"""
//@ OBL C16.nopanic.number_from_string
//@ OBL C02.literal.kind
pub fn number_from_string(string: &Vec<char>, rule: Rule) -> (r: Result<Number, VErr>)
    requires lexical_shape(rule, string@)
    ensures
        // C02: a literal of kind int denotes a value an int can hold (a larger one is a bigint) -- `make_int` fails on anything else,
        // and the static type of the literal is read off this kind
        r is Ok && r->Ok_0 is Integer ==> i32::MIN <= val(r->Ok_0->Integer_0@) <= i32::MAX,
{{
{txt}
}}

//@ OBL C16.nopanic.number_to_usize
pub fn number_try_into_usize(value: &Number) -> (r: Result<usize, VErr>)
{{
{render(bu, 1)}
}}

impl ListType {{
    //@ OBL C16.nopanic.upper_bound
    // `types.len() - 1`: Verus demands a proof that the subtraction cannot underflow
    pub fn upper_bound(&self) -> (r: ListBound)
    {{
{render(bb, 2)}
    }}
}}
}} // verus!
fn main() {{}}
"""
    obls = [
        Obl("C16.nopanic.number_from_string", ["C16"], fn="number_from_string", desc="number_from_string: no slice index, radix or expect panic for any text the number rules can match"),
        Obl("C02.literal.kind", ["C02", "C06"], fn="number_from_string", desc="number_from_string: a literal is given kind int only when its value fits an int (otherwise bigint), so its static type, its folded value and its make_int agree"),
        Obl("C16.nopanic.number_to_usize", ["C16"], fn="number_try_into_usize", desc="TryFrom<&Number> for usize: no unreachable! for any number literal (incl. floats)"),
        Obl("C16.nopanic.upper_bound", ["C16"], fn="ListType::upper_bound", desc="ListType::upper_bound: `len() - 1` cannot underflow"),
    ]
    return gen, obls, log


import re
UNITS = [VUnit("c16_helpers", ["C16"], "panic-freedom of pure compiler helpers (R8)", build)]
UNITS[0].assumes = ["lexical shape of number tokens (minimum lengths after removing underscores) is stated from grammar.pest, not proved against pest",
                    "pest itself, the PrattParser driver, recursion depth and the AST builders that are not translated are not covered: C16 is claimed only for the listed functions"]

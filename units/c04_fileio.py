"""C04 (file level): perform_file_io_out -- after a successful call the output file holds exactly the records of the compiled items,
in order, whatever the path held before (a stale longer file must not leave a tail the loader would read as further records)."""
from vlib.rules import *

FILE = "compiler/src/lib.rs"

SPEC = r"""
#[verifier::external_body] pub struct PathV { x: usize }
// ---- std::fs::File / OpenOptions as far as this function uses them (assumed std contracts; text level, R1) ----
pub uninterp spec fn disk(p: &PathV) -> Seq<char>;                 // what the path holds before the call (arbitrary, possibly longer than the new contents)
#[verifier::external_body] pub struct FileH { x: usize }
pub uninterp spec fn f_contents(f: &FileH) -> Seq<char>;
pub uninterp spec fn f_pos(f: &FileH) -> int;
pub struct OpenOpts { pub create: bool, pub read: bool, pub write: bool, pub truncate: bool, pub append: bool }
pub fn file_options() -> (r: OpenOpts) ensures !r.create && !r.read && !r.write && !r.truncate && !r.append { OpenOpts { create: false, read: false, write: false, truncate: false, append: false } }
impl OpenOpts {
    // the std builder takes `&mut self` and returns it; by-value here (representation only)
    pub fn create(self, b: bool) -> (r: OpenOpts) ensures r == (OpenOpts { create: b, ..self }) { OpenOpts { create: b, ..self } }
    pub fn read(self, b: bool) -> (r: OpenOpts) ensures r == (OpenOpts { read: b, ..self }) { OpenOpts { read: b, ..self } }
    pub fn write(self, b: bool) -> (r: OpenOpts) ensures r == (OpenOpts { write: b, ..self }) { OpenOpts { write: b, ..self } }
    pub fn truncate(self, b: bool) -> (r: OpenOpts) ensures r == (OpenOpts { truncate: b, ..self }) { OpenOpts { truncate: b, ..self } }
    pub fn append(self, b: bool) -> (r: OpenOpts) ensures r == (OpenOpts { append: b, ..self }) { OpenOpts { append: b, ..self } }
    // open: an existing file keeps its contents unless truncate is set; the cursor starts at 0 unless append is set
    #[verifier::external_body]
    pub fn open(self, p: &PathV) -> (r: Result<FileH, VErr>)
        ensures r is Ok ==> (self.write || self.append)
                    && f_contents(&r->Ok_0) == (if self.truncate { Seq::<char>::empty() } else { disk(p) })
                    && f_pos(&r->Ok_0) == (if self.append { f_contents(&r->Ok_0).len() as int } else { 0 })
    { unimplemented!() }
}
// write_all at the cursor: overwrites what is there, extends the file past its end
pub open spec fn overwrite(c: Seq<char>, pos: int, s: Seq<char>) -> Seq<char> {
    c.subrange(0, pos) + s + (if pos + s.len() < c.len() { c.subrange(pos + s.len(), c.len() as int) } else { Seq::<char>::empty() })
}
#[verifier::external_body]
pub fn write_all(f: &mut FileH, s: &VString) -> (r: Result<(), VErr>)
    requires 0 <= f_pos(old(f)) <= f_contents(old(f)).len()
    ensures r is Ok ==> f_contents(final(f)) == overwrite(f_contents(old(f)), f_pos(old(f)), text_of(s)) && f_pos(final(f)) == f_pos(old(f)) + text_of(s).len()
{ unimplemented!() }
#[verifier::external_body]
pub fn flush(f: &mut FileH) -> (r: Result<(), VErr>) ensures f_contents(final(f)) == f_contents(old(f)), f_pos(final(f)) == f_pos(old(f)) { unimplemented!() }

// CompiledItem::repr: the record text of one item (its own contract: C04.writer.conforms / C18.text.writer)
pub uninterp spec fn repr_spec(it: CompiledItem, text_mode: bool) -> Seq<char>;
#[verifier::external_body]
pub fn repr_of(it: &CompiledItem, text_mode: bool) -> (r: Result<VString, VErr>) ensures r is Ok ==> text_of(&r->Ok_0) == repr_spec(*it, text_mode) { unimplemented!() }
pub open spec fn concat_repr(items: Seq<CompiledItem>, text_mode: bool) -> Seq<char> decreases items.len() {
    if items.len() == 0 { Seq::<char>::empty() } else { concat_repr(items.drop_last(), text_mode) + repr_spec(items.last(), text_mode) }
}
pub proof fn lemma_concat_step(items: Seq<CompiledItem>, k: int, text_mode: bool)
    requires 0 <= k < items.len()
    ensures concat_repr(items.subrange(0, k + 1), text_mode) == concat_repr(items.subrange(0, k), text_mode) + repr_spec(items[k], text_mode)
{
    assert(items.subrange(0, k + 1).drop_last() =~= items.subrange(0, k));
}
// progress bar: no effect on the file
#[verifier::external_body] pub struct PB { x: usize }
#[verifier::external_body] pub fn progress_bar(p: &PathV) -> (r: Option<PB>) { unimplemented!() }
"""


def build(repo):
    src = Source(repo)
    log = []
    f = src.fn(FILE, "perform_file_io_out")
    pre = [
        Rule("R3", ". with_context ( $$c )", "", why="context text dropped"),
        Rule("R3", ". context ( $$c )", "", why="context text dropped"),
        Rule("R3", "log :: debug ! $a ;", "", why="logging dropped"),
        Rule("R9", "let writing_pb = logger ( ) . add ( $$c ) ;", "let writing_pb = progress_bar ( output_path ) ;", count=1, why="progress bar abstract (no effect on the file)"),
        Rule("R9", "writing_pb . maybe ( $$c ) ;", "", why="progress bar message (no effect on the file)"),
    ]
    b = translate(f["body"], pre, log, "perform_file_io_out")
    b = inline_closures(b, log)
    inv = ("invariant $K <= $V.len(), f_pos(&new_file) == f_contents(&new_file).len(), "
           "f_contents(&new_file) == concat_repr($V@.subrange(0, $K as int), !output_bin) decreases $V.len() - $K")
    step = G("proof { lemma_concat_step(function_buffer@, VERIF_K as int - 1, !output_bin); assert(overwrite(f_contents(&new_file), f_pos(&new_file), Seq::<char>::empty()) =~= f_contents(&new_file)); }")
    rules = [
        Rule("R9", "File :: options ( )", "file_options ( )", count=1, why="std::fs::OpenOptions builder (assumed std contract)"),
        Rule("R9", "BufWriter :: new ( $$e )", "$$e", why="std::io::BufWriter: the same bytes reach the file in the same order once it is flushed / dropped (buffering is not modelled)"),
        Rule("R1", "let iter = function_buffer . iter ( ) ;", "", why="slice iterator bound to a name"),
        Rule("R9", "writing_pb . wrap_iter ( iter )", "function_buffer", why="progress-bar iterator wrapper yields the same items in order"),
        Rule("R1", "for $x in iter {", "for $x in function_buffer {", why="slice iterator bound to a name"),
        Rule("R6", "function . repr ( ! output_bin )", "repr_of ( function , ! output_bin )", why="CompiledItem::repr: separate obligations (C04.writer.conforms, C18.text.writer)"),
        Rule("R1", "let bytes = this_repr . as_bytes ( ) ;", "let bytes = & this_repr ;", why="text level: UTF-8 encoding of the String not modelled"),
        Rule("R9", "new_file . write_all ( bytes ) ?", "write_all ( & mut new_file , bytes ) ?", why="Write::write_all (assumed std contract: overwrite at the cursor)"),
        Rule("R9", "new_file . flush ( ) ?", "flush ( & mut new_file ) ?", why="Write::flush"),
        Rule("R1", "if let CompiledItem :: Function { id , .. } = function { }", "", why="progress message only"),
        Rule("R3", "Result < ( ) >", "Result < ( ) , VErr >", why="anyhow::Result"),
        Rule("R1", "Some ( ref writing_pb )", "Some ( _ )", why="ref binding only used by the progress bar"),
    ]
    b = translate(b, rules, log, "perform_file_io_out")
    # the two loops (with / without progress bar)
    n = [0]
    def loop(bb):
        n[0] += 1
        r = for_in_vec(f"io{n[0]}", inv)
        return r.repl(bb)
    b = Rule("R2", "for $x in $v { $$body }", loop, why="for over &Vec -> indexed while (iteration order of slice::Iter)").apply(b, log)
    # ghost: step lemma after each write; final assertion in front of the last Ok(())
    k = [0]
    def after_write(bb):
        k[0] += 1
        return ["write_all ( & mut new_file , bytes ) ? ;", G(step[1:].replace("VERIF_K", f"verif_k_io{k[0]}"))]
    b = Rule("R11", "write_all ( & mut new_file , bytes ) ? ;", after_write, why="").apply(b, log)
    if b[-4:] != ["Ok", "(", "(", ")"] + [")"][:0] and b[-5:] != ["Ok", "(", "(", ")", ")"]:
        raise Undecided("perform_file_io_out: final `Ok(())` not found")
    final = G("proof { assert(function_buffer@.subrange(0, function_buffer@.len() as int) =~= function_buffer@); }\n"
              "    //@ the file now holds exactly the records, nothing of what the path held before\n"
              "    assert(f_contents(&new_file) == concat_repr(function_buffer@, !output_bin));")
    b = b[:-5] + [final] + b[-5:]
    check_closed(b, "perform_file_io_out")
    gen = header(log, f"{FILE}: perform_file_io_out") + prelude("compile.rs") + SPEC + f"""
//@ OBL C04.file.contents
#[verifier::loop_isolation(false)]
pub fn perform_file_io_out(output_path: &PathV, function_buffer: &Vec<CompiledItem>, output_bin: bool) -> (r: Result<(), VErr>)
{{
{render(b, 1)}
}}
}} // verus!
fn main() {{}}
"""
    return gen, [Obl("C04.file.contents", ["C04", "C18"], fn="perform_file_io_out",
                     desc="perform_file_io_out: on success the output file holds exactly repr(item_0) ++ repr(item_1) ++ .. (binary or text form), independent of the previous contents of the path")], log


UNITS = [VUnit("c04_fileio", ["C04", "C18"], "the bytecode file written by compile: exactly the records, no stale tail", build)]
UNITS[0].assumes = ["std::fs::OpenOptions / File::write_all / flush as stated (existing contents kept unless truncate; write at the cursor); text level, no partial writes or I/O races",
                    "CompiledItem::repr is an abstract callee here (its record format is C04.writer.conforms / C18.text.writer)",
                    "the progress bar (logger().add / wrap_iter / maybe) is abstract and assumed not to touch the file"]

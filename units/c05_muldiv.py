"""C05 (and the C17 re-reading): `*`, `/`, `%` of the interpreter, all kind pairs, all operand values -- V-t.

SAT-based bit-blasting of 32/128-bit multipliers and dividers does not finish (DESIGN.md 5.C05), so these three operators are
proved with Verus on the real text: the two rules of `apply_math_bin_op_if_applicable!` are expanded mechanically for the
operator symbol, `K!(A sym B)` becomes a call of the machine operation of kind K, whose contract is Rust's (dev profile):
it returns only if the exact result is representable (otherwise it panics), and then returns the exact result.
  mode "partial": helpers carry that contract as `ensures`            -> C05 (value / kind / zero-divisor failure)
  mode "strict" : the representability part is a `requires` instead   -> C17 (no Rust panic)
"""
from vlib.rules import *
from vlib.extract import extract_macro_rules, split_arms, extract_item
from vlib.lexer import match_close

OPS = "bytecode/src/variables/ops.rs"
KTY = {"Int": "i32", "BigInt": "i128", "Byte": "u8", "Float": "f"}
SYM = {"mul": "*", "div": "/", "rem": "%"}

PRELUDE = r"""
use vstd::prelude::*;
verus! {
pub struct VErr;
#[verifier::external_body] pub struct FloatV { x: f64 }
#[verifier::external_body] pub struct OtherV { x: usize }
pub enum Primitive { Bool(bool), Int(i32), BigInt(i128), Float(FloatV), Byte(u8), Other(OtherV) }

// ---- spec vocabulary (property statement) ----
pub open spec fn kind(p: Primitive) -> int { match p { Primitive::Int(_) => 0, Primitive::BigInt(_) => 1, Primitive::Float(_) => 2, Primitive::Byte(_) => 3, _ => 9 } }
pub open spec fn is_num(p: Primitive) -> bool { kind(p) != 9 }
pub open spec fn is_intk(p: Primitive) -> bool { kind(p) == 0 || kind(p) == 1 || kind(p) == 3 }
// promotion table: same kinds keep their kind, byte yields to the other operand, int yields to bigint, anything with float is float
pub open spec fn promote(l: int, r: int) -> int { if l == 2 || r == 2 { 2 } else if l == r { l } else if l == 3 { r } else if r == 3 { l } else { 1 } }
pub open spec fn ival(p: Primitive) -> int { match p { Primitive::Int(x) => x as int, Primitive::BigInt(x) => x as int, Primitive::Byte(x) => x as int, _ => 0 } }
pub open spec fn fits(k: int, v: int) -> bool { if k == 0 { i32::MIN <= v <= i32::MAX } else if k == 1 { i128::MIN <= v <= i128::MAX } else { 0 <= v <= 255 } }
// truncating division / remainder with the sign of the dividend, over mathematical integers
pub open spec fn tdiv(a: int, b: int) -> int {
    if b == 0 { 0 } else if a >= 0 && b > 0 { a / b } else if a < 0 && b > 0 { -((-a) / b) } else if a >= 0 && b < 0 { -(a / (-b)) } else { (-a) / (-b) }
}
pub open spec fn trem(a: int, b: int) -> int { a - b * tdiv(a, b) }
pub open spec fn exact(op: int, a: int, b: int) -> int { if op == 0 { a * b } else if op == 1 { tdiv(a, b) } else { trem(a, b) } }
// IEEE-754 double arithmetic: uninterpreted, shared by code and spec (the operation itself is the machine's)
pub uninterp spec fn fop(op: int, a: FloatV, b: FloatV) -> FloatV;
pub uninterp spec fn int_to_f(x: int) -> FloatV;          // `x as f64`
pub uninterp spec fn f_zero(f: FloatV) -> bool;            // f == 0.0 (true for +0.0 and -0.0)
pub open spec fn to_f(p: Primitive) -> FloatV { match p { Primitive::Float(f) => f, other => int_to_f(ival(other)) } }
pub open spec fn is_zero(p: Primitive) -> bool { match p { Primitive::Float(f) => f_zero(f), other => is_intk(other) && ival(other) == 0 } }

pub open spec fn no_overflow(k: int, op: int, x: int, y: int) -> bool { fits(k, exact(op, x, y)) && !(op != 0 && k != 3 && y == -1 && !fits(k, -x)) }
pub open spec fn nonzero_divisor(op: int, y: int) -> bool { op == 0 || y != 0 }
// the machine `%` refuses `MIN % -1` (the DIVISION overflows); the exact remainder, 0, is representable: a failure there is not one the
// property allows, so reaching the machine operation with such operands is a violated precondition in BOTH modes (D111)
pub open spec fn rem_refused(k: int, op: int, x: int, y: int) -> bool { op == 2 && k != 3 && y == -1 && !fits(k, -x) }

// ---- machine operations (Rust, dev profile: overflow-checks on).  MODE_DOC ----
MACHINE_OPS
#[verifier::external_body] pub fn f_op(op: u8, a: &FloatV, b: &FloatV) -> (r: FloatV) ensures r == fop(op as int, *a, *b) { unimplemented!() }
#[verifier::external_body] pub fn i32_to_f(x: i32) -> (r: FloatV) ensures r == int_to_f(x as int) { unimplemented!() }
#[verifier::external_body] pub fn i128_to_f(x: i128) -> (r: FloatV) ensures r == int_to_f(x as int) { unimplemented!() }
#[verifier::external_body] pub fn u8_to_f(x: u8) -> (r: FloatV) ensures r == int_to_f(x as int) { unimplemented!() }
#[verifier::external_body] pub fn f_is_zero(f: &FloatV) -> (r: bool) ensures r == f_zero(*f) { unimplemented!() }
pub uninterp spec fn f_other(f: FloatV) -> bool;
#[verifier::external_body] pub fn f_other_test(f: &FloatV) -> (r: bool) ensures r == f_other(*f) { unimplemented!() }
"""


def machine_ops(strict):
    out = []
    for opi, op in enumerate(["mul", "div", "rem"]):
        for k, ty in ((0, "i32"), (1, "i128"), (3, "u8")):
            pre = f"nonzero_divisor({opi}, y as int)" if op != "mul" else None
            ovf = f"no_overflow({k}, {opi}, x as int, y as int)"
            val = f"r as int == exact({opi}, x as int, y as int)"
            rr = f"!rem_refused({k}, {opi}, x as int, y as int)"
            if strict:
                req = ",\n        ".join(x for x in (pre, ovf) if x)
                out.append(f"#[verifier::external_body] pub fn {op}_{ty}(x: {ty}, y: {ty}) -> (r: {ty})\n    requires\n        {req},\n    ensures {val}\n{{ unimplemented!() }}")
            else:
                ens = ", ".join(x for x in (pre, ovf, val) if x)
                reqs = f"\n    requires {rr}" if op == "rem" else ""
                out.append(f"#[verifier::external_body] pub fn {op}_{ty}(x: {ty}, y: {ty}) -> (r: {ty}){reqs}\n    ensures {ens}\n{{ unimplemented!() }}")
    return "\n".join(out)


def macro_rules_arms(mtoks):
    """tokens of `macro_rules! name { (matcher) => {{ body }}; ... }` -> list of (matcher_tokens, body_tokens)"""
    o = mtoks.index("{")
    c = match_close(mtoks, o)
    inner = mtoks[o + 1:c]
    arms, i = [], 0
    while i < len(inner):
        if inner[i] != "(":
            i += 1; continue
        mc = match_close(inner, i)
        matcher = inner[i + 1:mc]
        j = mc + 1
        assert inner[j] == "=>", inner[j:j + 3]
        bo = j + 1
        bc = match_close(inner, bo)
        body = inner[bo + 1:bc]
        if body and body[0] == "{" and match_close(body, 0) == len(body) - 1:
            body = body[1:-1]
        arms.append((matcher, body))
        i = bc + 1
    return arms


def expand_arm_body(body, op, log, what):
    """expand one rule body of apply_math_bin_op_if_applicable! for operator `op`"""
    # drop `use ...;`
    body = Rule("Rm", "use $$p ;", "", why="glob imports of the macro body dropped (variants are written qualified)").apply(body, log)
    body = Rule("Rm", "$ lhs", "t1", why="macro parameter").apply(body, log)
    body = Rule("Rm", "$ rhs", "t2", why="macro parameter").apply(body, log)
    # nested invocation of the @no_f64 rule
    body = Rule("Rm", "apply_math_bin_op_if_applicable ! ( @ no_f64 t1 $ symbol t2 )", f"math_no_f64_{op} ( t1 , t2 )", why="nested macro rule -> its expansion as a function").apply(body, log)
    # find the match and process arm by arm
    p = Pat("match ( t1 , t2 ) {")
    out, i = [], 0
    while i < len(body):
        r = p.match_at(body, i)
        if not r:
            out.append(body[i]); i += 1
            continue
        o = r[0] - 1
        c = match_close(body, o)
        out.extend(body[i:o + 1])
        for pat, ex in split_arms(body[o + 1:c]):
            if pat == ["_"]:
                out += ["_", "=>"] + ex + [","]
                continue
            m = Pat("( $lk ( x ) , $rk ( y ) )").match_at(pat, 0)
            if not m or m[0] != len(pat):
                raise Undecided(f"{what}: unexpected arm pattern `{text(pat)}`")
            lk, rk = m[1]["lk"][0], m[1]["rk"][0]
            if lk not in KTY or rk not in KTY:
                raise Undecided(f"{what}: unexpected kinds in `{text(pat)}`")
            m2 = Pat("Some ( $k ! ( $$a $ symbol $$b ) )").match_at(ex, 0)
            if not m2 or m2[0] != len(ex):
                raise Undecided(f"{what}: unexpected arm body `{text(ex)}`")
            K = m2[1]["k"][0]
            res_kind = {"int": "Int", "bigint": "BigInt", "byte": "Byte", "float": "Float"}.get(K)
            if res_kind is None:
                raise Undecided(f"{what}: unknown constructor `{K}!`")

            def operand(toks, isfloat):
                var_ty = {"x": KTY[lk], "y": KTY[rk]}
                t = list(toks)
                if isfloat:
                    # `*v as f64` | `v` | `*v`
                    mm = Pat("* $v as f64").match_at(t, 0)
                    if mm and mm[0] == len(t):
                        v = mm[1]["v"][0]
                        if var_ty.get(v) in ("i32", "i128", "u8"):
                            return lex(f"& {var_ty[v]}_to_f ( * {v} )")
                    if len(t) == 1 and var_ty.get(t[0]) == "f":
                        return t
                    if len(t) == 2 and t[0] == "*" and var_ty.get(t[1]) == "f":
                        return [t[1]]
                    raise Undecided(f"{what}: float operand `{text(t)}` not translatable")
                if len(t) == 1 and t[0] in var_ty:
                    return ["*", t[0]]
                return t
            isf = res_kind == "Float"
            a, b = operand(m2[1]["a"], isf), operand(m2[1]["b"], isf)
            if isf:
                call = lex(f"f_op ( {['mul','div','rem'].index(op)}u8 ,") + a + [","] + b + [")"]
            else:
                call = lex(f"{op}_{KTY[res_kind]} (") + a + [","] + b + [")"]
            new_ex = lex(f"Some ( Primitive :: {res_kind} (") + call + lex(") )")
            log.append(("R4m", text(pat + ['=>'] + ex)[:150], text(new_ex)[:150], f"`K!(A {SYM[op]} B)` -> machine operation of kind K"))
            out += lex(f"( Primitive :: {lk} ( x ) , Primitive :: {rk} ( y ) )") + ["=>"] + new_ex + [","]
        out.append("}")
        i = c + 1
    return out


def impl_rules(op):
    return [
        Rule("R3", "bail ! $a", "return Err ( VErr )", why="bail! -> return Err"),
        Rule("R3", "log :: error ! $a ;", "", why="logging dropped"),
        Rule("R1", "int ! ( $$e )", "Primitive :: Int ( $$e )", why="int! shorthand"), Rule("R1", "bigint ! ( $$e )", "Primitive :: BigInt ( $$e )", why="bigint! shorthand"),
        Rule("R1", "byte ! ( $$e )", "Primitive :: Byte ( $$e )", why="byte! shorthand"), Rule("R1", "bool ! ( $$e )", "Primitive :: Bool ( $$e )", why="bool! shorthand"),
        Rule("R1", "( self , rhs )", "( this , rhs )", why="receiver renamed in the model"),
        Rule("R1", "let ( t1 , t2 ) = ( & self , & rhs ) ;", "let ( t1 , t2 ) = ( this , rhs ) ;", count=1, why="&&Primitive -> &Primitive (auto-deref)"),
        Rule("R1", "Float ( f ) if f == & 0.0", "Float ( f ) if f_is_zero ( f )", why="float comparison with 0.0 as uninterpreted predicate"),
        Rule("R1", "Float ( f ) if $$g =>", lambda bb: None if text(bb["g"]).startswith("f_is_zero") else "Float ( f ) if f_other_test ( f ) =>", why="any other test on the float divisor: an uninterpreted predicate (NOT known to hold exactly for 0.0)"),
        Rule("R1", "* $x == 0.0", "f_is_zero ( $x )", why="float comparison with 0.0 as uninterpreted predicate"),
        Rule("Rm", f"apply_math_bin_op_if_applicable ! ( t1 {SYM[op]} t2 )", f"math_{op} ( t1 , t2 )", count=1, why="macro invocation -> its expansion as a function"),
    ]


def build_mode(repo, strict):
    src = Source(repo)
    log = []
    try:
        mac = extract_macro_rules(src.toks(OPS), "apply_math_bin_op_if_applicable")
        arms = macro_rules_arms(mac)
    except Undecided:
        raise
    except Exception as e:
        raise Undecided(f"{OPS}: cannot parse apply_math_bin_op_if_applicable!: {e}")
    full = nof = None
    for matcher, body in arms:
        mt = text(matcher)
        if mt.startswith("@"):
            nof = body
        else:
            full = body
    if full is None or nof is None:
        raise Undecided(f"{OPS}: expected the two rules of apply_math_bin_op_if_applicable!")
    fns = []
    obls = []
    tag = "C17.nopanic" if strict else "C05"
    for opi, op in enumerate(["mul", "div", "rem"]):
        b_nof = expand_arm_body(list(nof), op, log, f"@no_f64 rule [{op}]")
        b_full = expand_arm_body(list(full), op, log, f"main rule [{op}]")
        check_closed(b_nof, "macro @no_f64"); check_closed(b_full, "macro main")
        fns.append(f"""
//@ OBL {tag}.{op}.integer-cells
// expansion of apply_math_bin_op_if_applicable!(@no_f64 t1 {SYM[op]} t2)
pub fn math_no_f64_{op}(t1: &Primitive, t2: &Primitive) -> (r: Option<Primitive>)
    requires (is_intk(*t1) && is_intk(*t2)) ==> !rem_refused(promote(kind(*t1), kind(*t2)), {opi}, ival(*t1), ival(*t2)){', (is_intk(*t1) && is_intk(*t2)) ==> (nonzero_divisor(%d, ival(*t2)))' % opi if strict else ''}
    ensures
        (is_intk(*t1) && is_intk(*t2)) ==> (r is Some && kind(r->Some_0) == promote(kind(*t1), kind(*t2))
            && ival(r->Some_0) == exact({opi}, ival(*t1), ival(*t2)) && nonzero_divisor({opi}, ival(*t2))),
        !(is_intk(*t1) && is_intk(*t2)) ==> r is None,
{{
{render(b_nof, 1)}
}}

//@ OBL {tag}.{op}.all-cells
// expansion of apply_math_bin_op_if_applicable!(t1 {SYM[op]} t2)
pub fn math_{op}(t1: &Primitive, t2: &Primitive) -> (r: Option<Primitive>)
    requires (is_intk(*t1) && is_intk(*t2)) ==> !rem_refused(promote(kind(*t1), kind(*t2)), {opi}, ival(*t1), ival(*t2)){', (is_intk(*t1) && is_intk(*t2)) ==> (nonzero_divisor(%d, ival(*t2)))' % opi if strict else ''}
    ensures
        (is_num(*t1) && is_num(*t2)) ==> r is Some && kind(r->Some_0) == promote(kind(*t1), kind(*t2)),
        (is_intk(*t1) && is_intk(*t2)) ==> r is Some && ival(r->Some_0) == exact({opi}, ival(*t1), ival(*t2)) && nonzero_divisor({opi}, ival(*t2)),
        (is_num(*t1) && is_num(*t2) && !(is_intk(*t1) && is_intk(*t2))) ==> r is Some && r->Some_0 == Primitive::Float(fop({opi}, to_f(*t1), to_f(*t2))),
        !(is_num(*t1) && is_num(*t2)) ==> r is None,
{{
{render(b_full, 1)}
}}
""")
        obls.append(Obl(f"{tag}.{op}.integer-cells", ["C17"] if strict else ["C05", "C02", "C06", "C01"], fn=f"math_no_f64_{op}",
                        desc=f"the 9 integer cells of `{SYM[op]}`: promoted kind and exact value ({'no Rust panic' if strict else 'a value is produced only when representable and the divisor is non-zero'}), all operand values"))
        obls.append(Obl(f"{tag}.{op}.all-cells", ["C17"] if strict else ["C05", "C02", "C06", "C01"], fn=f"math_{op}",
                        desc=f"all 16 kind pairs of `{SYM[op]}`: promoted kind; float cells = IEEE operation on the converted operands"))
        if op in ("div", "rem"):
            rel = f"bytecode/src/variables/ops/{op}.rs"
            it = src.item(rel, f"impl std :: ops :: {'Div' if op == 'div' else 'Rem'} for & Primitive")
            f = extract_fn(it["body"], op)
            b = translate(f["body"], impl_rules(op), log, f"{op}.rs impl")
            b = Rule("R1", "self", "this", why="receiver renamed").apply(b, log)
            # `use Primitive::*;` at the top of the file: variants written qualified
            q = []
            for j, t in enumerate(b):
                if t in ("Int", "BigInt", "Float", "Byte", "Bool", "Str") and j + 1 < len(b) and b[j + 1] == "(" and (j == 0 or b[j - 1] != "::"):
                    q += ["Primitive", "::", t]
                else:
                    q.append(t)
            b = q
            check_closed(b, f"{op}.rs impl")
            fns.append(f"""
//@ OBL {tag}.{op}.operator
// {rel}: impl std::ops::{'Div' if op == 'div' else 'Rem'} for &Primitive :: {op}
pub fn {op}_op(this: &Primitive, rhs: &Primitive) -> (r: Result<Primitive, VErr>)
    ensures
        // zero divisor of any kind: execution stops with a failure
        (is_num(*this) && is_num(*rhs) && is_zero(*rhs)) ==> r is Err,
        // otherwise: promoted kind, exact value (integers) / IEEE operation (float)
        (is_num(*this) && is_num(*rhs) && !is_zero(*rhs)) ==> r is Ok && kind(r->Ok_0) == promote(kind(*this), kind(*rhs)),
        (is_intk(*this) && is_intk(*rhs) && !is_zero(*rhs)) ==> r is Ok && ival(r->Ok_0) == exact({opi}, ival(*this), ival(*rhs)),
        (is_num(*this) && is_num(*rhs) && !is_zero(*rhs) && !(is_intk(*this) && is_intk(*rhs))) ==> r is Ok && r->Ok_0 == Primitive::Float(fop({opi}, to_f(*this), to_f(*rhs))),
        !(is_num(*this) && is_num(*rhs)) ==> r is Err,
{{
{render(b, 1)}
}}
""")
            obls.append(Obl(f"{tag}.{op}.operator", ["C17"] if strict else ["C05", "C02", "C06", "C01"], fn=f"{op}_op",
                            desc=f"`{SYM[op]}` operator impl: zero divisor of any kind fails; otherwise the macro's result; non-numeric operands fail"))
        else:
            rel = "bytecode/src/variables/ops/mul.rs"
    mode_doc = ("strict mode: representability of the result is a PRECONDITION of the machine operation (a Rust panic otherwise)"
                if strict else "partial mode: the machine operation returns only if the result is representable (it panics otherwise), and then returns the exact result")
    gen = header(log, f"{OPS}: apply_math_bin_op_if_applicable! expanded for * / %; div.rs, rem.rs operator impls [{'strict' if strict else 'partial'} mode]") + \
        PRELUDE.replace("MACHINE_OPS", machine_ops(strict)).replace("MODE_DOC", mode_doc) + "\n".join(fns) + "\n} // verus!\nfn main() {}\n"
    return gen, obls, log


U1 = VUnit("c05_muldiv", ["C05", "C02", "C06", "C01"], "* / % : all kind pairs, all operand values (V-t, partial mode)", lambda repo: build_mode(repo, False))
U1.assumes = ["machine multiplication/division/remainder of i32/i128/u8 have Rust's dev-profile semantics: exact result or panic (overflow-checks on); truncating division and remainder with the sign of the dividend are Rust's definitions",
              "IEEE-754 double operations and int->double conversions are uninterpreted functions shared by code and spec",
              "the non-numeric arms of mul.rs (string/vector repetition) are outside this unit"]
U2 = VUnit("c17_muldiv", ["C17"], "* / % never panic (V-t, strict mode)", lambda repo: build_mode(repo, True))
U2.assumes = U1.assumes
UNITS = [U1, U2]

"""C16: the grammar (compiler/src/grammar.pest) -- cost discipline of ordered choice.  pest tries the alternatives of `A | B` in order and re-parses
the input from the same position for each.  If two alternatives can start with the same terminal and both begin (behind it) with a rule that can
contain the choice again (nesting), then an input on which the earlier one fails late makes every level of nesting parse that rule twice: 2^depth
(D100: `value = math_expr | function | ident | list` -- 60 nested `[` with a syntax error inside did not finish; D101: `[A]` was parsed as
`list_type_open_only` first and as `list_type` again -- a 24-level fixed-shape type annotation did not finish).
The rule graph is extracted from the grammar on every run; for each such pair the verifier checks certificates: two sets of rules closed under
"can be parsed first" that contain what each alternative starts with, and a set closed under "mentions" of the rules that cannot contain the
choice -- whatever is in both of the first two must be in the third.  Over-approximation: optional and repeated prefixes
are skipped when computing what can come first, predicates (`!x`, `&x`) are ignored."""
from vlib.rules import *
import re, os

FILE = "compiler/src/grammar.pest"
TOK = re.compile(r'"(?:[^"\\]|\\.)*"|\'(?:[^\'\\]|\\.)*\'|[A-Za-z_][A-Za-z_0-9]*|[|~()?*+!&]|\.\.|\^')


def parse_rules(g):
    g = re.sub(r"//[^\n]*", "", g)
    rules = {}
    for m in re.finditer(r"^([A-Za-z_]+)\s*=\s*[_@$!]?\{", g, re.M):
        i = m.end(); d = 1; j = i
        while d:
            c = g[j]
            if c == '"':
                j += 1
                while g[j] != '"':
                    if g[j] == "\\": j += 1
                    j += 1
            elif c == "'":
                j += 1
                while g[j] != "'":
                    if g[j] == "\\": j += 1
                    j += 1
            elif c == "{": d += 1
            elif c == "}": d -= 1
            j += 1
        rules[m.group(1)] = TOK.findall(g[i:j - 1])
    return rules


def split_alts(ts):
    alts, cur, d = [], [], 0
    for t in ts:
        if t == "(": d += 1
        elif t == ")": d -= 1
        if t == "|" and d == 0:
            alts.append(cur); cur = []
        else:
            cur.append(t)
    alts.append(cur)
    return alts


def leading(ts):
    out, i = set(), 0
    while i < len(ts):
        t = ts[i]
        if t in ("!", "&"):
            i += 1
            if i < len(ts) and ts[i] == "(":
                d = 1; i += 1
                while d:
                    d += (ts[i] == "(") - (ts[i] == ")"); i += 1
            else:
                i += 1
            continue
        if t == "(":
            d = 1; j = i + 1
            while d:
                d += (ts[j] == "(") - (ts[j] == ")"); j += 1
            for a in split_alts(ts[i + 1:j - 1]):
                out |= leading(a)
            if j < len(ts) and ts[j] in ("?", "*"):
                i = j + 1; continue
            return out
        if t[0] in "\"'":
            return out
        if re.match(r"[A-Za-z_]", t):
            out.add(t)
            if i + 1 < len(ts) and ts[i + 1] in ("?", "*"):
                i += 2; continue
            return out
        i += 1
    return out


def leading2(ts):
    """first NONTERMINALS of a sequence; leading terminals, optional / repeated groups and predicates are skipped (over-approximation)"""
    out, i = set(), 0
    while i < len(ts):
        t = ts[i]
        if t in ("!", "&"):
            i += 1
            if i < len(ts) and ts[i] == "(":
                d = 1; i += 1
                while d:
                    d += (ts[i] == "(") - (ts[i] == ")"); i += 1
            else:
                i += 1
            continue
        if t == "(":
            d = 1; j = i + 1
            while d:
                d += (ts[j] == "(") - (ts[j] == ")"); j += 1
            for a in split_alts(ts[i + 1:j - 1]):
                out |= leading2(a)
            if j < len(ts) and ts[j] in ("?", "*"):
                i = j + 1; continue
            return out
        if t[0] in "\"'":
            i += 1; continue
        if re.match(r"[A-Za-z_]", t):
            out.add(t)
            if i + 1 < len(ts) and ts[i + 1] in ("?", "*"):
                i += 2; continue
            return out
        i += 1
    return out


def firstterms(ts, rules, seen=frozenset()):
    """terminals (and built-in character classes) an alternative can start with, expanding rules"""
    out, i = set(), 0
    while i < len(ts):
        t = ts[i]
        if t in ("!", "&"):
            i += 1
            if i < len(ts) and ts[i] == "(":
                d = 1; i += 1
                while d:
                    d += (ts[i] == "(") - (ts[i] == ")"); i += 1
            else:
                i += 1
            continue
        if t == "(":
            d = 1; j = i + 1
            while d:
                d += (ts[j] == "(") - (ts[j] == ")"); j += 1
            for a in split_alts(ts[i + 1:j - 1]):
                out |= firstterms(a, rules, seen)
            if j < len(ts) and ts[j] in ("?", "*"):
                i = j + 1; continue
            return out
        if t[0] in "\"'":
            out.add(t); return out
        if re.match(r"[A-Za-z_]", t):
            if t in rules and t not in seen:
                for a in split_alts(rules[t]):
                    out |= firstterms(a, rules, seen | {t})
            elif t not in rules:
                out.add("<" + t + ">")
            if i + 1 < len(ts) and ts[i + 1] in ("?", "*"):
                i += 2; continue
            return out
        i += 1
    return out


def mentions(ts):
    return {t for t in ts if re.match(r"[A-Za-z_]", t)}


def all_choices(ts):
    """the ordered choices of a rule body: its top level and every parenthesised group"""
    out = [split_alts(ts)]
    i = 0
    while i < len(ts):
        if ts[i] == "(":
            d = 1; j = i + 1
            while d:
                d += (ts[j] == "(") - (ts[j] == ")"); j += 1
            out += all_choices(ts[i + 1:j - 1])
            i = j
        else:
            i += 1
    return [c for c in out if len(c) > 1]


def prefix_pairs(rules):
    """the stronger criterion (D118): an EARLIER alternative that parses a nesting construct completely before a mandatory element at which it
    can still fail (`reassignment = reassignment_expr ~ "=" ~ value`: the whole `a.b(args)` path before the `=`), while a LATER alternative that can
    start alike can parse the same construct again -- every statement of that shape is parsed twice per level of nesting."""
    ment = {n: mentions(b) & set(rules) for n, b in rules.items()}

    def closure(start, rel):
        seen, st = set(), list(start)
        while st:
            x = st.pop()
            if x in seen: continue
            seen.add(x); st += list(rel[x])
        return seen
    def elems_of(ts):
        elems=[]; i=0
        while i<len(ts):
            t=ts[i]
            if t=="(":
                d=1;j=i+1
                while d: d+=(ts[j]=="(")-(ts[j]==")"); j+=1
                opt = j<len(ts) and ts[j] in ("?","*")
                elems.append((ts[i+1:j-1],opt,True)); i=j+(1 if (j<len(ts) and ts[j] in ("?","*","+")) else 0); continue
            if t=="~": i+=1; continue
            if t in ("!","&"):
                i+=1
                if i<len(ts) and ts[i]=="(":
                    d=1;i+=1
                    while d: d+=(ts[i]=="(")-(ts[i]==")"); i+=1
                else: i+=1
                continue
            opt = i+1<len(ts) and ts[i+1] in ("?","*")
            elems.append(([t],opt,False)); i+=1+(1 if (i+1<len(ts) and ts[i+1] in ("?","*","+")) else 0)
        return elems
    def reparse(ts, seen=frozenset()):
        """nonterminals whose text an alternative may have parsed completely before it fails"""
        elems=elems_of(ts)
        mand=[k for k,(e,o,g) in enumerate(elems) if not o]
        out=set()
        if not mand:
            return out
        L=mand[-1]
        for e,o,g in elems[:L]:
            out|={t for t in e if re.match(r"[A-Za-z_]",t)} & set(rules)
        # a lone nonterminal (the alternative IS that rule): its own sequences decide
        if len([1 for x in elems if not x[1]]) == 1 and len(elems) == 1 and not elems[0][2] and elems[0][0][0] in rules and elems[0][0][0] not in seen:
            for a in split_alts(rules[elems[0][0][0]]): out|=reparse(a,seen|{elems[0][0][0]})
        return out
    bad = []
    for n, b in rules.items():
        for alts in all_choices(b):
            for k, a in enumerate(alts):
                for e in alts[:k]:
                    if firstterms(a, rules) & firstterms(e, rules):
                        se = closure(reparse(e), ment); sa = closure(mentions(a) & set(rules), ment)
                        w = {x for x in se & sa if n in closure([x], ment)}
                        if w:
                            bad.append(f"rule `{n}`: `{' '.join(e)[:50]}` is tried before `{' '.join(a)[:50]}`; both can start alike, and before the earlier one can fail it has parsed a construct that can contain `{n}` again (e.g. {', '.join(sorted(w)[:4])})")
    return bad


def build(repo):
    log = []
    rules = parse_rules(open(os.path.join(repo, FILE), encoding="utf-8").read())
    if len(rules) < 50:
        raise Undecided(f"{FILE}: only {len(rules)} rules recognised")
    names = sorted(rules)
    idx = {n: k for k, n in enumerate(names)}
    lead = {n: {x for a in split_alts(b) for x in leading2(a)} & set(rules) for n, b in rules.items()}
    ment = {n: mentions(b) & set(rules) for n, b in rules.items()}

    def closure(start, rel):
        seen, st = set(), list(start)
        while st:
            x = st.pop()
            if x in seen: continue
            seen.add(x); st += list(rel[x])
        return seen
    pairs = []
    for n, b in rules.items():
        for alts in all_choices(b):
            for k, a in enumerate(alts):
                for e in alts[:k]:
                    if firstterms(a, rules) & firstterms(e, rules):                   # the two alternatives can start alike: the later one is a re-parse
                        pairs.append((n, " ".join(e), leading2(e) & set(rules), " ".join(a), leading2(a) & set(rules)))

    def disj(var, xs):
        return " || ".join(f"{var} == {idx[x]}" for x in sorted(xs)) or "false"
    first_rel = "\n        || ".join(f"(a == {idx[n]} && ({disj('b', lead[n])}))" for n in names if lead[n]) or "false"
    ment_rel = "\n        || ".join(f"(a == {idx[n]} && ({disj('b', ment[n])}))" for n in names if ment[n]) or "false"
    fns = []
    need_cannot = set()
    for k, (n, etxt, es, atxt, as_) in enumerate(pairs):
        need_cannot.add(n)
        fns.append(f"""
// rule `{n}`: `{atxt[:50]}` after `{etxt[:50]}` (both can start with the same terminal)
pub open spec fn cert_e_{k}(x: int) -> bool {{ {disj('x', closure(es, lead))} }}
pub open spec fn cert_a_{k}(x: int) -> bool {{ {disj('x', closure(as_, lead))} }}
pub proof fn pair_{k}()
    ensures
        {' && '.join([f'cert_e_{k}({idx[s]})' for s in sorted(es)] + [f'cert_a_{k}({idx[s]})' for s in sorted(as_)]) or 'true'},     // what each alternative parses first
        forall|a: int, b: int| cert_e_{k}(a) && first(a, b) ==> cert_e_{k}(b), forall|a: int, b: int| cert_a_{k}(a) && first(a, b) ==> cert_a_{k}(b),
        // whatever both can parse first cannot contain rule `{n}` again: no nesting is parsed twice
        forall|x: int| cert_e_{k}(x) && cert_a_{k}(x) ==> cannot_contain_{idx[n]}(x),
{{ }}
""")
    cannot = []
    for n in sorted(need_cannot):
        reach_n = {x for x in rules if n in closure([x], ment)}
        comp = set(rules) - reach_n
        cannot.append(f"""
// the rules that cannot contain `{n}`: closed under "mentions", and `{n}` is not among them
pub open spec fn cannot_contain_{idx[n]}(x: int) -> bool {{ {disj('x', comp)} }}
pub proof fn cannot_{idx[n]}() ensures forall|a: int, b: int| cannot_contain_{idx[n]}(a) && mentions(a, b) ==> cannot_contain_{idx[n]}(b), !cannot_contain_{idx[n]}({idx[n]}) {{ }}
""")
    log.append(("R0", f"{FILE}: {len(rules)} rules", f"`first(a, b)` / `mentions(a, b)` over rule numbers; {len(pairs)} pairs of alternatives that can start with the same terminal", "grammar -> rule graph (leading terminals, optional / repeated prefixes skipped; predicates ignored)"))
    gen = header(log, f"{FILE}: ordered choices whose alternatives start alike") + f"""
use vstd::prelude::*;
verus! {{
// rule numbers: {', '.join(f'{k}={n}' for n, k in sorted(idx.items(), key=lambda kv: kv[1]))}
pub open spec fn first(a: int, b: int) -> bool {{
    {first_rel}
}}
pub open spec fn mentions(a: int, b: int) -> bool {{
    {ment_rel}
}}
//@ OBL C16.grammar.no-reparse-of-nesting-alternative
{''.join(cannot)}{''.join(fns)}
}} // verus!
fn main() {{}}
"""
    pp = prefix_pairs(rules)
    o2 = Obl("C16.grammar.no-reparse-of-nesting-prefix", ["C16"], engine="finite computation over the rule graph of grammar.pest (python)", fn="grammar.pest (prefixes of alternatives)",
             desc="no alternative of an ordered choice parses a nesting construct completely before a point where it can still fail while a later alternative that starts alike can parse that construct again (known finding D118: `reassignment` before `value` / `assignment` in `declaration`)")
    o2.status = "failed" if pp else "discharged"
    o2.detail = "\n".join(pp)
    o2.pre_decided = True
    return gen, [o2, Obl("C16.grammar.no-reparse-of-nesting-alternative", ["C16"], fn=f"grammar.pest ({len(pairs)} pairs of alternatives)", desc="two alternatives of an ordered choice that can start with the same terminal never both begin with a rule that can contain the choice again (each level of nesting would be parsed twice when the input fails inside: 2^depth)")], log


UNITS = [VUnit("c16_grammar", ["C16"], "the grammar does not parse a nesting construct twice", build)]
UNITS[0].assumes = ["pest's ordered choice re-parses from the same position (its documented semantics); `first` over-approximates (leading terminals, optional / repeated prefixes skipped, predicates ignored)",
                    "only this source of super-linear parsing is under contract; pest itself is not"]

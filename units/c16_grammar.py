"""C16: the grammar (compiler/src/grammar.pest) -- cost discipline of ordered choice.  pest tries the alternatives of `A | B` in order and re-parses
the input from the same position for each.  If a later alternative B (a single rule) is ALSO the first thing an earlier alternative parses, and B can
contain the rule the choice stands in (nesting), then an input that fails deep inside makes every level parse its B twice: 2^depth work for a syntax
error in nested brackets (D100: `value = math_expr | function | ident | list`, 60 nested `[` with an error inside did not finish).
The rule graph is extracted from the grammar on every run; for each such pair the verifier checks a certificate (a set of rules closed under
"can be parsed first", containing what the earlier alternative starts with and NOT containing B).  Over-approximation: optional and repeated prefixes
are skipped when computing what can come first, predicates (`!x`, `&x`) are ignored."""
from vlib.rules import *
import re, os

FILE = "compiler/src/grammar.pest"
TOK = re.compile(r'"(?:[^"\\]|\\.)*"|\'(?:[^\'\\]|\\.)*\'|[A-Za-z_][A-Za-z_0-9]*|[|~()?*+!&]|\.\.|\^')


def parse_rules(g):
    g = re.sub(r"//[^\n]*", "", g)
    rules = {}
    for m in re.finditer(r"^([A-Za-z_]+)\s*=\s*[_@$!]?\{", g, re.M):
        i = m.end(); d = 1; j = i
        while d:
            c = g[j]
            if c == '"':
                j += 1
                while g[j] != '"':
                    if g[j] == "\\": j += 1
                    j += 1
            elif c == "'":
                j += 1
                while g[j] != "'":
                    if g[j] == "\\": j += 1
                    j += 1
            elif c == "{": d += 1
            elif c == "}": d -= 1
            j += 1
        rules[m.group(1)] = TOK.findall(g[i:j - 1])
    return rules


def split_alts(ts):
    alts, cur, d = [], [], 0
    for t in ts:
        if t == "(": d += 1
        elif t == ")": d -= 1
        if t == "|" and d == 0:
            alts.append(cur); cur = []
        else:
            cur.append(t)
    alts.append(cur)
    return alts


def leading(ts):
    out, i = set(), 0
    while i < len(ts):
        t = ts[i]
        if t in ("!", "&"):
            i += 1
            if i < len(ts) and ts[i] == "(":
                d = 1; i += 1
                while d:
                    d += (ts[i] == "(") - (ts[i] == ")"); i += 1
            else:
                i += 1
            continue
        if t == "(":
            d = 1; j = i + 1
            while d:
                d += (ts[j] == "(") - (ts[j] == ")"); j += 1
            for a in split_alts(ts[i + 1:j - 1]):
                out |= leading(a)
            if j < len(ts) and ts[j] in ("?", "*"):
                i = j + 1; continue
            return out
        if t[0] in "\"'":
            return out
        if re.match(r"[A-Za-z_]", t):
            out.add(t)
            if i + 1 < len(ts) and ts[i + 1] in ("?", "*"):
                i += 2; continue
            return out
        i += 1
    return out


def mentions(ts):
    return {t for t in ts if re.match(r"[A-Za-z_]", t)}


def build(repo):
    log = []
    rules = parse_rules(open(os.path.join(repo, FILE), encoding="utf-8").read())
    if len(rules) < 50:
        raise Undecided(f"{FILE}: only {len(rules)} rules recognised")
    names = sorted(rules)
    idx = {n: k for k, n in enumerate(names)}
    lead = {n: {x for a in split_alts(b) for x in leading(a)} & set(rules) for n, b in rules.items()}
    ment = {n: mentions(b) & set(rules) for n, b in rules.items()}

    def closure(start, rel):
        seen, st = set(), list(start)
        while st:
            x = st.pop()
            if x in seen: continue
            seen.add(x); st += list(rel[x])
        return seen
    pairs = []
    for n, b in rules.items():
        alts = split_alts(b)
        for k, a in enumerate(alts):
            if len(a) == 1 and a[0] in rules and n in closure([a[0]], ment):            # B can contain the rule the choice stands in
                for e in alts[:k]:
                    pairs.append((n, " ".join(e), leading(e) & set(rules), a[0]))
    edge = "\n        || ".join(f"(a == {idx[n]} && ({' || '.join(f'b == {idx[x]}' for x in sorted(lead[n]))}))" for n in names if lead[n]) or "false"
    fns = []
    for k, (n, etxt, starts, B) in enumerate(pairs):
        S = closure(starts, lead)
        ins = " || ".join(f"x == {idx[s]}" for s in sorted(S)) or "false"
        fns.append(f"""
// rule `{n}`: alternative `{B}` after `{etxt[:60]}`
pub open spec fn cert_{k}(x: int) -> bool {{ {ins} }}
pub proof fn pair_{k}()
    ensures
        {' && '.join(f'cert_{k}({idx[s]})' for s in sorted(starts)) or 'true'},                    // what the earlier alternative can start with
        forall|a: int, b: int| cert_{k}(a) && first(a, b) ==> cert_{k}(b),                          // closed under "can be parsed first"
        !cert_{k}({idx[B]}),                                                                        // `{B}` is not among it
{{ }}
""")
    log.append(("R0", f"{FILE}: {len(rules)} rules", f"`first(a, b)`: rule b can be the first thing rule a parses; {len(pairs)} ordered-choice pairs to check", "grammar -> rule graph (optional / repeated prefixes skipped, predicates ignored)"))
    gen = header(log, f"{FILE}: ordered choices whose later alternative nests") + f"""
use vstd::prelude::*;
verus! {{
// rule numbers: {', '.join(f'{k}={n}' for n, k in sorted(idx.items(), key=lambda kv: kv[1]))}
pub open spec fn first(a: int, b: int) -> bool {{
    {edge}
}}
//@ OBL C16.grammar.no-reparse-of-nesting-alternative
{''.join(fns)}
pub proof fn verif_all() {{ }}
}} // verus!
fn main() {{}}
"""
    return gen, [Obl("C16.grammar.no-reparse-of-nesting-alternative", ["C16"], fn=f"grammar.pest ({len(pairs)} ordered-choice pairs)", desc="no ordered choice of the grammar offers, as a later alternative, a nesting rule that an earlier alternative already starts with (each level of nesting would parse it twice when the input fails inside: 2^depth)")], log


UNITS = [VUnit("c16_grammar", ["C16"], "the grammar does not re-parse a nesting alternative", build)]
UNITS[0].assumes = ["pest's ordered choice re-parses from the same position (its documented semantics); the `first` relation over-approximates (optional / repeated prefixes skipped, predicates ignored)",
                    "only this one source of super-linear parsing is under contract; pest itself and the other grammar rules are not"]

"""C02 / C03: list arms of the type-compatibility test.  TypeLayout::eq_complex (the three list arms, extracted as fragments),
impl PartialEq for ListType (whole function) and ListType::try_coerce_to_open (whole function), V-t.

`compat(expected, supplied, flags)` is the (uninterpreted) result of the recursive eq_complex call on component types: the contracts
say how a list type's compatibility is composed from its slots' -- every slot, not some slot; every adjacent pair, not every other."""
from vlib.rules import *
import re

TYPE = "compiler/src/ast/type.rs"
LIST = "compiler/src/ast/list.rs"

SPEC = r"""
use vstd::prelude::*;
verus! {
pub struct VErr;
#[verifier::external_body] pub struct TL { x: usize }                 // TypeLayout (Cow<'static, TypeLayout> slots are TL values)
#[verifier::external_body] pub struct Flags { x: usize }              // TypecheckFlags<..>
pub uninterp spec fn compat(expected: TL, supplied: TL, f: Flags) -> bool;      // result of eq_complex on two component types
pub uninterp spec fn classless() -> Flags;
#[verifier::external_body] pub fn flags_classless() -> (r: Flags) ensures r == classless() { unimplemented!() }
impl TL {
    // the recursive call: modular -- only its contract is known here
    #[verifier::external_body] pub fn eq_complex(&self, rhs: &TL, flags: &Flags) -> (r: bool) ensures r == compat(*self, *rhs, *flags) { unimplemented!() }
}
#[verifier::external_body] pub fn clone_tl(t: &TL) -> (r: TL) ensures r == *t { unimplemented!() }
impl TL { #[verifier::external_body] pub fn clone(&self) -> (r: TL) ensures r == *self { unimplemented!() } }
pub uninterp spec fn sigcheck() -> Flags;               // TypecheckFlags::signature_check(): parameter types are compared strictly (no optional leniency)
#[verifier::external_body] pub fn flags_signature_check() -> (r: Flags) ensures r == sigcheck() { unimplemented!() }
// function types
#[verifier::external_body] pub struct RetCell { x: usize }            // RefCell<ScopeReturnStatus>
pub uninterp spec fn ret_sig(a: RetCell, b: RetCell) -> Result<bool, VErr>;      // ScopeReturnStatus::eq_for_signature_checking
#[verifier::external_body] pub fn ret_sig_eq(a: &RetCell, b: &RetCell) -> (r: Result<bool, VErr>) ensures r == ret_sig(*a, *b) { unimplemented!() }
pub struct Params { pub types: Vec<TL> }
impl Params {
    pub fn len(&self) -> (r: usize) ensures r == self.types@.len() { self.types.len() }
    #[verifier::external_body] pub fn to_types(&self) -> (r: Vec<TL>) ensures r@ == self.types@ { unimplemented!() }
}
pub struct FunctionType { pub parameters: Params, pub return_type: RetCell }
pub enum ListType { Mixed(Vec<TL>), Open(Box<TL>) }
#[verifier::external_body] pub fn clone_lt(t: &ListType) -> (r: ListType) ensures r == *t { unimplemented!() }
pub fn vec_first(v: &Vec<TL>) -> (r: Option<&TL>) ensures v@.len() == 0 ==> r is None, v@.len() > 0 ==> r == Some(&v@[0]) { if v.len() == 0 { None } else { Some(&v[0]) } }

// ---- what the property needs of list compatibility ----
// fixed-shape vs fixed-shape: the same number of slots, and slot by slot (C03: `x: [int, str, float] = [1, "a"]` is a wrong-typed initializer)
pub open spec fn mixed_mixed(t1: Seq<TL>, t2: Seq<TL>, f: Flags) -> bool { t1.len() == t2.len() && forall|j: int| 0 <= j < t1.len() && j < t2.len() ==> compat(t1[j], t2[j], f) }
// fixed-shape literal where `[T...]` is wanted (or the reverse): EVERY slot must be compatible with T
pub open spec fn mixed_open(t1: Seq<TL>, t2: TL, f: Flags) -> bool { forall|j: int| 0 <= j < t1.len() ==> compat(t2, t1[j], f) }
// `[T...]` supplied where a fixed-shape list is wanted: every slot must ACCEPT the element type (expected side = the slot)
pub open spec fn open_into_mixed(t1: Seq<TL>, t2: TL, f: Flags) -> bool { forall|j: int| 0 <= j < t1.len() ==> compat(t1[j], t2, f) }
// a fixed-shape list may be used as `[T...]` only if every adjacent pair of slots is compatible (so all slots are, by transitivity, T = slot 0)
pub open spec fn adj(t: Seq<TL>, j: int, f: Flags) -> bool { compat(t[j], t[j + 1], f) }
pub open spec fn chain(t: Seq<TL>, f: Flags) -> bool { forall|j: int| 0 <= j && j + 1 < t.len() ==> #[trigger] adj(t, j, f) }
"""


def for_slots(label, t2_expr, flags_expr):
    """R2: `for ty in t1 { if !A.eq_complex(B, F) { return false; } }` -> indexed while; the invariant is read off the loop's own test (which of
    the slot `ty` and the element type `t2` is the expected side): the arm's postcondition, not the invariant, says which it has to be"""
    from vlib.pattern import Pat

    def repl(b):
        v, x, body = text(b["v"]), text(b["x"]), b["body"]
        k = f"verif_k_{label}_{v}"
        m = None
        pp = Pat("! $a . eq_complex ( $b , $$f )")
        for i in range(len(body)):
            r = pp.match_at(body, i)
            if r:
                m = r[1]; break
        if m is None:
            return None
        side = lambda t: f"{v}@[j]" if text(t) == x else (t2_expr if text(t) == "t2" else None)
        a, bb = side(m["a"]), side(m["b"])
        if a is None or bb is None:
            return None
        inv = f"invariant {k} <= {v}.len(), forall|j: int| 0 <= j < {k} ==> compat({a}, {bb}, {flags_expr}) decreases {v}.len() - {k}"
        return [f"let mut {k} : usize = 0 ; while {k} < {v} . len ( )", G(inv), "{", f"let {x} = & {v} [ {k} ] ; {k} += 1 ;", *body, "}"]
    return Rule("R2", "for $x in $v { $$body }", repl, why="for over &Vec -> indexed while (iteration order of slice::Iter); invariant read off the loop's test")


def common_rules():
    el = lambda a, j: f"compat(*t2, {a}@[{j}], *flags)"
    pr = lambda a, ja, b, jb: f"compat({a}@[{ja}], {b}@[{jb}], *flags)"
    return iter_idiom_rules("c", el, pr)


def build(repo):
    src = Source(repo)
    log = []
    feq = src.fn(TYPE, "eq_complex", "impl TypeLayout")
    frag = {}
    arms = {
        "mm": "( Self :: List ( ListType :: Mixed ( t1 ) ) , Self :: List ( ListType :: Mixed ( t2 ) ) , _ )",
        "oo": "( Self :: List ( ListType :: Open ( t1 ) ) , Self :: List ( ListType :: Open ( t2 ) ) , _ )",
        "mo": "( Self :: List ( ListType :: Mixed ( $m1 ) ) , Self :: List ( ListType :: Open ( $m2 ) ) , _ )",
        "om": "( Self :: List ( ListType :: Open ( t2 ) ) , Self :: List ( ListType :: Mixed ( t1 ) ) , _ )",
    }
    flag_rules = [
        Rule("R1", "let flags = Box :: new ( flags . deref ( ) ) ;", "", why="re-boxing of the flags reference (lifetime plumbing)"),
        Rule("R1", "* flags", "flags", why="Box<&Flags> deref"),
    ]
    for k, pat in arms.items():
        try:
            arm = extract_match_arm(feq["body"], pat)
        except Exception as e:
            raise Undecided(f"eq_complex: list arm not found ({k}): {e}")
        b = translate(arm["body"], common_rules() + [for_slots(k, "*t2", "*flags")] + flag_rules, log, f"eq_complex arm {k}")
        check_closed(b, f"eq_complex arm {k}")
        frag[k] = render(b, 1)

    # ---- impl PartialEq for ListType (whole function)
    fle = src.fn(LIST, "eq", "impl PartialEq for ListType")
    el = lambda a, j: f"compat(**t2, {a}@[{j}], classless())"
    pr = lambda a, ja, b_, jb: f"compat({a}@[{ja}], {b_}@[{jb}], classless())"
    ble = translate(fle["body"], iter_idiom_rules("e", el, pr) + [
        for_slots("e", "**t2", "classless()"),
        Rule("R1", "use ListType as E ;", "", why="local alias"),
        Rule("R1", "E :: $v", "ListType :: $v", why="local alias"),
        Rule("R6", "let typecheck_flags : TypecheckFlags < & ClassType > = TypecheckFlags :: classless ( ) ;", "let typecheck_flags = flags_classless ( ) ;", why="TypecheckFlags::classless()"),
        Rule("R6", "& TypecheckFlags :: < & ClassType > :: classless ( )", "& flags_classless ( )", why="TypecheckFlags::classless()"),
    ], log, "ListType::eq")
    check_closed(ble, "ListType::eq")

    # ---- ListType::try_coerce_to_open (whole function)
    ftc = src.fn(LIST, "try_coerce_to_open", "impl ListType")
    pr2 = lambda a, ja, b_, jb: f"compat({a}@[{ja}], {b_}@[{jb}], *comparison_flags)"
    el2 = lambda a, j: "true"
    btc = translate(ftc["body"], iter_idiom_rules("t", el2, pr2, lambda a, j: f"adj({a}@, {j}, *comparison_flags)") + [
        Rule("R3", "bail ! $a", "return Err ( VErr )", why="bail! -> return Err"),
        Rule("R1", "Self :: Open", "ListType :: Open"), Rule("R1", "Self :: Mixed", "ListType :: Mixed"),
        Rule("R1", "Cow :: Borrowed ( $$x )", "clone_lt ( $$x )", why="Cow::Borrowed(&T) -> the same value"),
        Rule("R1", "Cow :: Owned ( $$x )", "( $$x )", why="Cow::Owned(T) -> T"),
        Rule("R9", "types . first ( )", "vec_first ( types )", why="slice::first with its std contract"),
        Rule("R1", "ty . clone ( )", "clone_tl ( ty )", why="Cow<TypeLayout>::clone"),
    ], log, "ListType::try_coerce_to_open")
    check_closed(btc, "ListType::try_coerce_to_open")

    # ---- impl PartialEq for FunctionType (whole function)
    FUNC = "compiler/src/ast/function.rs"
    ffe = src.fn(FUNC, "eq", "impl PartialEq for FunctionType")
    prf = lambda a, ja, b_, jb: f"compat({a}@[{ja}], {b_}@[{jb}], sigcheck())"
    prf_any = lambda a, ja, b_, jb, fl: f"compat({a}@[{ja}], {b_}@[{jb}], {fl})"
    def flag_aware(rules_for):
        return rules_for
    bfe_toks = list(ffe["body"])
    # which flag constructor does the closure use? (the invariant is generic in it: code and loop spec share the same flags expression)
    txt_body = text(bfe_toks)
    tail = txt_body.split("all")[-1]
    m_id = re.search(r"eq_complex\s*\(\s*\w+\s*,\s*&\s*(\w+)\s*\)", tail)
    flag_expr = "sigcheck()" if "signature_check" in tail and "classless" not in tail else ("classless()" if "classless" in tail else (m_id.group(1) if m_id else None))
    if flag_expr is None:
        raise Undecided("FunctionType::eq: flags of the parameter comparison not recognised")
    prf2 = lambda a, ja, b_, jb: f"compat({a}@[{ja}], {b_}@[{jb}], {flag_expr})"
    bfe = translate(bfe_toks, iter_idiom_rules("f", lambda a, j: "true", prf2) + [
        Rule("R6", "self . return_type . borrow ( ) . eq_for_signature_checking ( & other . return_type . borrow ( ) )", "ret_sig_eq ( & self . return_type , & other . return_type )", count=1,
             why="ScopeReturnStatus::eq_for_signature_checking abstract; RefCell borrow dropped (R10)"),
        Rule("R6", "TypecheckFlags :: < & ClassType > :: signature_check ( )", "flags_signature_check ( )", why="TypecheckFlags::signature_check()"),
        Rule("R6", "TypecheckFlags :: < & ClassType > :: classless ( )", "flags_classless ( )", why="TypecheckFlags::classless()"),
    ], log, "FunctionType::eq")
    check_closed(bfe, "FunctionType::eq")
    gen = header(log, f"{TYPE}: TypeLayout::eq_complex (list arms); {FUNC}: PartialEq for FunctionType; {LIST}: PartialEq for ListType, ListType::try_coerce_to_open") + SPEC + f"""
//@ OBL C02.compat.list.mixed-mixed
#[verifier::loop_isolation(false)]
pub fn eq_complex_arm_mixed_mixed(t1: &Vec<TL>, t2: &Vec<TL>, flags: &Flags) -> (r: bool)
    ensures r == mixed_mixed(t1@, t2@, *flags)
{{
{frag['mm']}
}}

//@ OBL C02.compat.list.open-open
pub fn eq_complex_arm_open_open(t1: &Box<TL>, t2: &Box<TL>, flags: &Flags) -> (r: bool)
    ensures r == compat(**t1, **t2, *flags)
{{
{frag['oo']}
}}

//@ OBL C02.compat.list.mixed-open
// `x: [int...] = [10, "twenty", 30]` must be rejected: a fixed-shape list fits `[T...]` exactly when T accepts EVERY slot
#[verifier::loop_isolation(false)]
pub fn eq_complex_arm_mixed_open(t1: &Vec<TL>, t2: &TL, flags: &Flags) -> (r: bool)
    ensures r == mixed_open(t1@, *t2, *flags)
{{
{frag['om']}
}}

//@ OBL C02.compat.list.open-mixed
// the other way round -- `[T...]` supplied where a fixed-shape list is expected: never (D82 / D83: a `[T...]` has no static length)
#[verifier::loop_isolation(false)]
pub fn eq_complex_arm_open_mixed(t1: &Vec<TL>, t2: &TL, flags: &Flags) -> (r: bool)
    ensures !r
{{
{frag['mo']}
}}

impl ListType {{
    //@ OBL C02.compat.listtype.eq
    #[verifier::loop_isolation(false)]
    pub fn eq(&self, other: &ListType) -> (r: bool)
        ensures
            (self is Mixed && other is Mixed) ==> r == mixed_mixed(self->Mixed_0@, other->Mixed_0@, classless()),
            (self is Open && other is Open) ==> r == compat(*self->Open_0, *other->Open_0, classless()),
            (self is Mixed && other is Open) ==> !r,
            (self is Open && other is Mixed) ==> r == mixed_open(other->Mixed_0@, *self->Open_0, classless()),
    {{
{render(ble, 2)}
    }}

    //@ OBL C02.coerce.open
    // the gate of the element-typed list methods (remove, push, map, filter, join, index_of, ...) on fixed-shape lists
    #[verifier::loop_isolation(false)]
    pub fn try_coerce_to_open(&self, comparison_flags: &Flags) -> (r: Result<ListType, VErr>)
        ensures
            self is Open ==> r == Ok::<ListType, VErr>(*self),
            self is Mixed ==> (r is Ok <==> (self->Mixed_0@.len() > 0 && chain(self->Mixed_0@, *comparison_flags))),
            (self is Mixed && r is Ok) ==> r->Ok_0 is Open && *r->Ok_0->Open_0 == self->Mixed_0@[0],
    {{
{render(btc, 2)}
    }}
}}

impl FunctionType {{
    //@ OBL C02.compat.function.eq
    // a function value fits a function-typed position (callback parameter, variable, return) only if the signatures agree:
    // same number of parameters, return types agree, and EVERY parameter pair is compatible under the strict signature flags
    // (so `fn(int) -> int` is not accepted where `fn(int?) -> int` is expected: the callee may be handed nil)
    #[verifier::loop_isolation(false)]
    pub fn eq(&self, other: &FunctionType) -> (r: bool)
        ensures r == (self.parameters.types@.len() == other.parameters.types@.len()
                      && ret_sig(self.return_type, other.return_type) == Ok::<bool, VErr>(true)
                      && forall|j: int| 0 <= j < self.parameters.types@.len() ==> compat(#[trigger] self.parameters.types@[j], other.parameters.types@[j], sigcheck()))
    {{
{render(bfe, 2)}
    }}
}}
}} // verus!
fn main() {{}}
"""
    # KF twin (D121): the property's side of the coercion -- the element type handed out (slot 0) accepts EVERY slot, not just its neighbour
    i0 = gen.index("    //@ OBL C02.coerce.open"); i1 = gen.index("impl FunctionType {", i0); i1 = gen.rindex("}", i0, i1)
    twin = gen[i0:i1].replace("//@ OBL C02.coerce.open", "//@ KF C02.coerce.every-slot-fits").replace("pub fn try_coerce_to_open(", "pub fn try_coerce_to_open_every_slot(") \
        .replace("        ensures\n", "        ensures\n            (self is Mixed && r is Ok) ==> forall|j: int| 0 <= j < self->Mixed_0@.len() ==> compat(self->Mixed_0@[0], #[trigger] self->Mixed_0@[j], *comparison_flags),\n", 1)
    assert "every-slot-fits" in twin and "forall|j: int| 0 <= j < self->Mixed_0@.len()" in twin
    gen = gen[:i1] + twin + gen[i1:]
    obls = [
        Obl("C02.coerce.every-slot-fits", ["C02"], kind="kf", finding="D121", fn="try_coerce_to_open_every_slot",
            desc="try_coerce_to_open: the element type of the [T...] a fixed-shape list is treated as accepts EVERY slot of the list -- known finding D121: only neighbours are compared, and `nil` is a neighbour of every optional"),
        Obl("C02.compat.function.eq", ["C02", "C03"], fn="FunctionType::eq", desc="PartialEq for FunctionType: same arity, return types agree for signature checking, every parameter pair compatible under signature_check flags"),
        Obl("C02.compat.list.mixed-mixed", ["C02", "C03"], fn="eq_complex_arm_mixed_mixed", desc="eq_complex, [A, B] vs [C, D]: compatible exactly when both have the same number of slots and every slot is"),
        Obl("C02.compat.list.open-open", ["C02", "C03"], fn="eq_complex_arm_open_open", desc="eq_complex, [T...] vs [U...]: compatible exactly when T and U are"),
        Obl("C02.compat.list.mixed-open", ["C02", "C03"], fn="eq_complex_arm_mixed_open", desc="eq_complex, [T...] expected, fixed-shape list supplied: compatible exactly when T accepts EVERY slot"),
        Obl("C02.compat.list.open-mixed", ["C02", "C03"], fn="eq_complex_arm_open_mixed", desc="eq_complex, fixed-shape list expected, [T...] supplied: never compatible (D82: the test was mirrored; D83: the length of a [T...] is not known)"),
        Obl("C02.compat.listtype.eq", ["C02", "C03"], fn="ListType::eq", desc="PartialEq for ListType (the `lhs == rhs` shortcut in front of eq_complex): same three shapes, classless flags"),
        Obl("C02.coerce.open", ["C02", "C16"], fn="ListType::try_coerce_to_open", desc="try_coerce_to_open: a fixed-shape list is treated as [T...] only if it is non-empty and EVERY adjacent pair of slots is compatible; T is slot 0"),
    ]
    return gen, obls, log


UNITS = [VUnit("c02_compat", ["C02", "C03", "C16"], "list arms of the type-compatibility test; coercion of fixed-shape lists to [T...]", build)]
UNITS[0].assumes = ["fragment extraction: the three list arms of eq_complex are verified as functions of the bound variables (t1, t2, flags); the arms in front of them "
                    "(generics, ClassSelf) and the `lhs == rhs` shortcut are separate; the non-list arms (optionals, str) are not under contract",
                    "compat (the recursive eq_complex result on component types) is uninterpreted: the contracts are about how list compatibility is composed from it",
                    "that adjacent-pair compatibility of all slots implies compatibility of every slot with slot 0 needs transitivity of eq_complex on the slot types: false when a slot is a bare `nil` (known finding D121, KF twin C02.coerce.every-slot-fits)"]

"""C01 / C09: functions -- FunctionParameters::compile (argument i is stored in parameter i) and Function::compile (the body of a function
always ends in `ret`: an explicit one, or the implicit `void; ret`)."""
from vlib.rules import *

PARAMS = "compiler/src/ast/function_parameters.rs"
FUNC = "compiler/src/ast/function.rs"

SPEC = r"""
#[verifier::external_body] pub fn strlit_vs(s: &'static str) -> (r: VString) ensures text_of(&r) == s@ { unimplemented!() }
impl ToVs for VString {
    open spec fn as_num(&self) -> int { num_of(self) }
    open spec fn as_text(&self) -> Seq<char> { text_of(self) }
    #[verifier::external_body] fn to_vs(&self) -> (r: VString) ensures r == *self { unimplemented!() }
}
pub struct Ident { pub name: VString }
impl Ident { pub fn name(&self) -> (r: &VString) ensures *r == self.name { &self.name } }
#[verifier::external_body] pub struct TypeV { x: usize }
pub enum FunctionParameters { Named(Vec<Ident>), TypesOnly(Vec<TypeV>) }
#[verifier::external_body] pub struct BlockV { x: usize }
#[verifier::external_body] pub fn block_compile(b: &BlockV, s: &CompilationState) -> (r: Result<Vec<CompiledItem>, VErr>) { unimplemented!() }      // arbitrary code
pub struct Function { pub parameters: FunctionParameters, pub body: BlockV, pub path_str: VString }
// the compiled functions of the file (state.push_function) and the id generator
#[verifier::external_body] pub struct CompilationState { x: usize }
pub uninterp spec fn pushed(s: &CompilationState) -> Seq<CompiledItem>;
#[verifier::external_body] pub fn poll_function_id(s: &mut CompilationState) -> (r: VString) ensures pushed(final(s)) == pushed(old(s)) { unimplemented!() }
#[verifier::external_body] pub fn push_function(s: &mut CompilationState, f: CompiledItem) ensures pushed(final(s)) == pushed(old(s)).push(f) { unimplemented!() }
#[verifier::external_body] pub fn clone_vs(s: &VString) -> (r: VString) ensures r == *s { unimplemented!() }
pub fn vec1(a: CompiledItem) -> (r: Vec<CompiledItem>) ensures r@ == seq![a] { let mut v = Vec::new(); v.push(a); v }
pub fn vec_last(v: &Vec<CompiledItem>) -> (r: Option<&CompiledItem>) ensures v@.len() == 0 ==> r is None, v@.len() > 0 ==> r == Some(&v@.last()) { if v.len() == 0 { None } else { Some(&v[v.len() - 1]) } }
// parameter prologue: arg 0; store p0; arg 1; store p1; ...
pub open spec fn params_layout(out: Seq<CompiledItem>, names: Seq<Ident>) -> bool {
    &&& out.len() == 2 * names.len()
    &&& forall|i: int| 0 <= i < names.len() ==> is_instr(#[trigger] out[2 * i], ARG) && nargs(out[2 * i]) == 1 && argn(out[2 * i], 0) == i
            && is_instr(out[2 * i + 1], STORE) && nargs(out[2 * i + 1]) == 1 && out[2 * i + 1]->arguments@[0] == names[i].name
}
"""


def build(repo):
    src = Source(repo)
    ids = opcode_ids(repo)
    log = []
    fp = src.fn(PARAMS, "compile", "impl Compile for FunctionParameters")
    inv = ("invariant $K <= $V.len(), result@.len() == 2 * $K, "
           "forall|i: int| 0 <= i < $K ==> is_instr(#[trigger] result@[2 * i], ARG) && nargs(result@[2 * i]) == 1 && argn(result@[2 * i], 0) == i "
           "&& is_instr(result@[2 * i + 1], STORE) && nargs(result@[2 * i + 1]) == 1 && result@[2 * i + 1]->arguments@[0] == $V@[i].name decreases $V.len() - $K")

    def ploop(b):
        i, x = text(b["i"]), text(b["x"])
        k = "verif_k_p"
        return [f"let mut {k} : usize = 0 ; while {k} < names . len ( )", G(inv.replace("$K", k).replace("$V", "names")), "{",
                f"let {i} = {k} ; let {x} = & names [ {k} ] ; {k} += 1 ;", *b["body"], "}"]
    bp = translate(fp["body"], [
        Rule("R3", "bail ! $a", "return Err ( VErr )", why="bail! -> return Err"),
        Rule("R1", "Self :: Named", "FunctionParameters :: Named", why="Self -> type name"),
        Rule("R12", "let mut result = vec ! [ ] ;", "let mut result : Vec < CompiledItem > = Vec :: new ( ) ;", why="vec![] with the element type stated"),
        Rule("R2", "for ( $i , $x ) in names . iter ( ) . enumerate ( ) { $$body }", ploop, count=1, why="for over iter().enumerate() -> indexed while"),
        r_instruction(ids),
    ], log, "FunctionParameters::compile")
    check_closed(bp, "FunctionParameters::compile")
    ff = src.fn(FUNC, "compile", "impl Compile for Function")
    bf = translate(ff["body"], [
        Rule("R6", "self . parameters . compile ( state ) ?", "self . parameters . compile ( state ) ?"),
        Rule("R6", "self . body . compile ( state ) ?", "block_compile ( & self . body , state ) ?", why="child Block::compile abstract (arbitrary code)"),
        Rule("R1", "if let Some ( CompiledItem :: Instruction { id : RET , .. } ) = body . last ( )", "if ends_with_ret ( & body )", count=1, why="pattern on the last item with the RET opcode constant"),
        r_instruction(ids),
        Rule("R6", "state . poll_function_id ( )", "poll_function_id ( state )", why="id generator abstract"),
        Rule("R6", "state . push_function ( $x ) ;", "push_function ( state , $x ) ;", why="list of the file's functions as explicit state (R10)"),
        Rule("R1", "id . clone ( )", "clone_vs ( & id )", why="String clone"),
        Rule("R1", "self . path_str . clone ( )", "clone_vs ( & self . path_str )", why="String clone"),
        Rule("R12", "vec ! [ $$a ]", "vec1 ( $$a )", why="vec![a]"),
        Rule("R11", "args . append ( & mut body ) ;", [G("let ghost a0 = args@; let ghost b0 = body@;"), "args . append ( & mut body ) ;"], count=1),
    ], log, "Function::compile")
    check_closed(bf, "Function::compile")
    gen = header(log, f"{PARAMS}: FunctionParameters::compile; {FUNC}: Function::compile") + prelude("compile.rs").replace("pub struct CompilationState;", "") + \
        opcode_consts(ids, ["arg", "store", "void", "ret"]) + SPEC + f"""
pub fn ends_with_ret(body: &Vec<CompiledItem>) -> (r: bool) ensures r == (body@.len() > 0 && is_instr(body@.last(), RET)) {{
    match vec_last(body) {{ Some(CompiledItem::Instruction {{ id, .. }}) => *id == RET, _ => false }}
}}
impl FunctionParameters {{
    //@ OBL C01.params.layout
    // argument i of the call is bound to the i-th parameter's name
    #[verifier::loop_isolation(false)]
    pub fn compile(&self, state: &CompilationState) -> (r: Result<Vec<CompiledItem>, VErr>)
        ensures self is Named ==> r is Ok && params_layout(r->Ok_0@, self->Named_0@), self is TypesOnly ==> r is Err
    {{
{render(bp, 2)}
    }}
}}
impl Function {{
    //@ OBL C01.function.layout
    // a function's code = parameter prologue ++ body ++ (`void; ret` unless the body already ends in `ret`): execution can never run off the
    // end of a function; the function is registered once under a fresh id and the expression yields a reference with that id and location
    pub fn compile(&self, state: &mut CompilationState) -> (r: Result<Vec<CompiledItem>, VErr>)
        ensures r is Ok ==> ({{
            let out = r->Ok_0@;
            &&& self.parameters is Named
            &&& out.len() == 1 && out[0] is Function && out[0]->content is None && out[0]->location == self.path_str
            &&& pushed(final(state)).len() == pushed(old(state)).len() + 1 && pushed(final(state)).drop_last() == pushed(old(state))
            &&& ({{ let f = pushed(final(state)).last();
                  &&& f is Function && f->Function_id == out[0]->Function_id && f->location == self.path_str && f->content is Some
                  &&& ({{ let code = f->content->Some_0@; let n = self.parameters->Named_0@.len() as int;
                        &&& code.len() >= 2 * n + 1
                        &&& params_layout(code.subrange(0, 2 * n), self.parameters->Named_0@)
                        &&& is_instr(code.last(), RET) }})
            }})
        }}),
    {{
{render(bf, 2)}
    }}
}}
}} // verus!
fn main() {{}}
"""
    obls = [Obl("C01.params.layout", ["C01", "C09"], fn="FunctionParameters::compile", desc="FunctionParameters::compile: `arg i; store name_i` for every parameter, in order"),
            Obl("C01.function.layout", ["C01", "C09"], fn="Function::compile", desc="Function::compile: prologue ++ body ++ implicit `void; ret` unless the body ends in `ret`; registered once; the expression is a reference with the same id and location")]
    return gen, obls, log


UNITS = [VUnit("c01_function", ["C01", "C09"], "function layout: parameter prologue, body, final ret", build)]
UNITS[0].assumes = ["Block::compile abstract (arbitrary code); the function list / id generator of CompilationState as explicit state (R10)"]

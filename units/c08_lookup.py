"""C08: member resolution on an object -- Object::get_property / has_variable / has_function (bytecode/src/variables/object.rs), the lookup behind
`obj.field`, `obj.method(..)` and `self.method(..)`.  A name denotes the object's own field of that name; otherwise (methods included) the
method its class registered under EXACTLY `Class::name`; otherwise a function-valued member of that name; otherwise nothing.  Never
another class's method, never a method whose name merely resembles the requested one."""
from vlib.rules import *

FILE = "bytecode/src/variables/object.rs"

SPEC = r"""
use vstd::prelude::*;
verus! {
#[verifier::external_body] pub struct VString { x: usize }
pub uninterp spec fn text_of(s: &VString) -> Seq<char>;
#[verifier::external_body] #[derive(Clone, Copy)] pub struct Bundle { x: usize }                 // PrimitiveFlagsPair: a handle to a member's cell
pub uninterp spec fn holds_function(b: Bundle) -> bool;              // bundle.primitive().is_function()
#[verifier::external_body] pub fn bundle_is_function(b: &Bundle) -> (r: bool) ensures r == holds_function(*b) { unimplemented!() }
#[verifier::external_body] pub struct VarMap { x: usize }            // VariableMapping
pub uninterp spec fn members(m: &VarMap) -> Map<Seq<char>, Bundle>;
impl VarMap {
    #[verifier::external_body] pub fn get(&self, k: &VString) -> (r: Option<Bundle>)
        ensures r is Some <==> members(self).contains_key(text_of(k)), r is Some ==> r->Some_0 == members(self)[text_of(k)] { unimplemented!() }
}
pub open spec fn sep() -> Seq<char> { seq![':', ':'] }
// `class_name.to_owned() + "::" + function_name`
#[verifier::external_body] pub fn join_method_name(class_name: &VString, function_name: &VString) -> (r: VString)
    ensures text_of(&r) == text_of(class_name) + sep() + text_of(function_name) { unimplemented!() }
pub struct Object { pub name: Option<VString>, pub object_variables: VarMap }
// the method / function-valued member a name denotes
pub open spec fn function_named(o: &Object, fname: Seq<char>, class: Option<Seq<char>>) -> Option<Bundle> {
    let m = members(&o.object_variables);
    if class is Some && m.contains_key(class->Some_0 + sep() + fname) && holds_function(m[class->Some_0 + sep() + fname]) { Some(m[class->Some_0 + sep() + fname]) }
    else if m.contains_key(fname) && holds_function(m[fname]) { Some(m[fname]) }
    else { None }
}
pub open spec fn opt_text_owned(o: Option<VString>) -> Option<Seq<char>> { match o { Some(s) => Some(text_of(&s)), None => None } }
pub open spec fn opt_text(o: Option<&VString>) -> Option<Seq<char>> { match o { Some(s) => Some(text_of(s)), None => None } }
"""


def build(repo):
    src = Source(repo)
    log = []
    rules = [
        Rule("R1", "class_name . to_owned ( ) + \"::\" + function_name", "join_method_name ( class_name , function_name )", why="String concatenation `Class::name` (assumed std contract)"),
        Rule("R6", "$b . primitive ( ) . is_function ( )", "bundle_is_function ( & $b )", why="the member's current value is a function (abstract)"),
        Rule("R1", "self . name . as_deref ( )", "self . name . as_ref ( )", why="Option<String>::as_deref -> Option<&str>"),
    ]
    bodies = {}
    for n in ("get_property", "has_variable", "has_function"):
        f = src.fn(FILE, n, "impl Object")
        b = translate(f["body"], rules, log, f"Object::{n}")
        check_closed(b, f"Object::{n}")
        bodies[n] = b
    gen = header(log, f"{FILE}: Object::get_property, has_variable, has_function") + SPEC + f"""
impl Object {{
    //@ OBL C08.lookup.property
    pub fn get_property(&self, property_name: &VString, include_functions: bool) -> (r: Option<Bundle>)
        ensures ({{ let m = members(&self.object_variables);
            // the object's own member of that name first; then its class's method of exactly that name
            r == (if m.contains_key(text_of(property_name)) {{ Some(m[text_of(property_name)]) }}
                  else {{ function_named(self, text_of(property_name), if include_functions {{ opt_text_owned(self.name) }} else {{ None }}) }}) }}),
    {{
{render(bodies['get_property'], 2)}
    }}
    //@ OBL C08.lookup.variable
    pub fn has_variable(&self, variable_name: &VString) -> (r: Option<Bundle>)
        ensures r == (if members(&self.object_variables).contains_key(text_of(variable_name)) {{ Some(members(&self.object_variables)[text_of(variable_name)]) }} else {{ None }}),
    {{
{render(bodies['has_variable'], 2)}
    }}
    //@ OBL C08.lookup.function
    pub fn has_function(&self, function_name: &VString, include_class_name: Option<&VString>) -> (r: Option<Bundle>)
        ensures r == function_named(self, text_of(function_name), opt_text(include_class_name)),
    {{
{render(bodies['has_function'], 2)}
    }}
}}
}} // verus!
fn main() {{}}
"""
    obls = [
        Obl("C08.lookup.property", ["C08"], fn="Object::get_property", desc="get_property: the object's own member of that name, else the method registered as exactly `Class::name` (when methods are included), else a function-valued member, else nothing"),
        Obl("C08.lookup.variable", ["C08"], fn="Object::has_variable", desc="has_variable: exactly the member of that name"),
        Obl("C08.lookup.function", ["C08"], fn="Object::has_function", desc="has_function: the member registered under exactly `Class::name` if it holds a function, else the function-valued member `name`"),
    ]
    return gen, obls, log


UNITS = [VUnit("c08_lookup", ["C08"], "member resolution on an object: own fields, then the class's method of exactly that name", build)]
UNITS[0].assumes = ["VariableMapping::get: finite-map lookup by the exact key; String concatenation: assumed std contracts",
                    "how the members get into the object (make_object / ObjectBuilder, names `Class::method`) and the `lookup` handler are not under contract"]

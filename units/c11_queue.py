"""C11 (compile side): the compilation queue -- `CompilationState::queue_compilation` and `compile_recursive_interior` (compiler/src/ast.rs).
An import queues the module it names (once: the module's CompilationLock, unit c11_import); the driver then compiles every queued module and hands
its code on -- each module of the queue exactly once, in queue order, the modules IT queued (its own fresh state) right behind it, and the queue is
empty afterwards.  A module that is skipped would be missing from the program (`module_entry` fails at run time); one that is delivered twice
would be written twice.

R10: the RefCell around the queue is an explicit `&mut` (the borrow is held for the whole call; the recursive call works on the fresh state of the
file, a different cell).  The linked list is kept as it is (`Option<Box<CompilationStep>>`); its view is the sequence of its paths."""
from vlib.rules import *

FILE = "compiler/src/ast.rs"

SPEC = r"""
use vstd::prelude::*;
verus! {
pub struct VErr;
#[verifier::external_body] pub struct PathBuf { x: usize }
#[verifier::external_body] pub struct FileManager { x: usize }
#[verifier::external_body] pub struct FileV { x: usize }
#[verifier::external_body] pub struct Buffer { x: usize }
pub struct CompilationStep { pub path: PathBuf, pub next: Option<Box<CompilationStep>> }
pub open spec fn list_view(o: Option<Box<CompilationStep>>) -> Seq<PathBuf> decreases o { match o { None => Seq::empty(), Some(b) => seq![b.path] + list_view(b.next) } }
impl CompilationStep { pub fn new(file: PathBuf) -> (r: CompilationStep) ensures r.path == file, r.next is None { CompilationStep { path: file, next: None } } }
// Option::take
pub fn opt_take(o: &mut Option<Box<CompilationStep>>) -> (r: Option<Box<CompilationStep>>) ensures r == *old(o), *final(o) is None { o.take() }

// ---- the per-file state and what is done with a file (abstract)
pub struct CompilationState { pub compilation_queue: Option<Box<CompilationStep>>, pub other: Buffer }
pub uninterp spec fn file_at(fm: &FileManager, p: PathBuf) -> Option<FileV>;
pub uninterp spec fn path_of(f: &FileV) -> PathBuf;
impl FileManager { #[verifier::external_body] pub fn get_ast_file(&self, p: &PathBuf) -> (r: Result<FileV, VErr>) ensures r is Ok <==> file_at(self, *p) is Some, r is Ok ==> r->Ok_0 == file_at(self, *p)->Some_0 && path_of(&r->Ok_0) == *p { unimplemented!() } }
// whose compiled code a state's function buffer holds
pub uninterp spec fn holds(s: &CompilationState) -> Option<PathBuf>;
pub uninterp spec fn content(b: &Buffer) -> Option<PathBuf>;
#[verifier::external_body] pub fn state_new() -> (r: CompilationState) ensures r.compilation_queue is None, holds(&r) is None { unimplemented!() }
// File::compile: fills the file's own state (its code, and the modules its imports queue)
#[verifier::external_body] pub fn file_compile(f: &FileV, s: &mut CompilationState) -> (r: Result<(), Vec<VErr>>) ensures r is Ok ==> holds(final(s)) == Some(path_of(f)) { unimplemented!() }
#[verifier::external_body] pub fn take_function_buffer(s: &mut CompilationState) -> (r: Buffer) ensures final(s).compilation_queue == old(s).compilation_queue, content(&r) == holds(old(s)) { unimplemented!() }
// what happens at THIS level, in order: a file handed to the driver together with a buffer (whose code it holds), the modules a file queued processed
pub enum Ev { Delivered(PathBuf, Option<PathBuf>), Recursed(PathBuf) }
pub struct Driver { pub events: Ghost<Seq<Ev>> }
#[verifier::external_body] pub fn call_driver(d: &mut Driver, f: &FileV, b: Buffer) -> (r: Result<(), VErr>) ensures r is Ok ==> final(d).events@ == old(d).events@.push(Ev::Delivered(path_of(f), content(&b))), r is Err ==> final(d).events@ == old(d).events@ { unimplemented!() }
// the recursive call on the file's own state: the same function one level down (its own deliveries are not this level's)
#[verifier::external_body] pub fn recurse(s: &mut CompilationState, fm: &FileManager, d: &mut Driver, depth: usize, Ghost(p): Ghost<PathBuf>) -> (r: Result<(), Vec<VErr>>)
    ensures r is Ok ==> final(d).events@ == old(d).events@.push(Ev::Recursed(p)), r is Err ==> final(d).events@ == old(d).events@ { unimplemented!() }
pub open spec fn expected(q: Seq<PathBuf>) -> Seq<Ev> decreases q.len() { if q.len() == 0 { Seq::empty() } else { expected(q.drop_last()) + seq![Ev::Delivered(q.last(), Some(q.last())), Ev::Recursed(q.last())] } }
pub trait ToErrVec<T> { fn to_err_vec(self) -> Result<T, Vec<VErr>>; }
impl<T> ToErrVec<T> for Result<T, VErr> { #[verifier::external_body] fn to_err_vec(self) -> (r: Result<T, Vec<VErr>>) ensures r is Ok <==> self is Ok, r is Ok ==> r->Ok_0 == self->Ok_0 { unimplemented!() } }
"""


def build(repo):
    src = Source(repo)
    log = []
    fq = src.fn(FILE, "queue_compilation", "impl CompilationState")
    bq = translate(fq["body"], [
        Rule("R10", "let mut view = self . compilation_queue . borrow_mut ( ) ;", "", why="RefCell borrow -> the queue as an explicit &mut"),
        Rule("R10", "view . take ( )", "opt_take ( queue )", why="Option::take on the cell's content"),
        Rule("R10", "* view = $$e ;", "* queue = $$e ;", why="write through the borrow"),
    ], log, "queue_compilation")
    check_closed(bq, "queue_compilation")
    fr = src.fn(FILE, "compile_recursive_interior", "impl CompilationState")
    INV = ("invariant q0 == list_view(*old(queue)), events0 == old(driver).events@, events0 + expected(q0.subrange(0, q0.len() - list_view(node).len())) == driver.events@, list_view(node).len() <= q0.len(), "
           "list_view(node) =~= q0.subrange(q0.len() - list_view(node).len(), q0.len() as int), *queue is None, ensures list_view(node).len() == 0, decreases list_view(node).len(),")
    br = translate(fr["body"], [
        Rule("R10", "let mut view = self . compilation_queue . borrow_mut ( ) ;", "", why="RefCell borrow -> the queue as an explicit &mut"),
        Rule("R10", "let mut node @ Some ( .. ) = view . take ( ) else { return Ok ( ( ) ) ; } ;",
             ["let mut node = opt_take ( queue ) ; if node . is_none ( ) { return Ok ( ( ) ) ; }", G("let ghost q0 = list_view(node); let ghost events0 = driver.events@; proof { assert(q0.subrange(0, 0) =~= Seq::<PathBuf>::empty()); assert(q0.subrange(0, q0.len() as int) =~= q0); }")], count=1,
             why="`let Some(..) = view.take() else return`: the whole list is taken out of the cell"),
        Rule("R13", "while let Some ( h ) = node { $$body }", lambda b: ["loop", G(INV), "{", "let h = match node { Some ( h ) => h , None => { break ; } } ;",
                                                                           G("let ghost n0 = list_view(Some(h)); proof { assert(n0 == seq![h.path] + list_view(h.next)); }"), *b["body"],
                                                                           G("proof { let k = (q0.len() - n0.len()) as int; lemma_expected_step(q0, k); assert(q0.subrange(k, q0.len() as int)[0] == n0[0]); assert(n0[0] == h.path); assert(list_view(node) =~= n0.skip(1)); assert(list_view(node) =~= q0.subrange(k + 1, q0.len() as int)); assert(driver.events@ =~= events0 + expected(q0.subrange(0, k + 1))); }"), "}",
                                                                           G("proof { assert(q0.subrange(0, q0.len() as int) =~= q0); }")], count=1,
             why="while-let over the linked list -> loop + match + break, with the loop invariant"),
        Rule("R1", "let mut state_for_file = CompilationState :: new ( ) ;", "let mut state_for_file = state_new ( ) ;", why="fresh state of the file"),
        Rule("R3", ". with_context ( $$c ) . to_err_vec ( ) ?", ". to_err_vec ( ) ?", why="context text dropped"),
        Rule("R6", "file . compile ( & state_for_file ) ?", "file_compile ( & file , & mut state_for_file ) ?", why="File::compile: abstract (fills the file's own state)"),
        Rule("R6", "driver ( & file , state_for_file . take_function_buffer ( ) )", "call_driver ( driver , & file , take_function_buffer ( & mut state_for_file ) )", why="the driver closure: abstract, with a ghost record of what it was handed"),
        Rule("R6", "state_for_file . compile_recursive_interior ( file_manager , driver , depth + 1 ) ?", "recurse ( & mut state_for_file , file_manager , driver , depth , Ghost ( h . path ) ) ?", why="the recursive call: the same function on the file's own state"),
    ], log, "compile_recursive_interior")
    check_closed(br, "compile_recursive_interior")
    gen = header(log, f"{FILE}: CompilationState::queue_compilation, compile_recursive_interior") + SPEC + f"""
pub proof fn lemma_expected_step(q: Seq<PathBuf>, k: int)
    requires 0 <= k < q.len()
    ensures expected(q.subrange(0, k + 1)) == expected(q.subrange(0, k)) + seq![Ev::Delivered(q[k], Some(q[k])), Ev::Recursed(q[k])]
{{
    assert(q.subrange(0, k + 1).drop_last() =~= q.subrange(0, k));
    assert(q.subrange(0, k + 1).last() == q[k]);
}}

//@ OBL C11.queue.push
pub fn queue_compilation(queue: &mut Option<Box<CompilationStep>>, path: PathBuf)
    ensures list_view(*final(queue)) == seq![path] + list_view(*old(queue))       // nothing already queued is lost
{{
{render(bq, 1)}
}}

//@ OBL C11.queue.each-once
#[verifier::exec_allows_no_decreases_clause]
pub fn compile_recursive_interior(queue: &mut Option<Box<CompilationStep>>, file_manager: &FileManager, driver: &mut Driver, depth: usize) -> (r: Result<(), Vec<VErr>>)
    requires depth < usize::MAX
    ensures
        // every queued module is handed to the driver exactly once, WITH ITS OWN compiled code, in queue order, each followed at once by the processing of what IT queued;
        // nothing else happens at this level; the queue is empty afterwards
        r is Ok ==> final(driver).events@ == old(driver).events@ + expected(list_view(*old(queue))),
        *final(queue) is None,
{{
{render(br, 1)}
}}
}} // verus!
fn main() {{}}
"""
    return gen, [Obl("C11.queue.push", ["C11"], fn="CompilationState::queue_compilation", desc="queue_compilation: the module is put in front of the queue; nothing already queued is lost"),
                 Obl("C11.queue.each-once", ["C11", "C04"], fn="CompilationState::compile_recursive_interior", desc="compile_recursive_interior: every queued module compiled and handed to the driver exactly once, in queue order, the modules it queued right behind it; the queue is empty afterwards")], log


UNITS = [VUnit("c11_queue", ["C11", "C04"], "the compilation queue: every queued module is compiled and delivered exactly once", build)]
UNITS[0].assumes = ["RefCell around the queue as an explicit &mut (R10); File::compile, the driver closure and the recursive call are abstract callees (the recursive call: the same contract one level down, termination not proved)",
                    "which modules get queued (once per module: CompilationLock) is Import::compile's business (unit c11_import)"]

"""C07 / C02 / C11: an `import` declares the names it binds -- `impl Dependencies for Import` (compiler/src/ast/import.rs).  A function body that
contains `import m` (or `import a, b from m`) and then uses `m` must not list `m` among the variables it captures from outside: the import itself
binds it, in the function's own frame, every time the function runs.  Where the impl does not override `supplies`, the text verified is the trait's
default (`trait Dependencies` in ast.rs), which is what runs then."""
from vlib.rules import *
from vlib.extract import extract_fn

FILE = "compiler/src/ast/import.rs"
AST = "compiler/src/ast.rs"

SPEC = r"""
use vstd::prelude::*;
verus! {
#[verifier::external_body] pub struct Ident { x: usize }
#[verifier::external_body] pub struct Dependency { x: usize }
#[verifier::external_body] pub struct OtherV { x: usize }
pub uninterp spec fn dep_of(i: &Ident) -> Dependency;              // Dependency::new(Cow::Borrowed(ident)): "this declaration"
#[verifier::external_body] pub fn dep_new(i: &Ident) -> (r: Dependency) ensures r == dep_of(i) { unimplemented!() }
pub enum Import { Standard { path: OtherV, store: Ident, should_queue: OtherV }, Names { path: OtherV, names: Vec<Ident>, should_queue: OtherV } }
"""

INV = """invariant verif_i <= verif_src@.len(), verif_out@.len() == verif_i, forall|j: int| 0 <= j < verif_i ==> #[trigger] verif_out@[j] == dep_of(&verif_src@[j]),
        decreases verif_src@.len() - verif_i,"""


def build(repo):
    src = Source(repo)
    log = []
    impl = src.item(FILE, "impl Dependencies for Import")
    try:
        body = list(extract_fn(impl["body"], "supplies")["body"])
        where = "impl Dependencies for Import"
    except Exception:
        tr = src.item(AST, "pub ( crate ) trait Dependencies")
        body = list(extract_fn(tr["body"], "supplies")["body"])
        where = "trait Dependencies (default method: the impl does not override it)"
        log.append(("R0", "impl Dependencies for Import { (no fn supplies) }", "the default body of Dependencies::supplies", "a method the impl does not override is the trait's default"))

    def chain(b):
        return ["{", "let verif_src =", *b["v"], "; let mut verif_out : Vec < Dependency > = Vec :: new ( ) ; let mut verif_i : usize = 0 ;",
                "while verif_i < verif_src . len ( )", G(INV), "{", "let", *b["x"], "= & verif_src [ verif_i ] ;", "let verif_item =", *b["body"], ";",
                "verif_out . push ( verif_item ) ; verif_i += 1 ;", "}", "verif_out", "}"]
    b = translate(body, [
        Rule("R1", "Self :: $v", "Import :: $v", why="Self"),
        Rule("R2", "$v . iter ( ) . map ( | $x | $$body ) . collect ( )", chain, why="iter().map(closure).collect(): the loop that evaluates the closure body for each item in order"),
        Rule("R6", "Dependency :: new ( Cow :: Borrowed ( $$i ) )", "dep_new ( $$i )", why="Dependency::new: the dependency that stands for this declaration"),
        R12_VEC_LITERAL, R12_VEC_EMPTY,
    ], log, "Import::supplies")
    check_closed(b, "Import::supplies")
    gen = header(log, f"{FILE}: impl Dependencies for Import, fn supplies ({where})") + SPEC + f"""
impl Import {{
    //@ OBL C07.import.supplies
    pub fn supplies(&self) -> (r: Vec<Dependency>)
        ensures
            // `import m`: the module's name; `import a, b from m`: each imported name, once, in order
            self is Standard ==> r@ == seq![dep_of(&self->store)],
            self is Names ==> r@.len() == self->names@.len() && forall|j: int| 0 <= j < r@.len() ==> #[trigger] r@[j] == dep_of(&self->names@[j]),
    {{
{render(b, 2)}
    }}
}}
}} // verus!
fn main() {{}}
"""
    return gen, [Obl("C07.import.supplies", ["C07", "C02", "C11"], fn="Import::supplies", desc="an import supplies the names it binds (the module's name, or each imported name): a function that imports inside its body does not capture those names from outside")], log


UNITS = [VUnit("c07_import_supplies", ["C07", "C02", "C11"], "an import declares the names it binds", build)]
UNITS[0].assumes = ["Dependency::new abstract (`dep_of`); how supplies are subtracted from dependencies is get_net_dependencies (unit c07_deps)"]

"""C02 / C03: the scope accessors the return checks are written with (compiler/src/parser.rs AssocFileData, compiler/src/scope.rs ScopeReturnStatus) --
assumed as uninterpreted lookups by the parser units c03_return, c02_member_return, c03_conditions.
  return_statement_expected_yield_type : the type a `return` here must yield is the one the INNERMOST scope that promises / has a value carries
        (a block inherits its function's as `ParentShould`; a nested function literal shadows the outer function's) -- walking outwards, the first hit;
  ScopeReturnStatus::get_type          : `Should` / `ParentShould` / `Did` carry their type, `Void` the void type, everything else none;
  ScopeReturnStatus::mark_should_return_as_completed : a scope that owed a value HAS returned one of the same type afterwards (`Did`), nothing else changes;
  is_inside_function                   : some enclosing scope is a function's (what makes a bare `return` leave a function rather than the module: D110)."""
from vlib.rules import *

FILE = "compiler/src/parser.rs"
SCOPE = "compiler/src/scope.rs"

SPEC = r"""
use vstd::prelude::*;
verus! {
pub struct VErr;
#[verifier::external_body] pub struct TypeV { x: usize }
#[verifier::external_body] pub struct OtherV { x: usize }
pub uninterp spec fn void_type() -> TypeV;
#[verifier::external_body] pub fn void_type_ref() -> (r: &'static TypeV) ensures *r == void_type() { unimplemented!() }
impl TypeV { #[verifier::external_body] pub fn clone(&self) -> (r: TypeV) ensures r == *self { unimplemented!() } }
pub enum ScopeReturnStatus { No, Void, Should(TypeV), ParentShould(TypeV), Did(TypeV) }
// what a scope promises / has: from the property -- a scope that owes or has returned a value of type T "yields T"; a void scope yields the void type
pub open spec fn yields_type(s: ScopeReturnStatus) -> Option<TypeV> {
    match s { ScopeReturnStatus::Should(t) => Some(t), ScopeReturnStatus::ParentShould(t) => Some(t), ScopeReturnStatus::Did(t) => Some(t), ScopeReturnStatus::Void => Some(void_type()), ScopeReturnStatus::No => None }
}
pub enum ScopeType { File, Function(Option<OtherV>), IfBlock, ElseBlock, WhileLoop, NumberLoop, Class(Option<OtherV>) }
pub struct Scope { pub ty: ScopeType, pub yields: ScopeReturnStatus }
impl Scope {
    pub fn peek_yields_value(&self) -> (r: &ScopeReturnStatus) ensures *r == self.yields { &self.yields }
    pub fn is_function(&self) -> (r: bool) ensures r == (self.ty is Function) { match self.ty { ScopeType::Function(_) => true, _ => false } }        // obligation C01.scopes_since_loop carries its body
}
// the stack itself (Scopes(RefCell<Vec<Scope>>)): outermost first, the LAST element is the scope the statement stands in
pub struct Scopes { pub v: Vec<Scope> }
pub fn opt_unwrap_scope(o: Option<Scope>) -> (r: Scope) requires o is Some ensures r == o->Some_0 { match o { Some(s) => s, None => vstd::pervasive::unreached() } }
// ScopeStack::iter(): innermost scope first -- index 0 is the scope the statement stands in
pub struct AssocFileData { pub scopes: Vec<Scope> }
// first scope from the inside that yields a type
pub open spec fn first_yield(scopes: Seq<Scope>, i: int) -> Option<TypeV> decreases scopes.len() - i {
    if i < 0 || i >= scopes.len() { None } else if yields_type(scopes[i].yields) is Some { yields_type(scopes[i].yields) } else { first_yield(scopes, i + 1) }
}
"""


def iflet_alts(bb):
    alts, cur = [], []
    for t in bb["alts"]:
        if t == "|":
            alts.append(cur); cur = []
        else:
            cur.append(t)
    alts.append(cur)
    arms = []
    for a in alts:
        if a[:2] != ["Self", "::"]:
            return None
        arms.append("ScopeReturnStatus :: " + text(a[2:]) + " => { " + text(bb["b"]) + " } ,")
    return "match self { " + " ".join(arms) + " _ => { } }"


def build(repo):
    src = Source(repo)
    log = []
    # ScopeReturnStatus::get_type / mark_should_return_as_completed
    fg = src.fn(SCOPE, "get_type", "impl ScopeReturnStatus")
    bg = translate(fg["body"], [
        Rule("R1", "Self :: Did ( x ) | Self :: ParentShould ( x ) | Self :: Should ( x ) => Some ( x )", "ScopeReturnStatus :: Did ( x ) => Some ( x ) , ScopeReturnStatus :: ParentShould ( x ) => Some ( x ) , ScopeReturnStatus :: Should ( x ) => Some ( x )", why="or-pattern with one binding split into its alternatives"),
        Rule("R1", "Self :: Void => Some ( & VOID_TYPE . 0 )", "ScopeReturnStatus :: Void => Some ( void_type_ref ( ) )", why="the static void type"),
    ], log, "ScopeReturnStatus::get_type")
    fmk = src.fn(SCOPE, "mark_should_return_as_completed", "impl ScopeReturnStatus")
    bmk = translate(fmk["body"], [
        Rule("R1", "if let $$alts = self { $$b } ;", iflet_alts, count=1, why="if-let with an or-pattern -> match, the block once per alternative"),
        Rule("R13", "* self = ScopeReturnStatus :: Did ( x ) ;", "let verif_new = ScopeReturnStatus :: Did ( x ) ; * self = verif_new ;", why="assignment through &mut self"),
        Rule("R1", "Ok ( self )", "Ok ( ( ) )", why="the &mut Self result only signals success"),
    ], log, "ScopeReturnStatus::mark_should_return_as_completed")
    # AssocFileData::return_statement_expected_yield_type / is_inside_function
    fr = src.fn(FILE, "return_statement_expected_yield_type")
    INV = ("invariant_except_break first_yield(self.scopes@, 0) == first_yield(self.scopes@, verif_k as int),\ninvariant verif_k <= self.scopes@.len(),\nensures first_yield(self.scopes@, 0) is None,\ndecreases self.scopes@.len() - verif_k,")
    br = translate(fr["body"], [
        Rule("R2", "for $x in self . scopes . iter ( ) { $$body }",
             lambda bb: ["let mut verif_k : usize = 0 ; while verif_k < self . scopes . len ( )", G(INV), "{", f"let {text(bb['x'])} = & self . scopes [ verif_k ] ; verif_k += 1 ;", *bb["body"], "}"],
             count=1, why="for over ScopeStack::iter() (innermost scope first) -> indexed while over the scope sequence"),
        Rule("R10", "let Ok ( result ) = Ref :: filter_map ( scope , | x | x . peek_yields_value ( ) . get_type ( ) ) else { $$e } ;", "let Some ( result ) = scope . peek_yields_value ( ) . get_type ( ) else { $$e } ;", count=1, why="Ref::filter_map on the borrowed scope: the projected value, or nothing (R10)"),
        Rule("R1", "return Some ( result ) ;", "return Some ( result . clone ( ) ) ;", why="the Ref handed out: the type itself"),
    ], log, "return_statement_expected_yield_type")
    fi = src.fn(FILE, "is_inside_function")
    ANYINV = ("invariant verif_j <= self.scopes@.len(), forall|i: int| 0 <= i < verif_j ==> !((#[trigger] self.scopes@[i]).ty is Function),\ndecreases self.scopes@.len() - verif_j,")
    bi = translate(fi["body"], [
        Rule("R2", "for $x in self . scopes . iter ( ) { $$body }",
             lambda bb: ["let mut verif_j : usize = 0 ; while verif_j < self . scopes . len ( )", G(ANYINV), "{", f"let {text(bb['x'])} = & self . scopes [ verif_j ] ; verif_j += 1 ;", *bb["body"], "}"],
             count=1, why="for over ScopeStack::iter() -> indexed while over the scope sequence (the any() chain was put in loop form by the generic normalisation)"),
    ], log, "is_inside_function")
    # Scope::mark_should_return_as_completed, Scopes::mark_should_return_as_completed
    fsm = src.fn(SCOPE, "mark_should_return_as_completed", "impl Scope")
    bsm = translate(fsm["body"], [], log, "Scope::mark_should_return_as_completed")
    fss = src.fn(SCOPE, "mark_should_return_as_completed", "impl Scopes")
    bss = translate(fss["body"], [
        Rule("R10", "let mut x = self . 0 . borrow_mut ( ) ;", "", count=1, why="RefCell borrow of the stack: the stack itself (R10)"),
        Rule("R13", "x . last_mut ( ) . unwrap ( ) . mark_should_return_as_completed ( )",
             "{ let mut verif_last = opt_unwrap_scope ( self . v . pop ( ) ) ; let verif_r = verif_last . mark_should_return_as_completed ( ) ; self . v . push ( verif_last ) ; verif_r }",
             count=1, why="a method through `last_mut().unwrap()`: the last element taken out, the method called on it, put back (R13); unwrap on an empty stack is a panic precondition (R8)"),
    ], log, "Scopes::mark_should_return_as_completed")
    check_closed(bsm, "Scope::mark"); check_closed(bss, "Scopes::mark")
    for b, w in ((bg, "get_type"), (bmk, "mark"), (br, "expected_yield"), (bi, "is_inside_function")):
        check_closed(b, w)
    gen = header(log, f"{SCOPE}: ScopeReturnStatus::get_type, mark_should_return_as_completed; {FILE}: AssocFileData::return_statement_expected_yield_type, is_inside_function") + SPEC + f"""
impl ScopeReturnStatus {{
    //@ OBL C02.scope.get_type
    pub fn get_type(&self) -> (r: Option<&TypeV>)
        ensures r is Some <==> yields_type(*self) is Some, r is Some ==> *r->Some_0 == yields_type(*self)->Some_0
    {{
{render(bg, 2)}
    }}
    //@ OBL C02.scope.mark-returned
    // a scope that owed (or had) a value of type T has returned a T afterwards; a scope that owes nothing is unchanged
    pub fn mark_should_return_as_completed(&mut self) -> (r: Result<(), VErr>)
        ensures r is Ok,
            (*old(self) is Should || *old(self) is ParentShould || *old(self) is Did) ==> *final(self) is Did && Some(final(self)->Did_0) == yields_type(*old(self)),
            (*old(self) is No || *old(self) is Void) ==> *final(self) == *old(self),
    {{
{render(bmk, 2)}
    }}
}}
impl Scope {{
    //@ OBL C02.scope.mark-returned.scope
    pub fn mark_should_return_as_completed(&mut self) -> (r: bool)
        ensures r, final(self).ty == old(self).ty,
            (old(self).yields is Should || old(self).yields is ParentShould || old(self).yields is Did) ==> final(self).yields is Did && Some(final(self).yields->Did_0) == yields_type(old(self).yields),
            (old(self).yields is No || old(self).yields is Void) ==> final(self).yields == old(self).yields,
    {{
{render(bsm, 2)}
    }}
}}
impl Scopes {{
    //@ OBL C02.scope.mark-returned.innermost-only
    // a `return` marks the scope it stands in -- the innermost one -- and no other: an enclosing function or block is only marked by what ITS statements decide
    pub fn mark_should_return_as_completed(&mut self) -> (r: bool)
        requires old(self).v@.len() > 0            // there is always the file scope
        ensures final(self).v@.len() == old(self).v@.len(),
            forall|i: int| 0 <= i < old(self).v@.len() - 1 ==> final(self).v@[i] == old(self).v@[i],
            ({{ let o = old(self).v@.last(); let n = final(self).v@.last();
               &&& n.ty == o.ty
               &&& (o.yields is Should || o.yields is ParentShould || o.yields is Did) ==> n.yields is Did && Some(n.yields->Did_0) == yields_type(o.yields)
               &&& (o.yields is No || o.yields is Void) ==> n.yields == o.yields }}),
    {{
{render(bss, 2)}
    }}
}}
impl AssocFileData {{
    //@ OBL C02.scope.expected-yield
    pub fn return_statement_expected_yield_type(&self) -> (r: Option<TypeV>)
        ensures r == first_yield(self.scopes@, 0)
    {{
{render(br, 2)}
    }}
    //@ OBL C02.scope.inside-function
    pub fn is_inside_function(&self) -> (r: bool)
        ensures r == (exists|i: int| 0 <= i < self.scopes@.len() && (#[trigger] self.scopes@[i]).ty is Function)
    {{
{render(bi, 2)}
    }}
}}
}} // verus!
fn main() {{}}
"""
    return gen, [Obl("C02.scope.get_type", ["C02", "C03"], fn="ScopeReturnStatus::get_type", desc="the type a scope's return status carries: Should / ParentShould / Did their own, Void the void type, otherwise none"),
                 Obl("C02.scope.mark-returned", ["C02", "C03"], fn="ScopeReturnStatus::mark_should_return_as_completed", desc="marking a scope as returned: owed / inherited / already returned T -> returned T; a scope that owes nothing is unchanged"),
                 Obl("C02.scope.mark-returned.scope", ["C02", "C03"], fn="Scope::mark_should_return_as_completed", desc="Scope::mark_should_return_as_completed: the scope's status is marked, its kind untouched"),
                 Obl("C02.scope.mark-returned.innermost-only", ["C02", "C03"], fn="Scopes::mark_should_return_as_completed", desc="a `return` marks the innermost scope and no other"),
                 Obl("C02.scope.expected-yield", ["C02", "C03"], fn="AssocFileData::return_statement_expected_yield_type", desc="the type a `return` must yield: that of the innermost scope, walking outwards, whose status carries one"),
                 Obl("C02.scope.inside-function", ["C02", "C11"], fn="AssocFileData::is_inside_function", desc="is_inside_function: some enclosing scope is a function's")], log


UNITS = [VUnit("c02_scope_accessors", ["C02", "C03", "C11"], "the scope accessors the return checks rely on", build)]
UNITS[0].assumes = ["the scope stack as a sequence, innermost first (ScopeStack::iter's order: unit c01_scopes); Ref::filter_map as a projection (R10)"]

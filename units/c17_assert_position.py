"""C17 (compile side of "a failed `assert` names the file, line and column of that `assert`"): the tail of Parser::assertion
(compiler/src/ast/assertion.rs) that builds the position text baked into the `assert` instruction, and Assertion::compile which hands
exactly that text to the instruction.  The run-time side (the handler's error cites the text it was given) is unit c01_assert.
Contract: the text is  FILE ':' LINE ':' COL  where FILE is the SOURCE file's name and (LINE, COL) is the position of the START of the
assert statement as pest counts it (`Position::line_col`: lines from 1, columns in CHARACTERS from 1) -- the same convention every
compile-time diagnostic uses (unit c16_new_err), so that the two kinds of report agree on where a statement is."""
from vlib.rules import *
from vlib.pattern import Pat

FILE = "compiler/src/ast/assertion.rs"

SPEC = r"""
use vstd::prelude::*;
verus! {
pub struct VErr;
// ---- pest: Node -> Span -> Position -> (line, column)
#[verifier::external_body] pub struct Node { x: usize }
#[verifier::external_body] pub struct SpanV { x: usize }
#[verifier::external_body] pub struct PosV { x: usize }
pub uninterp spec fn span_of(n: &Node) -> SpanV;
pub uninterp spec fn start_of(s: &SpanV) -> PosV;
pub uninterp spec fn end_of(s: &SpanV) -> PosV;
pub uninterp spec fn pest_line(p: &PosV) -> int;            // Position::line_col().0: lines counted from 1
pub uninterp spec fn pest_col(p: &PosV) -> int;             // Position::line_col().1: CHARACTERS since the line start, from 1
pub uninterp spec fn byte_offset(p: &PosV) -> int;          // Position::pos(): a byte offset -- another thing
impl Node { #[verifier::external_body] pub fn as_span(&self) -> (r: SpanV) ensures r == span_of(self) { unimplemented!() }
            #[verifier::external_body] pub fn user_data(&self) -> (r: UD) { unimplemented!() } }
impl SpanV {
    #[verifier::external_body] pub fn start_pos(&self) -> (r: PosV) ensures r == start_of(self) { unimplemented!() }
    #[verifier::external_body] pub fn end_pos(&self) -> (r: PosV) ensures r == end_of(self) { unimplemented!() }
    #[verifier::external_body] pub fn start(&self) -> (r: usize) ensures r == byte_offset(&start_of(self)) { unimplemented!() }
    #[verifier::external_body] pub fn end(&self) -> (r: usize) ensures r == byte_offset(&end_of(self)) { unimplemented!() }
}
impl PosV {
    #[verifier::external_body] pub fn line_col(&self) -> (r: (usize, usize)) ensures r.0 == pest_line(self), r.1 == pest_col(self) { unimplemented!() }
    #[verifier::external_body] pub fn pos(&self) -> (r: usize) ensures r == byte_offset(self) { unimplemented!() }
}
// ---- the file names the compiler knows for the unit being compiled
pub struct UD { pub x: usize }
pub uninterp spec fn source_file_name() -> Seq<char>;       // x.ms
pub uninterp spec fn bytecode_file_name() -> Seq<char>;     // x.mmm
impl UD {
    #[verifier::external_body] pub fn get_source_file_name(&self) -> (r: Vec<char>) ensures r@ == source_file_name() { unimplemented!() }
    #[verifier::external_body] pub fn get_file_name(&self) -> (r: Vec<char>) ensures r@ == bytecode_file_name() { unimplemented!() }
}
""" + FORMAT_PRELUDE + r"""
#[verifier::external_body] pub struct Value { x: usize }
pub struct Assertion { pub value: Value, pub span: Vec<char> }
pub open spec fn position_text(file: Seq<char>, line: int, col: int) -> Seq<char> { file + seq![':'] + dec_text(line) + seq![':'] + dec_text(col) }
"""


def build(repo):
    src = Source(repo)
    log = []
    f = src.fn(FILE, "assertion", "impl Parser")
    body = list(f["body"])
    p = Pat("let input_span = $$e ;")
    at = next((i for i in range(len(body)) if p.match_at(body, i)), None)
    if at is None:
        raise Undecided(f"{FILE}: `let input_span = ..;` (start of the position text) not found in Parser::assertion")
    frag = body[at:]
    log.append(("R0", "Parser::assertion", "from `let input_span = input.as_span();` to the end", "fragment: the typed value is a parameter; the type check in front is obligation C03.assert.condition"))
    b = translate(frag, [
        Rule("R9", "format ! ( $$a )", format_args, why="format!: the pieces appended in order (Display of a number: its decimal numeral; of a text: the text)"),
    ], log, "Parser::assertion[position]")
    check_closed(b, "Parser::assertion[position]")
    gen = header(log, f"{FILE}: Parser::assertion (position text of the assert instruction)") + SPEC + f"""
//@ OBL C17.assert.position-text
pub fn assertion_tail(input: Node, value: Value) -> (r: Result<Assertion, VErr>)
    ensures r is Ok && r->Ok_0.span@ =~= position_text(source_file_name(), pest_line(&start_of(&span_of(&input))), pest_col(&start_of(&span_of(&input)))),
{{
{render(b, 1)}
}}
}} // verus!
fn main() {{}}
"""
    # Assertion::compile hands self.span (and nothing else) to the instruction: a finite scan of the one statement
    fc = src.fn(FILE, "compile", "impl Compile for Assertion")
    txt = " ".join(fc["body"])
    ok = "instruction ! ( assert ( self . span ) )" in txt and txt.count("instruction !") == 1
    scan = Obl("C17.assert.position-arg", ["C17"], engine="finite scan of Assertion::compile (python)", desc="Assertion::compile emits exactly one instruction, `assert`, whose argument is the stored position text")
    scan.status = "discharged" if ok else "failed"
    scan.detail = "" if ok else "Assertion::compile no longer emits exactly `instruction!(assert(self.span))`"
    scan.pre_decided = True
    return gen, [Obl("C17.assert.position-text", ["C17"], fn="Parser::assertion[position]",
                     desc="the position text of an assert is SOURCEFILE:LINE:COL of the START of the assert statement, line and column as pest counts them (columns in characters)"), scan], log


UNITS = [VUnit("c17_assert_position", ["C17"], "the position an assert instruction carries: source file, line and column of the statement's start", build)]
UNITS[0].assumes = ["pest's Span / Position API is abstract: `line_col()` is taken as THE definition of line and column (lines from 1, columns in characters from 1); a position computed another way (byte offsets) is not known to agree with it",
                    "fragment: the tail of Parser::assertion; format! appends the Display of its pieces in order"]

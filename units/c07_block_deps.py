"""C07: the capture analysis of blocks and functions, and the capture LIST a function value is made with.
`impl Dependencies for Block` (function_body.rs): a block supplies what its statements supply and depends on what its statements depend on
(each net of its own inner scopes).  `impl Dependencies for Function` (function.rs): a function supplies its parameters and depends on what its
body depends on.  `Function::in_place_compile_for_value`: the `make_function` instruction names the function's label followed by EXACTLY the
names of the function's net dependencies -- the variables the interpreter's make_function then binds by reference (unit c07_make_function)."""
from vlib.rules import *
from vlib.extract import extract_fn

BODY = "compiler/src/ast/function_body.rs"
FUNC = "compiler/src/ast/function.rs"

SPEC = r"""
use vstd::prelude::*;
verus! {
pub struct VErr;
#[verifier::external_body] pub struct Dependency { x: usize }
pub uninterp spec fn dep_name(d: &Dependency) -> Seq<char>;
#[verifier::external_body] pub struct Declaration { x: usize }
pub uninterp spec fn decl_supplies(d: &Declaration) -> Seq<Dependency>;
pub uninterp spec fn decl_net(d: &Declaration) -> Seq<Dependency>;
impl Declaration {
    #[verifier::external_body] pub fn supplies(&self) -> (r: Vec<Dependency>) ensures r@ == decl_supplies(self) { unimplemented!() }
    #[verifier::external_body] pub fn net_dependencies(&self) -> (r: Vec<Dependency>) ensures r@ == decl_net(self) { unimplemented!() }
}
pub open spec fn cat_supplies(ds: Seq<Declaration>) -> Seq<Dependency> decreases ds.len() { if ds.len() == 0 { Seq::empty() } else { cat_supplies(ds.drop_last()) + decl_supplies(&ds.last()) } }
pub open spec fn cat_net(ds: Seq<Declaration>) -> Seq<Dependency> decreases ds.len() { if ds.len() == 0 { Seq::empty() } else { cat_net(ds.drop_last()) + decl_net(&ds.last()) } }
// `v.iter().flat_map(|x| x.F()).collect()`: the results in order (iteration order of slice::Iter + FlatMap)
#[verifier::external_body] pub fn flat_map_supplies(v: &Vec<Declaration>) -> (r: Vec<Dependency>) ensures r@ == cat_supplies(v@) { unimplemented!() }
#[verifier::external_body] pub fn flat_map_net(v: &Vec<Declaration>) -> (r: Vec<Dependency>) ensures r@ == cat_net(v@) { unimplemented!() }
pub struct Block(pub Vec<Declaration>);
// ---- Function
#[verifier::external_body] pub struct ParamsV { x: usize }
pub uninterp spec fn params_supplies(p: &ParamsV) -> Seq<Dependency>;
impl ParamsV { #[verifier::external_body] pub fn supplies(&self) -> (r: Vec<Dependency>) ensures r@ == params_supplies(self) { unimplemented!() } }
#[verifier::external_body] pub struct BodyV { x: usize }
pub uninterp spec fn body_net(b: &BodyV) -> Seq<Dependency>;
// how many FUNCTION boundaries a dependency has crossed on its way outward: only after crossing one may a same-named plain local of the surrounding
// code stand for a captured variable (eq_allow_callbacks); a block (if / while / from body) is not a function boundary (D97)
pub uninterp spec fn dep_cycles(d: &Dependency) -> nat;
pub uninterp spec fn dep_ident(d: &Dependency) -> int;
impl Dependency { #[verifier::external_body] pub fn increment_cycle(&mut self) ensures dep_cycles(final(self)) == dep_cycles(old(self)) + 1, dep_ident(final(self)) == dep_ident(old(self)), dep_name(final(self)) == dep_name(old(self)) { unimplemented!() } }
pub open spec fn crossed(a: Seq<Dependency>, b: Seq<Dependency>) -> bool { b.len() == a.len() && forall|i: int| 0 <= i < a.len() ==> dep_ident(#[trigger] &b[i]) == dep_ident(&a[i]) && dep_name(&b[i]) == dep_name(&a[i]) && dep_cycles(&b[i]) == dep_cycles(&a[i]) + 1 }
// get_net_dependencies(item, is_scope) (unit c07_net_deps)
pub uninterp spec fn net_of_block(b: &Block, is_scope: bool) -> Seq<Dependency>;
#[verifier::external_body] pub fn get_net_dependencies(b: &Block, is_scope: bool) -> (r: Vec<Dependency>) ensures r@ == net_of_block(b, is_scope) { unimplemented!() }
impl BodyV { #[verifier::external_body] pub fn net_dependencies(&self) -> (r: Vec<Dependency>) ensures r@ == body_net(self) { unimplemented!() } }
// ---- the capture list
#[verifier::external_body] pub struct VString { x: usize }
pub uninterp spec fn text_of(s: &VString) -> Seq<char>;
impl Dependency { #[verifier::external_body] pub fn name(&self) -> (r: &VString) ensures text_of(r) == dep_name(self) { unimplemented!() } }
impl VString { #[verifier::external_body] pub fn to_owned(&self) -> (r: VString) ensures text_of(&r) == text_of(self) { unimplemented!() } }
#[verifier::external_body] pub struct NameSet { x: usize }                     // HashSet<String>
pub uninterp spec fn set_view(s: &NameSet) -> Set<Seq<char>>;
#[verifier::external_body] pub fn nameset_with_capacity(n: usize) -> (r: NameSet) ensures set_view(&r) == Set::<Seq<char>>::empty() { unimplemented!() }
impl NameSet { #[verifier::external_body] pub fn insert(&mut self, s: VString) -> (b: bool) ensures set_view(final(self)) == set_view(old(self)).insert(text_of(&s)) { unimplemented!() } }
pub open spec fn texts(v: Seq<VString>) -> Seq<Seq<char>> { v.map_values(|s: VString| text_of(&s)) }
// Vec::extend(HashSet): every element once, in SOME order
#[verifier::external_body] pub fn extend_from_set(v: &mut Vec<VString>, s: NameSet)
    ensures final(v)@.len() >= old(v)@.len(), final(v)@.subrange(0, old(v)@.len() as int) == old(v)@,
            texts(final(v)@.subrange(old(v)@.len() as int, final(v)@.len() as int)).to_set() == set_view(&s) { unimplemented!() }
pub open spec fn names_of(ds: Seq<Dependency>) -> Set<Seq<char>> { ds.map_values(|d: Dependency| dep_name(&d)).to_set() }
pub proof fn lemma_names_push(ds: Seq<Dependency>, k: int) requires 0 <= k < ds.len()
    ensures names_of(ds.subrange(0, k + 1)) == names_of(ds.subrange(0, k)).insert(dep_name(&ds[k]))
{
    let a = ds.subrange(0, k + 1).map_values(|d: Dependency| dep_name(&d)); let b = ds.subrange(0, k).map_values(|d: Dependency| dep_name(&d));
    assert(a =~= b.push(dep_name(&ds[k])));
    assert forall|x: Seq<char>| a.to_set().contains(x) <==> b.to_set().insert(dep_name(&ds[k])).contains(x) by {
        if a.to_set().contains(x) { let i = choose|i: int| 0 <= i < a.len() && a[i] == x; if i < k { assert(b[i] == x); } }
        if b.to_set().contains(x) { let i = choose|i: int| 0 <= i < b.len() && b[i] == x; assert(a[i] == x); }
        if x == dep_name(&ds[k]) { assert(a[k] == x); }
    }
    assert(a.to_set() =~= b.to_set().insert(dep_name(&ds[k])));
}
#[verifier::external_body] pub fn label_of(x: &VString, id: &VString) -> (r: VString) { unimplemented!() }          // format!("{x}#{id}")
#[verifier::external_body] pub fn vec1(a: VString) -> (r: Vec<VString>) ensures r@ == seq![a] { unimplemented!() }
"""


def build(repo):
    src = Source(repo)
    log = []
    ib = src.item(BODY, "impl Dependencies for Block")
    bs = translate(list(extract_fn(ib["body"], "supplies")["body"]), [
        Rule("R2", "self . 0 . iter ( ) . flat_map ( | $x | $x . supplies ( ) ) . collect ( )", "flat_map_supplies ( & self . 0 )", why="iter().flat_map(|x| x.supplies()).collect(): the statements' supplies in order")], log, "Block::supplies", generic=False)
    bd = translate(list(extract_fn(ib["body"], "dependencies")["body"]), [
        Rule("R2", "self . 0 . iter ( ) . flat_map ( | $x | $x . net_dependencies ( ) ) . collect ( )", "flat_map_net ( & self . 0 )", why="iter().flat_map(|x| x.net_dependencies()).collect(): the statements' free variables in order"),
        Rule("R1", "let block_dependencies = $$e ;", "let block_dependencies : Vec < Dependency > = $$e ;", why="type ascription")], log, "Block::dependencies", generic=False)
    bn = translate(list(extract_fn(ib["body"], "net_dependencies")["body"]), [], log, "Block::net_dependencies", generic=False)
    check_closed(bn, "Block::net_dependencies")
    try:
        fc = src.fn("compiler/src/ast.rs", "crossing_function_boundary")
        bc = translate(fc["body"], [
            Rule("R2", "for dependency in & mut dependencies { $$body }", lambda b: ["let ghost verif_d0 = dependencies@ ; let mut verif_k : usize = 0 ; while verif_k < dependencies . len ( )",
                 G("invariant verif_k <= dependencies@.len(), dependencies@.len() == verif_d0.len(), forall|i: int| 0 <= i < verif_k ==> dep_ident(#[trigger] &dependencies@[i]) == dep_ident(&verif_d0[i]) && dep_name(&dependencies@[i]) == dep_name(&verif_d0[i]) && dep_cycles(&dependencies@[i]) == dep_cycles(&verif_d0[i]) + 1, forall|i: int| verif_k <= i < verif_d0.len() ==> #[trigger] dependencies@[i] == verif_d0[i], decreases dependencies@.len() - verif_k"),
                 "{ let mut dependency = dep_take ( & dependencies , verif_k ) ;", *b["body"], "dependencies . set ( verif_k , dependency ) ; verif_k += 1 ; }"], count=1, why="for over &mut Vec -> indexed while (take, change, put back)"),
        ], log, "crossing_function_boundary")
        check_closed(bc, "crossing_function_boundary")
        cross_txt = render(bc, 1)
    except Undecided:
        cross_txt = None
    ifn = src.item(FUNC, "impl Dependencies for Function")
    fs = list(extract_fn(ifn["body"], "supplies")["body"])
    fd = translate(list(extract_fn(ifn["body"], "dependencies")["body"]), [Rule("R1", "crate :: ast :: crossing_function_boundary", "crossing_function_boundary", why="path of the helper")], log, "Function::dependencies", generic=False)
    for t, w in ((bs, "Block::supplies"), (bd, "Block::dependencies"), (fs, "Function::supplies"), (fd, "Function::dependencies")):
        check_closed(t, w)
    # in_place_compile_for_value: from `let dependencies = self.net_dependencies();` to the make_function instruction
    fv = src.fn(FUNC, "in_place_compile_for_value")
    from vlib.pattern import Pat
    body = fv["body"]
    a = e = None
    for i in range(len(body)):
        if a is None and Pat("let dependencies = self . net_dependencies ( ) ;").match_at(body, i):
            a = i
        r = Pat("let make_function_instruction = CompiledItem :: Instruction { id : MAKE_FUNCTION , arguments , } ;").match_at(body, i)
        if r:
            e = i; break
    if a is None or e is None:
        raise Undecided(f"{FUNC}: in_place_compile_for_value: the capture-list fragment (`let dependencies = ..` .. `let make_function_instruction = ..`) not found")
    frag = list(body[a:e])
    INV = ("invariant verif_k <= dependencies.len(), set_view(&dependency_list) == names_of(dependencies@.subrange(0, verif_k as int)) decreases dependencies.len() - verif_k")
    cap = translate(frag, [
        Rule("R10", "HashSet :: with_capacity ( $$n )", "nameset_with_capacity ( $$n )", why="HashSet<String> as a set of texts"),
        Rule("R1", "let x = location . bytecode_str ( ) ;", "", why="the label's path text: a parameter of the fragment"),
        Rule("R2", "for dependency in dependencies { $$body }", lambda b: [G("proof { assert(dependencies@.subrange(0, 0).map_values(|d: Dependency| dep_name(&d)) =~= Seq::empty()); assert(names_of(dependencies@.subrange(0, 0)) =~= Set::empty()); }"),
                                                                        "let mut verif_k : usize = 0 ; while verif_k < dependencies . len ( )", G(INV), "{ let dependency = & dependencies [ verif_k ] ; verif_k += 1 ;",
                                                                        G("proof { lemma_names_push(dependencies@, verif_k as int - 1); }"), *b["body"], "}",
                                                                        G("proof { assert(dependencies@.subrange(0, dependencies@.len() as int) =~= dependencies@); }")], count=1, why="for over Vec -> indexed while"),
        Rule("R9", "vec ! [ format ! ( \"{x}#{id}\" ) ]", "vec1 ( label_of ( x , id ) )", why="the function's label `<path>#<id>`"),
        Rule("R10", "arguments . extend ( dependency_list ) ;", "extend_from_set ( & mut arguments , dependency_list ) ;", why="Vec::extend(HashSet): every name once, in some order"),
        Rule("R1", "let arguments = arguments . into_boxed_slice ( ) ;", "", why="boxed slice: the same elements"),
    ], log, "Function::in_place_compile_for_value[capture list]")
    check_closed(cap, "in_place_compile_for_value")
    gen = header(log, f"{BODY}: impl Dependencies for Block; {FUNC}: impl Dependencies for Function, Function::in_place_compile_for_value (capture list)") + SPEC + f"""
#[verifier::external_body] pub fn dep_take(v: &Vec<Dependency>, k: usize) -> (r: Dependency) requires k < v@.len() ensures r == v@[k as int] {{ unimplemented!() }}
""" + (f"""
//@ OBL C07.function.crossing
pub fn crossing_function_boundary(dependencies: Vec<Dependency>) -> (r: Vec<Dependency>) ensures crossed(dependencies@, r@)
{{{{
    let mut dependencies = dependencies;
{cross_txt}
}}}}
""" if cross_txt else """
// (no such helper in the source: a Function hands on its body's dependencies as they are)
#[verifier::external_body] pub fn crossing_function_boundary(dependencies: Vec<Dependency>) -> (r: Vec<Dependency>) ensures crossed(dependencies@, r@) {{ unimplemented!() }}
""") + f"""
impl Block {{
    //@ OBL C07.block.net
    // a block (also the body of an if / while / from) is NOT a function boundary
    pub fn net_dependencies(&self) -> (r: Vec<Dependency>) ensures r@ == net_of_block(self, false)
    {{
{render(bn, 2)}
    }}
    //@ OBL C07.block.supplies
    pub fn supplies(&self) -> (r: Vec<Dependency>) ensures r@ == cat_supplies(self.0@)
    {{
{render(bs, 2)}
    }}
    //@ OBL C07.block.dependencies
    pub fn dependencies(&self) -> (r: Vec<Dependency>) ensures r@ == cat_net(self.0@)
    {{
{render(bd, 2)}
    }}
}}
pub struct FunctionV {{ pub parameters: ParamsV, pub body: BodyV }}
impl FunctionV {{
    //@ OBL C07.function.supplies
    pub fn supplies(&self) -> (r: Vec<Dependency>) ensures r@ == params_supplies(&self.parameters)
    {{
{render(fs, 2)}
    }}
    //@ OBL C07.function.dependencies
    // the body's free variables, each having crossed one more function boundary
    pub fn dependencies(&self) -> (r: Vec<Dependency>) ensures crossed(body_net(&self.body), r@)
    {{
{render(fd, 2)}
    }}
    // the function's free variables (get_net_dependencies: unit c07_net_deps)
    #[verifier::external_body] pub fn net_dependencies(&self) -> (r: Vec<Dependency>) ensures r@.len() < usize::MAX {{ unimplemented!() }}      // a Vec never has usize::MAX elements (std)
    //@ OBL C07.function.capture-list
    // the make_function instruction's arguments: the label first, then exactly the names of the function's net dependencies (each once, any order)
    #[verifier::loop_isolation(false)]
    pub fn capture_list(&self, x: &VString, id: &VString) -> (r: (Vec<VString>, Ghost<Seq<Dependency>>))
        ensures r.0@.len() >= 1, texts(r.0@.subrange(1, r.0@.len() as int)).to_set() == names_of(r.1@),
    {{
{render(cap, 2)}
        (arguments, Ghost(dependencies@))
    }}
}}
}} // verus!
fn main() {{}}
"""
    obls = [Obl("C07.block.supplies", ["C07"], fn="Block::supplies", desc="Block::supplies: what its statements supply, in order"),
            Obl("C07.block.dependencies", ["C07"], fn="Block::dependencies", desc="Block::dependencies: the free variables of its statements, in order, none dropped"),
            Obl("C07.function.supplies", ["C07"], fn="Function::supplies", desc="Function::supplies: its parameters"),
            Obl("C07.function.dependencies", ["C07", "C16"], fn="Function::dependencies", desc="Function::dependencies: its body's free variables, each marked as having crossed one more function boundary -- the body's analysis called once and nothing else (a second call per nesting level is 2^depth: C16)"),
            Obl("C07.block.net", ["C07"], fn="Block::net_dependencies", desc="Block::net_dependencies: a block is not a function boundary (D97: a captured variable read inside an if / loop body was taken for a same-named local declared later in the function)"),
            Obl("C07.function.capture-list", ["C07"], fn="Function::in_place_compile_for_value[capture list]", desc="in_place_compile_for_value: make_function is given the label followed by exactly the names of the function's net dependencies")]
    if cross_txt:
        obls.append(Obl("C07.function.crossing", ["C07"], fn="crossing_function_boundary", desc="crossing_function_boundary: the same dependencies, each with one more function boundary crossed"))
    return gen, obls, log


UNITS = [VUnit("c07_block_deps", ["C07", "C16"], "capture analysis of blocks and functions; the capture list of make_function", build)]
UNITS[0].assumes = ["the statements' own supplies / net dependencies (units c07_stmt_deps, c07_deps) and get_net_dependencies (c07_net_deps) are abstract callees",
                    "std iterator / HashSet / Vec::extend contracts as stated (order of a HashSet arbitrary)"]

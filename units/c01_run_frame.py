"""C01 / C09 / C17: the shell of the interpreter loop -- Function::run (bytecode/src/function.rs) around the per-instruction step (unit
c01_run_step decides what is done with each exit state).  Here: the call opens exactly ONE frame, labelled with the function's qualified name,
before anything runs; execution starts at instruction 0; in every round the instruction that is executed is the one AT the instruction pointer
(fetch), the pointer then is what the step says; an instruction's failure ends the run with that error; falling off the end closes the frame
and yields no value.  Fragment boundaries: the second half of the loop body (from `let ret = context.poll()`) is the abstract callee `step`."""
from vlib.rules import *
from vlib.extract import find_block_after
from vlib.pattern import Pat

FUNC = "bytecode/src/function.rs"

SPEC = r"""
use vstd::prelude::*;
verus! {
pub struct VErr { pub id: Ghost<int> }
#[verifier::external_body] pub struct VString { x: usize }
#[verifier::external_body] pub struct Instr { x: usize }
#[verifier::external_body] pub struct ArgsV { x: usize }
#[verifier::external_body] pub struct CapsV { x: usize }
#[verifier::external_body] pub struct JumpCb { x: usize }
#[verifier::external_body] pub struct ReturnValue { x: usize }
pub uninterp spec fn no_value() -> ReturnValue;
#[verifier::external_body] pub fn rv_no_value() -> (r: ReturnValue) ensures r == no_value() { unimplemented!() }
pub enum SpecialScope { If, Else, WhileLoop }
// the shared call stack: which frames were opened / closed by THIS function shell
pub enum FrameOp { Extend(Seq<char>), Pop }
pub uninterp spec fn text_of(s: &VString) -> Seq<char>;
pub struct StackRef { pub ops: Ghost<Seq<FrameOp>> }
pub fn stack_extend(s: &mut StackRef, label: VString) ensures final(s).ops@ == old(s).ops@.push(FrameOp::Extend(text_of(&label))) { s.ops = Ghost(s.ops@.push(FrameOp::Extend(text_of(&label)))); }
pub fn stack_pop(s: &mut StackRef) ensures final(s).ops@ == old(s).ops@.push(FrameOp::Pop) { s.ops = Ghost(s.ops@.push(FrameOp::Pop)); }
pub struct Function { pub instructions: Vec<Instr>, pub name: VString }
pub uninterp spec fn qualified_name(f: &Function) -> Seq<char>;
impl Function { #[verifier::external_body] pub fn get_qualified_name(&self) -> (r: VString) ensures text_of(&r) == qualified_name(self) { unimplemented!() } }
// the context of this call; `executed`: the instructions dispatched so far, in order (ghost)
pub struct Ctx { pub executed: Ghost<Seq<Instr>>, pub started_with_frame: Ghost<bool> }
#[verifier::external_body] pub fn ctx_new(f: &Function, s: &StackRef, args: ArgsV, cb: Option<CapsV>) -> (r: Ctx) ensures r.executed@.len() == 0, r.started_with_frame@ == (s.ops@.len() > 0 && s.ops@.last() == FrameOp::Extend(qualified_name(f)))
{ unimplemented!() }
// query!: the handler of that instruction's opcode runs (the table is generated from the opcode list: C18.opcode.table)
#[verifier::external_body] pub fn dispatch(c: &mut Ctx, i: &Instr) -> (r: Result<(), VErr>)
    ensures final(c).executed@ == old(c).executed@.push(*i), final(c).started_with_frame@ == old(c).started_with_frame@ { unimplemented!() }
// the rest of the loop body (unit c01_run_step): the next instruction pointer, or the function's value
pub enum Step { Next(usize), Returned(ReturnValue) }
pub struct Fall { pub hit: Ghost<bool> }
#[verifier::external_body] pub fn step(c: &mut Ctx, ptr: usize, scopes: &mut Vec<SpecialScope>, s: &mut StackRef, cb: &JumpCb, len: usize) -> (r: Result<Step, VErr>)
    ensures final(c).executed@ == old(c).executed@, final(c).started_with_frame@ == old(c).started_with_frame@,
            final(s).ops@.len() >= old(s).ops@.len() && final(s).ops@.subrange(0, old(s).ops@.len() as int) == old(s).ops@      // the log of frame operations only grows (what the step opens / closes: C09.run.step)
{ unimplemented!() }
"""


def build(repo):
    src = Source(repo)
    log = []
    f = src.fn(FUNC, "run", "impl Function")
    body = list(f["body"])
    try:
        h, o, c = find_block_after(body, "while instruction_ptr < self . instructions . len ( )")
    except Exception as e:
        raise Undecided(f"Function::run: interpreter loop not found: {e}")
    loop = body[o + 1:c]
    at = None
    for i in range(len(loop)):
        if Pat("let ret : & InstructionExitState = context . poll ( ) ;").match_at(loop, i):
            at = i; break
    if at is None:
        raise Undecided("Function::run: `let ret: &InstructionExitState = context.poll();` not found in the loop")
    head = loop[:at]
    log.append(("R0", "Function::run", "prologue + first half of the loop body + epilogue", "fragment: the second half of the loop body (from `let ret = context.poll()`) is the abstract callee `step` (unit c01_run_step)"))
    new_body = body[:o + 1] + head + lex("match step ( & mut context , instruction_ptr , & mut special_scopes , current_frame , jump_callback , instruction_len ) ? { Step :: Next ( verif_p ) => { instruction_ptr = verif_p ; } Step :: Returned ( verif_v ) => { return Ok ( verif_v ) ; } }") + body[c:]
    INV = ("invariant context.executed@.len() == verif_trace.len(), forall|i: int| 0 <= i < verif_trace.len() ==> #[trigger] context.executed@[i] == self.instructions@[verif_trace[i] as int], "
           "verif_trace.len() > 0 ==> verif_trace[0] == 0, verif_trace.len() == 0 ==> instruction_ptr == 0, "
           "forall|i: int| 1 <= i < verif_trace.len() ==> #[trigger] verif_trace[i] == verif_nexts[i - 1], verif_nexts.len() == verif_trace.len(), verif_nexts.len() > 0 ==> instruction_ptr == verif_nexts.last(), "
           "current_frame.ops@.len() > old(current_frame).ops@.len(), current_frame.ops@.subrange(0, old(current_frame).ops@.len() as int + 1) == old(current_frame).ops@.push(FrameOp::Extend(qualified_name(self))), context.started_with_frame@,")
    b = translate(new_body, [
        Rule("R10", "current_frame . borrow_mut ( ) . extend ( Cow :: Owned ( $$e ) ) ;", "stack_extend ( current_frame , $$e ) ;", why="Rc<RefCell<Stack>> as &mut (R10): one frame pushed"),
        Rule("R6", "Ctx :: new ( self , current_frame . clone ( ) , args , callback_state )", "ctx_new ( self , current_frame , args , callback_state )", count=1, why="the call's context (its fields: handlers' units)"),
        Rule("R1", "let mut special_scopes : Vec < SpecialScope > = vec ! [ ] ;", "let mut special_scopes : Vec < SpecialScope > = Vec :: new ( ) ;", why="vec![]"),
        Rule("R6", "query ! ( & mut context , instruction ) . context ( $m ) . with_context ( $$c ) ? ;", [G("let ghost verif_ex0 = context.executed@;"), "dispatch ( & mut context , instruction ) ? ;",
             G("proof { let ghost n0 = verif_trace.len() as int; verif_trace = verif_trace.push(instruction_ptr); assert(context.executed@[n0] == self.instructions@[instruction_ptr as int]); "
               "assert forall|i: int| 0 <= i < verif_trace.len() implies #[trigger] context.executed@[i] == self.instructions@[verif_trace[i] as int] by { if i < n0 { assert(context.executed@[i] == verif_ex0[i]); } } }")], count=1, why="query!: dispatch on the instruction's opcode; added context keeps the error"),
        Rule("R11", "while instruction_ptr < self . instructions . len ( ) {", ["while instruction_ptr < self . instructions . len ( )", G(INV), "{"], count=1, why=""),
        Rule("R11", "Step :: Next ( verif_p ) => { instruction_ptr = verif_p ; }", ["Step :: Next ( verif_p ) => { instruction_ptr = verif_p ;", G("proof { verif_nexts = verif_nexts.push(verif_p); assert(current_frame.ops@.subrange(0, old(current_frame).ops@.len() as int + 1) =~= old(current_frame).ops@.push(FrameOp::Extend(qualified_name(self)))); }"), "}"], count=1, why=""),
        Rule("R3", "log :: warn ! $a ;", "", why="logging dropped"),
        Rule("R10", "current_frame . borrow_mut ( ) . pop ( ) ;", "stack_pop ( current_frame ) ;", why="Rc<RefCell<Stack>> as &mut (R10): one frame popped"),
        Rule("R1", "Ok ( ReturnValue :: NoValue )", [G("proof { fall.hit = Ghost(true); }"), "Ok ( rv_no_value ( ) )"], why="no value; the fall-through exit is marked (ghost)"),
    ], log, "Function::run[shell]")
    check_closed(b, "Function::run[shell]")
    gen = header(log, f"{FUNC}: Function::run, prologue, fetch / dispatch, epilogue") + SPEC + f"""
impl Function {{
    //@ OBL C01.run.frame-and-fetch
    #[verifier::exec_allows_no_decreases_clause]
    #[verifier::loop_isolation(false)]
    pub fn run(&self, args: ArgsV, current_frame: &mut StackRef, callback_state: Option<CapsV>, jump_callback: &JumpCb, fall: &mut Fall) -> (r: Result<ReturnValue, VErr>)
        requires !old(fall).hit@,
        ensures
            // exactly one frame, labelled with the function's qualified name, is opened by the shell, first; running off the end closes it and yields no value
            final(current_frame).ops@.len() > old(current_frame).ops@.len() && final(current_frame).ops@[old(current_frame).ops@.len() as int] == FrameOp::Extend(qualified_name(self)),
            final(fall).hit@ ==> r == Ok::<ReturnValue, VErr>(no_value()) && final(current_frame).ops@.last() == FrameOp::Pop && final(current_frame).ops@.len() >= old(current_frame).ops@.len() + 2,
    {{
        let ghost mut verif_trace: Seq<usize> = Seq::empty(); let ghost mut verif_nexts: Seq<usize> = Seq::empty();
{render(b, 2)}
    }}
}}
}} // verus!
fn main() {{}}
"""
    return gen, [Obl("C01.run.frame-and-fetch", ["C01", "C09", "C17"], fn="Function::run[shell]",
                     desc="Function::run: one frame with the function's qualified name is opened first; execution starts at instruction 0; each round dispatches the instruction AT the pointer and then moves the pointer to what the step returned; an instruction's error ends the run; falling off the end pops the frame")], log


UNITS = [VUnit("c01_run_frame", ["C01", "C09", "C17"], "interpreter loop: frame, fetch, epilogue", build)]
UNITS[0].assumes = ["the second half of the loop body is the abstract callee `step` (unit c01_run_step); query! dispatches by opcode (table generated from the opcode list); termination of the interpreted program is not claimed"]

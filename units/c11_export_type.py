"""C11 (compile side): Assignment::type_from_node -- the pre-walk that builds a module's compile-time export list: only a declaration that
carries the `export` flag contributes a name importers can see."""
from vlib.rules import *

FILE = "compiler/src/ast/assignment.rs"

SPEC = r"""
pub struct Ident { pub name: VStr, pub ty: Option<TypeLayout>, pub read_only: bool }
#[verifier::external_body] pub fn parse_ident(n: Node) -> (r: Result<Ident, VErr>) { unimplemented!() }
#[verifier::external_body] pub fn link_force_no_inherit(i: &mut Ident, n: &Node, t: TypeLayout) -> (r: Result<(), VErr>) { unimplemented!() }
#[derive(PartialEq, Eq, Structural, Clone, Copy)]
pub enum RuleK { assignment, assignment_flags, assignment_type, other }
pub uninterp spec fn rule_of(n: &Node) -> RuleK;
#[verifier::external_body] pub fn as_rule(n: &Node) -> (r: RuleK) ensures r == rule_of(n) { unimplemented!() }
// the flags written in front of a declaration (`export`, `const`, `modify`, ...)
#[verifier::external_body] pub struct AssignmentFlag { x: usize }
#[derive(PartialEq, Eq, Structural, Clone, Copy)]
pub enum FlagK { Export, Modify, Const }
pub uninterp spec fn written_flags(n: Node) -> Option<AssignmentFlag>;            // None: the flags node does not parse
pub uninterp spec fn has_flag(f: AssignmentFlag, k: FlagK) -> bool;
#[verifier::external_body] pub fn parse_assignment_flags(n: Node) -> (r: Result<AssignmentFlag, VErr>) ensures r is Ok <==> written_flags(n) is Some, r is Ok ==> r->Ok_0 == written_flags(n)->Some_0 { unimplemented!() }
impl AssignmentFlag {
    #[verifier::external_body] pub fn contains(&self, k: FlagK) -> (r: bool) ensures r == has_flag(*self, k) { unimplemented!() }
}
"""


def build(repo):
    src = Source(repo)
    log = []
    f = src.fn(FILE, "type_from_node", "impl WalkForType for Assignment")
    b = translate(f["body"], [
        Rule("R8", "assert_eq ! ( input . as_rule ( ) , Rule :: assignment ) ;", "", count=1, why="assert_eq! on the node kind: precondition (the walk only calls it on assignments)"),
        Rule("R6", "input . children ( )", "node_kids ( input )", why="pest API abstract"),
        Rule("R6", "assignment . children ( )", "node_kids ( & assignment )", why="pest API abstract"),
        Rule("R8", "children . next ( ) . unwrap ( )", "unwrap_node ( children . next ( ) )", why="unwrap on a child: grammar child count (R8)"),
        Rule("R6", "$n . as_rule ( )", "as_rule ( & $n )", why="pest rule test abstract"),
        Rule("R1", "Rule :: $r", "RuleK :: $r", why="pest Rule enum reduced to the kinds this function tests"),
        Rule("R6", "Parser :: assignment_flags ( $n ) ?", "parse_assignment_flags ( $n ) ?", why="sub-parser abstract"),
        Rule("R3", "bail ! $a", "return Err ( VErr )", why="bail! -> return Err"),
        Rule("R1", "AssignmentFlag :: export ( )", "FlagK :: Export", why="flag constant"),
        Rule("R1", "AssignmentFlag :: modify ( )", "FlagK :: Modify", why="flag constant"),
        Rule("R1", "AssignmentFlag :: constant ( )", "FlagK :: Const", why="flag constant"),
        Rule("R6", "Parser :: ident ( ident ) ?", "parse_ident ( ident ) ?", why="sub-parser abstract"),
        Rule("R6", "ident . link_force_no_inherit ( input . user_data ( ) , Parser :: r#type ( ty ) ? ) ?", "link_force_no_inherit ( & mut ident , input , parse_type ( ty ) ? ) ?", why="abstract callees"),
        Rule("R1", "other => return Err ( VErr )", "_ => return Err ( VErr )", why="binding only used by the message"),
    ], log, "Assignment::type_from_node")
    check_closed(b, "Assignment::type_from_node")
    gen = header(log, f"{FILE}: impl WalkForType for Assignment :: type_from_node") + prelude("parser.rs") + SPEC + f"""
//@ OBL C11.exports.only-exported
pub fn type_from_node(input: &Node) -> (r: Result<Ident, VErr>)
    requires node_children(input).len() >= 2,
             rule_of(&node_children(input)[0]) == RuleK::assignment_flags ==> node_children(input).len() >= 2,
             forall|a: Node| rule_of(&a) == RuleK::assignment_type ==> #[trigger] node_children(&a).len() >= 2
    ensures
        // a name enters the module's compile-time export list only from a declaration that carries the `export` flag
        r is Ok ==> rule_of(&node_children(input)[0]) == RuleK::assignment_flags && written_flags(node_children(input)[0]) is Some
                    && has_flag(written_flags(node_children(input)[0])->Some_0, FlagK::Export),
{{
{render(b, 1)}
}}
}} // verus!
fn main() {{}}
"""
    return gen, [Obl("C11.exports.only-exported", ["C11"], fn="Assignment::type_from_node", desc="type_from_node: a declaration contributes a name to the module's export list only if it carries the `export` flag")], log


UNITS = [VUnit("c11_export_type", ["C11"], "compile-time export list: only `export` declarations", build)]
UNITS[0].assumes = ["pest API and sub-parsers abstract; child counts from the grammar (preconditions)", "ModuleType::from_node (the walk that collects these names) and class / function exports are not covered"]

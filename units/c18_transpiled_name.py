"""C18: which files `transpile` (and `execute --transpile`) accepts as human-readable bytecode -- is_path_a_transpiled_source
(bytecode_dev_transpiler/src/lib.rs).  The command derives the name of the binary it writes from the name it was given by dropping the
`.transpiled` part; a name that does NOT end in `.transpiled.mmm` must be refused, or the output name is the input name and the command
overwrites the file it is reading.  Contract: true exactly for names that END in the suffix (ASCII case ignored) -- in particular never
for a name shorter than the suffix."""
from vlib.rules import *
from vlib.extract import extract_fn
from pathlib import Path

FILE = "bytecode_dev_transpiler/src/lib.rs"

SPEC = r"""
use vstd::prelude::*;
verus! {
pub open spec fn lower(c: char) -> char { if 'A' <= c && c <= 'Z' { ((c as u8 + 32) as char) } else { c } }
// char::eq_ignore_ascii_case
#[verifier::external_body] pub fn eq_ignore_ascii_case(a: &char, b: &char) -> (r: bool) ensures r == (lower(*a) == lower(*b)) { unimplemented!() }
// s ends with p, ASCII case ignored
pub open spec fn ends_with_ic(s: Seq<char>, p: Seq<char>) -> bool {
    s.len() >= p.len() && forall|i: int| 0 <= i < p.len() ==> lower(#[trigger] s[s.len() - 1 - i]) == lower(p[p.len() - 1 - i])
}
#[verifier::external_body] pub fn chars_count(s: &Vec<char>) -> (r: usize) ensures r == s@.len() { unimplemented!() }
"""


def build(repo):
    import re as _re
    src = Source(repo)
    log = []
    f = src.fn(FILE, "is_path_a_transpiled_source")
    try:
        inner = extract_fn(f["body"], "ends_with_ignore_case")
    except Exception as e:
        raise Undecided(f"{FILE}: inner fn ends_with_ignore_case not found: {e}")
    INV = ("invariant verif_k <= string.len(), verif_k <= pat.len(), forall|i: int| 0 <= i < verif_k ==> lower(#[trigger] string@[string@.len() - 1 - i]) == lower(pat@[pat@.len() - 1 - i]) "
           "decreases string.len() - verif_k")
    b = translate(list(inner["body"]), [
        Rule("R2", "for ( $a , $b ) in string . chars ( ) . rev ( ) . zip ( pat . chars ( ) . rev ( ) ) { $$body }",
             lambda bb: ["let mut verif_k : usize = 0 ; while verif_k < string . len ( ) && verif_k < pat . len ( )", G(INV),
                         "{", f"let {text(bb['a'])} = string [ string . len ( ) - 1 - verif_k ] ; let {text(bb['b'])} = pat [ pat . len ( ) - 1 - verif_k ] ; verif_k += 1 ;", *bb["body"], "}"],
             count=1, why="for over chars().rev().zip(chars().rev()): pairs from the end, as many as the SHORTER text has (iteration order of Rev + Zip)"),
        Rule("R9", "$a . eq_ignore_ascii_case ( & $b )", "eq_ignore_ascii_case ( & $a , & $b )", why="char::eq_ignore_ascii_case"),
        Rule("R1", "string . chars ( ) . count ( )", "chars_count ( string )", why="number of characters (R1: text as Vec<char>)"),
        Rule("R1", "pat . chars ( ) . count ( )", "chars_count ( pat )", why="number of characters"),
    ], log, "ends_with_ignore_case")
    check_closed(b, "ends_with_ignore_case")
    # the outer function: which suffix it asks for
    outer = " ".join(f["body"])
    m = _re.search(r"ends_with_ignore_case \( path , (\w+) \)\s*$", outer)
    if not m:
        raise Undecided(f"{FILE}: is_path_a_transpiled_source no longer ends in `ends_with_ignore_case(path, CONST)`")
    const = m.group(1)
    txt = (Path(repo) / FILE).read_text()
    mc = _re.search(r"const\s+" + const + r"\s*:\s*&str\s*=\s*\"([^\"]*)\"", txt)
    if not mc:
        raise Undecided(f"{FILE}: constant {const} not found")
    suffix_ok = mc.group(1) == ".transpiled.mmm"
    gen = header(log, f"{FILE}: is_path_a_transpiled_source (inner fn ends_with_ignore_case; the suffix constant)") + SPEC + f"""
//@ OBL C18.transpile.accepts-only-suffix
#[verifier::loop_isolation(false)]
pub fn ends_with_ignore_case(string: &Vec<char>, pat: &Vec<char>) -> (r: bool)
    ensures r == ends_with_ic(string@, pat@),
{{
{render(b, 1)}
}}
//@ OBL C18.transpile.suffix
proof fn the_suffix_is_transpiled_mmm() {{ assert({'true' if suffix_ok else 'false'}); }}     // {const} == ".transpiled.mmm" (read from the source)
}} // verus!
fn main() {{}}
"""
    return gen, [Obl("C18.transpile.accepts-only-suffix", ["C18"], fn="ends_with_ignore_case", desc="is_path_a_transpiled_source: true exactly for names that end in the suffix (ASCII case ignored), never for a shorter name"),
                 Obl("C18.transpile.suffix", ["C18"], fn="the_suffix_is_transpiled_mmm", desc="the suffix asked for is `.transpiled.mmm`")], log


UNITS = [VUnit("c18_transpiled_name", ["C18"], "transpile accepts only names ending in .transpiled.mmm", build)]
UNITS[0].assumes = ["text as a sequence of characters (R1); chars().rev().zip(..): pairs from the end, as many as the shorter text has"]

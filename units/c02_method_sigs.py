"""C02 / C14 / C03: the static signatures of built-in methods -- the tables of `TypeLayout::get_property_type` (compiler/src/ast/type.rs) -- against
what the run-time built-ins return.  (1) Number methods: each cell `(name, receiver kind) => new_assoc_function!(.., @kind)` is read from the
source and its declared result kind compared with the kind the run-time arm of that method yields -- which is what the units c14_num
(conversions, abs, float parts: Kani, all receivers) and c14_pow (sqrt / pow / powf: Verus) prove of the arms; `typeof x.m()` must be that
kind (C02), the result is "of the kind their signature declares" (C14).  (2) String parsers: `parse_<kind>[_radix]` is declared `<kind>?`
(c14_parse proves the value's kind).  (3) Lists: the methods offered on EVERY list type -- also on a fixed-shape list whose static type
records one type per position -- are only ones that neither move nor remove elements; reordering / resizing methods exist on `[T...]` only
(C03: "unknown method" on anything else).  Exhaustive comparison of finite tables read from the source (as C14.lookup.* / C18.opcode.table)."""
import re
from vlib.rules import *
from vlib.extract import find_block_after, split_arms

FILE = "compiler/src/ast/type.rs"

# (method, receiver pattern) -> declared result; "self" = the receiver's own type.  Written from the run-time contracts:
#   c14_num: to_int -> int, to_bigint -> bigint, to_byte -> byte, to_float -> float, abs keeps the kind, fpart/ipart/round/floor/ceil -> float
#   c14_pow: sqrt / powf -> float; pow -> float for a float receiver, bigint for every integer receiver
NUM = {("pow", "Float"): "float", ("pow", ".."): "bigint", ("powf", ".."): "float", ("sqrt", ".."): "float",
       ("to_int", ".."): "int", ("to_bigint", ".."): "bigint", ("to_byte", ".."): "byte", ("to_float", ".."): "float", ("abs", ".."): "self",
       ("to_ascii", "Byte"): "str", ("fpart", "Float"): "float", ("ipart", "Float"): "float", ("round", "Float"): "float", ("floor", "Float"): "float", ("ceil", "Float"): "float"}
PARSE = {"parse_int": "int", "parse_int_radix": "int", "parse_bigint": "bigint", "parse_bigint_radix": "bigint", "parse_bool": "bool", "parse_float": "float", "parse_byte": "byte"}
# methods that may be offered on a list of any shape: they do not move, remove or add elements (clone returns a list of the same type)
ANY_LIST = {"len", "inner_capacity", "ensure_inner_capacity", "clone"}


def build(repo):
    src = Source(repo)
    log = []
    f = src.fn(FILE, "get_property_type", "impl TypeLayout")
    body = f["body"]
    # ---- (1) numbers
    try:
        _, o, c = find_block_after(body, "match ( property_name , variant )")
    except Exception as e:
        raise Undecided(f"{FILE}: `match (property_name, variant)` of get_property_type not found: {e}")
    got = {}
    for pat, b in split_arms(body[o + 1:c]):
        p = text(pat).replace(" ", "")
        if p == "_":
            continue
        m = re.fullmatch(r'\("(\w+)",(?:NativeType::(\w+)|(\.\.))\)', p)
        if not m:
            raise Undecided(f"get_property_type: number-method arm `{text(pat)}` is not `(\"name\", NativeType::K | ..)`")
        bt = text(b).replace(" ", "")
        r = re.search(r"new_assoc_function!\(vec!\[.*\],@(\w+)\)", bt)
        if r:
            ret = r.group(1)
        elif re.search(r"new_assoc_function!\(vec!\[\],whole_type\.to_owned\(\)\.into\(\)\)", bt):
            ret = "self"
        else:
            raise Undecided(f"get_property_type: number-method arm `{text(pat)}`: result `{text(b)[:80]}` is not `@kind` / the receiver's type")
        got[(m.group(1), m.group(2) or "..")] = ret
    log.append(("R0", "match (property_name, variant) { (\"name\", K) => Some(new_assoc_function!(.., @kind)), .. }", f"{len(got)} cells", "table extraction: (method, receiver kind) -> declared result kind"))
    lines, obls = [], []
    code = {k: i + 1 for i, k in enumerate(["int", "bigint", "byte", "float", "str", "bool", "void", "self"])}
    for (name, recv), want in NUM.items():
        g = got.get((name, recv))
        oid = f"C02.sig.num.{name}.{recv.replace('..', 'any')}"
        lines.append(f"//@ OBL {oid}\n// ({name}, {recv}): declared {g}; the run-time built-in yields {want}\npub proof fn sig_{name}_{recv.replace('..', 'any')}() ensures {code.get(g, 0)}int == {code[want]}int {{}}")
        obls.append(Obl(oid, ["C02", "C14"], fn="TypeLayout::get_property_type[number methods]", desc=f"`{name}` on a {recv if recv != '..' else 'numeric'} receiver is declared to return {want if want != 'self' else 'the receiver kind'} -- the kind the built-in returns"))
    # a cell for one receiver kind must come before the method's catch-all cell, or it is never reached
    order = list(got)
    shadowed = [k for k in order if k[1] != ".." and (k[0], "..") in got and order.index((k[0], "..")) < order.index(k)]
    lines.append(f"//@ OBL C02.sig.num.order\n// kind-specific cells behind their method's catch-all cell: {shadowed}\npub proof fn sig_order() ensures {len(shadowed)}int == 0int {{}}")
    obls.append(Obl("C02.sig.num.order", ["C02", "C14"], fn="TypeLayout::get_property_type[number methods]", desc="a kind-specific cell precedes the method's catch-all cell (match arms are tried in order)"))
    extra = [k for k in got if k not in NUM]
    if extra:
        raise Undecided(f"get_property_type has number methods the expected table does not know: {extra}")
    # ---- (2) string parsers
    try:
        _, so, sc = find_block_after(body, "Self :: Native ( NativeType :: Str ( .. ) ) => match property_name")
    except Exception as e:
        raise Undecided(f"{FILE}: the string arm of get_property_type not found: {e}")
    sgot = {}
    for pat, b in split_arms(body[so + 1:sc]):
        bt = text(b).replace(" ", "")
        for nm in [t.strip('"') for t in pat if t.startswith('"')]:
            r = re.search(r"TypeLayout::(\w+)\(\)\.optional_of\(\)\.into\(\)\)+,?$", bt)
            sgot[nm] = (r.group(1) + "?") if r else None
    for name, want in PARSE.items():
        g = sgot.get(name)
        oid = f"C02.sig.str.{name}"
        lines.append(f"//@ OBL {oid}\n// {name}: declared {g}; the built-in yields {want}?\npub proof fn sig_{name}() ensures {1 if g == want + '?' else 0}int == 1int {{}}")
        obls.append(Obl(oid, ["C02", "C14"], fn="TypeLayout::get_property_type[string methods]", desc=f"`{name}` is declared to return `{want}?` -- nil or a value of the kind the parser yields"))
    # ---- (3) lists: what every list shape offers
    try:
        _, lo, lc = find_block_after(body, "Self :: List ( list_type ) =>")
        larm = body[lo + 1:lc]
        _, mo, mc = find_block_after(larm, "match property_name")
    except Exception as e:
        raise Undecided(f"{FILE}: the list arm of get_property_type not found: {e}")
    coerce_at = next((i for i in range(len(larm) - 2) if larm[i] == "try_coerce_to_open"), None)
    if coerce_at is None or mc > coerce_at:
        raise Undecided("get_property_type[list]: expected a first `match property_name` group in front of the try_coerce_to_open test")
    first = []
    for pat, b in split_arms(larm[mo + 1:mc]):
        first += [t.strip('"') for t in pat if t.startswith('"')]
    log.append(("R0", "Self::List(list_type) => { match property_name { <first group> } if let Ok(..) = list_type.try_coerce_to_open(..) { .. } }", "first group: " + ", ".join(first), "table extraction: the methods offered before the open-list test"))
    bad = [n for n in first if n not in ANY_LIST]
    lines.append(f"//@ OBL C03.sig.list.fixed-shape\n// offered on every list shape: {first}; not element-preserving: {bad}\npub proof fn sig_list_any() ensures {len(bad)}int == 0int {{}}")
    obls.append(Obl("C03.sig.list.fixed-shape", ["C03", "C02"], fn="TypeLayout::get_property_type[list methods]", desc="the methods a fixed-shape list offers neither move, remove nor add elements (its type records one type per position); everything else needs `[T...]`"))
    # ---- (4) lists: the PARAMETER lists of the list methods -- what the run-time arms take for granted of their argument vector (the preconditions of unit
    # c13_lists: `remove` / `ensure_inner_capacity` get an int, `push` / `index_of` one value of the element type, the others nothing)
    def param_shape(btoks):
        t = text(btoks).replace(" ", "")
        m = re.search(r"new_assoc_function!\(vec!\[(.*?)\],", t)
        if not m:
            return None
        a = m.group(1)
        if a == "":
            return "none"
        if a in ("Cow::Owned(TypeLayout::int())", "Cow::Owned(TypeLayout::Native(NativeType::Int))"):
            return "int"
        if a == "list_type":
            return "element"
        return "other:" + a[:40]
    shapes = {}
    for pat, b in split_arms(larm[mo + 1:mc]):
        for n in [t.strip('"') for t in pat if t.startswith('"')]:
            shapes[n] = param_shape(b)
    try:
        _, m2o, m2c = find_block_after(larm, "match property_name", start=mc)
    except Exception as e:
        raise Undecided(f"get_property_type[list]: the second `match property_name` group (methods of `[T...]`) not found: {e}")
    for pat, b in split_arms(larm[m2o + 1:m2c]):
        for n in [t.strip('"') for t in pat if t.startswith('"')]:
            shapes[n] = param_shape(b)
    WANT = {"len": "none", "inner_capacity": "none", "ensure_inner_capacity": "int", "clone": "none", "remove": "int", "reverse": "none", "push": "element", "index_of": "element", "clear": "none"}
    pcode = {"none": 1, "int": 2, "element": 3}
    for n, want in WANT.items():
        g = shapes.get(n)
        if g is None:
            raise Undecided(f"get_property_type[list]: the parameter list of `{n}` has a shape the table extraction does not read")
        oid = f"C02.sig.list.params.{n}"
        lines.append(f"//@ OBL {oid}\n// list method `{n}`: declared parameters: {g}; the run-time arm takes: {want}\npub proof fn sig_list_params_{n}() ensures {pcode.get(g, 0)}int == {pcode[want]}int {{}}")
        obls.append(Obl(oid, ["C02", "C13"], fn="TypeLayout::get_property_type[list methods]", desc=f"list method `{n}` is declared with the parameters its run-time arm takes for granted ({want}): the argument-vector preconditions of unit c13_lists are what the type checker enforces"))
    gen = header(log, f"{FILE}: TypeLayout::get_property_type, tables of built-in method signatures") + "use vstd::prelude::*;\nverus! {\n" + "\n".join(lines) + "\n} // verus!\nfn main() {}\n"
    return gen, obls, log


UNITS = [VUnit("c02_method_sigs", ["C02", "C14", "C03"], "declared result kinds of built-in methods = what the built-ins return; list methods by shape", build)]
UNITS[0].assumes = ["table extraction by pattern (fails closed on another arm shape); the expected kinds are the ones units c14_num / c14_pow / c14_parse prove of the run-time arms",
                    "parameter types of the signatures, the string / map / list-element signatures other than the parsers, and Primitive::lookup's name table (c14_lookup) are separate"]

"""C10: unpacking declaration `[a, b] = value` / `const [a, b] = value` (assignment_unpack.rs, the loop over the names): every name is
looked up among the running function's declarations, with or without the `const` qualifier, and the first hit is what the const /
shadowing test of Parser::assignment is run against; `const` marks every name read-only."""
from vlib.rules import *
from vlib.pattern import Pat

FILE = "compiler/src/ast/assignment/assignment_unpack.rs"

SPEC = r"""
pub struct Ident { pub name: VStr, pub ty: Option<TypeLayout>, pub read_only: bool }
impl Ident {
    pub fn mark_const(&mut self) ensures final(self).read_only, final(self).name == old(self).name, final(self).ty == old(self).ty { self.read_only = true; }     // obligation C10.ident.mark_const
    #[verifier::external_body] pub fn name(&self) -> (r: &VStr) ensures *r == self.name { unimplemented!() }
}
pub uninterp spec fn lookup_in_function(n: &Node, name: Seq<char>) -> Option<Ident>;    // has_name_been_mapped_in_function
#[verifier::external_body] pub fn has_name_been_mapped_in_function(n: &Node, name: &VStr) -> (r: Option<Ident>) ensures r == lookup_in_function(n, str_view(name)) { unimplemented!() }
#[verifier::external_body] pub fn parse_ident(n: Node) -> (r: Result<Ident, VErr>) ensures r is Ok ==> str_view(&r->Ok_0.name) == node_text(&n) && r->Ok_0.ty is None && !r->Ok_0.read_only { unimplemented!() }
#[derive(PartialEq, Eq, Structural, Clone, Copy)]
pub enum RuleK { ident, value, other }
pub uninterp spec fn rule_of(n: &Node) -> RuleK;
#[verifier::external_body] pub fn as_rule(n: &Node) -> (r: RuleK) ensures r == rule_of(n) { unimplemented!() }
#[verifier::external_body] pub fn child_at(c: &Children, k: usize) -> (r: Node) requires k < c.items@.len() ensures r == c.items@[k as int] { unimplemented!() }
pub open spec fn hit(input: &Node, i: Ident) -> Option<Ident> { lookup_in_function(input, str_view(&i.name)) }
"""


def build(repo):
    src = Source(repo)
    log = []
    f = src.fn(FILE, "assignment_unpack", "impl Parser")
    body = f["body"]
    p = Pat("let value_node = value_node . expect ( $m ) ;")
    at = None
    for i in range(len(body)):
        if p.match_at(body, i):
            at = i; break
    if at is None:
        raise Undecided("assignment_unpack: end of the name loop (`let value_node = value_node.expect(..)`) not found")
    frag = body[:at] + lex("return Ok ( ( idents , maybe_collision ) ) ;")
    log.append(("R0", "let value_node = value_node.expect(..) ... (rest of the function)", "return Ok((idents, maybe_collision));",
                "fragment: the function up to the end of the loop over the names; the state the rest starts from is returned"))
    INV = """invariant verif_k <= children.items@.len(), children.items@ == node_children(&input),
        forall|i: int| 0 <= i < idents@.len() ==> (is_const ==> (#[trigger] idents@[i]).read_only),
        maybe_collision is None ==> forall|i: int| 0 <= i < idents@.len() ==> hit(&input, #[trigger] idents@[i]) is None,
        maybe_collision is Some ==> exists|i: int| 0 <= i < idents@.len() && hit(&input, #[trigger] idents@[i]) == maybe_collision,
        decreases children.items@.len() - verif_k,"""
    b = translate(frag, [
        Rule("R1", "let file_name = & input . user_data ( ) . $m ( ) ;", "", why="file name only feeds diagnostics (which name: unit c03_diag_file)"),
        Rule("R6", "input . as_span ( )", "as_span ( & input )", why="pest API abstract"),
        Rule("R6", "child . as_span ( )", "as_span ( & child )", why="pest API abstract"),
        Rule("R3", "return Err ( vec ! [ new_err ( $$a ) ] ) ;", "return Err ( VErr ) ;", why="diagnostic construction dropped"),
        Rule("R6", "input . children ( )", "children ( & input )", why="pest API abstract"),
        Rule("R1", "let mut idents = vec ! [ ] ;", "let mut idents : Vec < Ident > = Vec :: new ( ) ;", why="type ascription (inference)"),
        Rule("R1", "let mut spans = vec ! [ ] ;", "let mut spans : Vec < Span > = Vec :: new ( ) ;", why="type ascription (inference)"),
        Rule("R1", "let mut maybe_collision = None ;", "let mut maybe_collision : Option < Ident > = None ;", why="type ascription (inference)"),
        Rule("R1", "let mut value_node = None ;", "let mut value_node : Option < Node > = None ;", why="type ascription (inference)"),
        Rule("R2", "for child in children { $$body }", lambda bd: ["let mut verif_k : usize = 0 ; while verif_k < children . items . len ( )", G(INV), "{ let child = child_at ( & children , verif_k ) ; verif_k += 1 ;", *bd["body"], "}"],
             why="for over the pest children -> indexed while (delivery order)"),
        Rule("R6", "child . as_rule ( )", "as_rule ( & child )", why="pest rule test abstract"),
        Rule("R1", "Rule :: $r", "RuleK :: $r", why="pest Rule enum reduced to the kinds this function tests"),
        Rule("R8", "rule => unreachable ! ( $$m )", "_ => { assume ( false ) ; }", why="unreachable! arm: the grammar delivers only ident / value children (assumed)"),
        Rule("R6", "Self :: ident ( child ) . to_err_vec ( ) ?", "parse_ident ( child ) ?", why="sub-parser abstract"),
        Rule("R6", "input . user_data ( ) . has_name_been_mapped_in_function ( ident . name ( ) )", "has_name_been_mapped_in_function ( & input , ident . name ( ) )", why="scope lookup abstract"),
        Rule("R11", "idents . push ( ident ) ;", [G("let ghost verif_old = idents@; let ghost verif_id = ident;"), "idents . push ( ident ) ;",
                                                   G("proof { let n = idents@.len() - 1; assert(idents@[n] == verif_id); assert(hit(&input, idents@[n]) == hit(&input, verif_id)); assert(forall|i: int| 0 <= i < n ==> idents@[i] == verif_old[i]); }")], why="proof hint: the pushed name is a witness"),
    ], log, "Parser::assignment_unpack[names]")
    check_closed(b, "Parser::assignment_unpack[names]")
    gen = header(log, f"{FILE}: Parser::assignment_unpack, from the start to the end of the loop over the names") + prelude("parser.rs") + SPEC + f"""
//@ OBL C10.unpack.collision
pub fn assignment_unpack_names(input: Node, is_const: bool, is_modify: bool) -> (r: Result<(Vec<Ident>, Option<Ident>), VErr>)
    ensures r is Ok ==> ({{
        let idents = r->Ok_0.0@; let found = r->Ok_0.1;
        // `const [..]` marks every name read-only
        &&& is_const ==> forall|i: int| 0 <= i < idents.len() ==> (#[trigger] idents[i]).read_only
        // with or without `const`: no previous declaration is reported only if none of the names has one in this function,
        &&& found is None ==> forall|i: int| 0 <= i < idents.len() ==> hit(&input, #[trigger] idents[i]) is None
        // and what is reported is the previous declaration of one of the names
        &&& found is Some ==> exists|i: int| 0 <= i < idents.len() && hit(&input, #[trigger] idents[i]) == found
    }}),
{{
{render(b, 1)}
}}
}} // verus!
fn main() {{}}
"""
    return gen, [Obl("C10.unpack.collision", ["C10"], fn="Parser::assignment_unpack", desc="assignment_unpack: each name is looked up in the running function, const or not; const marks all names read-only")], log


UNITS = [VUnit("c10_unpack", ["C10"], "unpacking declaration: collision lookup for every name, const marking", build)]
UNITS[0].assumes = ["fragment: the loop over the names only; the type checks after it and Assignment::new_multi are not under contract",
                    "what Parser::assignment does with the reported previous declaration is unit c10_assignment", "pest API and sub-parsers abstract; the unreachable! arm is assumed unreachable (grammar)"]


# =====================================================================================================================
# C16 / C03: the bounds guard of an unpacking declaration -- `[a, b, c] = <value of a fixed-shape list type>`
BOUND_SPEC = r"""
use vstd::prelude::*;
verus! {
pub struct VErr;
#[verifier::external_body] pub struct Span { x: usize }
#[verifier::external_body] pub struct IdentV { x: usize }
#[verifier::external_body] pub struct TypeV { x: usize }
pub enum ListBound { Numeric(usize), Infinite, NotIndexable }
pub uninterp spec fn bound_of(t: &TypeV) -> Option<ListBound>;
impl TypeV { #[verifier::external_body] pub fn has_index_length_property(&self) -> (r: Option<ListBound>) ensures r == bound_of(self) { unimplemented!() } }
// Vec::swap_remove PANICS when the index is out of range (R8)
#[verifier::external_body] pub fn swap_remove(v: &mut Vec<Span>, i: usize) -> (r: Span) requires i < old(v)@.len() { unimplemented!() }
"""


def build_bound(repo):
    from vlib.extract import find_block_after
    src = Source(repo)
    log = []
    f = src.fn(FILE, "assignment_unpack", "impl Parser")
    body = f["body"]
    hdr = "if let Some ( ListBound :: Numeric ( upper_bound ) ) = ty . has_index_length_property ( )"
    try:
        s, o, c = find_block_after(body, hdr)
    except Exception as e:
        raise Undecided(f"assignment_unpack: the bounds guard `{hdr.replace(' ', '')}` not found: {e}")
    frag = body[s:c + 1]
    log.append(("R0", "fn assignment_unpack .. { .. if let Some(ListBound::Numeric(upper_bound)) = ty.has_index_length_property() { GUARD } .. }", "fn unpack_bound_guard(idents, spans, ty) { GUARD; Ok(()) }",
                "fragment: the bounds guard as a function of the names parsed so far and the value's type"))
    b = translate(frag, [
        Rule("R3", "return Err ( vec ! [ new_err ( $$a ) ] ) ;", lambda bb: [*(["let", "verif_span", "=", *bb["a"][:bb["a"].index(",")], ";"]), "return Err ( VErr ) ;"], why="diagnostic construction dropped; its span argument is still evaluated (it can panic)"),
        Rule("R8", "spans . swap_remove ( $$i )", "swap_remove ( & mut spans , $$i )", why="Vec::swap_remove with its panic precondition"),
    ], log, "assignment_unpack[bounds guard]")
    check_closed(b, "assignment_unpack[bounds guard]")
    gen = header(log, f"{FILE}: Parser::assignment_unpack, the bounds guard") + BOUND_SPEC + f"""
//@ OBL C16.unpack.bound
// `[a, b, c] = v` where v's type has a last valid position: more names than positions is a diagnostic; as many or fewer names is fine.
// Neither case may underflow a subtraction or index the span list out of range (a compiler panic).
pub fn unpack_bound_guard(idents: &Vec<IdentV>, spans: Vec<Span>, ty: &TypeV) -> (r: Result<(), VErr>)
    requires idents@.len() == spans@.len(), idents@.len() >= 1,          // the grammar gives an unpacking declaration at least one name; one span per name (the loop above)
    ensures
        bound_of(ty) matches Some(ListBound::Numeric(ub)) ==> (r is Err <==> idents@.len() - 1 > ub),
        !(bound_of(ty) matches Some(ListBound::Numeric(_))) ==> r is Ok,
{{
    let mut spans = spans;
{render(b, 1)}
    Ok(())
}}
}} // verus!
fn main() {{}}
"""
    return gen, [Obl("C16.unpack.bound", ["C16", "C03"], fn="Parser::assignment_unpack[bounds guard]", desc="unpacking against a fixed-shape list: too many names is a diagnostic, as many or fewer is accepted; no subtraction underflow, no out-of-range swap_remove")], log


U_BOUND = VUnit("c16_unpack_bound", ["C16", "C03"], "unpacking declaration: the bounds guard against a fixed-shape list", build_bound)
U_BOUND.assumes = ["fragment: the guard only; precondition: at least one name and one span per name (grammar / the loop over the names)", "TypeLayout::has_index_length_property abstract"]
UNITS.append(U_BOUND)

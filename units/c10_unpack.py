"""C10: unpacking declaration `[a, b] = value` / `const [a, b] = value` (assignment_unpack.rs, the loop over the names): every name is
looked up among the running function's declarations, with or without the `const` qualifier, and the first hit is what the const /
shadowing test of Parser::assignment is run against; `const` marks every name read-only."""
from vlib.rules import *
from vlib.pattern import Pat

FILE = "compiler/src/ast/assignment/assignment_unpack.rs"

SPEC = r"""
pub struct Ident { pub name: VStr, pub ty: Option<TypeLayout>, pub read_only: bool }
impl Ident {
    pub fn mark_const(&mut self) ensures final(self).read_only, final(self).name == old(self).name, final(self).ty == old(self).ty { self.read_only = true; }     // obligation C10.ident.mark_const
    #[verifier::external_body] pub fn name(&self) -> (r: &VStr) ensures *r == self.name { unimplemented!() }
}
pub uninterp spec fn lookup_in_function(n: &Node, name: Seq<char>) -> Option<Ident>;    // has_name_been_mapped_in_function
#[verifier::external_body] pub fn has_name_been_mapped_in_function(n: &Node, name: &VStr) -> (r: Option<Ident>) ensures r == lookup_in_function(n, str_view(name)) { unimplemented!() }
#[verifier::external_body] pub fn parse_ident(n: Node) -> (r: Result<Ident, VErr>) ensures r is Ok ==> str_view(&r->Ok_0.name) == node_text(&n) && r->Ok_0.ty is None && !r->Ok_0.read_only { unimplemented!() }
#[derive(PartialEq, Eq, Structural, Clone, Copy)]
pub enum RuleK { ident, value, other }
pub uninterp spec fn rule_of(n: &Node) -> RuleK;
#[verifier::external_body] pub fn as_rule(n: &Node) -> (r: RuleK) ensures r == rule_of(n) { unimplemented!() }
#[verifier::external_body] pub fn child_at(c: &Children, k: usize) -> (r: Node) requires k < c.items@.len() ensures r == c.items@[k as int] { unimplemented!() }
pub open spec fn hit(input: &Node, i: Ident) -> Option<Ident> { lookup_in_function(input, str_view(&i.name)) }
"""


def build(repo):
    src = Source(repo)
    log = []
    f = src.fn(FILE, "assignment_unpack", "impl Parser")
    body = f["body"]
    p = Pat("let value_node = value_node . expect ( $m ) ;")
    at = None
    for i in range(len(body)):
        if p.match_at(body, i):
            at = i; break
    if at is None:
        raise Undecided("assignment_unpack: end of the name loop (`let value_node = value_node.expect(..)`) not found")
    frag = body[:at] + lex("return Ok ( ( idents , maybe_collision ) ) ;")
    log.append(("R0", "let value_node = value_node.expect(..) ... (rest of the function)", "return Ok((idents, maybe_collision));",
                "fragment: the function up to the end of the loop over the names; the state the rest starts from is returned"))
    INV = """invariant verif_k <= children.items@.len(), children.items@ == node_children(&input),
        forall|i: int| 0 <= i < idents@.len() ==> (is_const ==> (#[trigger] idents@[i]).read_only),
        maybe_collision is None ==> forall|i: int| 0 <= i < idents@.len() ==> hit(&input, #[trigger] idents@[i]) is None,
        maybe_collision is Some ==> exists|i: int| 0 <= i < idents@.len() && hit(&input, #[trigger] idents@[i]) == maybe_collision,
        decreases children.items@.len() - verif_k,"""
    b = translate(frag, [
        Rule("R1", "let file_name = & input . user_data ( ) . get_file_name ( ) ;", "", why="file name only feeds diagnostics"),
        Rule("R6", "input . as_span ( )", "as_span ( & input )", why="pest API abstract"),
        Rule("R6", "child . as_span ( )", "as_span ( & child )", why="pest API abstract"),
        Rule("R3", "return Err ( vec ! [ new_err ( $$a ) ] ) ;", "return Err ( VErr ) ;", why="diagnostic construction dropped"),
        Rule("R6", "input . children ( )", "children ( & input )", why="pest API abstract"),
        Rule("R1", "let mut idents = vec ! [ ] ;", "let mut idents : Vec < Ident > = Vec :: new ( ) ;", why="type ascription (inference)"),
        Rule("R1", "let mut spans = vec ! [ ] ;", "let mut spans : Vec < Span > = Vec :: new ( ) ;", why="type ascription (inference)"),
        Rule("R1", "let mut maybe_collision = None ;", "let mut maybe_collision : Option < Ident > = None ;", why="type ascription (inference)"),
        Rule("R1", "let mut value_node = None ;", "let mut value_node : Option < Node > = None ;", why="type ascription (inference)"),
        Rule("R2", "for child in children { $$body }", lambda bd: ["let mut verif_k : usize = 0 ; while verif_k < children . items . len ( )", G(INV), "{ let child = child_at ( & children , verif_k ) ; verif_k += 1 ;", *bd["body"], "}"],
             why="for over the pest children -> indexed while (delivery order)"),
        Rule("R6", "child . as_rule ( )", "as_rule ( & child )", why="pest rule test abstract"),
        Rule("R1", "Rule :: $r", "RuleK :: $r", why="pest Rule enum reduced to the kinds this function tests"),
        Rule("R8", "rule => unreachable ! ( $$m )", "_ => { assume ( false ) ; }", why="unreachable! arm: the grammar delivers only ident / value children (assumed)"),
        Rule("R6", "Self :: ident ( child ) . to_err_vec ( ) ?", "parse_ident ( child ) ?", why="sub-parser abstract"),
        Rule("R6", "input . user_data ( ) . has_name_been_mapped_in_function ( ident . name ( ) )", "has_name_been_mapped_in_function ( & input , ident . name ( ) )", why="scope lookup abstract"),
        Rule("R11", "idents . push ( ident ) ;", [G("let ghost verif_old = idents@; let ghost verif_id = ident;"), "idents . push ( ident ) ;",
                                                   G("proof { let n = idents@.len() - 1; assert(idents@[n] == verif_id); assert(hit(&input, idents@[n]) == hit(&input, verif_id)); assert(forall|i: int| 0 <= i < n ==> idents@[i] == verif_old[i]); }")], why="proof hint: the pushed name is a witness"),
    ], log, "Parser::assignment_unpack[names]")
    check_closed(b, "Parser::assignment_unpack[names]")
    gen = header(log, f"{FILE}: Parser::assignment_unpack, from the start to the end of the loop over the names") + prelude("parser.rs") + SPEC + f"""
//@ OBL C10.unpack.collision
pub fn assignment_unpack_names(input: Node, is_const: bool, is_modify: bool) -> (r: Result<(Vec<Ident>, Option<Ident>), VErr>)
    ensures r is Ok ==> ({{
        let idents = r->Ok_0.0@; let found = r->Ok_0.1;
        // `const [..]` marks every name read-only
        &&& is_const ==> forall|i: int| 0 <= i < idents.len() ==> (#[trigger] idents[i]).read_only
        // with or without `const`: no previous declaration is reported only if none of the names has one in this function,
        &&& found is None ==> forall|i: int| 0 <= i < idents.len() ==> hit(&input, #[trigger] idents[i]) is None
        // and what is reported is the previous declaration of one of the names
        &&& found is Some ==> exists|i: int| 0 <= i < idents.len() && hit(&input, #[trigger] idents[i]) == found
    }}),
{{
{render(b, 1)}
}}
}} // verus!
fn main() {{}}
"""
    return gen, [Obl("C10.unpack.collision", ["C10"], fn="Parser::assignment_unpack", desc="assignment_unpack: each name is looked up in the running function, const or not; const marks all names read-only")], log


UNITS = [VUnit("c10_unpack", ["C10"], "unpacking declaration: collision lookup for every name, const marking", build)]
UNITS[0].assumes = ["fragment: the loop over the names only; the type checks after it and Assignment::new_multi are not under contract",
                    "what Parser::assignment does with the reported previous declaration is unit c10_assignment", "pest API and sub-parsers abstract; the unreachable! arm is assumed unreachable (grammar)"]

"""C01 / C09 / C15 (interpreter side): the control-flow handlers of instruction.rs and the exit-state step of Function::run, V-t.

The compile-side units prove where every jump lands and how many frames a break/continue pops; these units prove that the
interpreter does what those layouts assume: which exit state each control instruction signals, and what Function::run does with it
(instruction pointer, frame depth)."""
from vlib.rules import *
from units.handlers import *
from vlib.extract import find_block_after
from vlib.pattern import Pat

CTRL_SPEC = r"""
pub uninterp spec fn parses_u8(s: &VString) -> bool;
#[verifier::external_body]
pub fn parse_u8(s: &VString) -> (r: Result<u8, VErr>) ensures r is Ok <==> parses_u8(s), r is Ok ==> r->Ok_0 as int == num_of(s) { unimplemented!() }
"""

CTRL_RULES = [
    Rule("R6", "ctx . pop ( ) . unwrap ( ) . move_out_of_heap_primitive ( ) ?", "move_out ( ctx . pop ( ) . unwrap ( ) ) ?", why="heap-pointer view abstract: identity on non-pointers"),
    Rule("R5", "$x . parse :: < isize > ( ) ?", "parse_isize ( $x ) ?", why="str::parse::<isize> as assumed contract"),
    Rule("R5", "$x . parse :: < u8 > ( ) . context ( $m ) ?", "parse_u8 ( $x ) ?", why="str::parse::<u8> as assumed contract; context text dropped"),
    Rule("R5", "$x . parse :: < usize > ( )", "parse_usize ( $x )", why="str::parse::<usize> as assumed contract"),
    Rule("R9", "args . get ( $i ) . map_or_else ( || $$d , | $x | $$f )", "( match args_get ( args , $i ) { None => $$d , Some ( $x ) => $$f } )", why="Option::map_or_else(default, f) -> match"),
    Rule("R3", "log :: trace ! $a ;", "", why="logging dropped"),
    Rule("R8", "let Some ( [ $a , $b , $c ] ) = args . get ( 0 ..= 2 ) else { $$e } ;",
         "if args . len ( ) < 3 { $$e } let $a = & args [ 0 ] ; let $b = & args [ 1 ] ; let $c = & args [ 2 ] ;", why="slice::get(0..=2) as a 3-element pattern -> length test + indexing"),
    Rule("R9", "lines_to_jump . is_negative ( )", "( lines_to_jump < 0 )", why="isize::is_negative"),
    Rule("R1", "name . clone ( )", "clone_vs ( name )", why="String clone"),
]


def build_control(repo):
    src = Source(repo)
    log = []
    names = ["pop", "push", "signal", "stack_size", "get_last_op_item", "clear_stack"]
    ctx = ctx_impl(src, log, names)
    ss_text = text(src.fn(INSTR, "store_skip", "pub mod implementations")["body"])
    by_ref = [Rule("R1", "if ! val {", "if ! * val {", why="`!` on &bool")] if "* val" in ss_text else []        # `val` bound by reference: `!val` is `!*val`
    hs = {n: handler(src, log, n, CTRL_RULES + by_ref) for n in ["if_stmt", "while_loop", "jmp", "jmp_pop", "done", "else_stmt", "store_skip"]}

    def cond(name, scope):
        return f"""
//@ OBL C01.handler.{name}
// `{name} OFFSET`: pops the condition; true -> a new frame is opened and execution continues with the next instruction;
// false -> jump by OFFSET (to where the compile-side layout says: past the block), no frame opened
pub fn {name}(ctx: &mut Ctx, args: &Vec<VString>) -> (r: Result<(), VErr>)
    ensures
        // the condition's VALUE decides: a pointer to a bool (list element, field) counts as that bool
        (old(ctx).stack@.len() > 0 && moved_out(old(ctx).stack@.last()) is Some && moved_out(old(ctx).stack@.last())->Some_0 is Bool && args@.len() >= 1
            && (moved_out(old(ctx).stack@.last())->Some_0->Bool_0 || parses_isize(&args@[0]))) ==> r is Ok,
        r is Ok ==> old(ctx).stack@.len() > 0 && moved_out(old(ctx).stack@.last()) is Some && moved_out(old(ctx).stack@.last())->Some_0 is Bool && args@.len() >= 1 && final(ctx).stack@.len() == 0
            && (moved_out(old(ctx).stack@.last())->Some_0->Bool_0 ==> final(ctx).exit_state == Exit::PushScope(SpecialScope::{scope}))
            && (!moved_out(old(ctx).stack@.last())->Some_0->Bool_0 ==> final(ctx).exit_state == Exit::Goto(num_of(&args@[0]) as isize)),
        rest(final(ctx)) == rest(old(ctx)),
{{
{render(hs[name], 1)}
}}
"""
    gen = header(log, f"{INSTR}: if_stmt, while_loop, jmp, jmp_pop, done, else_stmt, store_skip; {CTXF}: Ctx methods") + prelude("ctx.rs") + CTRL_SPEC + ctx + cond("if_stmt", "If") + cond("while_loop", "WhileLoop") + f"""
//@ OBL C01.handler.jmp
pub fn jmp(ctx: &mut Ctx, args: &Vec<VString>) -> (r: Result<(), VErr>)
    ensures (args@.len() >= 1 && parses_isize(&args@[0])) <==> r is Ok,
            r is Ok ==> final(ctx).exit_state == Exit::Goto(num_of(&args@[0]) as isize) && final(ctx).stack@ == old(ctx).stack@,
            rest(final(ctx)) == rest(old(ctx)),
{{
{render(hs['jmp'], 1)}
}}

//@ OBL C01.handler.jmp_pop
// `jmp_pop OFFSET [FRAMES]`: jump and close FRAMES frames (1 when omitted) -- the closing instruction of a loop, and break / continue
pub fn jmp_pop(ctx: &mut Ctx, args: &Vec<VString>) -> (r: Result<(), VErr>)
    ensures (args@.len() >= 1 && parses_isize(&args@[0]) && (args@.len() >= 2 ==> parses_usize(&args@[1]))) <==> r is Ok,
            r is Ok ==> final(ctx).exit_state == Exit::GotoPopScope(num_of(&args@[0]) as isize, if args@.len() >= 2 {{ num_of(&args@[1]) as usize }} else {{ 1usize }})
                        && final(ctx).stack@ == old(ctx).stack@,
            rest(final(ctx)) == rest(old(ctx)),
{{
{render(hs['jmp_pop'], 1)}
}}

//@ OBL C01.handler.done
pub fn done(ctx: &mut Ctx, _args: &Vec<VString>) -> (r: Result<(), VErr>)
    ensures r is Ok, final(ctx).exit_state == Exit::PopScope, final(ctx).stack@ == old(ctx).stack@, rest(final(ctx)) == rest(old(ctx)),
{{
{render(hs['done'], 1)}
}}

//@ OBL C01.handler.else_stmt
pub fn else_stmt(ctx: &mut Ctx, _args: &Vec<VString>) -> (r: Result<(), VErr>)
    ensures r is Ok, final(ctx).exit_state == Exit::PushScope(SpecialScope::Else), final(ctx).stack@ == old(ctx).stack@, rest(final(ctx)) == rest(old(ctx)),
{{
{render(hs['else_stmt'], 1)}
}}

//@ OBL C15.handler.store_skip
// `store_skip R P N` after the left operand of `&&` (P = 0) / `||` (P = 1): when the left value decides the result (false for &&,
// true for ||) it STAYS on the stack as the value of the whole expression and N instructions -- the right operand -- are skipped;
// otherwise it is saved in R and the right operand is evaluated
pub fn store_skip(ctx: &mut Ctx, args: &Vec<VString>) -> (r: Result<(), VErr>)
    ensures
        // total on a well-formed operand: a bool or a pointer to a bool
        (args@.len() >= 3 && parses_u8(&args@[1]) && parses_isize(&args@[2]) && num_of(&args@[2]) >= 0 && old(ctx).stack@.len() == 1
            && moved_out(old(ctx).stack@[0]) is Some && moved_out(old(ctx).stack@[0])->Some_0 is Bool) ==> (r is Ok || !({{ let v = moved_out(old(ctx).stack@[0])->Some_0->Bool_0; if num_of(&args@[1]) == 1 {{ v }} else {{ !v }} }})),
        r is Ok ==> args@.len() >= 3 && old(ctx).stack@.len() == 1 && moved_out(old(ctx).stack@[0]) is Some && moved_out(old(ctx).stack@[0])->Some_0 is Bool && num_of(&args@[2]) >= 0 && ({{
            let v = moved_out(old(ctx).stack@[0])->Some_0->Bool_0;
            let skip = if num_of(&args@[1]) == 1 {{ v }} else {{ !v }};
            // skipped: the (plain) left value is the result of the whole expression
            &&& (skip ==> final(ctx).exit_state == Exit::Goto(num_of(&args@[2]) as isize) && final(ctx).stack@ == seq![Primitive::Bool(v)] && rest(final(ctx)) == rest(old(ctx)))
            &&& (!skip ==> final(ctx).exit_state == old(ctx).exit_state && final(ctx).stack@.len() == 0
                    && locals_view(&final(ctx).locals) == locals_view(&old(ctx).locals).insert(text_of(&args@[0]), Primitive::Bool(v)))
        }}),
{{
{render(hs['store_skip'], 1)}
}}

}} // verus!
fn main() {{}}
"""
    obls = ctx_obls(names, ["C01"]) + [
        Obl("C01.handler.if_stmt", ["C01", "C09", "C02"], fn="if_stmt", desc="if_stmt: condition popped; true -> PushScope(If), false -> Goto(offset); stack cleared; Err on a non-bool / missing operand"),
        Obl("C01.handler.while_loop", ["C01", "C09", "C02"], fn="while_loop", desc="while_loop: condition popped; true -> PushScope(WhileLoop), false -> Goto(offset)"),
        Obl("C01.handler.jmp", ["C01", "C09"], fn="jmp", desc="jmp: Goto(offset), nothing else"),
        Obl("C01.handler.jmp_pop", ["C01", "C09"], fn="jmp_pop", desc="jmp_pop: GotoPopScope(offset, frames) with frames = 1 when omitted"),
        Obl("C01.handler.done", ["C01", "C09"], fn="done", desc="done: PopScope"),
        Obl("C01.handler.else_stmt", ["C01", "C09"], fn="else_stmt", desc="else_stmt: PushScope(Else)"),
        Obl("C15.handler.store_skip", ["C15", "C01", "C02"], fn="store_skip", desc="store_skip: the deciding left value stays as the result and the right operand is skipped; otherwise it is saved in the register and the stack is emptied"),
    ]
    return gen, obls, log


U_CTRL = VUnit("c01_control", ["C01", "C09", "C15", "C02"], "control-flow handlers: the exit state each control instruction signals", build_control)
U_CTRL.assumes = ["heap pointers abstract: move_out_of_heap_primitive is the identity on plain values and the pointee's value on pointers",
                  "Stack::register_variable_local is an abstract callee", "str::parse as an assumed contract (num_of / parses_*)"]
UNITS = [U_CTRL]


# =====================================================================================================================
# Function::run: what the interpreter loop does with the exit state a handler signalled (fragment: from the statement after
# `let ret = context.poll();` to the end of the loop body)
FUNC = "bytecode/src/function.rs"

# errors with an identity: an error that is passed on (`?`, with or without added context) is THE SAME error -- its message and cause chain
# reach the report; `bail!` / `anyhow!` make a new one, about which nothing is known
ERR_ID = """#[verifier::external_body] pub struct VErr { x: usize }
#[verifier::external_body] pub fn verr_new() -> (r: VErr) { unimplemented!() }"""

STEP_SPEC = r"""
global size_of usize == 8;          // 64-bit target
#[verifier::external_body] pub fn wrap_usize(x: isize) -> (r: usize) ensures x >= 0 ==> r as int == x as int, x < 0 ==> r as int == x as int + 0x1_0000_0000_0000_0000 { x as usize }
pub enum ReturnValue { FFIError(VString), NoValue, Value(Primitive) }
impl ReturnValue {
    pub fn get(self) -> (r: Option<Primitive>) ensures r == (match self { ReturnValue::Value(p) => Some(p), _ => None::<Primitive> }) {
        if let ReturnValue::Value(primitive) = self { Some(primitive) } else { None }
    }
}
#[verifier::external_body] pub fn clone_rv(r: &ReturnValue) -> (c: ReturnValue) ensures c == *r { unimplemented!() }
// the callback that performs a jump request (call of another function / module / library): abstract
#[verifier::external_body] pub struct JumpCb { x: usize }
pub uninterp spec fn cb_result(cb: &JumpCb, r: &JumpRequest) -> Result<ReturnValue, VErr>;
#[verifier::external_body] pub fn jump_callback_call(cb: &JumpCb, r: &JumpRequest) -> (res: Result<ReturnValue, VErr>) ensures res == cb_result(cb, r) { unimplemented!() }
#[verifier::external_body] pub fn scope_label(t: &SpecialScope) -> (r: VString) { unimplemented!() }      // SpecialScope::identity_str
// current_frame.borrow_mut().pop_until_function(): closes the frames of the returning function (stack.rs; abstract here)
pub uninterp spec fn until_function(l: Seq<VString>) -> Seq<VString>;
#[verifier::external_body] pub fn pop_until_function(ctx: &mut Ctx)
    ensures frame_labels(&final(ctx).call_stack) == until_function(frame_labels(&old(ctx).call_stack)), final(ctx).stack == old(ctx).stack, final(ctx).exit_state == old(ctx).exit_state { unimplemented!() }
// the notification bridge (map / filter callbacks): abstract, may run further functions
pub uninterp spec fn bridge_err(e: VErr) -> bool;              // an error raised by the bridge itself (wait_for / then / finish)
#[verifier::external_body] pub fn bridge_wait_for(b: &BridgeV) -> (r: Result<JumpRequest, VErr>) ensures r is Err ==> bridge_err(r->Err_0) { unimplemented!() }
#[verifier::external_body] pub fn bridge_then(b: &BridgeV, v: ReturnValue) -> (r: Result<bool, VErr>) ensures r is Err ==> bridge_err(r->Err_0) { unimplemented!() }
#[verifier::external_body] pub fn bridge_finish(b: &BridgeV) -> (r: Result<Option<Primitive>, VErr>) ensures r is Err ==> bridge_err(r->Err_0) { unimplemented!() }
// the error comes out of a call made through the jump callback
pub open spec fn from_callback(cb: &JumpCb, e: VErr) -> bool { exists|q: JumpRequest| #[trigger] cb_result(cb, &q) == Err::<ReturnValue, VErr>(e) }
pub enum Step { Returned(ReturnValue), Next(usize) }
pub struct Instr { pub id: u8 }
pub fn instr_get(v: &Vec<Instr>, i: usize) -> (r: Option<&Instr>) ensures i < v@.len() ==> r == Some(&v@[i as int]), i >= v@.len() ==> r is None { if i < v.len() { Some(&v[i]) } else { None } }
pub mod opcode { OPCODE_CONSTS }
// `(instruction_ptr as isize + offset) as usize` in the dev profile: the sum is overflow-checked, the cast back wraps
pub open spec fn goto_target(ptr: usize, off: isize) -> int { ptr as int + off as int }
impl Ctx {
    //@ OBL CTX.clear_signal
    pub fn clear_signal(&mut self) ensures final(self).exit_state == Exit::NoExit, final(self).stack == old(self).stack, rest(final(self)) == rest(old(self)) { CLEAR_SIGNAL }
}
"""


def build_step(repo):
    src = Source(repo)
    log = []
    names = ["push"]
    ctx = ctx_impl(src, log, names)
    frun = src.fn(FUNC, "run", "impl Function")
    body = frun["body"]
    try:
        _, o, c = find_block_after(body, "while instruction_ptr < self . instructions . len ( )")
    except Exception as e:
        raise Undecided(f"Function::run: interpreter loop not found: {e}")
    loop = body[o + 1:c]
    p = Pat("let ret : & InstructionExitState = context . poll ( ) ;")
    at = None
    for i in range(len(loop)):
        r = p.match_at(loop, i)
        if r:
            at = r[0]; break
    if at is None:
        raise Undecided("Function::run: `let ret: &InstructionExitState = context.poll();` not found in the loop")
    frag = loop[at:]
    fcs = src.fn(CTXF, "clear_signal", "impl < 'a > Ctx < 'a >")
    cs = translate(fcs["body"], CTX_RULES + [Rule("R1", "InstructionExitState :: $v", "Exit :: $v", why="enum renamed in the model")], log, "Ctx::clear_signal")
    fpoll = src.fn(CTXF, "poll", "impl < 'a > Ctx < 'a >")
    if text(fpoll["body"]).replace(" ", "") != "&self.exit_state":
        raise Undecided("Ctx::poll is no longer `&self.exit_state`: " + text(fpoll["body"]))
    pre = [
        Rule("R3", ". with_context ( $$c )", "", why="context text dropped (added context keeps the error and its cause chain)"),
        Rule("R3", ". context ( $m )", "", why="context text dropped (added context keeps the error and its cause chain)"),
        Rule("R3", "log :: trace ! $a ;", "", why="logging dropped"),
        Rule("R9", "# [ cfg ( feature = \"debug\" ) ] let $$s ;", "", why="cfg(feature = \"debug\") is off in the default build: statement not compiled"),
        Rule("R9", "# [ cfg ( not ( feature = \"debug\" ) ) ]", "", why="cfg(not(feature = \"debug\")): statement compiled in the default build"),
    ]
    b = translate(frag, pre, log, "Function::run[step]")
    b = inline_closures(b, log)
    rules = [
        Rule("R3", "bail ! $a", "return Err ( VErr )", why="bail! -> return Err"),
        Rule("R1", "InstructionExitState :: $v", "Exit :: $v", why="enum renamed in the model"),
        Rule("R3", "Result < ( ) >", "Result < ( ) , VErr >", why="anyhow::Result"),
        Rule("R8", "let new_val = ( instruction_ptr as isize + offset ) as usize ;",
             "let new_val = wrap_usize ( instruction_ptr as isize + offset ) ;", count="+", why="the isize addition is kept (Verus checks it for overflow as the dev profile does); `as usize` of a negative isize wraps modulo 2^64 (Rust cast semantics, assumed)"),
        Rule("R10", "current_frame . borrow_mut ( ) . pop_until_function ( ) ;", "pop_until_function ( context ) ;", why="Rc<RefCell<Stack>> shared with the context: the call stack is a field of the model context"),
        Rule("R1", "return Ok ( ret . clone ( ) ) ;", "return Ok ( Step :: Returned ( clone_rv ( ret ) ) ) ;", count=1, why="the step function returns what the loop would: the function's return value, or the next instruction pointer"),
        Rule("R1", "return Ok ( $$e ) ;", lambda b: None if (b["e"] and b["e"][0] == "Step") else "return Ok ( Step :: Returned ( " + text(b["e"]) + " ) ) ;", why="any other `return Ok(v)` of the loop: the function's return value"),
        Rule("R9", "self . instructions . get ( $$i ) . is_some_and ( | $x | $$p )", "( match instr_get ( instrs , $$i ) { Some ( $x ) => $$p , None => false } )", why="slice::get + Option::is_some_and -> match"),
        Rule("R9", "self . instructions . get ( $$i )", "instr_get ( instrs , $$i )", why="slice::get on the function's instruction array"),
        Rule("R1", "self . instructions . len ( )", "instrs . len ( )", why="the function's instruction array as a parameter of the fragment"),
        Rule("R1", "self . instructions [ $$i ]", "instrs [ $$i ]", why="the function's instruction array as a parameter of the fragment"),
        Rule("R1", "id :: $c", "opcode :: $c", why="opcode constants of instruction_constants.rs"),
        Rule("R6", "jump_callback ( jump_request ) ?", "jump_callback_call ( jump_callback , jump_request ) ?", why="jump callback abstract (runs another function / module / library call)"),
        Rule("R1", "context . add_frame ( Cow :: Borrowed ( ty . identity_str ( ) ) ) ;", "context . add_frame ( scope_label ( ty ) ) ;", why="frame label text"),
        Rule("R7", "( * offset ) . try_into ( ) ?", "usize_to_isize ( * offset ) ?", why="usize -> isize conversion"),
        Rule("R2", "for _ in 0 .. * frames_to_pop { $$body }",
             ["let mut verif_p : usize = 0 ; while verif_p < * frames_to_pop",
              G("invariant verif_p <= *frames_to_pop, *frames_to_pop <= frame_labels(&old(context).call_stack).len(), "
                "frame_labels(&context.call_stack) == frame_labels(&old(context).call_stack).subrange(0, frame_labels(&old(context).call_stack).len() - verif_p as int), "
                "context.stack == old(context).stack, context.exit_state == old(context).exit_state, instruction_ptr as int == goto_target(ptr_in, *offset), special_scopes@ == old(special_scopes)@ "
                "decreases *frames_to_pop - verif_p"),
              "{ verif_p += 1 ; $$body }"], why="for over a range -> counted while"),
        Rule("R6", "bridge . wait_for ( ) ?", "bridge_wait_for ( bridge ) ?", why="notification bridge (map / filter): its three methods are abstract callees; an error of theirs is marked as the bridge's"),
        Rule("R6", "bridge . then ( return_value ) ?", "bridge_then ( bridge , return_value ) ?", why="notification bridge method abstract"),
        Rule("R6", "bridge . finish ( ) ?", "bridge_finish ( bridge ) ?", why="notification bridge method abstract"),
        Rule("R6", "jump_callback ( & to_call )", "jump_callback_call ( jump_callback , & to_call )", why="jump callback abstract (runs the list callback)"),
        Rule("R2", "loop { let to_call", ["loop", G("invariant *context == *old(context), instruction_ptr == ptr_in, special_scopes@ == old(special_scopes)@, !verif_once,"), "{ let to_call"], why="the bridge loop: the context is not touched while the callbacks run (termination of the bridge protocol is not claimed)"),
        Rule("R1", "special_scopes . push ( * ty ) ;", "special_scopes . push ( copy_scope ( ty ) ) ;", why="SpecialScope is Copy"),
        Rule("R1", "ref x @ Exit :: GotoPopScope", "Exit :: GotoPopScope", why="binding only used by the trace message"),
        Rule("R1", "let old_ptr_location = instruction_ptr ;", "", why="only used by the trace message"),
    ]
    # the closure was inlined: its parameter is named offset; calls pass `*offset`
    b = translate(b, rules, log, "Function::run[step]")
    b = Rule("R11", "continue ;", [G("proof { assert(frame_labels(&old(context).call_stack).subrange(0, frame_labels(&old(context).call_stack).len() as int) =~= frame_labels(&old(context).call_stack)); }"), "continue ;"], why="").apply(b, log)
    check_closed(b, "Function::run[step]")
    b = Rule("R3", "Err ( VErr )", "Err ( verr_new ( ) )", why="an error made here (bail!) is a NEW error").apply(b, log)
    gen = header(log, f"{FUNC}: Function::run, loop body after `let ret = context.poll();`; {CTXF}: Ctx::clear_signal, Ctx::push") + \
        prelude("ctx.rs").replace("ReturnValue(Box<Primitive>)", "ReturnValue(ReturnValue), GotoPushScope(usize, SpecialScope)").replace("pub struct VErr;", ERR_ID) + \
        "#[verifier::external_body] pub fn copy_scope(t: &SpecialScope) -> (r: SpecialScope) ensures r == *t { unimplemented!() }\n" + \
        "#[verifier::external_body] pub fn usize_to_isize(x: usize) -> (r: Result<isize, VErr>) ensures r is Ok ==> r->Ok_0 as int == x as int { unimplemented!() }\n" + \
        ctx + STEP_SPEC.replace("CLEAR_SIGNAL", render(cs, 0)).replace("OPCODE_CONSTS", " ".join(f"pub const {k.upper()}: u8 = {v};" for k, v in opcode_ids(repo).items())) + f"""
// depth of the frame stack after the step, by exit state (what the compile-side layouts assume of the interpreter)
pub open spec fn frames_after(e: Exit, before: Seq<VString>, scopes_before: Seq<SpecialScope>) -> int {{
    match e {{
        Exit::PushScope(_) | Exit::GotoPushScope(_, _) => before.len() as int + 1,
        Exit::GotoPopScope(_, k) => before.len() - k,
        Exit::PopScope => if scopes_before.len() > 0 {{ before.len() - 1 }} else {{ before.len() as int }},
        _ => before.len() as int,
    }}
}}
// the list of open block scopes (`special_scopes`) decides whether `done` closes a frame: it must never hold FEWER entries than there are open
// block frames -- a scope instruction adds one entry, `done` removes one, `jmp_pop k` closes k frames and may drop at most k entries
pub open spec fn scopes_ok(ret: Exit, s0: Seq<SpecialScope>, s1: Seq<SpecialScope>) -> bool {{
    &&& ((ret is PushScope || ret is GotoPushScope) ==> s1.len() == s0.len() + 1)
    &&& (ret is PopScope ==> s1.len() == (if s0.len() > 0 {{ s0.len() - 1 }} else {{ 0 }}))
    &&& (ret matches Exit::GotoPopScope(_, k) ==> s1.len() + k >= s0.len())
    &&& ((ret is Goto || ret is NoExit || ret is JumpRequest) ==> s1 == s0)
}}
// the loop goes on with instruction `p1` in context `c1`
pub open spec fn next_ok(ret: Exit, c0: Ctx, s0: Seq<SpecialScope>, ptr_in: usize, len: usize, cb: &JumpCb, c1: Ctx, p1: usize) -> bool {{
    // a jump goes exactly to ptr + offset (no extra step) and stays inside the function
    &&& (ret matches Exit::Goto(off) ==> p1 as int == goto_target(ptr_in, off) && p1 < len)
    &&& (ret matches Exit::GotoPopScope(off, _) ==> p1 as int == goto_target(ptr_in, off) && p1 < len)
    // everything else continues with the next instruction
    &&& ((ret is NoExit || ret is PushScope || ret is PopScope || ret is JumpRequest) ==> p1 as int == ptr_in + 1)
    // frames: a scope instruction opens exactly one, done closes one, jmp_pop closes exactly the number it names; nothing else touches them
    &&& frame_labels(&c1.call_stack).len() == frames_after(ret, frame_labels(&c0.call_stack), s0)
    &&& ((ret is Goto || ret is NoExit || ret is JumpRequest) ==> frame_labels(&c1.call_stack) == frame_labels(&c0.call_stack))
    // the value of a call (C19: foreign calls included) is pushed
    &&& (ret matches Exit::JumpRequest(jr) ==> (match cb_result(cb, &jr) {{
            Ok(ReturnValue::Value(p)) => c1.stack@ == c0.stack@.push(p),
            Ok(ReturnValue::NoValue) => c1.stack@ == c0.stack@,
            _ => false,
        }}))
    &&& ((ret is Goto || ret is NoExit || ret is PushScope || ret is PopScope || ret is GotoPopScope) ==> c1.stack@ == c0.stack@)
    &&& !(ret is ReturnValue)
    // the exit state is consumed
    &&& c1.exit_state == Exit::NoExit
}}

//@ OBL C01.run.step
#[verifier::loop_isolation(false)]
#[verifier::exec_allows_no_decreases_clause]
pub fn run_step(ret: &Exit, context: &mut Ctx, ptr_in: usize, instruction_len: usize, special_scopes: &mut Vec<SpecialScope>, jump_callback: &JumpCb, instrs: &Vec<Instr>) -> (r: Result<Step, VErr>)
    requires
        ptr_in < instruction_len, instruction_len <= isize::MAX, instrs@.len() == instruction_len,
        // offsets are those of compiled code: ptr + offset does not overflow isize (a hand-written offset near isize::MAX would
        // panic in the dev profile: outside what is claimed)
        (*ret matches Exit::Goto(off) ==> goto_target(ptr_in, off) <= isize::MAX),
        (*ret matches Exit::GotoPopScope(off, _) ==> goto_target(ptr_in, off) <= isize::MAX),
        (*ret matches Exit::GotoPushScope(off, _) ==> ptr_in + off <= isize::MAX),
        // frames a GotoPopScope / PopScope closes exist (compile side: C01.while.layout, C01.scopes_since_loop; Stack::pop panics otherwise)
        (*ret matches Exit::GotoPopScope(_, k) ==> k <= frame_labels(&old(context).call_stack).len()),
        (*ret is PopScope && old(special_scopes)@.len() > 0 ==> frame_labels(&old(context).call_stack).len() > 0),
    ensures
        (r matches Ok(Step::Next(p1)) ==> next_ok(*ret, *old(context), old(special_scopes)@, ptr_in, instruction_len, jump_callback, *final(context), p1)),
        (r matches Ok(Step::Next(_)) ==> scopes_ok(*ret, old(special_scopes)@, final(special_scopes)@)),
        // totality: a jump inside the function, a scope instruction or a plain instruction never fails here
        (*ret matches Exit::Goto(off) ==> (r is Ok <==> 0 <= goto_target(ptr_in, off) < instruction_len)),
        ((*ret is NoExit || *ret is PushScope || *ret is PopScope) ==> r is Ok),
        // a failed call / an FFI error is a failure of the caller
        (*ret matches Exit::JumpRequest(jr) ==> ((cb_result(jump_callback, &jr) is Err || cb_result(jump_callback, &jr) matches Ok(ReturnValue::FFIError(_))) <==> r is Err)),
        // C17: what went wrong inside a called function is what the caller fails with -- the callee's error itself (message, cause chain), not a
        // re-worded one; likewise under a list.map / list.filter callback
        (*ret matches Exit::JumpRequest(jr) ==> (cb_result(jump_callback, &jr) matches Err(e) ==> r == Err::<Step, VErr>(e))),
        ((*ret is BeginNotificationBridge && r is Err) ==> (bridge_err(r->Err_0) || from_callback(jump_callback, r->Err_0))),
        // `ret` ends the function with exactly its value
        (*ret matches Exit::ReturnValue(v) ==> r is Ok && r->Ok_0 == Step::Returned(v)),
        (r matches Ok(Step::Returned(_)) ==> *ret is ReturnValue),
{{
    let mut instruction_ptr = ptr_in;
    let mut verif_once = true;
    while verif_once
        invariant
            verif_once ==> (*context == *old(context) && instruction_ptr == ptr_in && special_scopes@ == old(special_scopes)@),
            !verif_once ==> next_ok(*ret, *old(context), old(special_scopes)@, ptr_in, instruction_len, jump_callback, *context, instruction_ptr),
            !verif_once ==> scopes_ok(*ret, old(special_scopes)@, special_scopes@),
        decreases (if verif_once {{ 1int }} else {{ 0int }})
    {{
        verif_once = false;
        VERIF_FRAGMENT
    }}
    Ok(Step::Next(instruction_ptr))
}}

}} // verus!
fn main() {{}}
""".replace("VERIF_FRAGMENT", render(b, 2))
    obls = ctx_obls(names, ["C01"]) + [
        Obl("CTX.clear_signal", ["C01", "C09"], fn="Ctx::clear_signal", desc="Ctx::clear_signal resets the exit state only"),
        Obl("C01.run.step", ["C01", "C09", "C19", "C17"], fn="run_step",
            desc="Function::run, one iteration after the handler: Goto jumps to exactly ptr+offset (Err outside the function); PushScope opens one frame, PopScope closes one, GotoPopScope(k) closes exactly k and jumps; a call's value is pushed, an FFI error fails; everything else steps to ptr+1"),
    ]
    return gen, obls, log


U_STEP = VUnit("c01_run_step", ["C01", "C09", "C19", "C17"], "Function::run: what the loop does with each exit state (instruction pointer, frames, call results)", build_step)
U_STEP.assumes = ["fragment: the loop body of Function::run after `let ret = context.poll();` is verified as a function of (ret, context, instruction_ptr, special_scopes); `ret` is the context's exit state (Ctx::poll is checked to be `&self.exit_state`); the instruction fetch and `query!` dispatch in front of it are not part of the fragment",
                  "Rc<RefCell<Stack>>: the shared call stack is a field of the model context (single-threaded, no re-entrant borrow)",
                  "the jump callback and the notification bridge are abstract callees; Stack::extend / pop as push / drop_last of frame labels; pop_until_function abstract",
                  "cfg(feature = \"debug\") is off (default build)"]
UNITS = [U_CTRL, U_STEP]

"""C01 / C09 / C15 (interpreter side): the control-flow handlers of instruction.rs and the exit-state step of Function::run, V-t.

The compile-side units prove where every jump lands and how many frames a break/continue pops; these units prove that the
interpreter does what those layouts assume: which exit state each control instruction signals, and what Function::run does with it
(instruction pointer, frame depth)."""
from vlib.rules import *
from units.handlers import *

CTRL_SPEC = r"""
pub uninterp spec fn parses_u8(s: &VString) -> bool;
#[verifier::external_body]
pub fn parse_u8(s: &VString) -> (r: Result<u8, VErr>) ensures r is Ok <==> parses_u8(s), r is Ok ==> r->Ok_0 as int == num_of(s) { unimplemented!() }
"""

CTRL_RULES = [
    Rule("R5", "$x . parse :: < isize > ( ) ?", "parse_isize ( $x ) ?", why="str::parse::<isize> as assumed contract"),
    Rule("R5", "$x . parse :: < u8 > ( ) . context ( $m ) ?", "parse_u8 ( $x ) ?", why="str::parse::<u8> as assumed contract; context text dropped"),
    Rule("R5", "$x . parse :: < usize > ( )", "parse_usize ( $x )", why="str::parse::<usize> as assumed contract"),
    Rule("R9", "args . get ( $i ) . map_or_else ( || $$d , | $x | $$f )", "( match args_get ( args , $i ) { None => $$d , Some ( $x ) => $$f } )", why="Option::map_or_else(default, f) -> match"),
    Rule("R3", "log :: trace ! $a ;", "", why="logging dropped"),
    Rule("R8", "let Some ( [ $a , $b , $c ] ) = args . get ( 0 ..= 2 ) else { $$e } ;",
         "if args . len ( ) < 3 { $$e } let $a = & args [ 0 ] ; let $b = & args [ 1 ] ; let $c = & args [ 2 ] ;", why="slice::get(0..=2) as a 3-element pattern -> length test + indexing"),
    Rule("R9", "lines_to_jump . is_negative ( )", "( lines_to_jump < 0 )", why="isize::is_negative"),
    Rule("R1", "if ! val {", "if ! * val {", why="`!` on &bool"),
    Rule("R1", "name . clone ( )", "clone_vs ( name )", why="String clone"),
]


def build_control(repo):
    src = Source(repo)
    log = []
    names = ["pop", "push", "signal", "stack_size", "get_last_op_item", "clear_stack"]
    ctx = ctx_impl(src, log, names)
    hs = {n: handler(src, log, n, CTRL_RULES) for n in ["if_stmt", "while_loop", "jmp", "jmp_pop", "done", "else_stmt", "store_skip"]}

    def cond(name, scope):
        return f"""
//@ OBL C01.handler.{name}
// `{name} OFFSET`: pops the condition; true -> a new frame is opened and execution continues with the next instruction;
// false -> jump by OFFSET (to where the compile-side layout says: past the block), no frame opened
pub fn {name}(ctx: &mut Ctx, args: &Vec<VString>) -> (r: Result<(), VErr>)
    ensures
        (old(ctx).stack@.len() > 0 && old(ctx).stack@.last() is Bool && args@.len() >= 1 && (old(ctx).stack@.last()->Bool_0 || parses_isize(&args@[0]))) ==> r is Ok,
        r is Ok ==> old(ctx).stack@.len() > 0 && old(ctx).stack@.last() is Bool && args@.len() >= 1 && final(ctx).stack@.len() == 0
            && (old(ctx).stack@.last()->Bool_0 ==> final(ctx).exit_state == Exit::PushScope(SpecialScope::{scope}))
            && (!old(ctx).stack@.last()->Bool_0 ==> final(ctx).exit_state == Exit::Goto(num_of(&args@[0]) as isize)),
        rest(final(ctx)) == rest(old(ctx)),
{{
{render(hs[name], 1)}
}}
"""
    gen = header(log, f"{INSTR}: if_stmt, while_loop, jmp, jmp_pop, done, else_stmt, store_skip; {CTXF}: Ctx methods") + prelude("ctx.rs") + CTRL_SPEC + ctx + cond("if_stmt", "If") + cond("while_loop", "WhileLoop") + f"""
//@ OBL C01.handler.jmp
pub fn jmp(ctx: &mut Ctx, args: &Vec<VString>) -> (r: Result<(), VErr>)
    ensures (args@.len() >= 1 && parses_isize(&args@[0])) <==> r is Ok,
            r is Ok ==> final(ctx).exit_state == Exit::Goto(num_of(&args@[0]) as isize) && final(ctx).stack@ == old(ctx).stack@,
            rest(final(ctx)) == rest(old(ctx)),
{{
{render(hs['jmp'], 1)}
}}

//@ OBL C01.handler.jmp_pop
// `jmp_pop OFFSET [FRAMES]`: jump and close FRAMES frames (1 when omitted) -- the closing instruction of a loop, and break / continue
pub fn jmp_pop(ctx: &mut Ctx, args: &Vec<VString>) -> (r: Result<(), VErr>)
    ensures (args@.len() >= 1 && parses_isize(&args@[0]) && (args@.len() >= 2 ==> parses_usize(&args@[1]))) <==> r is Ok,
            r is Ok ==> final(ctx).exit_state == Exit::GotoPopScope(num_of(&args@[0]) as isize, if args@.len() >= 2 {{ num_of(&args@[1]) as usize }} else {{ 1usize }})
                        && final(ctx).stack@ == old(ctx).stack@,
            rest(final(ctx)) == rest(old(ctx)),
{{
{render(hs['jmp_pop'], 1)}
}}

//@ OBL C01.handler.done
pub fn done(ctx: &mut Ctx, _args: &Vec<VString>) -> (r: Result<(), VErr>)
    ensures r is Ok, final(ctx).exit_state == Exit::PopScope, final(ctx).stack@ == old(ctx).stack@, rest(final(ctx)) == rest(old(ctx)),
{{
{render(hs['done'], 1)}
}}

//@ OBL C01.handler.else_stmt
pub fn else_stmt(ctx: &mut Ctx, _args: &Vec<VString>) -> (r: Result<(), VErr>)
    ensures r is Ok, final(ctx).exit_state == Exit::PushScope(SpecialScope::Else), final(ctx).stack@ == old(ctx).stack@, rest(final(ctx)) == rest(old(ctx)),
{{
{render(hs['else_stmt'], 1)}
}}

//@ OBL C15.handler.store_skip
// `store_skip R P N` after the left operand of `&&` (P = 0) / `||` (P = 1): when the left value decides the result (false for &&,
// true for ||) it STAYS on the stack as the value of the whole expression and N instructions -- the right operand -- are skipped;
// otherwise it is saved in R and the right operand is evaluated
pub fn store_skip(ctx: &mut Ctx, args: &Vec<VString>) -> (r: Result<(), VErr>)
    ensures
        r is Ok ==> args@.len() >= 3 && old(ctx).stack@.len() == 1 && old(ctx).stack@[0] is Bool && num_of(&args@[2]) >= 0 && ({{
            let v = old(ctx).stack@[0]->Bool_0;
            let skip = if num_of(&args@[1]) == 1 {{ v }} else {{ !v }};
            &&& (skip ==> final(ctx).exit_state == Exit::Goto(num_of(&args@[2]) as isize) && final(ctx).stack@ == old(ctx).stack@ && rest(final(ctx)) == rest(old(ctx)))
            &&& (!skip ==> final(ctx).exit_state == old(ctx).exit_state && final(ctx).stack@.len() == 0
                    && locals_view(&final(ctx).locals) == locals_view(&old(ctx).locals).insert(text_of(&args@[0]), Primitive::Bool(v)))
        }}),
{{
{render(hs['store_skip'], 1)}
}}

}} // verus!
fn main() {{}}
"""
    obls = ctx_obls(names, ["C01"]) + [
        Obl("C01.handler.if_stmt", ["C01", "C09"], fn="if_stmt", desc="if_stmt: condition popped; true -> PushScope(If), false -> Goto(offset); stack cleared; Err on a non-bool / missing operand"),
        Obl("C01.handler.while_loop", ["C01", "C09"], fn="while_loop", desc="while_loop: condition popped; true -> PushScope(WhileLoop), false -> Goto(offset)"),
        Obl("C01.handler.jmp", ["C01", "C09"], fn="jmp", desc="jmp: Goto(offset), nothing else"),
        Obl("C01.handler.jmp_pop", ["C01", "C09"], fn="jmp_pop", desc="jmp_pop: GotoPopScope(offset, frames) with frames = 1 when omitted"),
        Obl("C01.handler.done", ["C01", "C09"], fn="done", desc="done: PopScope"),
        Obl("C01.handler.else_stmt", ["C01", "C09"], fn="else_stmt", desc="else_stmt: PushScope(Else)"),
        Obl("C15.handler.store_skip", ["C15", "C01"], fn="store_skip", desc="store_skip: the deciding left value stays as the result and the right operand is skipped; otherwise it is saved in the register and the stack is emptied"),
    ]
    return gen, obls, log


U_CTRL = VUnit("c01_control", ["C01", "C09", "C15"], "control-flow handlers: the exit state each control instruction signals", build_control)
U_CTRL.assumes = ["the condition operand is taken as it is on the stack (no heap-pointer view): that the compiler never leaves a pointer there is not proved",
                  "Stack::register_variable_local is an abstract callee", "str::parse as an assumed contract (num_of / parses_*)"]
UNITS = [U_CTRL]

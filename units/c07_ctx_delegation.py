"""C07 / C09 / C01: the thin methods of Ctx (bytecode/src/context.rs) through which every handler reaches the call stack.  The handlers' contracts
(units in handlers.py) and the stack's contracts (c07_stack, c07_stack_frames) meet here: each Ctx method must hand EXACTLY its arguments to
EXACTLY the Stack operation of that meaning -- `register_variable_local` must not become `register_variable` (which searches outer frames),
`load_variable` must stay the whole-stack lookup, `add_frame` / `pop_frame` must be one push / one pop.  Also Ctx::push_front."""
from vlib.rules import *

FILE = "bytecode/src/context.rs"

SPEC = r"""
use vstd::prelude::*;
verus! {
pub struct VErr;
#[verifier::external_body] pub struct VString { x: usize }
#[verifier::external_body] pub struct Primitive { x: usize }
#[verifier::external_body] pub struct Handle { x: usize }
pub struct VariableFlags(pub u8);
pub fn flags_none() -> (r: VariableFlags) ensures r.0 == 0 { VariableFlags(0) }
// the operations of Stack (their own contracts: units c07_stack, c07_stack_frames): here only WHICH one is called with WHAT
pub enum StackOp { Extend(VString), Pop, Size, RegisterVariable(VString, Primitive), RefVariable(VString, Handle), RegisterVariableLocal(VString, Primitive, u8), DeleteVariableLocal(VString), FindName(VString), Deinit }
#[verifier::external_body] pub struct StackM { x: usize }
pub uninterp spec fn ops(s: &StackM) -> Seq<StackOp>;
pub uninterp spec fn answer_usize(s: &StackM, n: int) -> usize;
pub uninterp spec fn answer_res(s: &StackM, n: int) -> Result<(), VErr>;
pub uninterp spec fn answer_del(s: &StackM, n: int) -> Result<Handle, VErr>;
pub uninterp spec fn answer_find(s: &StackM, n: int) -> Option<Handle>;
impl StackM {
    #[verifier::external_body] pub fn extend(&mut self, l: VString) ensures ops(final(self)) == ops(old(self)).push(StackOp::Extend(l)) { unimplemented!() }
    #[verifier::external_body] pub fn pop(&mut self) ensures ops(final(self)) == ops(old(self)).push(StackOp::Pop) { unimplemented!() }
    #[verifier::external_body] pub fn deinit(&mut self) ensures ops(final(self)) == ops(old(self)).push(StackOp::Deinit) { unimplemented!() }
    #[verifier::external_body] pub fn size(&mut self) -> (r: usize) ensures ops(final(self)) == ops(old(self)).push(StackOp::Size), r == answer_usize(old(self), ops(old(self)).len() as int) { unimplemented!() }
    #[verifier::external_body] pub fn register_variable(&mut self, n: VString, v: Primitive) -> (r: Result<(), VErr>) ensures ops(final(self)) == ops(old(self)).push(StackOp::RegisterVariable(n, v)), r == answer_res(old(self), ops(old(self)).len() as int) { unimplemented!() }
    #[verifier::external_body] pub fn ref_variable(&mut self, n: VString, h: Handle) ensures ops(final(self)) == ops(old(self)).push(StackOp::RefVariable(n, h)) { unimplemented!() }
    #[verifier::external_body] pub fn register_variable_local(&mut self, n: VString, v: Primitive, f: VariableFlags) -> (r: Result<(), VErr>) ensures ops(final(self)) == ops(old(self)).push(StackOp::RegisterVariableLocal(n, v, f.0)), r == answer_res(old(self), ops(old(self)).len() as int) { unimplemented!() }
    #[verifier::external_body] pub fn delete_variable_local(&mut self, n: &VString) -> (r: Result<Handle, VErr>) ensures ops(final(self)) == ops(old(self)).push(StackOp::DeleteVariableLocal(*n)), r == answer_del(old(self), ops(old(self)).len() as int) { unimplemented!() }
    #[verifier::external_body] pub fn find_name(&mut self, n: &VString) -> (r: Option<Handle>) ensures ops(final(self)) == ops(old(self)).push(StackOp::FindName(*n)), r == answer_find(old(self), ops(old(self)).len() as int) { unimplemented!() }
}
pub struct Ctx { pub call_stack: StackM, pub stack: Vec<Primitive> }
"""

TABLE = [   # method, signature, expected op, result expression
    ("add_frame", "(&mut self, label: VString)", "StackOp::Extend(label)", None),
    ("pop_frame", "(&mut self)", "StackOp::Pop", None),
    ("frames_count", "(&mut self) -> (r: usize)", "StackOp::Size", "r == answer_usize(&old(self).call_stack, ops(&old(self).call_stack).len() as int)"),
    ("register_variable", "(&mut self, name: VString, var: Primitive) -> (r: Result<(), VErr>)", "StackOp::RegisterVariable(name, var)", "r == answer_res(&old(self).call_stack, ops(&old(self).call_stack).len() as int)"),
    ("ref_variable", "(&mut self, name: VString, var: Handle)", "StackOp::RefVariable(name, var)", None),
    ("register_variable_local", "(&mut self, name: VString, var: Primitive) -> (r: Result<(), VErr>)", "StackOp::RegisterVariableLocal(name, var, 0)", "r == answer_res(&old(self).call_stack, ops(&old(self).call_stack).len() as int)"),
    ("delete_variable_local", "(&mut self, name: &VString) -> (r: Result<Handle, VErr>)", "StackOp::DeleteVariableLocal(*name)", "r == answer_del(&old(self).call_stack, ops(&old(self).call_stack).len() as int)"),
    ("load_variable", "(&mut self, name: &VString) -> (r: Option<Handle>)", "StackOp::FindName(*name)", "r == answer_find(&old(self).call_stack, ops(&old(self).call_stack).len() as int)"),
]


def build(repo):
    src = Source(repo)
    log = []
    rules = [
        Rule("R10", "self . call_stack . borrow_mut ( )", "self . call_stack", why="Rc<RefCell<Stack>>: the shared call stack as a field (R10)"),
        Rule("R10", "self . call_stack . borrow ( )", "self . call_stack", why="Rc<RefCell<Stack>>: the shared call stack as a field (R10)"),
        Rule("R1", "VariableFlags :: none ( )", "flags_none ( )", why="no flags"),
    ]
    fns, obls = [], []
    for name, sig, op, res in TABLE:
        f = src.fn(FILE, name, "impl < 'a > Ctx < 'a >")
        b = translate(list(f["body"]), rules, log, f"Ctx::{name}")
        check_closed(b, f"Ctx::{name}")
        ens = f"ops(&final(self).call_stack) == ops(&old(self).call_stack).push({op}), final(self).stack == old(self).stack" + (", " + res if res else "")
        fns.append(f"    //@ OBL CTX.delegates.{name}\n    pub fn {name}{sig}\n        ensures {ens}\n    {{\n{render(b, 2)}\n    }}\n")
        obls.append(Obl(f"CTX.delegates.{name}", ["C07", "C09", "C01"], fn=f"Ctx::{name}", desc=f"Ctx::{name}: exactly one call of the Stack operation of that meaning, with exactly its arguments; its answer handed back unchanged"))
    fpf = src.fn(FILE, "push_front", "impl < 'a > Ctx < 'a >")
    bpf = translate(list(fpf["body"]), [], log, "Ctx::push_front")
    check_closed(bpf, "Ctx::push_front")
    fns.append(f"    //@ OBL CTX.push_front\n    pub fn push_front(&mut self, var: Primitive)\n        ensures final(self).stack@ == seq![var] + old(self).stack@, ops(&final(self).call_stack) == ops(&old(self).call_stack)\n    {{\n{render(bpf, 2)}\n    }}\n")
    obls.append(Obl("CTX.push_front", ["C08", "C15"], fn="Ctx::push_front", desc="Ctx::push_front: the value becomes the FIRST operand, the others keep their order"))
    gen = header(log, f"{FILE}: Ctx::add_frame, pop_frame, frames_count, register_variable, ref_variable, register_variable_local, delete_variable_local, load_variable, push_front") + SPEC + \
        "impl Ctx {\n" + "\n".join(fns) + "}\n} // verus!\nfn main() {}\n"
    return gen, obls, log


UNITS = [VUnit("c07_ctx_delegation", ["C07", "C09", "C01", "C08", "C15"], "Ctx -> Stack: each method is exactly the stack operation of its meaning", build)]
UNITS[0].assumes = ["Rc<RefCell<Stack>> as a field (single-threaded, no re-entrant borrow: assumed); the Stack operations themselves are units c07_stack / c07_stack_frames"]

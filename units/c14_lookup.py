"""C14 / C13: method name -> built-in.  Primitive::lookup (primitive.rs) maps (receiver kind, method name) to an accessor of PRIMITIVE_MODULE,
and `static_module_generator!` (stack.rs) maps each accessor to a BuiltInFunction variant.  Both tables are read from the source on every
run, composed, and compared entry by entry with the table below -- which is written from the method names of the property statements
(`s.parse_bigint_radix` is the bigint parser, `xs.index_of` the list search, ...), not from the code.  Exhaustive enumeration of a
finite table (as C18.opcode.table): every obligation is one equality."""
import re
from vlib.rules import *
from vlib.extract import find_block_after, split_arms
from vlib.lexer import match_close

PRIM = "bytecode/src/variables/primitive.rs"
STACK = "bytecode/src/stack.rs"

EXPECTED = {
 "Vector": {"len": "VecLen", "reverse": "VecReverse", "inner_capacity": "VecInnerCapacity", "ensure_inner_capacity": "VecEnsureInnerCapacity", "map": "VecMap", "filter": "VecFilter",
            "remove": "VecRemove", "push": "VecPush", "join": "VecJoin", "index_of": "VecIndexOf", "clear": "VecClear", "clone": "VecClone"},
 "Str": {"len": "StrLen", "substring": "StrSubstring", "contains": "StrContains", "index_of": "StrIndexOf", "inner_capacity": "StrInnerCapacity", "reverse": "StrReverse", "insert": "StrInsert",
         "replace": "StrReplace", "delete": "StrDelete", "parse_int": "StrParseInt", "parse_int_radix": "StrParseIntRadix", "parse_bigint": "StrParseBigint", "parse_bigint_radix": "StrParseBigintRadix",
         "parse_bool": "StrParseBool", "parse_float": "StrParseFloat", "parse_byte": "StrParseByte", "split": "StrSplit", "chars": "StrChars"},
 "Num": {"pow": "GenericPow", "powf": "GenericPowf", "sqrt": "GenericSqrt", "to_int": "GenericToInt", "to_bigint": "GenericToBigint", "to_byte": "GenericToByte", "to_float": "GenericToFloat",
         "abs": "GenericAbs", "to_ascii": "ByteToAscii", "fpart": "FloatFPart", "ipart": "FloatIPart", "round": "FloatRound", "floor": "FloatFloor", "ceil": "FloatCeil"},
 "Function": {"is_closure": "FnIsClosure"},
 "Map": {"len": "MapLen", "contains_key": "MapHasKey", "replace": "MapReplace", "keys": "MapKeys", "values": "MapValues", "pairs": "MapPairs", "clear": "MapClear", "remove": "MapRemove", "clone": "MapClone"},
 "Any": {"to_str": "GenericToStr"},
}
KIND_OF_PATTERN = {"P::Vector(..)": "Vector", "P::Str(..)": "Str", "(P::Int(..)|P::BigInt(..)|P::Float(..)|P::Byte(..))": "Num", "P::Function(..)": "Function", "P::Map(..)": "Map"}


def build(repo):
    src = Source(repo)
    log = []
    # ---- accessor -> variant (static_module_generator! invocation)
    st = src.toks(STACK)
    acc = {}
    i = 0
    while i < len(st) - 2:
        if st[i] == "static_module_generator" and st[i + 1] == "!" and st[i + 2] == "{":
            c = match_close(st, i + 2)
            inner = st[i + 3:c]
            j = 0
            while j < len(inner):
                if j + 1 < len(inner) and inner[j + 1] == "(" and re.match(r"[a-z_][a-z0-9_]*$", inner[j]):
                    e = match_close(inner, j + 1)
                    arg = inner[j + 2:e]
                    if arg[:2] == ["BuiltInFunction", "::"] and len(arg) == 3:
                        acc[inner[j]] = arg[2]
                    j = e + 1
                else:
                    j += 1
            i = c
        i += 1
    if len(acc) < 20:
        raise Undecided(f"{STACK}: static_module_generator! table not found / too small ({len(acc)} entries)")
    # ---- (kind, name) -> accessor (Primitive::lookup)
    f = src.fn(PRIM, "lookup")
    try:
        _, o, c = find_block_after(f["body"], "match self . move_out_of_heap_primitive ( ) ?")
    except Exception as e:
        raise Undecided(f"{PRIM}: `match self.move_out_of_heap_primitive()?` of Primitive::lookup not found: {e}")
    table = {}
    order = []
    for pat, body in split_arms(f["body"][o + 1:c]):
        ptxt = text(pat).replace(" ", "")
        order.append(ptxt)
        if ptxt == '_ifproperty=="to_str"':
            m = re.search(r"PRIMITIVE_MODULE\.(\w+)\(\)", text(body).replace(" ", ""))
            if not m:
                raise Undecided("lookup: the to_str arm does not return an accessor of PRIMITIVE_MODULE")
            table[("Any", "to_str")] = m.group(1)
            continue
        k = None
        for pp, kind in KIND_OF_PATTERN.items():
            if ptxt == "ret@" + pp:
                k = kind
        if k is None:
            continue
        try:
            _, o2, c2 = find_block_after(body, "match property")
        except Exception as e:
            raise Undecided(f"lookup: arm {ptxt}: inner `match property` not found")
        for p2, b2 in split_arms(body[o2 + 1:c2]):
            if len(p2) == 1 and p2[0].startswith('"'):
                m = re.fullmatch(r"Ok\(PRIMITIVE_MODULE\.(\w+)\(\)\)", text(b2).replace(" ", ""))
                if not m:
                    raise Undecided(f"lookup: arm {ptxt} / {p2[0]}: not of the form Ok(PRIMITIVE_MODULE.<accessor>())")
                table[(k, p2[0].strip('"'))] = m.group(1)
            elif text(p2).replace(" ", "") != "_":
                raise Undecided(f"lookup: arm {ptxt}: pattern `{text(p2)}` is not a method name")
    # generic to_str must come after the Object / Module arms (their own members win) and before the per-kind arms
    pos = {p: n for n, p in enumerate(order)}
    ts = pos.get('_ifproperty=="to_str"')
    if ts is None or any(p in pos and pos[p] > ts for p in ("ret@P::Object(..)", "ret@P::Module(..)")):
        order_ok = 0
    else:
        order_ok = 1
    log.append(("R0", "Primitive::lookup match arms + static_module_generator! invocation", "two finite tables, composed", "table extraction: (receiver kind, name) -> accessor -> BuiltInFunction variant"))
    vid = {}
    def num(v):
        return vid.setdefault(v, len(vid) + 1)
    lines, obls = [], []
    for kind, names in EXPECTED.items():
        for name, want in names.items():
            a = table.get((kind, name))
            got = acc.get(a) if a else None
            oid = f"C14.lookup.{kind}.{name}"
            lines.append(f"//@ OBL {oid}\n// {kind}.{name}: lookup -> {a} -> {got}; the property's method is {want}\npub proof fn lookup_{kind}_{name}() ensures {num(got) if got else 0}int == {num(want)}int {{}}")
            obls.append(Obl(oid, ["C14", "C13"] if kind in ("Vector", "Map") else ["C14"], fn="Primitive::lookup", desc=f"`{name}` on a {kind} receiver is the built-in {want}"))
    # nothing beyond the table (a new name would be an undocumented method: reported as undecided, not as a violation)
    extra = [k for k in table if k[1] not in EXPECTED.get(k[0], {})]
    if extra:
        raise Undecided(f"Primitive::lookup has names the expected table does not know: {extra}")
    lines.append(f"//@ OBL C14.lookup.to_str-order\n// a module's / object's own member named to_str wins over the generic one\npub proof fn lookup_order() ensures {order_ok}int == 1int {{}}")
    obls.append(Obl("C14.lookup.to_str-order", ["C14", "C11"], fn="Primitive::lookup", desc="the generic to_str arm comes after the Object and Module arms"))
    gen = header(log, f"{PRIM}: Primitive::lookup; {STACK}: static_module_generator! table") + "use vstd::prelude::*;\nverus! {\n" + "\n".join(lines) + "\n} // verus!\nfn main() {}\n"
    return gen, obls, log


UNITS = [VUnit("c14_lookup", ["C14", "C13", "C11"], "method name -> built-in: the dispatch table", build)]
UNITS[0].assumes = ["table extraction by pattern (fails closed when an arm has another shape); the expected table is written from the method names in the property statements",
                    "make_compiler_builtin! (accessor -> Primitive::BuiltInFunction(variant)) trusted; the compile-side typing table (get_property_type) is not compared"]

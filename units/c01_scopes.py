"""C01/C09: AssocFileData::scopes_since_loop -- the frame count carried by `break`/`continue` placeholders."""
from vlib.rules import *

FILE = "compiler/src/parser.rs"
SCOPE = "compiler/src/scope.rs"

SPEC = r"""
use vstd::prelude::*;
verus! {
pub struct VErr;
// scope.rs ScopeType (payload types opaque)
#[verifier::external_body] pub struct FnParams { x: usize }
#[verifier::external_body] pub struct ClassTy { x: usize }
pub enum ScopeType { File, Function(Option<FnParams>), IfBlock, ElseBlock, WhileLoop, NumberLoop, Class(Option<ClassTy>) }
#[verifier::external_body] pub struct VarsV { x: usize }
pub struct Scope { pub ty: ScopeType, pub variables: VarsV }
#[verifier::external_body] pub struct VStr { x: usize }
#[verifier::external_body] pub struct Ident { x: usize }
// Scope::contains: the identifier of that name declared in this scope (set lookup; abstract)
pub uninterp spec fn declared(s: Scope, name: VStr) -> Option<Ident>;
#[verifier::external_body] pub fn scope_contains<'a>(s: &'a Scope, name: &VStr) -> (r: Option<&'a Ident>)
    ensures r is Some <==> declared(*s, *name) is Some, r is Some ==> *r->Some_0 == declared(*s, *name)->Some_0 { unimplemented!() }
#[verifier::external_body] pub fn opt_cloned(o: Option<&Ident>) -> (r: Option<Ident>) ensures r is Some <==> o is Some, r is Some ==> r->Some_0 == *o->Some_0 { unimplemented!() }
// the declaration a name refers to inside the current function: the innermost scope that declares it, searching outwards up to AND
// INCLUDING the function's own scope (its parameters and top-level locals), never beyond
pub open spec fn lookup_in_function(scopes: Seq<Scope>, name: VStr, i: int) -> Option<Ident>
    decreases scopes.len() - i
{
    if i < 0 || i >= scopes.len() { None }
    else if declared(scopes[i], name) is Some { declared(scopes[i], name) }
    else if scopes[i].ty is Function { None }
    else { lookup_in_function(scopes, name, i + 1) }
}

// every block scope (if / else / loop body) is one run-time frame; the walk goes from the innermost scope outwards
pub open spec fn is_loop_ty(t: ScopeType) -> bool { t is WhileLoop || t is NumberLoop }
// index of the innermost enclosing loop that is reachable without leaving the current function (or -1)
pub open spec fn loop_index(scopes: Seq<Scope>, i: int) -> int
    decreases scopes.len() - i
{
    if i < 0 || i >= scopes.len() { -1 }
    else if is_loop_ty(scopes[i].ty) { i }
    else if scopes[i].ty is Function { -1 }
    else { loop_index(scopes, i + 1) }
}
"""


def build(repo):
    src = Source(repo)
    log = []
    f = src.fn(FILE, "scopes_since_loop")
    f_loop = src.fn(SCOPE, "is_loop", "impl Scope")
    f_fn = src.fn(SCOPE, "is_function", "impl Scope")
    f_ty = src.fn(SCOPE, "ty_ref", "impl Scope")
    mrule = [Rule("R9", "matches ! ( self . ty , $$p )", "( match self . ty { $$p => true , _ => false } )", count=1, why="matches! -> match"),
]
    b_loop = translate(f_loop["body"], mrule, log, "Scope::is_loop")
    b_fn = translate(f_fn["body"], mrule, log, "Scope::is_function")

    def loop(b):
        body = list(b["body"])
        return ["let mut verif_k : usize = 0 ; while verif_k < self . scopes . len ( )",
                G("""invariant_except_break result == verif_k + 1, loop_index(self.scopes@, 0) == loop_index(self.scopes@, verif_k as int),
invariant verif_k <= self.scopes@.len(),
ensures loop_index(self.scopes@, 0) < 0,
decreases self.scopes@.len() - verif_k,"""),
                "{", f"let {text(b['x'])} = & self . scopes [ verif_k ] ;", "verif_k += 1 ;",
                G("assume(result < usize::MAX);   // stated assumption: fewer than 2^64 nested scopes"),
                *body, "}"]
    rules = [
        Rule("R2", "for $x in self . scopes . iter ( ) { $$body }", loop, count=1, why="for over ScopeStack::iter() (innermost scope first) -> indexed while over the scope sequence"),
        Rule("R3", "bail ! $a", "return Err ( VErr )", why="bail! -> return Err"),
    ]
    b = translate(f["body"], rules, log, "scopes_since_loop")
    fl = src.fn(FILE, "has_name_been_mapped_in_function")
    def loop2(b):
        body = list(b["body"])
        return ["let mut verif_j : usize = 0 ; while verif_j < self . scopes . len ( )",
                G("""invariant_except_break lookup_in_function(self.scopes@, *dependency, 0) == lookup_in_function(self.scopes@, *dependency, verif_j as int),
invariant verif_j <= self.scopes@.len(),
ensures lookup_in_function(self.scopes@, *dependency, 0) is None,
decreases self.scopes@.len() - verif_j,"""),
                "{", f"let {text(b['x'])} = & self . scopes [ verif_j ] ;", "verif_j += 1 ;", *body, "}"]
    bl2 = translate(fl["body"], [
        Rule("R2", "for $x in self . scopes . iter ( ) { $$body }", loop2, count=1, why="for over ScopeStack::iter() (innermost scope first) -> indexed while over the scope sequence"),
        Rule("R6", "scope . contains ( dependency )", "scope_contains ( scope , dependency )", why="Scope::contains: set lookup (abstract)"),
        Rule("R1", "maybe_result . cloned ( )", "opt_cloned ( maybe_result )", why="Option<&Ident>::cloned"),
        Rule("R1", "scope_contains ( scope , dependency ) . cloned ( )", "opt_cloned ( scope_contains ( scope , dependency ) )", why="Option<&Ident>::cloned"),
    ], log, "has_name_been_mapped_in_function")
    check_closed(bl2, "has_name_been_mapped_in_function")
    helpers = pure_helpers(src, SCOPE, "impl Scope", {"is_loop", "is_function", "ty_ref"}, log)
    for t, w in ((b, "scopes_since_loop"), (b_loop, "is_loop"), (b_fn, "is_function")):
        check_closed(t, w)
    gen = header(log, f"{FILE}: AssocFileData::scopes_since_loop; {SCOPE}: Scope::is_loop, Scope::is_function") + SPEC + f"""
impl Scope {{
    //@ OBL C01.scope.is_loop
    pub fn is_loop(&self) -> (r: bool) ensures r == is_loop_ty(self.ty)
    {{
{render(b_loop, 2)}
    }}
    //@ OBL C01.scope.is_function
    pub fn is_function(&self) -> (r: bool) ensures r == (self.ty is Function)
    {{
{render(b_fn, 2)}
    }}
    pub fn ty_ref(&self) -> (r: &ScopeType) ensures *r == self.ty
    {{
{render(f_ty["body"], 2)}
    }}
{helpers}
}}
// the scope stack as the sequence `ScopeStack::iter()` yields it: innermost scope first
pub struct AssocFileData {{ pub scopes: Vec<Scope> }}
impl AssocFileData {{
    //@ OBL C10.lookup.in_function
    pub fn has_name_been_mapped_in_function(&self, dependency: &VStr) -> (r: Option<Ident>)
        ensures r == lookup_in_function(self.scopes@, *dependency, 0)
    {{
{render(bl2, 2)}
    }}
    //@ OBL C01.scopes_since_loop
    pub fn scopes_since_loop(&self) -> (r: Result<usize, VErr>)
        ensures
            // number of frames to unwind = the scopes opened since the loop body plus the loop body itself (>= 1),
            // found only inside the current function; otherwise an error ("break outside of a loop")
            loop_index(self.scopes@, 0) >= 0 ==> r is Ok && r->Ok_0 == loop_index(self.scopes@, 0) + 1,
            loop_index(self.scopes@, 0) < 0 ==> r is Err,
            r is Ok ==> r->Ok_0 >= 1,
    {{
{render(b, 2)}
    }}
}}

}} // verus!
fn main() {{}}
"""
    obls = [
        Obl("C10.lookup.in_function", ["C10", "C02", "C03"], fn="AssocFileData::has_name_been_mapped_in_function",
            desc="has_name_been_mapped_in_function: the innermost declaration of the name, searching outwards up to and including the function's own scope (parameters, top-level locals), not beyond -- the lookup the const / type tests of assignments and loop counters rely on"),
        Obl("C01.scope.is_loop", ["C01", "C09"], fn="Scope::is_loop", desc="a scope is a loop exactly for while / from loops"),
        Obl("C01.scope.is_function", ["C01", "C09", "C16"], fn="Scope::is_function", desc="a scope is a function boundary exactly for ScopeType::Function (any payload, incl. methods and constructors)"),
        Obl("C01.scopes_since_loop", ["C01", "C09", "C16"], fn="AssocFileData::scopes_since_loop",
            desc="break/continue frame count = 1 + number of scopes (of any kind) between the statement and the innermost loop of the same function; error when a function boundary or the file comes first"),
    ]
    return gen, obls, log


UNITS = [VUnit("c01_scopes", ["C01", "C09", "C16", "C10", "C02", "C03"], "scopes_since_loop: frame count of break/continue", build)]
UNITS[0].assumes = ["ScopeStack::iter() yields the scopes innermost first (scope.rs ScopeIter; not under contract)",
                    "that the parser pushes one scope per run-time frame (if/else/loop body) is the ScopeHandle discipline, not proved"]


# =====================================================================================================================
# C07 / C10 / C03: which declaration a name denotes, and whether it is a CAPTURED variable -- the lexical lookup every expression, assignment
# and write form goes through (AssocFileData::get_dependency_flags_from_name*)
LEX_SPEC = r"""
// the innermost scope (at or beyond `skip`) that declares the name; captured exactly when a function scope lies between the use and that scope
pub open spec fn lexical(scopes: Seq<Scope>, name: VStr, i: int, skip: int, crossed: bool) -> Option<(Ident, bool)> decreases scopes.len() - i {
    if i < 0 || i >= scopes.len() { None }
    else if i >= skip && declared(scopes[i], name) is Some { Some((declared(scopes[i], name)->Some_0, crossed)) }
    else { lexical(scopes, name, i + 1, skip, crossed || scopes[i].ty is Function) }
}
#[verifier::external_body] pub fn ident_clone(i: &Ident) -> (r: Ident) ensures r == *i { unimplemented!() }
"""


def build_lexical(repo):
    src = Source(repo)
    log = []
    f = src.fn(FILE, "get_dependency_flags_from_name_and_scopes_plus_skip")
    f_fn = src.fn(SCOPE, "is_function", "impl Scope")
    b_fn = translate(f_fn["body"], [Rule("R9", "matches ! ( self . ty , $$p )", "( match self . ty { $$p => true , _ => false } )", count=1, why="matches! -> match")], log, "Scope::is_function")

    def loop(b):
        c, x = text(b["c"]), text(b["x"])
        return ["let mut verif_k : usize = 0 ; while verif_k < scopes . len ( )",
                G("""invariant_except_break lexical(scopes@, *dependency, 0, skip as int, false) == lexical(scopes@, *dependency, verif_k as int, skip as int, is_callback),
invariant verif_k <= scopes@.len(),
ensures lexical(scopes@, *dependency, 0, skip as int, false) is None,
decreases scopes@.len() - verif_k,"""),
                "{", f"let {c} = verif_k ; let {x} = & scopes [ verif_k ] ; verif_k += 1 ;", *b["body"], "}"]

    b = translate(list(f["body"]), [
        Rule("R2", "for ( $c , $x ) in scopes . enumerate ( ) { $$body }", loop, count=1, why="for over ScopeIter.enumerate() (innermost scope first) -> indexed while"),
        Rule("R6", "if let ( true , Ok ( flags ) ) = ( $$t , Ref :: filter_map ( Ref :: clone ( & scope ) , | scope | scope . contains ( dependency ) ) , ) { $$body }",
             "if $$t { if let Some ( flags ) = scope_contains ( scope , dependency ) { let flags = ident_clone ( flags ) ; $$body } }", why="the (flag, Ref::filter_map(..contains..)) tuple test: both parts must hold; Ref<Ident> -> the identifier"),
    ], log, "get_dependency_flags_from_name_and_scopes_plus_skip")
    check_closed(b, "get_dependency_flags_from_name_and_scopes_plus_skip")
    gen = header(log, f"{FILE}: AssocFileData::get_dependency_flags_from_name_and_scopes_plus_skip; {SCOPE}: Scope::is_function") + SPEC + LEX_SPEC + f"""
impl Scope {{
    pub fn is_function(&self) -> (r: bool) ensures r == (self.ty is Function)
    {{
{render(b_fn, 2)}
    }}
}}
//@ OBL C07.lookup.lexical
// the declaration a name denotes where it is used: the innermost enclosing scope that declares it (from `skip` scopes out), through function
// boundaries too -- and it is a captured variable exactly when at least one function boundary lies in between
pub fn get_dependency_flags_from_name_and_scopes_plus_skip(scopes: &Vec<Scope>, dependency: &VStr, skip: usize) -> (r: Option<(Ident, bool)>)
    ensures r == lexical(scopes@, *dependency, 0, skip as int, false),
{{
{render(b, 1)}
}}
}} // verus!
fn main() {{}}
"""
    return gen, [Obl("C07.lookup.lexical", ["C07", "C10", "C03", "C02"], fn="AssocFileData::get_dependency_flags_from_name_and_scopes_plus_skip",
                     desc="name resolution at compile time: the innermost enclosing declaration, searched outwards through function boundaries; captured exactly when a function boundary is crossed")], log


UNITS.append(VUnit("c07_lexical_lookup", ["C07", "C10", "C03", "C02"], "compile-time name resolution: innermost declaration; captured iff a function boundary is crossed", build_lexical))
UNITS[-1].assumes = UNITS[0].assumes

"""C13: `map` / `filter` yield a NEW list -- the result list of the two bridges (MapOp / FilterOp inside BuiltInFunction::run, bytecode/src/function.rs):
`new` starts it as a list no existing handle points to (`GcVector::with_capacity` / `GcVector::default`) next to the visited list, `then` (unit
c17_bridge, C13.bridge.*.then) pushes onto exactly that list, and `finish` hands out exactly that list -- never the receiver's own cell, whatever the
answers of the callback were.  So a later update through the result is not an update of the receiver, and vice versa."""
from vlib.rules import *
from vlib.extract import extract_item, extract_fn
import units.c13_lists as L

FUNC = "bytecode/src/function.rs"

SPEC = L.SPEC + r"""
#[verifier::external_body] pub struct TextV { x: usize }
#[verifier::external_body] pub struct CapsV { x: usize }
#[verifier::external_body] pub struct StackRc { x: usize }
pub struct PrimitiveFunction { pub location: TextV, pub callback_state: Option<CapsV> }
impl TextV { #[verifier::external_body] pub fn vclone(&self) -> (r: TextV) ensures r == *self { unimplemented!() } }
#[verifier::external_body] pub fn clone_caps(c: &Option<CapsV>) -> (r: Option<CapsV>) ensures r == *c { unimplemented!() }
pub struct Cell32 { pub v: i32 }
pub fn cell32_new(v: i32) -> (r: Cell32) ensures r.v == v { Cell32 { v } }
pub struct MapOp { pub callback_path: TextV, pub callback_state: Option<CapsV>, pub underlying: VecH, pub call_stack: StackRc, pub map_result: VecH, pub index: Cell32 }
pub struct FilterOp { pub callback_path: TextV, pub callback_state: Option<CapsV>, pub underlying: VecH, pub call_stack: StackRc, pub filter_result: VecH, pub index: Cell32 }
"""


def build(repo):
    src = Source(repo)
    log = []
    frun = src.fn(FUNC, "run", "impl BuiltInFunction")
    parts, obls = [], []
    for op, field in (("MapOp", "map_result"), ("FilterOp", "filter_result")):
        try:
            it = extract_item(frun["body"], f"impl {op}")
            fnew = extract_fn(it["body"], "new")
            itn = extract_item(frun["body"], f"impl RuntimeExecutionBridgeNotifier for {op}")
            ffin = extract_fn(itn["body"], "finish")
        except Exception as e:
            raise Undecided(f"{FUNC}: {op}::new / finish not found: {e}")
        R = [
            Rule("R1", "let underlying_len = { underlying . 0 . borrow ( ) . len ( ) } ;", "", why="capacity hint"),
            Rule("R13", "GcVector :: with_capacity ( underlying_len )", "cell_new ( heap , Vec :: new ( ) )", why="GcVector::with_capacity: a new, empty cell"),
            Rule("R13", "GcVector :: default ( )", "cell_new ( heap , Vec :: new ( ) )", why="GcVector::default: a new, empty cell"),
            Rule("R1", "callback_fn . callback_state . clone ( )", "clone_caps ( & callback_fn . callback_state )", why="Option<VariableMapping>::clone"),
            Rule("R10", "Cell :: new ( 0 )", "cell32_new ( 0 )", why="Cell<i32>"),
            Rule("R1", ". clone ( )", ". vclone ( )", why="clone of a handle keeps the cell"),
            Rule("R1", "Self {", op + " {", why="Self"),
        ]
        bn = translate(fnew["body"], R, log, f"{op}::new"); check_closed(bn, f"{op}::new")
        fin = list(ffin["body"])
        for a, b_ in ((["self", ".", field], ["verif_res"]), (["self", ".", "underlying"], ["verif_und"])):
            k = 0
            while k + len(a) <= len(fin):
                if fin[k:k + len(a)] == a:
                    fin[k:k + len(a)] = b_
                k += 1
        fin = lex(f"let verif_res = & self . {field} ; let verif_und = & self . underlying ;") + fin
        log.append(("R1", f"self.{field} / self.underlying", "verif_res / verif_und", "the two list handles of the bridge bound to locals (so that cell accesses on them are recognised)"))
        bf = translate(L.cells_pass(fin, log, f"{op}::finish"), R, log, f"{op}::finish"); check_closed(bf, f"{op}::finish")
        parts.append(f"""
impl {op} {{
    //@ OBL C13.bridge.{op}.new
    pub fn new(callback_fn: PrimitiveFunction, underlying: VecH, call_stack: StackRc, heap: &mut Heap) -> (r: {op})
        requires live(old(heap), &underlying)
        ensures
            // the result list is a cell no existing handle points to (in particular not the visited list's), and it starts empty; nothing else changes
            vid(&r.underlying) == vid(&underlying), !vecs(old(heap)).contains_key(vid(&r.{field})),
            vecs(final(heap)) == vecs(old(heap)).insert(vid(&r.{field}), Seq::<Primitive>::empty()), maps(final(heap)) == maps(old(heap)), r.index.v == 0,
    {{
{render(bn, 2)}
    }}
    //@ OBL C13.bridge.{op}.finish
    pub fn finish(&self, heap: &Heap) -> (r: Result<Option<Primitive>, VErr>)
        requires live(heap, &self.underlying), live(heap, &self.{field})
        ensures r is Ok && r->Ok_0 is Some && r->Ok_0->Some_0 is Vector && vid(&r->Ok_0->Some_0->Vector_0) == vid(&self.{field})      // exactly the bridge's own result list
    {{
{render(bf, 2)}
    }}
}}
""")
        obls += [Obl(f"C13.bridge.{op}.new", ["C13"], fn=f"{op}::new", desc=f"{op}::new: the result list is a new empty cell, distinct from every existing list; the visited list is the receiver"),
                 Obl(f"C13.bridge.{op}.finish", ["C13"], fn=f"{op}::finish", desc=f"{op}::finish: hands out exactly the bridge's own result list (never the receiver's cell)")]
    gen = header(log, f"{FUNC}: MapOp / FilterOp (inside BuiltInFunction::run): new, finish") + SPEC + "".join(parts) + "} // verus!\nfn main() {}\n"
    return gen, obls, log


UNITS = [VUnit("c13_bridge_result", ["C13"], "map / filter yield a new list: the bridges' result list from new to finish", build)]
UNITS[0].assumes = ["gc cells as the explicit heap of unit c13_lists (GcVector::default / with_capacity allocate a cell no handle points to)", "`then` pushes onto the result list: C13.bridge.*.then (unit c17_bridge); the bridge loop itself is C01.run.step"]

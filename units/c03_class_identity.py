"""C03 / C02 / C08: the identity of a class type.  A value of class A is accepted where class B is expected only if A and B are the same class.
Two classes of one name can exist in one file (a class declared inside a function shadows an outer one; duplicates at one level are known
finding D114), so the name does not identify a class: `ClassType` equality (compiler/src/ast/class.rs) -- the `lhs == rhs` shortcut in front
of TypeLayout::eq_complex and the Class arm behind it -- must tell classes with different members apart.  With `#[derive(PartialEq)]` it is
structural over every field of the struct (name, fields, path): that is Rust's definition of the derive, decided by reading the attribute.
A hand-written `impl PartialEq for ClassType` that never reads `fields` cannot tell them apart: failed.  One that reads it: not decided here."""
import re
from vlib.rules import *

FILE = "compiler/src/ast/class.rs"


def build(repo):
    src = Source(repo)
    log = []
    txt = src.text(FILE) if hasattr(src, "text") else open(f"{repo}/{FILE}").read()
    m = re.search(r"((?:#\[[^\]]*\]\s*)+)pub(?:\([a-z]+\))?\s+struct\s+ClassType\s*\{(.*?)\n\}", txt, re.S)
    if not m:
        raise Undecided(f"{FILE}: struct ClassType not found")
    attrs, body = m.group(1), m.group(2)
    derives = set(x.strip() for d in re.findall(r"#\[derive\(([^)]*)\)\]", attrs) for x in d.split(","))
    fields = re.findall(r"^\s*(?:pub(?:\([a-z]+\))?\s+)?(\w+)\s*:", body, re.M)
    o = Obl("C03.class-type.identity", ["C03", "C02", "C08"], engine="finite scan of struct ClassType and its PartialEq (python)", fn="PartialEq for ClassType",
            desc="two class types are equal only if they have the same members: equality is the derived (structural) one over name, fields and path, or a hand-written one that reads the member list")
    o.pre_decided = True
    if "fields" not in fields or "name" not in fields:
        raise Undecided(f"{FILE}: struct ClassType has no `name` / `fields` members any more: {fields}")
    log.append(("R0", "struct ClassType + attributes", f"derive({', '.join(sorted(derives))}); fields: {', '.join(fields)}", "the attribute list and field names of the struct, read from the source"))
    if "PartialEq" in derives:
        o.status = "discharged"
        o.detail = ""
    else:
        try:
            f = src.fn(FILE, "eq", "impl PartialEq for ClassType")
        except Exception:
            raise Undecided(f"{FILE}: ClassType neither derives PartialEq nor has `impl PartialEq for ClassType`")
        toks = f["body"]
        reads = any(toks[i] == "." and toks[i + 1] == "fields" for i in range(len(toks) - 1)) or "fields" in toks
        if not reads:
            o.status = "failed"
            o.detail = ("`impl PartialEq for ClassType` never reads `fields`: two classes of one name with different members compare equal, "
                        "so an instance of one is accepted where the other is expected (a class declared in a function shadows an outer class of that name)")
        else:
            o.status = "undecided"
            o.detail = "hand-written `impl PartialEq for ClassType` reads `fields`; whether it compares them completely is outside this scan"
    gen = header(log, f"{FILE}: struct ClassType (attributes), PartialEq for ClassType") + "use vstd::prelude::*;\nverus! {\n} // verus!\nfn main() {}\n"
    return gen, [o], log


UNITS = [VUnit("c03_class_identity", ["C03", "C02", "C08"], "class type equality tells classes with different members apart", build)]
UNITS[0].assumes = ["`#[derive(PartialEq)]` on a struct is field-wise equality (the language's definition); Arc<[Ident]> compares the identifiers, Ident compares name, type and const flag"]

"""C04: bytecode argument codec -- reader (split_string_v2) and writer (CompiledItem::repr, binary form) against the
codec spec, plus the round-trip lemma: every argument vector is read back exactly as written."""
from vlib.rules import *
import re

READER = "bytecode/src/instruction.rs"
WRITER = "compiler/src/ast.rs"

INV = """invariant
    $K <= string.len(),
    run_from(init(), string@.subrange(0, $K as int), multi_target)
        == (St { result: deep(result@), buf: buf@, in_quotes, escaping, err: false }),
decreases string.len() - $K,"""


def reader_rules():
    def loop(b):
        c = text(b["c"])
        body = list(b["body"])
        log = []
        body = Rule("R3", "bail ! $args", [G("""proof {
    lemma_err_sticky(step(run_from(init(), string@.subrange(0, verif_k - 1), multi_target), $C, multi_target), string@.subrange(verif_k as int, string@.len() as int), multi_target);
    lemma_run_concat(init(), string@.subrange(0, verif_k as int), string@.subrange(verif_k as int, string@.len() as int), multi_target);
    assert(string@.subrange(0, verif_k as int) + string@.subrange(verif_k as int, string@.len() as int) =~= string@);
}""".replace("$C", c)), "return Err ( VErr )"], why="bail! -> return Err (error text dropped)").apply(body, log)
        return [G("proof { assert(string@.subrange(0, 0) =~= Seq::<char>::empty()); assert(deep(result@) =~= Seq::<Seq<char>>::empty()); }"),
                "let mut verif_k : usize = 0 ; while verif_k < string . len ( )", G(INV.replace("$K", "verif_k")), "{",
                f"let {c} = string [ verif_k ] ;",
                G(f"proof {{ lemma_run_push(init(), string@.subrange(0, verif_k as int), {c}, multi_target); assert(string@.subrange(0, verif_k as int).push({c}) =~= string@.subrange(0, verif_k + 1)); }}"),
                "verif_k += 1 ;", *body, "}",
                G("proof { assert(string@.subrange(0, verif_k as int) =~= string@); }")]

    return [
        Rule("R1", "Vec :: < String > :: new ( )", "Vec :: < Vec < char > > :: new ( )", count=1, why="Vec<String> -> Vec<Vec<char>>"),
        Rule("R1", "String :: new ( )", "Vec :: < char > :: new ( )", why="String -> Vec<char>"),
        Rule("R9", "$c . is_whitespace ( )", "char_is_whitespace ( $c )", why="char::is_whitespace as uninterpreted is_ws"),
        Rule("R1", "$x . is_empty ( )", "( $x . len ( ) == 0 )", why="is_empty -> len() == 0"),
        Rule("R1", "buf . to_string ( )", "clone_chars ( & buf )", why="String::to_string -> clone"),
        Rule("R11", "result . push ( $$e ) ;",
             ["{ let verif_x = $$e ;", G("let ghost verif_r0 = deep(result@); let ghost verif_xv = verif_x@;"), "result . push ( verif_x ) ;",
              G("proof { assert(deep(result@) =~= verif_r0.push(verif_xv)); }"), "}"], count="+", why="ghost: view of result after a push"),
        Rule("R2", "for $c in string . chars ( ) { $$body }", loop, count=1, why="for over chars() -> indexed while (iteration order of Chars)"),
        Rule("R3", "bail ! $args", "return Err ( VErr )", why="bail! -> return Err (error text dropped)"),
        Rule("R1", "result . into_boxed_slice ( )", "result", count=1, why="Box<[String]> -> Vec"),
    ]


def writer_rules():
    def loop(b):
        body = list(b["body"])
        return [G("let ghost verif_args0 = deep(arguments@);"),
                "let mut verif_k : usize = 0 ; while verif_k < arguments . len ( )",
                G("""invariant verif_k <= arguments.len(), verif_args0 == deep(arguments@), args@ == enc_args(verif_args0.subrange(0, verif_k as int)),
decreases arguments.len() - verif_k,"""),
                "{", f"let {text(b['x'])} = & arguments [ verif_k ] ;", G("let ghost verif_before = args@;"), "verif_k += 1 ;", *body,
                G("""proof {
    reveal_strlit("\\\\\\\\"); reveal_strlit("\\\\\\""); reveal_strlit("\\\\n"); reveal_strlit("\\\\r"); reveal_strlit("\\\\0");
    assert("\\\\\\\\"@ =~= lit_bs2()); assert("\\\\\\""@ =~= lit_bsq()); assert("\\\\n"@ =~= lit_bsn()); assert("\\\\r"@ =~= lit_bsr()); assert("\\\\0"@ =~= lit_bs0());
    lemma_four_replaces_is_esc(arguments@[verif_k - 1]@);
    let sub = verif_args0.subrange(0, verif_k as int);
    assert(sub.drop_last() =~= verif_args0.subrange(0, verif_k - 1));
    assert(sub.last() == arguments@[verif_k - 1]@);
    assert(args@ =~= verif_before + enc_arg(arguments@[verif_k - 1]@));
}"""), "}",
                G("proof { assert(verif_args0.subrange(0, arguments.len() as int) =~= verif_args0); }")]

    return [
        Rule("R1", "String :: new ( )", "Vec :: < char > :: new ( )", why="String -> Vec<char>"),
        Rule("R2", "for $x in & arguments [ .. ] { $$body }", loop, count=1, why="for over a slice -> indexed while"),
        Rule("R9", "$x . replace ( $c , $s )", lambda b: (f"str_replace ( {text(b['x'])} , {text(b['c'])} , & strlit_chars ( {text(b['s'])} ) )" if len(b["x"]) == 1 and re.match(r"[A-Za-z_]\w*$", b["x"][0]) else None),
             why="str::replace(char, &str) with spec replace_char"),
        *[Rule("R9", "str_replace ( $$a ) . replace ( $c , $s )", "str_replace ( & str_replace ( $$a ) , $c , & strlit_chars ( $s ) )", why="str::replace chain") for _ in range(6)],
        Rule("R1", "$a . push_str ( $b . as_ref ( ) ) ;", "push_chars ( & mut $a , & $b ) ;", count=1, why="String::push_str -> append chars"),
        Rule("R9", "format ! ( \"{}{}\\0\" , * id as char , args )", "fmt_bin ( * id , & args )", count=1, why="format!(\"{}{}\\0\", id as char, args) with spec [id] ++ args ++ [NUL]"),
        Rule("R9", "format ! ( \"\\t{}{args}\\n\" , $$n )", "fmt_text ( $$n , & args )", count=1, why="format! of the text form"),
        Rule("R8", "raw_byte_instruction_to_string_representation ( * id ) . unwrap ( )", "opcode_name ( * id )", count=1, why="opcode name lookup abstract (C18 unit proves the table)"),
    ]


def fix_rules():
    return [
        Rule("R1", "Cow :: Owned ( $$e )", "$$e", why="Cow::Owned -> owned value"),
        Rule("R1", "Cow :: Borrowed ( $e )", "clone_chars ( $e )", why="Cow::Borrowed -> copy of the chars"),
        Rule("R1", "$a . to_owned ( ) + arg + $b", "concat3 ( & strlit_chars ( $a ) , arg , & strlit_chars ( $b ) )", why="String concatenation -> concat3"),
        Rule("R1", "$x . is_empty ( )", "( $x . len ( ) == 0 )", why="is_empty -> len() == 0"),
        Rule("R9", "$x . contains ( | $$p | $$e )", "arbitrary_bool ( )", why="str::contains(closure): predicate abstracted to an arbitrary result (over-approximation)"),
        Rule("R9", "$x . bytes ( ) . any ( | $$p | $$e )", "arbitrary_bool ( )", why="a test on the bytes of the argument: abstracted to an arbitrary result (over-approximation)"),
        Rule("R9", "$x . chars ( ) . any ( | $$p | $$e )", "arbitrary_bool ( )", why="a test on the characters of the argument: abstracted to an arbitrary result (over-approximation)"),
        Rule("R9", "$x . as_bytes ( ) . iter ( ) . any ( | $$p | $$e )", "arbitrary_bool ( )", why="a test on the bytes of the argument: abstracted to an arbitrary result (over-approximation)"),
        Rule("R9", "$x . bytes ( ) . all ( | $$p | $$e )", "arbitrary_bool ( )", why="a test on the bytes of the argument: abstracted to an arbitrary result (over-approximation)"),
        Rule("R9", "$x . chars ( ) . all ( | $$p | $$e )", "arbitrary_bool ( )", why="a test on the characters of the argument: abstracted to an arbitrary result (over-approximation)"),
    ]


LEMMAS_FOR_C18 = r"""
//@ OBL C04.lemmas
pub open spec fn lit_bs2() -> Seq<char> { seq!['\\', '\\'] }
pub open spec fn lit_bsq() -> Seq<char> { seq!['\\', '"'] }
pub open spec fn lit_bsn() -> Seq<char> { seq!['\\', 'n'] }
pub open spec fn lit_bsr() -> Seq<char> { seq!['\\', 'r'] }
pub open spec fn lit_bs0() -> Seq<char> { seq!['\\', '0'] }

pub proof fn lemma_replace_concat(s: Seq<char>, t: Seq<char>, c: char, w: Seq<char>)
    ensures replace_char(s + t, c, w) == replace_char(s, c, w) + replace_char(t, c, w)
    decreases s.len()
{
    if s.len() == 0 { assert(s + t =~= t); assert(replace_char(s, c, w) =~= Seq::<char>::empty()); assert(Seq::<char>::empty() + replace_char(t, c, w) =~= replace_char(t, c, w)); }
    else {
        assert((s + t).drop_first() =~= s.drop_first() + t);
        lemma_replace_concat(s.drop_first(), t, c, w);
        let h = if s[0] == c { w } else { seq![s[0]] };
        assert(h + (replace_char(s.drop_first(), c, w) + replace_char(t, c, w)) =~= (h + replace_char(s.drop_first(), c, w)) + replace_char(t, c, w));
    }
}
pub proof fn lemma_replace_one(x: char, c: char, w: Seq<char>)
    ensures replace_char(seq![x], c, w) == (if x == c { w } else { seq![x] })
{
    let e = Seq::<char>::empty();
    assert(seq![x].drop_first() =~= e);
    assert(replace_char(e, c, w) =~= e);
    let h = if x == c { w } else { seq![x] };
    assert(h + e =~= h);
}
pub proof fn lemma_replace_two(x: char, y: char, c: char, w: Seq<char>)
    ensures replace_char(seq![x, y], c, w) == (if x == c { w } else { seq![x] }) + (if y == c { w } else { seq![y] })
{
    assert(seq![x, y] =~= seq![x] + seq![y]);
    lemma_replace_concat(seq![x], seq![y], c, w);
    lemma_replace_one(x, c, w); lemma_replace_one(y, c, w);
}
// the escaping as the real writer performs it: five str::replace calls, backslash first
pub open spec fn four_replaces(a: Seq<char>) -> Seq<char> {
    replace_char(replace_char(replace_char(replace_char(replace_char(a, '\\', lit_bs2()), '"', lit_bsq()), '\n', lit_bsn()), '\r', lit_bsr()), '\0', lit_bs0())
}
pub proof fn lemma_four_replaces_one(c: char)
    ensures four_replaces(seq![c]) == esc1(c)
{
    lemma_replace_one(c, '\\', lit_bs2());
    if c == '\\' {
        lemma_replace_two('\\', '\\', '"', lit_bsq()); lemma_replace_two('\\', '\\', '\n', lit_bsn()); lemma_replace_two('\\', '\\', '\r', lit_bsr()); lemma_replace_two('\\', '\\', '\0', lit_bs0());
        assert(seq!['\\'] + seq!['\\'] =~= seq!['\\', '\\']);
    } else {
        lemma_replace_one(c, '"', lit_bsq());
        if c == '"' {
            lemma_replace_two('\\', '"', '\n', lit_bsn()); lemma_replace_two('\\', '"', '\r', lit_bsr()); lemma_replace_two('\\', '"', '\0', lit_bs0());
            assert(seq!['\\'] + seq!['"'] =~= seq!['\\', '"']);
        } else {
            lemma_replace_one(c, '\n', lit_bsn());
            if c == '\n' {
                lemma_replace_two('\\', 'n', '\r', lit_bsr()); lemma_replace_two('\\', 'n', '\0', lit_bs0());
                assert(seq!['\\'] + seq!['n'] =~= seq!['\\', 'n']);
            } else {
                lemma_replace_one(c, '\r', lit_bsr());
                if c == '\r' {
                    lemma_replace_two('\\', 'r', '\0', lit_bs0());
                    assert(seq!['\\'] + seq!['r'] =~= seq!['\\', 'r']);
                } else {
                    lemma_replace_one(c, '\0', lit_bs0());
                }
            }
        }
    }
}
pub proof fn lemma_four_replaces_concat(s: Seq<char>, t: Seq<char>)
    ensures four_replaces(s + t) == four_replaces(s) + four_replaces(t)
{
    lemma_replace_concat(s, t, '\\', lit_bs2());
    let s1 = replace_char(s, '\\', lit_bs2()); let t1 = replace_char(t, '\\', lit_bs2());
    lemma_replace_concat(s1, t1, '"', lit_bsq());
    let s2 = replace_char(s1, '"', lit_bsq()); let t2 = replace_char(t1, '"', lit_bsq());
    lemma_replace_concat(s2, t2, '\n', lit_bsn());
    let s3 = replace_char(s2, '\n', lit_bsn()); let t3 = replace_char(t2, '\n', lit_bsn());
    lemma_replace_concat(s3, t3, '\r', lit_bsr());
    let s4 = replace_char(s3, '\r', lit_bsr()); let t4 = replace_char(t3, '\r', lit_bsr());
    lemma_replace_concat(s4, t4, '\0', lit_bs0());
}
// what the property needs of the writer's escaping
pub proof fn lemma_four_replaces_is_esc(a: Seq<char>)
    ensures four_replaces(a) == esc(a)
    decreases a.len()
{
    if a.len() == 0 {
        let e = Seq::<char>::empty();
        assert(a =~= e);
        assert(replace_char(e, '\\', lit_bs2()) =~= e); assert(replace_char(e, '"', lit_bsq()) =~= e);
        assert(replace_char(e, '\n', lit_bsn()) =~= e); assert(replace_char(e, '\r', lit_bsr()) =~= e); assert(replace_char(e, '\0', lit_bs0()) =~= e);
    } else {
        assert(a =~= seq![a[0]] + a.drop_first());
        lemma_four_replaces_concat(seq![a[0]], a.drop_first());
        lemma_four_replaces_one(a[0]);
        lemma_four_replaces_is_esc(a.drop_first());
    }
}

// ---- the record as the loader sees it (file.rs get_functions): `[id, b' ', args @ .., 0x00]` hands the text after the
//      first space to split_string, i.e. enc_args(args) without its leading space
pub proof fn lemma_record_roundtrip(args: Seq<Seq<char>>)
    requires args.len() > 0
    ensures enc_args(args).len() > 0, enc_args(args)[0] == ' ',
            finish(run_from(init(), enc_args(args).drop_first(), true)) == Some(args)
    decreases args.len()
{
    broadcast use ws_facts;
    lemma_roundtrip(args);
    lemma_enc_args_head(args);
    let t = enc_args(args);
    assert(step(init(), ' ', true) == init());
    assert(run_from(init(), t, true) == run_from(step(init(), t[0], true), t.drop_first(), true));
}
pub proof fn lemma_enc_args_head(args: Seq<Seq<char>>)
    requires args.len() > 0
    ensures enc_args(args).len() > 0, enc_args(args)[0] == ' '
    decreases args.len()
{
    if args.len() == 1 {
        assert(args.drop_last() =~= Seq::<Seq<char>>::empty());
        assert(enc_args(args.drop_last()) =~= Seq::<char>::empty());
        assert(enc_arg(args.last())[0] == ' ');
    } else {
        lemma_enc_args_head(args.drop_last());
    }
}
"""
HELPERS = r"""
#[verifier::external_body]
pub fn arbitrary_bool() -> (r: bool) { unimplemented!() }
// format!("{}{}\0", *id as char, args)
#[verifier::external_body]
pub fn fmt_bin(id: u8, args: &Vec<char>) -> (r: Vec<char>) ensures r@ == seq![id as char] + args@ + seq!['\0'] { unimplemented!() }
#[verifier::external_body]
pub fn fmt_text(name: Vec<char>, args: &Vec<char>) -> (r: Vec<char>) ensures r@ == seq!['\t'] + name@ + args@ + seq!['\n'] { unimplemented!() }
pub uninterp spec fn opcode_name_spec(id: u8) -> Seq<char>;
#[verifier::external_body]
pub fn opcode_name(id: u8) -> (r: Vec<char>) ensures r@ == opcode_name_spec(id) { unimplemented!() }

"""
SPEC = LEMMAS_FOR_C18 + HELPERS



def build(repo):
    src = Source(repo)
    log = []
    # ---- reader
    f = src.fn(READER, "split_string_v2")
    t_reader = translate(f["body"], reader_rules(), log, "split_string_v2")
    check_closed(t_reader, "split_string_v2")
    # ---- writer: the Instruction arm of CompiledItem::repr + the nested fix_arg_if_needed
    frepr = src.fn(WRITER, "repr", "impl CompiledItem")
    from vlib.extract import extract_match_arm, extract_fn as _efn
    try:
        arm = extract_match_arm(frepr["body"], "Self :: Instruction { id , arguments }")
        ffix = _efn(frepr["body"], "fix_arg_if_needed")
    except Exception as e:
        raise Undecided(f"{WRITER}: cannot locate the Instruction arm / fix_arg_if_needed of CompiledItem::repr: {e}")
    t_writer = translate(arm["body"], writer_rules(), log, "CompiledItem::repr[Instruction]")
    t_fix = translate(ffix["body"], fix_rules(), log, "fix_arg_if_needed")
    check_closed(t_writer, "CompiledItem::repr"); check_closed(t_fix, "fix_arg_if_needed")
    fentry = src.fn(READER, "split_string")
    t_entry = translate(fentry["body"], [Rule("R9", "string . contains ( $c )", "chars_contain ( string , $c )", why="str::contains(char)")], log, "split_string")
    check_closed(t_entry, "split_string")
    spec = SPEC

    gen = header(log, f"{READER}: split_string_v2; {WRITER}: CompiledItem::repr (Instruction arm), fix_arg_if_needed") + prelude("codec.rs") + spec + f"""
//@ OBL C04.reader.conforms
pub fn split_string_v2(string: &Vec<char>, multi_target: bool) -> (r: Result<Vec<Vec<char>>, VErr>)
    ensures
        match finish(run_from(init(), string@, multi_target)) {{
            Some(out) => r is Ok && deep(r->Ok_0@) == out,
            None => r is Err,
        }}
{{
{render(t_reader, 1)}
}}

//@ OBL C04.reader.entry
// the entry point the loader and the transpiler call: the multi-target decoder on the text as it is (no pre-processing of the text)
pub fn split_string(string: &Vec<char>) -> (r: Result<Vec<Vec<char>>, VErr>)
    ensures
        match finish(run_from(init(), string@, true)) {{
            Some(out) => r is Ok && deep(r->Ok_0@) == out,
            None => r is Err,
        }}
{{
{render(t_entry, 1)}
}}

//@ OBL C04.writer.quote
pub fn fix_arg_if_needed(arg: &Vec<char>) -> (r: Result<Vec<char>, VErr>)
    ensures r is Ok, r->Ok_0@ == seq!['"'] + arg@ + seq!['"']
{{
    proof {{ reveal_strlit("\\""); assert("\\""@ =~= seq!['"']); }}
{render(t_fix, 1)}
}}

//@ OBL C04.writer.conforms
// CompiledItem::repr, arm `Self::Instruction {{ id, arguments }}` (binary form: use_string_version == false)
pub fn repr_instruction(id: &u8, arguments: &Vec<Vec<char>>, use_string_version: bool) -> (r: Result<Vec<char>, VErr>)
    requires !use_string_version
    ensures r is Ok, r->Ok_0@ == seq![*id as char] + enc_args(deep(arguments@)) + seq!['\\0']
{{
{render(t_writer, 1)}
}}

//@ OBL C04.roundtrip
// every argument vector the compiler can emit is read back exactly (composition of the two contracts above with the lemma)
pub proof fn c04_roundtrip(id: u8, args: Seq<Seq<char>>)
    requires args.len() > 0
    ensures ({{
        let record = seq![id as char] + enc_args(args) + seq!['\\0'];
        let payload = enc_args(args).drop_first();          // what `[id, b' ', args @ .., 0]` hands to split_string
        &&& record[1] == ' '
        &&& finish(run_from(init(), payload, true)) == Some(args)
    }})
{{
    lemma_record_roundtrip(args);
}}

//@ OBL C04.record.no-raw-nul
// the loader cuts the file into records at NUL bytes (`read_until(0)`): whatever the arguments contain -- a NUL included -- the record the
// writer emits has exactly one NUL, its last byte (opcodes are not 0: C18.opcode.table puts `nop` = 0 on the deprecation list)
pub proof fn c04_record_no_raw_nul(args: Seq<Seq<char>>)
    ensures forall|i: int| 0 <= i < enc_args(args).len() ==> enc_args(args)[i] != '\\0'
{{
    lemma_enc_args_no_nul(args);
}}

}} // verus!
fn main() {{}}
"""
    obls = [
        Obl("C04.lemmas", ["C04", "C18"], desc="helper lemmas: two str::replace calls (backslash, then quote) equal the spec escaping; record payload after the first space round-trips"),
        Obl("C04.reader.conforms", ["C04", "C18", "C19"], fn="split_string_v2", desc="split_string_v2 returns exactly finish(run_from(init, input)) of the codec state machine, Err exactly when the machine errs or ends inside quotes; all strings"),
        Obl("C04.reader.entry", ["C04", "C18", "C19"], fn="split_string", desc="split_string (what the loader and the transpiler call) is the multi-target decoder applied to the text as it is"),
        Obl("C04.writer.quote", ["C04", "C18"], fn="fix_arg_if_needed", desc="fix_arg_if_needed wraps its argument in double quotes and nothing else"),
        Obl("C04.writer.conforms", ["C04"], fn="repr_instruction", desc="CompiledItem::repr (binary form) writes [opcode] ++ enc_args(arguments) ++ [NUL] where enc_arg escapes backslash and quote and wraps in quotes after one space; all argument vectors"),
        Obl("C04.record.no-raw-nul", ["C04", "C18"], fn="c04_record_no_raw_nul", desc="lemma: the encoded arguments of a record contain no NUL byte, whatever characters the arguments contain (records are cut at NUL)"),
        Obl("C04.roundtrip", ["C04"], fn="c04_roundtrip", desc="lemma: for all argument vectors (any characters) the loader's reader applied to the writer's record payload yields exactly the arguments"),
    ]
    return gen, obls, log


UNITS = [VUnit("c04_codec", ["C04", "C18", "C19"], "bytecode argument codec: reader/writer conformance + round trip", build)]
UNITS[0].assumes = [
    "strings are modelled as sequences of chars (R1); UTF-8 encoding/decoding of the file bytes (String::from_utf8_lossy, write!) is not modelled",
    "std contracts assumed: char::is_whitespace(' ') and not for '\"' and '\\\\'; str::replace(char,&str) = replace_char; format! concatenates its arguments",
    "file framing (read_until(0), record patterns of get_functions) is covered only by the lemma's statement about the payload after the first space; a NUL inside an argument is escaped like any other special character (C04.record.no-raw-nul)",
]

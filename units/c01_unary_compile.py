"""C01 / C02 / C16: code generation of unary minus -- the `Expr::UnaryMinus` arm of `compile_depth` (compiler/src/ast/math_expr.rs).  The type
check of `-e` is made where the expression is parsed (`map_prefix`: the operand's type with aliases / captured wrappers looked through must
support negation).  Code generation repeats a test on a variable operand; it must not refuse what the type check accepted -- a valid program
would not compile -- and what it emits is the operand's code followed by `neg`."""
from vlib.rules import *
from vlib.extract import extract_match_arm

MATH = "compiler/src/ast/math_expr.rs"

SPEC = r"""
#[verifier::external_body] pub struct TypeLayout { x: usize }
#[verifier::external_body] pub struct OtherV { x: usize }
pub uninterp spec fn dd(t: TypeLayout) -> TypeLayout;                 // disregard_distractors(false): aliases / captured wrappers looked through
pub uninterp spec fn negatable(t: TypeLayout) -> bool;               // supports_negate (unit c02_negate)
impl TypeLayout {
    #[verifier::external_body] pub fn supports_negate(&self) -> (r: bool) ensures r == negatable(*self) { unimplemented!() }
    #[verifier::external_body] pub fn disregard_distractors(&self, o: bool) -> (r: &TypeLayout) ensures !o ==> *r == dd(*self) { unimplemented!() }
}
pub struct Ident { pub ty: Option<TypeLayout> }
impl Ident { pub fn ty(&self) -> (r: Option<&TypeLayout>) ensures self.ty is None ==> r is None, self.ty is Some ==> r == Some(&self.ty->Some_0) { self.ty.as_ref() } }
pub fn opt_ctx<'a>(o: Option<&'a TypeLayout>) -> (r: Result<&'a TypeLayout, VErr>) ensures o is Some <==> r is Ok, r is Ok ==> Some(r->Ok_0) == o { match o { Some(x) => Ok(x), None => Err(VErr) } }
pub enum Value { Ident(Ident), Number(OtherV), Other(OtherV) }
pub enum Expr { Value(Value), Other(OtherV) }
pub uninterp spec fn code_of(e: &Expr) -> Option<Seq<CompiledItem>>;
#[verifier::external_body] pub fn compile_expr(e: &Expr, state: &CompilationState) -> (r: Result<Vec<CompiledItem>, VErr>)
    ensures r is Ok <==> code_of(e) is Some, r is Ok ==> r->Ok_0@ == code_of(e)->Some_0 { unimplemented!() }
// what the type check at parse time (map_prefix, obligation C02.negate.sound) guarantees of an operand that is a bare value
pub open spec fn type_checked(e: &Expr) -> bool {
    match *e { Expr::Value(Value::Ident(i)) => i.ty is Some && negatable(dd(i.ty->Some_0)), Expr::Value(Value::Number(_)) => true, Expr::Value(Value::Other(_)) => false, _ => true }
}
"""


def build(repo):
    src = Source(repo)
    log = []
    ids = opcode_ids(repo)
    f = src.fn(MATH, "compile_depth")
    try:
        arm = extract_match_arm(f["body"], "Expr :: UnaryMinus ( expr )")
    except Exception as e:
        raise Undecided(f"{MATH}: arm Expr::UnaryMinus of compile_depth not found: {e}")
    b = translate(arm["body"], [
        r_instruction(ids),
        Rule("R3", "bail ! $a", "return Err ( VErr )", why="bail! -> return Err"),
        Rule("R1", "expr . as_ref ( )", "expr", why="Box<Expr> deref"),
        Rule("R9", "ident . ty ( ) . context ( $m ) ?", "opt_ctx ( ident . ty ( ) ) ?", why="Option::context"),
        Rule("R6", "expr . compile ( state ) ?", "compile_expr ( expr , state ) ?", why="operand's code: abstract (register frame contract: C15)"),
    ], log, "compile_depth[UnaryMinus]")
    check_closed(b, "compile_depth[UnaryMinus]")
    gen = header(log, f"{MATH}: compile_depth, arm Expr::UnaryMinus") + prelude("compile.rs") + opcode_consts(ids, ["neg"]) + SPEC + f"""
//@ OBL C01.unary-minus.compile
pub fn compile_unary_minus(expr: &Expr, state: &CompilationState) -> (r: Result<Vec<CompiledItem>, VErr>)
    requires type_checked(expr)
    ensures
        // accepted by the type check => code generation does not refuse it (only the operand's own code generation can fail)
        r is Ok <==> code_of(expr) is Some,
        // the operand's code, then `neg`
        r is Ok ==> r->Ok_0@.len() == code_of(expr)->Some_0.len() + 1 && r->Ok_0@.subrange(0, r->Ok_0@.len() - 1) == code_of(expr)->Some_0
                    && r->Ok_0@.last() is Instruction && r->Ok_0@.last()->Instruction_id == NEG,
{{
{render(Rule("R11", "eval . push ( mk_instr ( $$a ) ) ;", [G("let ghost verif_before = eval@;"), "eval . push ( mk_instr ( $$a ) ) ;", G("proof { assert(eval@.subrange(0, eval@.len() - 1) =~= verif_before); }")], why="ghost").apply(b, log), 1)}
}}
}} // verus!
fn main() {{}}
"""
    return gen, [Obl("C01.unary-minus.compile", ["C01", "C02", "C16"], fn="compile_depth[UnaryMinus]", desc="code generation of `-e`: never refuses an operand the type check accepted (aliases / captured variables looked through); emits the operand's code followed by `neg`")], log


UNITS = [VUnit("c01_unary_compile", ["C01", "C02", "C16"], "code generation of unary minus agrees with its type check", build)]
UNITS[0].assumes = ["fragment: the UnaryMinus arm; precondition: what map_prefix's check (C02.negate.sound) established of the operand"]

"""C02 / C03: the return part of a function signature -- ScopeReturnStatus::eq_for_signature_checking and get_type (compiler/src/scope.rs), what
`PartialEq for FunctionType` (unit c02_compat) asks when two function types are compared.  Two return parts agree only when they are the same
or when the type-compatibility test accepts their types (a function without a result has type `void`): there is no shortcut that lets a
function without a result stand where a result is expected -- the caller would take a value that was never returned."""
from vlib.rules import *

FILE = "compiler/src/scope.rs"

SPEC = r"""
use vstd::prelude::*;
verus! {
pub struct VErr;
#[verifier::external_body] pub struct TypeV { x: usize }
pub enum ScopeReturnStatus { No, Void, Should(TypeV), ParentShould(TypeV), Did(TypeV) }
pub uninterp spec fn void_type() -> TypeV;
#[verifier::external_body] pub fn void_ty() -> (r: &'static TypeV) ensures *r == void_type() { unimplemented!() }
pub uninterp spec fn ty_equal(a: TypeV, b: TypeV) -> bool;            // PartialEq for TypeLayout
pub uninterp spec fn compat(expected: TypeV, supplied: TypeV) -> bool;    // TypeLayout::eq_complex, classless flags (unit c02_compat for the list / function arms)
#[verifier::external_body] pub fn eq_complex(a: &TypeV, b: &TypeV) -> (r: bool) ensures r == compat(*a, *b) { unimplemented!() }
// the type a return part denotes: the declared type, `void` for a function without a result, nothing for `never`
pub open spec fn type_of(s: ScopeReturnStatus) -> Option<TypeV> {
    match s { ScopeReturnStatus::Did(x) => Some(x), ScopeReturnStatus::ParentShould(x) => Some(x), ScopeReturnStatus::Should(x) => Some(x), ScopeReturnStatus::Void => Some(void_type()), ScopeReturnStatus::No => None }
}
// derived PartialEq: same variant and equal payloads
pub open spec fn same(a: ScopeReturnStatus, b: ScopeReturnStatus) -> bool {
    match (a, b) {
        (ScopeReturnStatus::No, ScopeReturnStatus::No) => true, (ScopeReturnStatus::Void, ScopeReturnStatus::Void) => true,
        (ScopeReturnStatus::Should(x), ScopeReturnStatus::Should(y)) => ty_equal(x, y), (ScopeReturnStatus::ParentShould(x), ScopeReturnStatus::ParentShould(y)) => ty_equal(x, y),
        (ScopeReturnStatus::Did(x), ScopeReturnStatus::Did(y)) => ty_equal(x, y), _ => false }
}
#[verifier::external_body] pub fn status_eq(a: &ScopeReturnStatus, b: &ScopeReturnStatus) -> (r: bool) ensures r == same(*a, *b) { unimplemented!() }
// C16 (cost discipline): `==` on two return parts that both carry a type compares those types -- which eq_complex then does again, at every level
// of a nested function type (2^depth comparisons: D88).  The derived `==` may only be asked where it is cheap: when not both carry a type.
#[verifier::external_body] pub fn status_eq_cheap(a: &ScopeReturnStatus, b: &ScopeReturnStatus) -> (r: bool) requires !(type_of(*a) is Some && type_of(*b) is Some) ensures r == same(*a, *b) { unimplemented!() }
"""


def build(repo):
    src = Source(repo)
    log = []
    fg = src.fn(FILE, "get_type", "impl ScopeReturnStatus")
    bg = translate(fg["body"], [
        Rule("R1", "Self :: $v", "ScopeReturnStatus :: $v", why="Self"),
        Rule("R1", "Some ( & VOID_TYPE . 0 )", "Some ( void_ty ( ) )", why="the static `void` type"),
    ], log, "ScopeReturnStatus::get_type")
    check_closed(bg, "get_type")
    fe = src.fn(FILE, "eq_for_signature_checking", "impl ScopeReturnStatus")
    be = translate(fe["body"], [
        Rule("R3", "bail ! $a", "return Err ( VErr )", why="bail! -> return Err"),
        Rule("R1", "Self :: $v", "ScopeReturnStatus :: $v", why="Self"),
        Rule("R1", "self == rhs", "status_eq ( self , rhs )", why="derived PartialEq of the enum"),
        Rule("R1", "use crate :: ast :: TypecheckFlags ;", "", why="import"),
        Rule("R6", "lhs . eq_complex ( rhs . as_ref ( ) , & TypecheckFlags :: < & ClassType > :: classless ( ) )", "eq_complex ( lhs , rhs )", why="type compatibility test abstract (classless flags)"),
    ], log, "ScopeReturnStatus::eq_for_signature_checking")
    check_closed(be, "eq_for_signature_checking")
    bc = [("status_eq_cheap" if t == "status_eq" else t) for t in be]
    gen = header(log, f"{FILE}: ScopeReturnStatus::get_type, eq_for_signature_checking") + SPEC + f"""
impl ScopeReturnStatus {{
    //@ OBL C02.ret_sig.get_type
    pub fn get_type(&self) -> (r: Option<&TypeV>)
        ensures r is Some <==> type_of(*self) is Some, r is Some ==> *r->Some_0 == type_of(*self)->Some_0
    {{
{render(bg, 2)}
    }}
    //@ OBL C02.ret_sig.agree
    pub fn eq_for_signature_checking(&self, rhs: &ScopeReturnStatus) -> (r: Result<bool, VErr>)
        ensures
            // "agree" only for the same return part, or for two types the compatibility test accepts -- nothing else
            (r is Ok && r->Ok_0) ==> same(*self, *rhs) || (type_of(*self) is Some && type_of(*rhs) is Some && compat(type_of(*self)->Some_0, type_of(*rhs)->Some_0)),
            // and two return parts that both denote a type always get an answer
            (type_of(*self) is Some && type_of(*rhs) is Some) ==> r is Ok,
    {{
{render(be, 2)}
    }}
    //@ OBL C16.compat.ret-sig-once
    // the same text: the types of two return parts are compared ONCE per level (by eq_complex), never also by `==` in front of it
    pub fn eq_for_signature_checking_cost(&self, rhs: &ScopeReturnStatus) -> (r: Result<bool, VErr>)
    {{
{render(bc, 2)}
    }}
}}
}} // verus!
fn main() {{}}
"""
    return gen, [Obl("C02.ret_sig.get_type", ["C02", "C03"], fn="ScopeReturnStatus::get_type", desc="get_type: the declared type; `void` for a function without a result; nothing for `never`"),
                 Obl("C02.ret_sig.agree", ["C02", "C03"], fn="ScopeReturnStatus::eq_for_signature_checking", desc="eq_for_signature_checking: true only for the same return part or for types the compatibility test accepts (no shortcut for `void`)"),
                 Obl("C16.compat.ret-sig-once", ["C16"], fn="ScopeReturnStatus::eq_for_signature_checking", desc="cost discipline: the derived `==` of two return parts is only asked when not both carry a type -- otherwise their types would be compared twice at every level of a nested function type (D88: 2^depth)")], log


UNITS = [VUnit("c02_ret_sig", ["C02", "C03", "C16"], "return parts of two function signatures: when they agree", build)]
UNITS[0].assumes = ["TypeLayout::eq_complex abstract (that `void` is compatible with no value type is its business); derived PartialEq of the enum as structural equality"]

"""C01 / C15: operator precedence -- the PRATT_PARSER table of math_expr.rs.  The `.op(..)` chain is read on every run (first = binds loosest) and
a set of order facts is checked against it: `||`/xor looser than `&&`, `&&` looser than comparisons, comparisons looser than `+ -`, those looser
than `* / %`, those looser than the unary prefixes, those looser than the postfix forms; the members of one level as the conventional groups.
Every obligation is one (in)equality between level numbers read from the table (exhaustive check of a finite table, as C18.opcode.table)."""
import re
from vlib.rules import *
from vlib.extract import find_block_after
from vlib.lexer import match_close

FILE = "compiler/src/ast/math_expr.rs"
# (looser, tighter)
ORDER = [("add_assign", "or"), ("or", "and"), ("xor", "and"), ("and", "lt"), ("and", "eq"), ("and", "neq"), ("and", "gte"), ("eq", "add"), ("lt", "add"), ("gt", "subtract"),
         ("eq", "binary_or"), ("binary_and", "add"), ("binary_xor", "add"), ("bitwise_ls", "add"), ("add", "multiply"), ("subtract", "multiply"), ("add", "divide"), ("add", "modulo"),
         ("multiply", "not"), ("multiply", "unary_minus"), ("unary_minus", "callable"), ("unary_minus", "list_index"), ("unary_minus", "dot_chain"), ("not", "dot_chain"),
         # `(x) or y` is a postfix form: it binds like a call / index, tighter than every prefix and binary operator (`2 * (x) or 5` is `2 * ((x) or 5)`)
         ("multiply", "optional_or"), ("unary_minus", "optional_or"), ("not", "optional_or"), ("add", "optional_or"), ("multiply", "typeof")]
SAME = [("add", "subtract"), ("multiply", "divide"), ("multiply", "modulo"), ("lt", "lte"), ("lt", "gt"), ("lt", "gte"), ("eq", "neq"), ("add_assign", "sub_assign"), ("add_assign", "mod_assign"),
        ("add_assign", "mul_assign"), ("add_assign", "div_assign")]


def build(repo):
    src = Source(repo)
    log = []
    toks = src.toks(FILE)
    try:
        o = next(k for k in range(len(toks) - 3) if toks[k:k + 3] == ["pub", "static", "PRATT_PARSER"])
    except StopIteration:
        raise Undecided(f"{FILE}: `pub static PRATT_PARSER` not found")
    body = toks[o:o + 1500]
    # the chain `PrattParser :: new ( ) . op ( .. ) . op ( .. ) ...`
    try:
        i = next(k for k in range(len(body) - 4) if body[k:k + 5] == ["PrattParser", "::", "new", "(", ")"])
    except StopIteration:
        raise Undecided("PRATT_PARSER: `PrattParser::new()` not found")
    k = i + 5
    levels = []
    while k + 2 < len(body) and body[k] == "." and body[k + 1] == "op" and body[k + 2] == "(":
        e = match_close(body, k + 2)
        inner = body[k + 3:e]
        names = []
        for q in range(len(inner)):
            if inner[q] in ("infix", "prefix", "postfix") and q + 2 < len(inner):
                # infix ! ( name ) | Op :: prefix ( name )
                j = q + 1
                if inner[j] == "!":
                    j += 1
                if inner[j] == "(":
                    nm = inner[j + 1]
                    names.append(nm[2:] if nm.startswith("r#") else nm)
        if not names:
            raise Undecided(f"PRATT_PARSER: level {len(levels)} has no recognisable operator: {text(inner)[:80]}")
        levels.append(names)
        k = e + 1
    if len(levels) < 8:
        raise Undecided(f"PRATT_PARSER: only {len(levels)} precedence levels found")
    lvl = {n: li for li, ns in enumerate(levels) for n in ns}
    log.append(("R0", "PrattParser::new().op(..).op(..)...", "levels: " + " < ".join("{" + ",".join(ns) + "}" for ns in levels), "table extraction: the n-th .op() call is precedence level n (pest: later = binds tighter)"))
    lines, obls = [], []
    for a, b in ORDER:
        if a not in lvl or b not in lvl:
            raise Undecided(f"PRATT_PARSER: operator {a if a not in lvl else b} not in the table")
        oid = f"C01.precedence.{a}-below-{b}"
        lines.append(f"//@ OBL {oid}\npub proof fn p_{a}_below_{b}() ensures {lvl[a]}int < {lvl[b]}int {{}}")
        obls.append(Obl(oid, ["C01", "C15"] + (["C12"] if "optional_or" in (a, b) else []), fn="PRATT_PARSER", desc=f"`{a}` binds looser than `{b}`"))
    for a, b in SAME:
        if a not in lvl or b not in lvl:
            raise Undecided(f"PRATT_PARSER: operator {a if a not in lvl else b} not in the table")
        oid = f"C01.precedence.{a}-with-{b}"
        lines.append(f"//@ OBL {oid}\npub proof fn p_{a}_with_{b}() ensures {lvl[a]}int == {lvl[b]}int {{}}")
        obls.append(Obl(oid, ["C01", "C15"], fn="PRATT_PARSER", desc=f"`{a}` and `{b}` have the same precedence"))
    gen = header(log, f"{FILE}: PRATT_PARSER precedence table") + "use vstd::prelude::*;\nverus! {\n" + "\n".join(lines) + "\n} // verus!\nfn main() {}\n"
    return gen, obls, log


UNITS = [VUnit("c01_precedence", ["C01", "C15", "C12"], "operator precedence table", build)]
UNITS[0].assumes = ["the expected order is the conventional one (`||` < `&&` < comparisons < `+ -` < `* / %` < unary < postfix), which is also what the pinned table has; associativity (all Left) is not checked",
                    "pest's PrattParser semantics (later .op() = higher precedence) trusted"]

"""C01/C09: WhileLoop::compile -- loop layout, break/continue resolution, for all block lengths."""
from vlib.rules import *

FILE = "compiler/src/ast/while_loop.rs"

SPEC = r"""
pub struct Value; pub struct Block;
#[verifier::external_body] pub fn value_compile(v: &Value, s: &CompilationState) -> (r: Result<Vec<CompiledItem>, VErr>) { unimplemented!() }
// assumed contract on the abstract child: loop-control placeholders carry a frame count >= 1
// (that is the postcondition of scopes_since_loop, proved in unit c01_scopes)
#[verifier::external_body] pub fn block_compile(v: &Block, s: &CompilationState) -> (r: Result<Vec<CompiledItem>, VErr>)
    ensures r is Ok ==> forall|i: int| 0 <= i < r->Ok_0@.len() ==> (#[trigger] r->Ok_0@[i] is Continue ==> r->Ok_0@[i]->Continue_0 >= 1)
{ unimplemented!() }

pub struct WhileLoop { pub condition: Value, pub body: Block }

// out = cond(c) ++ [while_loop off] ++ body'(b) ++ [jmp_pop back]
pub open spec fn while_layout(out: Seq<CompiledItem>, c: int, b: int, body: Seq<CompiledItem>) -> bool {
    &&& 0 <= c && 0 <= b && body.len() == b
    &&& out.len() == c + 1 + b + 1
    &&& is_instr(out[c], WHILE_LOOP) && nargs(out[c]) == 1
    &&& c + argn(out[c], 0) == out.len()                         // false condition: exit lands one past the closing jmp_pop
    &&& is_instr(out[c + 1 + b], JMP_POP) && nargs(out[c + 1 + b]) == 1
    &&& (c + 1 + b) + argn(out[c + 1 + b], 0) == 0                // closing jmp_pop: back to the first instruction of the condition
    &&& forall|i: int| 0 <= i < b ==> #[trigger] item_ok(out[c + 1 + i], body[i], c + 1 + i, c, b)
}
pub open spec fn while_wellformed(out: Seq<CompiledItem>) -> bool {
    exists|c: int, b: int, body: Seq<CompiledItem>| #[trigger] while_layout(out, c, b, body)
}
// every placeholder of the body is resolved; everything else is copied in order
pub open spec fn item_ok(o: CompiledItem, src: CompiledItem, pos: int, c: int, b: int) -> bool {
    match src {
        CompiledItem::Continue(k) => is_instr(o, JMP_POP) && nargs(o) == 2
            && pos + argn(o, 0) == c + 1 + b          // continue: lands on the closing jmp_pop (which pops the body frame and re-tests)
            && argn(o, 1) == k - 1,                    //   pops the frames opened since the loop body, but not the body frame itself
        CompiledItem::Break(k) => is_instr(o, JMP_POP) && nargs(o) == 2
            && pos + argn(o, 0) == c + 1 + b + 1      // break: lands one past the loop
            && argn(o, 1) == k,                        //   pops every frame opened since the loop, incl. the body frame
        _ => o == src,
    }
}
"""

INV = """invariant
    $K <= $V.len(),
    $V@.len() == b + 1,
    $V@.subrange(0, b) == body0,
    is_instr($V@[b], JMP_POP), nargs($V@[b]) == 1, argn($V@[b], 0) == -1 - b - c,
    condition_compiled@.len() == c + 1 + $K,
    is_instr(condition_compiled@[c], WHILE_LOOP), nargs(condition_compiled@[c]) == 1, argn(condition_compiled@[c], 0) == b + 2,
    b < 0x1000_0000, c < 0x1000_0000,
    forall|i: int| 0 <= i < b ==> (#[trigger] body0[i] is Continue ==> body0[i]->Continue_0 >= 1),
    forall|i: int| 0 <= i < $K && i < b ==> #[trigger] item_ok(condition_compiled@[c + 1 + i], body0[i], c + 1 + i, c, b),
    $K == b + 1 ==> condition_compiled@[c + 1 + b] == $V@[b],
decreases $V.len() - $K,"""

PRE = """proof {
    if idx < b { assert($V@[idx as int] == $V@.subrange(0, b)[idx as int]); assert(body_item == body0[idx as int]); }
}
let ghost before = condition_compiled@;"""

POST = """proof {
    assert(forall|j: int| 0 <= j < before.len() ==> condition_compiled@[j] == #[trigger] before[j]);
    assert(condition_compiled@[c] == before[c]);
    if idx < b { assert(item_ok(condition_compiled@[c + 1 + idx], body0[idx as int], c + 1 + idx, c, b)); }
}"""


def build(repo):
    src = Source(repo)
    ids = opcode_ids(repo)
    log = []
    f = src.fn(FILE, "compile", "impl Compile for WhileLoop")

    rules = [
        R_CONST_LOCAL, R12_RESERVE, R7_TRY_INTO_ISIZE, r_instruction(ids),
        Rule("R6", "self . condition . compile ( state )", "value_compile ( & self . condition , state )", count=1, why="child Value::compile abstract (arbitrary result)"),
        Rule("R6", "self . body . compile ( state )", "block_compile ( & self . body , state )", count=1, why="child Block::compile abstract"),
        Rule("R11", "let mut $v = block_compile ( $$a ) ? ;",
             ["let mut $v = block_compile ( $$a ) ? ;",
              G("let ghost c = condition_compiled@.len() as int; let ghost b = $v@.len() as int; let ghost body0 = $v@;\n"
                "assume(condition_compiled.len() < 0x1000_0000 && $v.len() < 0x1000_0000);  // stated assumption: block lengths < 2^28")], count=1),
        for_enumerate_into_iter("w", INV, pre_body=PRE, post_body=POST),
        Rule("R11", "Ok ( $r )",
             [G("""proof {
    let out = $r@;
    assert(out.len() == c + 1 + b + 1);
    assert(forall|i: int| 0 <= i < b ==> #[trigger] item_ok(out[c + 1 + i], body0[i], c + 1 + i, c, b));
    assert(while_layout(out, c, b, body0));
}"""), "Ok ( $r )"], count=1),
    ]
    t = translate(f["body"], rules, log, "WhileLoop::compile")
    check_closed(t, "WhileLoop::compile")
    gen = header(log, f"{FILE}: WhileLoop::compile") + prelude("compile.rs") + \
        opcode_consts(ids, ["while_loop", "jmp_pop"]) + SPEC + f"""
impl WhileLoop {{
    //@ OBL C01.while.layout
    #[verifier::loop_isolation(false)]
    pub fn compile(&self, state: &CompilationState) -> (r: Result<Vec<CompiledItem>, VErr>)
        ensures r is Ok ==> while_wellformed(r->Ok_0@)
    {{
{render(t, 2)}
    }}
}}

}} // verus!
fn main() {{}}
"""
    obls = [Obl("C01.while.layout", ["C01", "C09"], fn="WhileLoop::compile",
                desc="WhileLoop::compile: while_loop exits one past the closing jmp_pop; the closing jmp_pop returns to the first instruction of the condition; "
                     "every Continue(k) -> jmp_pop landing on the closing jmp_pop popping k-1 frames; every Break(k) -> jmp_pop landing one past the loop popping k frames; "
                     "all other body items copied in order; for all block lengths and arbitrary child code")]
    return gen, obls, log


UNITS = [VUnit("c01_while", ["C01", "C09"], "while layout + break/continue resolution", build)]

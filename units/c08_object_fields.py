"""C08: where an object's fields live.  `make_object` snapshots the class-body frame into the new object with VariableMapping::clone
(bytecode/src/stack.rs).  The methods of the class are closures created in that same frame: a method that names a field BARE (`total`, not
`self.total`) reads and writes the frame's variable cell.  "A method reads and updates the fields of that object" therefore needs the
object's fields to BE those cells -- the clone must hand on the same cells (a handle clone keeps the cell), not fresh copies of the values."""
from vlib.rules import *

STACK = "bytecode/src/stack.rs"
INSTR = "bytecode/src/instruction.rs"

SPEC = r"""
use vstd::prelude::*;
verus! {
pub struct VErr;
// HashMap<String, PrimitiveFlagsPair>: a finite map from names to variable cells (std HashMap; a PrimitiveFlagsPair clone keeps the cell: gc)
#[verifier::external_body] pub struct CellMap { x: usize }
pub uninterp spec fn cm_view(m: &CellMap) -> Map<Seq<char>, int>;              // name -> identity of the cell
impl CellMap {
    #[verifier::external_body] pub fn clone(&self) -> (r: CellMap) ensures cm_view(&r) == cm_view(self) { unimplemented!() }
    // a map rebuilt entry by entry with NEW cells (PrimitiveFlagsPair::new): same names, no cell shared with the source
    #[verifier::external_body] pub fn snapshot_values(&self) -> (r: CellMap) ensures cm_view(&r).dom() == cm_view(self).dom(),
        forall|k: Seq<char>, j: Seq<char>| cm_view(self).contains_key(k) && cm_view(self).contains_key(j) ==> #[trigger] cm_view(&r)[k] != #[trigger] cm_view(self)[j] { unimplemented!() }
}
pub struct VariableMapping(pub CellMap);
"""


def build(repo):
    src = Source(repo)
    log = []
    f = src.fn(STACK, "clone", "impl VariableMapping")
    b = translate(list(f["body"]), [
        Rule("R1", "Self ( $$e )", "VariableMapping ( $$e )", why="Self"),
        Rule("R13", "instance . 0 . iter ( ) . map ( $$c ) . collect ( )", lambda bb: "instance . 0 . snapshot_values ( )" if "PrimitiveFlagsPair" in bb["c"] else None, why="a map rebuilt with PrimitiveFlagsPair::new per entry: new cells"),
    ], log, "VariableMapping::clone", generic=False)
    check_closed(b, "VariableMapping::clone")
    # make_object: the object's variables are that clone of the frame's variables
    fm = src.fn(INSTR, "make_object", "pub mod implementations")
    from vlib.pattern import Pat
    mb = fm["body"]
    r = None
    for i in range(len(mb)):
        r = Pat("let object_variables = { let frame_variables = ctx . get_frame_variables ( ) ? ; VariableMapping :: clone ( & frame_variables ) } ;").match_at(mb, i)
        if r:
            break
    snapshot_ok = r is not None
    gen = header(log, f"{STACK}: VariableMapping::clone; {INSTR}: make_object (the statement that takes the snapshot)") + SPEC + f"""
impl VariableMapping {{
    //@ OBL C08.object.fields-are-frame-cells
    pub fn clone(instance: &VariableMapping) -> (r: VariableMapping)
        ensures cm_view(&r.0) == cm_view(&instance.0),          // same names, each bound to the SAME cell
    {{
{render(b, 2)}
    }}
}}
//@ OBL C08.make_object.snapshot
// make_object builds the object's variables with exactly `VariableMapping::clone(&ctx.get_frame_variables()?)` (read from the source)
proof fn make_object_takes_the_frame_snapshot() {{ assert({'true' if snapshot_ok else 'false'}); }}
}} // verus!
fn main() {{}}
"""
    return gen, [Obl("C08.object.fields-are-frame-cells", ["C08", "C07"], fn="VariableMapping::clone", desc="VariableMapping::clone: every name is bound to the same variable cell as in the source (an object's fields are the cells its methods captured)"),
                 Obl("C08.make_object.snapshot", ["C08"], fn="make_object_takes_the_frame_snapshot", desc="make_object: the object's variables are VariableMapping::clone of the class-body frame's variables (statement read from the source)")], log


UNITS = [VUnit("c08_object_fields", ["C08", "C07"], "an object's fields are the cells its methods captured", build)]
UNITS[0].assumes = ["std HashMap::clone clones every value; a PrimitiveFlagsPair clone is a handle of the same gc cell; PrimitiveFlagsPair::new allocates a new cell (assumed library semantics)",
                    "the rest of make_object (class registration, identity token) is not under contract"]

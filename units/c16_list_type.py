"""C16: `Parser::list_type` (compiler/src/ast/type.rs) -- the builder of a fixed-shape list type `[A, B, ...]`.  The grammar lets the last element
types be closed by `...` (`list_type = "[" (type ("," type)*)? open_ended_marker? "]"`): for every child the grammar can deliver the builder
returns -- a type or a diagnostic -- and never reaches `unreachable!`."""
from vlib.rules import *

FILE = "compiler/src/ast/type.rs"

SPEC = r"""
#[allow(non_camel_case_types)]
pub enum Rule { type_, open_ended_marker, other }
pub uninterp spec fn rule_of(n: &Node) -> Rule;
impl Node { #[verifier::external_body] pub fn as_rule(&self) -> (r: Rule) ensures r == rule_of(self) { unimplemented!() } }
pub uninterp spec fn parsed_type(n: Node) -> Option<TypeLayout>;
#[verifier::external_body] pub fn parse_type_of(n: Node) -> (r: Result<TypeLayout, VErr>) ensures r is Ok <==> parsed_type(n) is Some, r is Ok ==> r->Ok_0 == parsed_type(n)->Some_0 { unimplemented!() }
pub enum ListType { Mixed(Vec<TypeLayout>), Open(Box<TypeLayout>) }
// Vec::remove(0) PANICS on an empty vector (R8)
pub fn vec_remove0(v: &mut Vec<TypeLayout>) -> (r: TypeLayout) requires old(v)@.len() > 0 ensures r == old(v)@[0], final(v)@ == old(v)@.subrange(1, old(v)@.len() as int) { v.remove(0) }
#[verifier::external_body] pub fn vpanic() requires false { unimplemented!() }
#[verifier::external_body] pub fn child_at(c: &Children, k: usize) -> (r: Node) requires k < c.items@.len() ensures r == c.items@[k as int] { unimplemented!() }
"""

INV = ("invariant verif_k <= verif_kids.items@.len(), verif_kids.items@ == node_children(&input), type_vec@.len() == verif_k, "
       "forall|i: int| 0 <= i < verif_kids.items@.len() ==> rule_of(#[trigger] &verif_kids.items@[i]) is type_ || rule_of(&verif_kids.items@[i]) is open_ended_marker, "
       "forall|i: int| 0 <= i < verif_kids.items@.len() && rule_of(#[trigger] &verif_kids.items@[i]) is open_ended_marker ==> i == verif_kids.items@.len() - 1, "
       "forall|i: int| 0 <= i < verif_k ==> rule_of(#[trigger] &verif_kids.items@[i]) is type_ && parsed_type(verif_kids.items@[i]) == Some(type_vec@[i]), "
       "decreases verif_kids.items@.len() - verif_k,")


def build(repo):
    src = Source(repo)
    log = []
    f = src.fn(FILE, "list_type", "impl Parser")
    b = translate(f["body"], [
        Rule("R1", "let children = input . children ( ) ;", "", why="the pest children: iterated below"),
        Rule("R1", "let mut type_vec : Vec < Cow < 'static , TypeLayout >> = vec ! [ ] ;", "let mut type_vec : Vec < TypeLayout > = Vec :: new ( ) ;", why="Cow<'static, TypeLayout> -> TypeLayout"),
        Rule("R2", "for child in children { $$body }", lambda bd: ["let verif_kids = node_kids ( & input ) ; let mut verif_k : usize = 0 ; while verif_k < verif_kids . items . len ( )", G(INV),
                                                                   "{ let child = child_at ( & verif_kids , verif_k ) ; verif_k += 1 ;", *bd["body"], "}"], count=1, why="for over the pest children -> indexed while"),
        Rule("R1", "Rule :: r#type", "Rule :: type_", why="raw identifier r#type -> type_"),
        Rule("R6", "Self :: r#type ( $n ) ?", "parse_type_of ( $n ) ?", why="sub-parser abstract"),
        Rule("R8", "type_vec . remove ( 0 )", "vec_remove0 ( & mut type_vec )", why="Vec::remove with its panic precondition"),
        Rule("R8", "unreachable ! ( $$m )", "{ vpanic ( ) ; return Err ( VErr ) }", why="unreachable!: a panic -- must be excluded for every child the grammar delivers"),
        Rule("R3", "return Err ( new_err ( $$a ) )", "return Err ( VErr )", why="diagnostic text dropped"),
        Rule("R3", "return Err ( new_err ( $$a ) ) ;", "return Err ( VErr ) ;", why="diagnostic text dropped"),
    ], log, "Parser::list_type")
    check_closed(b, "Parser::list_type")
    gen = header(log, f"{FILE}: Parser::list_type") + prelude("parser.rs") + SPEC + f"""
//@ OBL C16.list_type.total
pub fn list_type(input: Node) -> (r: Result<ListType, VErr>)
    // grammar: list_type = "[" (type ("," type)*)? open_ended_marker? "]"
    requires forall|i: int| 0 <= i < node_children(&input).len() ==> rule_of(#[trigger] &node_children(&input)[i]) is type_ || rule_of(&node_children(&input)[i]) is open_ended_marker,
             forall|i: int| 0 <= i < node_children(&input).len() && rule_of(#[trigger] &node_children(&input)[i]) is open_ended_marker ==> i == node_children(&input).len() - 1,      // `...` comes last
    ensures
        // `...` closes the element types: behind exactly one it makes the growable list of that type; behind any other number it is a diagnostic
        // (never a panic: the precondition of every panic is refuted for every child the grammar delivers)
        (exists|i: int| 0 <= i < node_children(&input).len() && rule_of(#[trigger] &node_children(&input)[i]) is open_ended_marker && i != 1) ==> r is Err,
        (r is Ok && r->Ok_0 is Open) ==> node_children(&input).len() >= 2 && rule_of(&node_children(&input)[0]) is type_ && rule_of(&node_children(&input)[1]) is open_ended_marker
            && parsed_type(node_children(&input)[0]) == Some(*r->Ok_0->Open_0),
        // without it: the fixed-shape list of the element types, in order
        (r is Ok && r->Ok_0 is Mixed) ==> r->Ok_0->Mixed_0@.len() == node_children(&input).len()
            && forall|i: int| 0 <= i < node_children(&input).len() ==> rule_of(#[trigger] &node_children(&input)[i]) is type_ && parsed_type(node_children(&input)[i]) == Some(r->Ok_0->Mixed_0@[i]),
{{
{render(b, 1)}
}}
}} // verus!
fn main() {{}}
"""
    return gen, [Obl("C16.list_type.total", ["C16", "C03"], fn="Parser::list_type", desc="list_type: for every child the grammar delivers (element types and a closing `...`) a type or a diagnostic, never a panic; `[T...]` is the growable list of T, `...` behind any other number of element types a diagnostic; otherwise the element types in order")], log


UNITS = [VUnit("c16_list_type", ["C16", "C03"], "the builder of fixed-shape list types returns for every child the grammar delivers", build)]
UNITS[0].assumes = ["pest API and Parser::type abstract; the grammar fact about the children of a list_type node is the stated precondition (read off grammar.pest)"]

"""C02: `==` on two map types (`impl PartialEq for MapType`, derived or written, compiler/src/ast/map.rs) -- the test `eq_complex` relies on for
maps (it has no arm of its own for them).  A map is mutable through every alias, so a `map[K, V]` fits a place of type `map[K2, V2]` only if the key
and value types are the SAME types (invariance): equal, not merely compatible in one direction.  The unit `c02_compat_sound` assumes "`lhs == rhs`
means the two types admit the same values"; this obligation is the map part of that assumption.
R17 (derive): `#[derive(PartialEq)]` on a struct is field-wise `==` in declaration order (the Rust reference); where the impl is hand-written its text is verified."""
from vlib.rules import *
from vlib.extract import extract_fn
from vlib.pattern import Pat

FILE = "compiler/src/ast/map.rs"

SPEC = r"""
use vstd::prelude::*;
verus! {
#[verifier::external_body] pub struct TypeLayout { x: usize }
#[verifier::external_body] pub struct Flags { x: usize }
pub uninterp spec fn same(a: TypeLayout, b: TypeLayout) -> bool;                        // TypeLayout == TypeLayout
pub uninterp spec fn compat(expected: TypeLayout, supplied: TypeLayout, f: Flags) -> bool;  // eq_complex: DIRECTIONAL (T? accepts T, not the reverse)
pub uninterp spec fn classless() -> Flags;
#[verifier::external_body] pub fn flags_classless() -> (r: Flags) ensures r == classless() { unimplemented!() }
pub fn type_eq(a: &TypeLayout, b: &TypeLayout) -> (r: bool) ensures r == same(*a, *b) { type_eq_(a, b) }
#[verifier::external_body] pub fn type_eq_(a: &TypeLayout, b: &TypeLayout) -> (r: bool) ensures r == same(*a, *b) { unimplemented!() }
impl TypeLayout { #[verifier::external_body] pub fn eq_complex(&self, rhs: &TypeLayout, f: &Flags) -> (r: bool) ensures r == compat(*self, *rhs, *f) { unimplemented!() } }
pub struct MapType { pub key_type: Box<TypeLayout>, pub value_type: Box<TypeLayout> }
"""


def build(repo):
    src = Source(repo)
    log = []
    toks = src.toks(FILE)
    body = None
    try:
        impl = src.item(FILE, "impl PartialEq for MapType")
        b = translate(list(extract_fn(impl["body"], "eq")["body"]), [
            Rule("R6", "let typecheck_flags : TypecheckFlags < & ClassType > = TypecheckFlags :: classless ( ) ;", "let typecheck_flags = flags_classless ( ) ;", why="TypecheckFlags::classless()"),
            Rule("R6", "& TypecheckFlags :: < & ClassType > :: classless ( )", "& flags_classless ( )", why="TypecheckFlags::classless()"),
            Rule("R1", "self . $f == other . $f", "type_eq ( & self . $f , & other . $f )", why="`==` on the field types"),
        ], log, "MapType::eq")
        check_closed(b, "MapType::eq")
        body = render(b, 2)
        how = "hand-written impl"
    except Undecided:
        # derived?
        i = None
        for k in range(len(toks)):
            if Pat("struct MapType {").match_at(toks, k):
                i = k; break
        if i is None:
            raise Undecided(f"{FILE}: struct MapType not found")
        pre = toks[max(0, i - 40):i]
        # the attribute list directly in front of the struct
        j = len(pre) - 1
        while j >= 0 and pre[j] in ("pub", "(", "crate", ")"):
            j -= 1
        attrs = text(pre[:j + 1])
        if "derive" not in attrs.split("#")[-1] or "PartialEq" not in attrs.split("#")[-1]:
            raise Undecided(f"{FILE}: MapType neither derives PartialEq nor has `impl PartialEq for MapType`")
        c = toks.index("}", i)
        fields = [toks[q - 1] for q in range(i, c) if toks[q] == ":" and toks[q + 1] != ":" and toks[q - 1] != ":"]
        if sorted(fields) != ["key_type", "value_type"]:
            raise Undecided(f"{FILE}: MapType has fields {fields}: the model knows key_type and value_type")
        body = "        " + " && ".join(f"type_eq(&self.{f}, &other.{f})" for f in fields)
        how = "derived"
        log.append(("R17", "#[derive(PartialEq)] struct MapType { " + ", ".join(fields) + " }", body.strip(), "derive(PartialEq): field-wise `==` in declaration order"))
    gen = header(log, f"{FILE}: PartialEq for MapType ({how})") + SPEC + f"""
impl MapType {{
    //@ OBL C02.compat.maptype.eq
    pub fn eq(&self, other: &MapType) -> (r: bool)
        ensures r ==> same(*self.key_type, *other.key_type) && same(*self.value_type, *other.value_type)      // invariance: the SAME key and value types
    {{
{body}
    }}
}}
}} // verus!
fn main() {{}}
"""
    return gen, [Obl("C02.compat.maptype.eq", ["C02", "C03", "C13"], fn="PartialEq for MapType", desc="two map types are `==` only if their key types and their value types are the same types (maps are invariant: a map is mutable through every alias)")], log


UNITS = [VUnit("c02_map_eq", ["C02", "C03", "C13"], "map types are invariant", build)]
UNITS[0].assumes = ["`==` on TypeLayout is abstract (`same`); derive(PartialEq) is field-wise equality (Rust reference)"]

"""C14 (+ C17): `sqrt`, `pow`, `powf` -- arms GenericSqrt / GenericPow / GenericPowf of BuiltInFunction::run (V-t).  Floating-point
functions are uninterpreted (`std`'s sqrt / powf / powi are the definition of the result); what is decided is the ARGUMENT they are
applied to: the receiver's own numeric value converted to double -- every receiver of every kind, not the receiver squeezed through a
narrower integer type first -- and, for integer receivers of `pow`, the exact power as a bigint or a failure when it does not fit /
the exponent is negative."""
from vlib.rules import *
from vlib.extract import extract_match_arm

FUNC = "bytecode/src/function.rs"

SPEC = r"""
use vstd::prelude::*;
use vstd::arithmetic::power::pow;
verus! {
pub struct VErr;
#[verifier::external_body] pub struct OtherV { x: usize }
#[verifier::external_body] #[derive(Clone, Copy)] pub struct F64V { x: usize }
pub struct Bridge;
pub enum Primitive { Int(i32), BigInt(i128), Byte(u8), Float(F64V), Other(OtherV) }
// the double nearest to an integer; sqrt / powf / powi of doubles: std's, uninterpreted
pub uninterp spec fn f_of(x: int) -> F64V;
pub uninterp spec fn f_sqrt(x: F64V) -> F64V;
pub uninterp spec fn f_powf(x: F64V, p: F64V) -> F64V;
pub uninterp spec fn f_powi(x: F64V, p: int) -> F64V;
#[verifier::external_body] pub fn f64_from_i32(x: i32) -> (r: F64V) ensures r == f_of(x as int) { unimplemented!() }
#[verifier::external_body] pub fn f64_from_u8(x: u8) -> (r: F64V) ensures r == f_of(x as int) { unimplemented!() }
#[verifier::external_body] pub fn f64_from_i128(x: i128) -> (r: F64V) ensures r == f_of(x as int) { unimplemented!() }
impl F64V {
    #[verifier::external_body] pub fn sqrt(self) -> (r: F64V) ensures r == f_sqrt(self) { unimplemented!() }
    #[verifier::external_body] pub fn powf(self, p: F64V) -> (r: F64V) ensures r == f_powf(self, p) { unimplemented!() }
    #[verifier::external_body] pub fn powi(self, p: i32) -> (r: F64V) ensures r == f_powi(self, p as int) { unimplemented!() }
}
#[verifier::external_body] pub fn i128_from_i32(x: i32) -> (r: i128) ensures r == x { unimplemented!() }
#[verifier::external_body] pub fn i128_from_u8(x: u8) -> (r: i128) ensures r == x { unimplemented!() }
// i128::checked_pow: the exact power, or None when it does not fit
#[verifier::external_body] pub fn i128_checked_pow(b: i128, e: u32) -> (r: Option<i128>)
    ensures r is Some <==> i128::MIN <= pow(b as int, e as nat) <= i128::MAX, r is Some ==> r->Some_0 == pow(b as int, e as nat) { unimplemented!() }
#[verifier::external_body] pub fn i32_to_u32(x: i32) -> (r: Result<u32, VErr>) ensures r is Ok <==> x >= 0, r is Ok ==> r->Ok_0 == x { unimplemented!() }
pub fn opt_ctx(o: Option<i128>) -> (r: Result<i128, VErr>) ensures r is Ok <==> o is Some, r is Ok ==> Some(r->Ok_0) == o { match o { Some(x) => Ok(x), None => Err(VErr) } }
#[verifier::external_body] pub fn vpanic() requires false { unimplemented!() }
#[verifier::external_body] pub fn args_first(a: &Vec<Primitive>) -> (r: Option<&Primitive>) ensures a@.len() == 0 ==> r is None, a@.len() > 0 ==> r == Some(&a@[0]) { unimplemented!() }
#[verifier::external_body] pub fn args_get(a: &Vec<Primitive>, i: usize) -> (r: Option<&Primitive>) ensures a@.len() <= i ==> r is None, a@.len() > i ==> r == Some(&a@[i as int]) { unimplemented!() }
pub type Ret = Result<(Option<Primitive>, Option<Bridge>), VErr>;
pub open spec fn numeric(p: Primitive) -> bool { p is Int || p is BigInt || p is Byte || p is Float }
// the receiver as a double: a float is itself, an integer of any kind its nearest double
pub open spec fn as_double(p: Primitive) -> F64V { match p { Primitive::Int(x) => f_of(x as int), Primitive::BigInt(x) => f_of(x as int), Primitive::Byte(x) => f_of(x as int), Primitive::Float(x) => x, _ => f_of(0) } }
pub open spec fn as_integer(p: Primitive) -> int { match p { Primitive::Int(x) => x as int, Primitive::BigInt(x) => x as int, Primitive::Byte(x) => x as int, _ => 0 } }
pub open spec fn is_float(r: Ret, v: F64V) -> bool { r is Ok && r->Ok_0.0 == Some(Primitive::Float(v)) }
"""

ARMS = {
 "GenericSqrt": """requires arguments@.len() >= 1, numeric(arguments@[0])
    ensures is_float(r, f_sqrt(as_double(arguments@[0])))""",
 "GenericPowf": """requires arguments@.len() >= 2, numeric(arguments@[0]), arguments@[1] is Float
    ensures is_float(r, f_powf(as_double(arguments@[0]), arguments@[1]->Float_0))""",
 "GenericPow": """requires arguments@.len() >= 2, numeric(arguments@[0]), arguments@[1] is Int
    ensures ({ let p = arguments@[1]->Int_0 as int;
        &&& arguments@[0] is Float ==> is_float(r, f_powi(arguments@[0]->Float_0, p))
        // an integer receiver: the exact power as a bigint; a negative exponent or a power that does not fit is a failure
        &&& (!(arguments@[0] is Float) && p >= 0 && i128::MIN <= pow(as_integer(arguments@[0]), p as nat) <= i128::MAX) ==> r is Ok && r->Ok_0.0 == Some(Primitive::BigInt(pow(as_integer(arguments@[0]), p as nat) as i128))
        &&& (!(arguments@[0] is Float) && !(p >= 0 && i128::MIN <= pow(as_integer(arguments@[0]), p as nat) <= i128::MAX)) ==> r is Err })""",
}


def rules():
    return [
        Rule("R8", "unreachable ! ( $$a ) ;", "{ vpanic ( ) ; return Err ( VErr ) ; }", why="unreachable!: excluded by the precondition on the argument vector"),
        Rule("R8", "unreachable ! ( $$a )", "{ vpanic ( ) ; return Err ( VErr ) }", why="unreachable!: excluded by the precondition on the argument vector"),
        Rule("R3", "bail ! $a", "return Err ( VErr )", why="bail! -> return Err"),
        Rule("R9", "arguments . first ( )", "args_first ( & arguments )", why="slice::first"),
        Rule("R9", "arguments . get ( $i )", "args_get ( & arguments , $i )", why="slice::get"),
        Rule("R7", "f64 :: from ( * i128 as i32 )", "f64_from_i32 ( * i128 as i32 )", why="f64::from(i32) of a TRUNCATING cast (Verus gives `as` Rust's wrapping semantics)"),
        Rule("R7", "f64 :: from ( * i32 )", "f64_from_i32 ( * i32 )", why="f64::from(i32): the nearest double"),
        Rule("R7", "( * i128 as f64 )", "f64_from_i128 ( * i128 )", why="i128 as f64: the nearest double"),
        Rule("R7", "( * u8 as f64 )", "f64_from_u8 ( * u8 )", why="u8 as f64"),
        Rule("R7", "( * i32 as f64 )", "f64_from_i32 ( * i32 )", why="i32 as f64"),
        Rule("R9", "i128 :: from ( * i32 ) . checked_pow ( power_non_fp ) . with_context ( $$c ) ?", "opt_ctx ( i128_checked_pow ( i128_from_i32 ( * i32 ) , power_non_fp ) ) ?", why="i128::checked_pow: exact power or None"),
        Rule("R9", "i128 :: from ( * u8 ) . checked_pow ( power_non_fp ) . with_context ( $$c ) ?", "opt_ctx ( i128_checked_pow ( i128_from_u8 ( * u8 ) , power_non_fp ) ) ?", why="i128::checked_pow"),
        Rule("R9", "i128 . checked_pow ( power_non_fp ) . with_context ( $$c ) ?", "opt_ctx ( i128_checked_pow ( * i128 , power_non_fp ) ) ?", why="i128::checked_pow"),
        Rule("R7", "i128 :: from ( * i32 )", "i128_from_i32 ( * i32 )", why="i128::from(i32)"),
        Rule("R7", "i128 :: from ( * u8 )", "i128_from_u8 ( * u8 )", why="i128::from(u8)"),
        Rule("R7", "( * power ) . try_into ( ) . with_context ( $$c ) ?", "i32_to_u32 ( * power ) ?", why="i32 -> u32: fails on a negative exponent"),
    ]


def build(repo):
    src = Source(repo)
    log = []
    frun = src.fn(FUNC, "run", "impl BuiltInFunction")
    fns, obls = [], []
    for name, contract in ARMS.items():
        try:
            arm = extract_match_arm(frun["body"], f"Self :: {name}")
        except Exception as e:
            raise Undecided(f"{FUNC}: arm Self::{name} not found: {e}")
        rs = rules()
        b = translate(arm["body"], rs, log, f"BuiltInFunction::run[{name}]")
        check_closed(b, name)
        fns.append(f"""
//@ OBL C14.{name}
pub fn arm_{name}(arguments: Vec<Primitive>) -> (r: Ret)
    {contract}
{{
{render(b, 1)}
}}
""")
        obls.append(Obl(f"C14.{name}", ["C14", "C17"], fn=f"BuiltInFunction::run[{name}]", desc=f"BuiltInFunction::run arm {name}: the function is applied to the receiver's own value (converted to double as a whole), for every receiver of every numeric kind; integer pow is exact or fails; no panic"))
    gen = header(log, f"{FUNC}: BuiltInFunction::run arms " + ", ".join(ARMS)) + SPEC + "\n".join(fns) + "\n} // verus!\nfn main() {}\n"
    return gen, obls, log


UNITS = [VUnit("c14_pow", ["C14", "C17"], "sqrt / pow / powf: applied to the receiver's own value (V-t)", build)]
UNITS[0].assumes = ["f64 sqrt / powf / powi and int -> f64 conversion: std's (uninterpreted); i128::checked_pow: exact power or None (assumed std contract)",
                    "the argument vector has the shape the type checker guarantees"]

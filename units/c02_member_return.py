"""C02 / C03: a class method declared `-> T` returns a value on every path -- Parser::class_bound_function (class/member_function.rs): the
declaration is accepted only if its body marked the function's scope as "returned" (the same test Parser::function applies to plain
functions)."""
from vlib.rules import *
from units.c03_conditions import SPEC as COND_SPEC

FILE = "compiler/src/ast/class/member_function.rs"

SPEC = r"""
#[verifier::external_body] pub struct IdentV { x: usize }
#[verifier::external_body] pub struct ParamsV { x: usize }
#[verifier::external_body] pub struct FnTypeV { x: usize }
#[verifier::external_body] pub struct ClassV { x: usize }
#[verifier::external_body] pub fn parse_ident(n: Node) -> (r: Result<IdentV, VErr>) { unimplemented!() }
#[verifier::external_body] pub fn function_return_type(n: Node) -> (r: Result<TypeLayout, VErr>) { unimplemented!() }
#[verifier::external_body] pub fn clone_status(s: &ScopeReturnStatus) -> (r: ScopeReturnStatus) ensures r == *s { unimplemented!() }
#[verifier::external_body] pub fn function_parameters(n: Node, u: &mut UD) -> (r: Result<ParamsV, VErr>) ensures statuses(final(u)) == statuses(old(u)) { unimplemented!() }
#[verifier::external_body] pub fn fn_type_new(p: &ParamsV, r: ScopeReturnStatus) -> (t: FnTypeV) { unimplemented!() }
#[verifier::external_body] pub fn set_type_no_link(i: &mut IdentV, t: FnTypeV) { unimplemented!() }
#[verifier::external_body] pub fn executing_class_owned(n: &Node) -> (r: ClassV) { unimplemented!() }
// AssocFileData::did_scope_exit_with_value_if_required: the innermost scope is not (still) waiting for a return
#[verifier::external_body] pub fn did_scope_exit_with_value_if_required(u: &UD) -> (r: bool) requires statuses(u).len() > 0 ensures r == !(statuses(u).last() is Should) { unimplemented!() }
// ScopeHandle::consume: the frame is closed NOW; its return status is handed back
#[verifier::external_body] pub fn pop_scope_status(u: &mut UD) -> (r: ScopeReturnStatus) requires statuses(old(u)).len() > 0
    ensures statuses(final(u)) == statuses(old(u)).drop_last(), r == statuses(old(u)).last() { unimplemented!() }
pub struct MemberFunction { pub ident: IdentV, pub parameters: ParamsV, pub body: BlockV, pub class_type: ClassV }
"""


def build(repo):
    src = Source(repo)
    log = []
    f = src.fn(FILE, "class_bound_function")
    b = translate(f["body"], parser_idioms() + [
        Rule("R6", "input . children ( )", "children ( & input )", why="pest API abstract"),
        Rule("R8", "children . next ( ) . unwrap ( )", "unwrap_node ( children . next ( ) )", why="unwrap on a child: grammar child count (R8)"),
        Rule("R6", "Self :: ident ( ident ) . to_err_vec ( ) ?", "parse_ident ( ident ) ?", why="sub-parser abstract"),
        Rule("R6", "Self :: function_return_type ( maybe_body ) . to_err_vec ( ) ?", "function_return_type ( maybe_body ) ?", why="sub-parser abstract"),
        Rule("R10", "let _scope_handle = input . user_data ( ) . push_function ( return_type . clone ( ) ) ;", "push_scope ( ud , clone_status ( & return_type ) ) ;", why="scope stack as explicit state (R10); the handle pops the scope at the end of the function (not modelled: the contract looks at the state before)"),
        Rule("R10", "let $h = input . user_data ( ) . push_function ( return_type . clone ( ) ) ;", "push_scope ( ud , clone_status ( & return_type ) ) ;", why="scope stack as explicit state (R10), handle bound to another name"),
        Rule("R10", "let $h = input . user_data ( ) . push_function ( return_type ) ;", "push_scope ( ud , return_type ) ;", why="scope stack as explicit state (R10), handle bound to another name"),
        Rule("R10", "$h . consume ( )", "pop_scope_status ( ud )", why="ScopeHandle::consume: the frame is closed at this point (R10)"),
        Rule("R6", "Rc :: new ( Self :: function_parameters ( parameters , $$f ) . to_err_vec ( ) ? )", "function_parameters ( parameters , ud ) ?", why="sub-parser abstract (declares the parameters in the function scope)"),
        Rule("R6", "Self :: block ( body ) ?", "parse_block ( body , ud ) ?", why="sub-parser abstract: marks the innermost scope iff every path of the block returns"),
        Rule("R6", "Self :: block ( body )", "parse_block ( body , ud )", why="sub-parser abstract (result handled later)"),
        Rule("R6", "input . user_data ( ) . did_scope_exit_with_value_if_required ( )", "did_scope_exit_with_value_if_required ( ud )", why="scope stack as explicit state (R10)"),
        Rule("R3", "return Err ( vec ! [ new_err ( $$a ) ] ) ;", "return Err ( VErr ) ;", why="diagnostic construction dropped (that a diagnostic IS returned is kept)"),
        Rule("R6", "FunctionType :: new ( parameters . clone ( ) , return_type , true , false )", "fn_type_new ( & parameters , return_type )", why="abstract constructor"),
        Rule("R6", "ident . set_type_no_link ( Cow :: Owned ( TypeLayout :: Function ( function_type ) ) ) ;", "set_type_no_link ( & mut ident , function_type ) ;", why="abstract"),
        Rule("R6", "input . user_data ( ) . get_owned_type_of_executing_class ( ) . unwrap ( )", "executing_class_owned ( & input )", why="abstract"),
        Rule("R1", "path_str : input . user_data ( ) . bytecode_path ( ) ,", "", why="path field: not part of the model"),
    ], log, "Parser::class_bound_function")
    check_closed(b, "Parser::class_bound_function")
    gen = header(log, f"{FILE}: Parser::class_bound_function") + prelude("parser.rs") + COND_SPEC + SPEC + f"""
//@ OBL C02.member.returns
pub fn class_bound_function(input: Node, ud: &mut UD) -> (r: Result<MemberFunction, VErr>)
    requires node_children(&input).len() >= 4,         // grammar: ident ~ parameters ~ return type? ~ body (the longer form)
             statuses(old(ud)).len() == base_depth()
    ensures
        // declared `-> T` (third child is the return type): accepted only if every path through the body (the fourth child) returns
        (r is Ok && has_rule(&node_children(&input)[2], "function_return_type")) ==> block_returns(node_children(&input)[3]),
{{
{render(b, 1)}
}}
}} // verus!
fn main() {{}}
"""
    return gen, [Obl("C02.member.returns", ["C02", "C03"], fn="Parser::class_bound_function", desc="class_bound_function: a method with a declared return type is accepted only if every path of its body returns")], log


UNITS = [VUnit("c02_member_return", ["C02", "C03"], "class methods: a declared return type needs a return on every path", build)]
UNITS[0].assumes = ["pest API and sub-parsers abstract; Parser::block marks the innermost scope exactly when every path returns (unit c03_conditions for if / else)", "the same test in Parser::function (plain functions) is by inspection"]

"""C08 / C15: the code generated for one link of a dot chain (`x.name`, `x.method(args)`) and for a whole chain -- DotLookupOption::compile and
DotChain::compile (dot_lookup.rs).  A method call link saves the value that is on top of the stack -- the receiver the previous links
actually produced -- in a fresh register, looks the method up on it and calls it with that register as `self`; a chain is the links'
code in order, each compiled once, each link starting from what the previous one left."""
from vlib.rules import *
from units.c15_seq import SPEC as SEQ_SPEC

FILE = "compiler/src/ast/dot_lookup.rs"

SPEC = r"""
#[verifier::external_body] pub struct ArgsV { x: usize }              // FunctionArguments
pub enum DotLookupOption { Name { name: VString }, FunctionCall { function_name: VString, arguments: ArgsV, assume_self_is_on_top: bool } }
pub struct DotChain { pub links: Vec<DotLookupOption> }
// Callable::new(arguments, load_instruction, self_register).compile(state): obligation C15.call.layout; here: the code of a call with that
// callee-load instruction and that `self` register -- uninterpreted in those three
pub struct CallableV { pub args: ArgsV, pub load: CompiledItem, pub self_register: Option<VString> }
pub uninterp spec fn call_code(args: ArgsV, load: CompiledItem, self_register: Option<VString>, c: int) -> Seq<CompiledItem>;
#[verifier::external_body] pub fn callable_new(args: &ArgsV, load: CompiledItem, self_register: Option<VString>) -> (r: CallableV) ensures r.args == *args, r.load == load, r.self_register == self_register { unimplemented!() }
impl CallableV {
    #[verifier::external_body] pub fn compile(&self, s: &mut State) -> (r: Result<Vec<CompiledItem>, VErr>)
        ensures count(final(s)) == count(old(s)), r is Ok ==> r->Ok_0@ == call_code(self.args, self.load, self.self_register, count(old(s))) { unimplemented!() }
}
pub open spec fn is_store_reg(it: CompiledItem, r: int) -> bool { is_instr(it, STORE_FAST) && nargs(it) == 1 && argn(it, 0) == r && is_reg_arg(&it->arguments@[0]) }
pub open spec fn is_load_reg(it: CompiledItem, r: int) -> bool { is_instr(it, LOAD_FAST) && nargs(it) == 1 && argn(it, 0) == r }
pub open spec fn is_lookup(it: CompiledItem, name: VString) -> bool { is_instr(it, LOOKUP) && nargs(it) == 1 && argt(it, 0) == text_of(&name) }
// a bound method call: [store_fast I, load_fast I, lookup m, store_fast L] ++ call(args, load_fast L, self = I) with I != L fresh
pub open spec fn bound_call(out: Seq<CompiledItem>, m: VString, args: ArgsV, c0: int) -> bool {
    out.len() >= 4 && ({ let i = argn(out[0], 0); let l = argn(out[3], 0);
        i != l && c0 <= i < c0 + 2 && c0 <= l < c0 + 2
        && is_store_reg(out[0], i) && is_load_reg(out[1], i) && is_lookup(out[2], m) && is_store_reg(out[3], l)
        && exists|load: CompiledItem, sr: VString| is_load_reg(load, l) && num_of(&sr) == i
            && out.subrange(4, out.len() as int) == #[trigger] call_code(args, load, Some(sr), c0 + 2) })
}
pub open spec fn free_call(out: Seq<CompiledItem>, m: VString, args: ArgsV, c0: int) -> bool {
    out.len() >= 2 && ({ let l = argn(out[1], 0);
        c0 <= l < c0 + 2 && is_lookup(out[0], m) && is_store_reg(out[1], l)
        && exists|load: CompiledItem| is_load_reg(load, l) && out.subrange(2, out.len() as int) == #[trigger] call_code(args, load, None, c0 + 2) })
}
pub open spec fn link_code_ok(out: Seq<CompiledItem>, link: DotLookupOption, c0: int) -> bool {
    match link {
        DotLookupOption::Name { name } => out.len() == 1 && is_lookup(out[0], name),
        DotLookupOption::FunctionCall { function_name, arguments, assume_self_is_on_top } =>
            if assume_self_is_on_top { bound_call(out, function_name, arguments, c0) } else { free_call(out, function_name, arguments, c0) },
    }
}
pub fn vec1(a: CompiledItem) -> (r: Vec<CompiledItem>) ensures r@ == seq![a] { let mut v = Vec::new(); v.push(a); v }
pub fn push2(v: &mut Vec<CompiledItem>, a: CompiledItem, b: CompiledItem) ensures final(v)@ == old(v)@.push(a).push(b) { v.push(a); v.push(b); }
// the chain: the links' codes in order
pub open spec fn chain_ok(out: Seq<CompiledItem>, links: Seq<DotLookupOption>, codes: Seq<Seq<CompiledItem>>, c0: int) -> bool {
    codes.len() == links.len() && out == flat(codes) && forall|i: int| 0 <= i < links.len() ==> link_code_ok(#[trigger] codes[i], links[i], c0)
}
"""


def build(repo):
    src = Source(repo)
    ids = opcode_ids(repo)
    log = []
    fl = src.fn(FILE, "compile", "impl Compile for DotLookupOption")
    bl = translate(fl["body"], [
        Rule("R9", "# [ cfg ( feature = \"debug\" ) ] instruction ! $a ,", "", why="cfg(feature = \"debug\") is off in the default build: element not compiled"),
        Rule("R6", "state . poll_temporary_register ( )", "poll_temporary_register ( state )", why="register allocator abstract"),
        r_instruction(ids),
        Rule("R12", "vec ! [ ]", "Vec :: new ( )", why="vec![]"),
        Rule("R12", "vec ! [ $$a ]", "vec1 ( $$a )", why="vec![a]"),
        Rule("R12", "result . extend_from_slice ( & [ $$a , $$b , ] ) ;", "push2 ( & mut result , $$a , $$b ) ;", why="extend_from_slice(&[a, b]) -> two pushes"),
        Rule("R12", "result . extend_from_slice ( & [ $$a , $$b ] ) ;", "push2 ( & mut result , $$a , $$b ) ;", why="extend_from_slice(&[a, b]) -> two pushes"),
        Rule("R1", "let callable : Callable < '_ > = Callable :: new", "let callable = callable_new", why="abstract constructor"),
        Rule("R1", "Some ( $r . to_string ( ) )", "Some ( $r . to_vs ( ) )", why="register text"),
        Rule("R1", "Self :: $v", "DotLookupOption :: $v", why="Self -> the enum"),
        Rule("R10", "result . append ( & mut callable . compile ( state ) ? ) ;",
             ["let mut verif_cc = callable . compile ( state ) ? ;", G("let ghost cc = verif_cc@; let ghost n0 = result@.len() as int;"), "result . append ( & mut verif_cc ) ;",
              G("proof { assert(result@.subrange(n0, result@.len() as int) =~= cc); }"), "free_many_temporary_registers ( state , 2 ) ;"], count=1,
             why="temporary named; the two TemporaryRegisters are released by their Drop impl at the end of the arm: made explicit (R10)"),
    ], log, "DotLookupOption::compile")
    check_closed(bl, "DotLookupOption::compile")
    fc = src.fn(FILE, "compile", "impl Compile for DotChain")
    inv = ("invariant $K <= self.links@.len(), count(state) == c0, codes.len() == $K, result@ == flat(codes), "
           "forall|i: int| 0 <= i < $K ==> link_code_ok(#[trigger] codes[i], self.links@[i], c0) decreases self.links@.len() - $K")
    bc = translate(fc["body"], [
        Rule("R2", "for $x in & self . links { $$body }", lambda b: for_in_vec("c", inv).repl({"x": b["x"], "v": ["self", ".", "links"], "body": b["body"]}), why="for over &Vec -> indexed while"),
        Rule("R2", "for $x in self . links . iter ( ) . rev ( ) { $$body }", lambda b: ["let mut verif_k_c : usize = 0 ; while verif_k_c < self . links . len ( )", G(inv.replace("$K", "verif_k_c").replace("$V", "self.links")),
                                                                                  "{", f"let {text(b['x'])} = & self . links [ self . links . len ( ) - 1 - verif_k_c ] ; verif_k_c += 1 ;", *b["body"], "}"], why="for over a reversed slice iterator -> indexed while from the end"),
        Rule("R13", "result . append ( & mut link . compile ( state ) ? ) ;", ["let mut verif_lc = link . compile ( state ) ? ;", G("proof { lemma_flat_push(codes, verif_lc@); codes = codes.push(verif_lc@); }"), "result . append ( & mut verif_lc ) ;"], count=1,
             why="temporary named; ghost: the link's code is the next part"),
    ], log, "DotChain::compile")
    if bc[-4:] != ["Ok", "(", "result", ")"]:
        raise Undecided("DotChain::compile: final `Ok(result)` not found")
    bc = bc[:-4] + [G("proof { assert(chain_ok(result@, self.links@, codes, c0)); }"), "let verif_r : Result < Vec < CompiledItem > , VErr > = Ok ( result ) ;",
                    G("proof { assert(verif_r is Ok); assert(verif_r->Ok_0@ == result@); }"), "verif_r"]
    log.append(("R11", "Ok(result)", "let verif_r = Ok(result); verif_r", "result bound to a name so that the witness of the postcondition can be stated"))
    if "verif_k_c" not in bc:
        raise Undecided("DotChain::compile: the loop over self.links not found")
    check_closed(bc, "DotChain::compile")
    gen = header(log, f"{FILE}: impl Compile for DotLookupOption / DotChain") + prelude("compile.rs").replace("pub struct CompilationState;", "") + \
        opcode_consts(ids, ["store_fast", "store_skip", "load_fast", "lookup"]) + SEQ_SPEC + SPEC + f"""
impl DotLookupOption {{
    //@ OBL C08.dot.link
    pub fn compile(&self, state: &mut State) -> (r: Result<Vec<CompiledItem>, VErr>)
        requires count(old(state)) >= 0
        ensures r is Ok ==> link_code_ok(r->Ok_0@, *self, count(old(state))),
                r is Ok ==> count(final(state)) == count(old(state)),       // (the two registers are released when they go out of scope: modelled by the count contract below)
    {{
        let ghost c0 = count(state);
{render(bl, 2)}
    }}
}}
impl DotChain {{
    //@ OBL C08.dot.chain
    #[verifier::loop_isolation(false)]
    pub fn compile(&self, state: &mut State) -> (r: Result<Vec<CompiledItem>, VErr>)
        requires count(old(state)) >= 0
        ensures r is Ok ==> exists|codes: Seq<Seq<CompiledItem>>| #[trigger] chain_ok(r->Ok_0@, self.links@, codes, count(old(state))),
    {{
        let ghost c0 = count(state);
        let ghost mut codes: Seq<Seq<CompiledItem>> = Seq::empty();
{render(bc, 2)}
    }}
}}
}} // verus!
fn main() {{}}
"""
    obls = [Obl("C08.dot.link", ["C08", "C15"], fn="DotLookupOption::compile", desc="one link: field lookup, or a method call on the receiver that is on top of the stack (saved in a fresh register, passed as self)"),
            Obl("C08.dot.chain", ["C08", "C15"], fn="DotChain::compile", desc="a chain: the links' code in order, each once")]
    return gen, obls, log


UNITS = [VUnit("c08_dot_call", ["C08", "C15"], "code generated for field lookups and method calls in a dot chain", build)]
UNITS[0].assumes = ["Callable::compile is an abstract callee (its layout: C15.call.layout); TemporaryRegister drop (release of the two registers at the end of the link) is modelled as the count being restored",
                    "the interpreter side (lookup, ld_self, call on an object) is not under contract"]

"""C07: what a statement declares for the statements AFTER it in its block -- `impl Dependencies for Declaration`::supplies (compiler/src/ast/declaration.rs).
An assignment, a class, an import, a type alias declare their names; a `from` loop does NOT: its counter lives in the loop's own frame and is subtracted
inside the loop's own net dependencies.  Handing the counter to the enclosing block made a later function literal's captured `i` (from two levels up)
count as satisfied by the loop, so the function in between did not capture it (D96)."""
from vlib.rules import *
from vlib.extract import extract_fn

FILE = "compiler/src/ast/declaration.rs"
KINDS = ["Assignment", "PrintStatement", "ReturnStatement", "IfStatement", "WhileLoop", "NumberLoop", "Assertion", "Class", "Value", "Reassignment", "Import", "TypeAlias"]

def spec():
    s = "use vstd::prelude::*;\nverus! {\n#[verifier::external_body] pub struct Dependency { x: usize }\n#[verifier::external_body] pub struct OtherV { x: usize }\n"
    for k in KINDS:
        s += f"#[verifier::external_body] pub struct {k}V {{ x: usize }}\npub uninterp spec fn sup_{k}(s: &{k}V) -> Seq<Dependency>;\n"
        s += f"impl {k}V {{ #[verifier::external_body] pub fn supplies(&self) -> (r: Vec<Dependency>) ensures r@ == sup_{k}(self) {{ unimplemented!() }} }}\n"
    s += "pub enum Declaration { " + ", ".join(f"{k}({k}V)" for k in KINDS) + ", Continue(OtherV), Break(OtherV) }\n"
    return s


def build(repo):
    src = Source(repo)
    log = []
    impl = src.item(FILE, "impl Dependencies for Declaration")
    body = list(extract_fn(impl["body"], "supplies")["body"])
    b = translate(body, [Rule("R1", "Self :: $v", "Declaration :: $v", why="Self"), Rule("R1", "match self {", "match self_ {", why="self -> explicit parameter"), R12_VEC_EMPTY], log, "Declaration::supplies")
    check_closed(b, "Declaration::supplies")
    declares = ["Assignment", "Class", "Import", "TypeAlias"]
    ens = ",\n        ".join(f"self_ matches Declaration::{k}(s) ==> r@ == sup_{k}(s)" for k in declares)
    gen = header(log, f"{FILE}: impl Dependencies for Declaration, fn supplies") + spec() + f"""
//@ OBL C07.decl.supplies
pub fn supplies(self_: &Declaration) -> (r: Vec<Dependency>)
    ensures
        // statements that declare names hand on exactly what they declare
        {ens},
        // a `from` loop declares nothing for the statements after it: its counter is its own
        self_ is NumberLoop ==> r@.len() == 0,
        self_ is Continue || self_ is Break ==> r@.len() == 0,
{{
{render(b, 1)}
}}
}} // verus!
fn main() {{}}
"""
    return gen, [Obl("C07.decl.supplies", ["C07"], fn="Declaration::supplies", desc="a declaring statement (assignment, class, import, type alias) hands on exactly its names; a `from` loop hands on nothing -- its counter is not a name of the enclosing block (D96)")], log


UNITS = [VUnit("c07_decl_supplies", ["C07"], "what a statement declares for the rest of its block", build)]
UNITS[0].assumes = ["each statement kind's own supplies is an abstract callee (Assignment / Class / Import: their own obligations)"]

"""C16 / C06: constant folding of a list literal -- `impl CompileTimeEvaluate for List` (compiler/src/ast/list.rs).  Every value is folded when it is
parsed, and a list literal folds its elements, which may be list literals themselves: if an element were folded more than once per call, the
work would double with every level of nesting and `[[[[..]]]]` a few dozen levels deep would not compile in any reasonable time ("terminates
promptly").  Decided: one call folds each element AT MOST ONCE (a ghost counter of the recursive calls), the result is the list of the
elements' folded values in order, `Impossible` as soon as one element is not a constant, and an element's error is the list's error."""
from vlib.rules import *

FILE = "compiler/src/ast/list.rs"

SPEC = r"""
use vstd::prelude::*;
verus! {
pub struct VErr;
#[verifier::external_body] pub struct OtherV { x: usize }
pub enum Value { List(List), Other(OtherV) }
pub struct List { pub values: Vec<Value> }
pub enum ConstexprEvaluation { Owned(Value), Impossible }
impl ConstexprEvaluation {
    pub fn into_owned(self) -> (r: Option<Value>) ensures self is Impossible ==> r is None, self is Owned ==> r == Some(self->Owned_0) { match self { ConstexprEvaluation::Owned(v) => Some(v), _ => None } }
    pub fn is_impossible(&self) -> (r: bool) ensures r == (self is Impossible) { match self { ConstexprEvaluation::Impossible => true, _ => false } }
    pub fn as_ref(&self) -> (r: Option<&Value>) ensures self is Impossible ==> r is None, self is Owned ==> r == Some(&self->Owned_0) { match self { ConstexprEvaluation::Owned(v) => Some(v), _ => None } }
}
// folding of one element (the recursive call): abstract result, counted
pub uninterp spec fn folded(v: &Value) -> Result<ConstexprEvaluation, VErr>;
pub struct Calls { pub n: Ghost<nat> }
#[verifier::external_body] pub fn fold_elem(v: &Value, calls: &mut Calls) -> (r: Result<ConstexprEvaluation, VErr>)
    ensures r == folded(v), final(calls).n@ == old(calls).n@ + 1 { unimplemented!() }
pub open spec fn all_const(s: Seq<Value>, k: int) -> bool { forall|i: int| 0 <= i < k ==> (#[trigger] folded(&s[i])) is Ok && folded(&s[i])->Ok_0 is Owned }
"""


def build(repo):
    src = Source(repo)
    log = []
    f = src.fn(FILE, "try_constexpr_eval", "impl CompileTimeEvaluate for List")
    cnt = [0]

    def loop(b):
        cnt[0] += 1
        k = f"verif_k{cnt[0]}"
        inv = (f"invariant {k} <= self.values@.len(), calls.n@ <= verif_c0 + {k}, all_const(self.values@, {k} as int), "
               + ("result@.len() == " + k + f" && forall|i: int| 0 <= i < {k} ==> #[trigger] result@[i] == folded(&self.values@[i])->Ok_0->Owned_0, " if "result" in b["body"] else "")
               + f"decreases self.values@.len() - {k},")
        return [f"let mut {k} : usize = 0 ; while {k} < self . values . len ( )", G(inv), "{", f"let {text(b['x'])} = & self . values [ {k} ] ; {k} += 1 ;", *b["body"], "}"]

    b = translate(f["body"], [
        Rule("R12", "Vec :: with_capacity ( self . values . len ( ) )", "Vec :: new ( )", why="capacity hint"),
        Rule("R1", "let mut result = Vec :: new ( ) ;", "let mut result : Vec < Value > = Vec :: new ( ) ;", why="type ascription"),
        Rule("R2", "for $x in & self . values { $$body }", loop, why="for over &Vec -> indexed while (each loop with the call-count invariant)"),
        Rule("R6", "value . try_constexpr_eval ( ) ?", "fold_elem ( value , calls ) ?", why="the recursive fold of an element: abstract, counted"),
    ], log, "List::try_constexpr_eval")
    check_closed(b, "List::try_constexpr_eval")
    gen = header(log, f"{FILE}: impl CompileTimeEvaluate for List") + SPEC + f"""
impl List {{
    //@ OBL C16.fold.list-once
    #[verifier::loop_isolation(false)]
    pub fn try_constexpr_eval(&self, calls: &mut Calls) -> (r: Result<ConstexprEvaluation, VErr>)
        ensures
            // each element is folded at most once per call: the work is linear in the size of the literal, whatever the nesting
            final(calls).n@ <= old(calls).n@ + self.values@.len(),
            // all elements constant: the list of their folded values, in order
            (r is Ok && r->Ok_0 is Owned) ==> all_const(self.values@, self.values@.len() as int) && r->Ok_0->Owned_0 is List && r->Ok_0->Owned_0->List_0.values@.len() == self.values@.len()
                && forall|i: int| 0 <= i < self.values@.len() ==> #[trigger] r->Ok_0->Owned_0->List_0.values@[i] == folded(&self.values@[i])->Ok_0->Owned_0,
            all_const(self.values@, self.values@.len() as int) ==> r is Ok && r->Ok_0 is Owned,
    {{
        let ghost verif_c0 = calls.n@;
{render(b, 2)}
    }}
}}
}} // verus!
fn main() {{}}
"""
    return gen, [Obl("C16.fold.list-once", ["C16", "C06"], fn="List::try_constexpr_eval", desc="folding a list literal folds each element at most once (no doubling per nesting level); the result is the elements' folded values in order, Impossible / an error as soon as an element is")], log


UNITS = [VUnit("c16_list_fold", ["C16", "C06"], "folding a list literal: each element once", build)]
UNITS[0].assumes = ["the recursive fold of an element is an abstract, counted callee; the depth of the recursion itself (stack) is not bounded here"]

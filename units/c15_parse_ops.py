"""C15 / C12 / C02: how the expression parser builds operator nodes -- the `map_infix` and `map_prefix` closures of parse_expr (math_expr.rs),
taken as fragments: `a OP b` becomes BinOp { lhs: a, op: the operator written, rhs: b } -- operands in source order, never swapped or
re-labelled; a prefix operator wraps exactly its operand in the node of that operator (`get e` is ALWAYS an UnaryUnwrap: the nil check
is never dropped), `-e` / `!e` only after the operand's type supports it."""
import re
from vlib.rules import *
from vlib.lexer import match_close

FILE = "compiler/src/ast/math_expr.rs"


def closure_body(toks, name, params):
    """tokens of the block body of `. NAME ( | p1 , p2 .. | { BODY } )`"""
    pat = [".", name, "(", "|"] + sum(([p, ","] for p in params), [])[:-1] + ["|", "{"]
    for i in range(len(toks) - len(pat)):
        if toks[i:i + len(pat)] == pat:
            o = i + len(pat) - 1
            return toks[o + 1:match_close(toks, o)]
    raise Undecided(f"{FILE}: closure `.{name}(|{', '.join(params)}| {{ .. }})` of parse_expr not found")


def camel(s):
    return "".join(w.capitalize() for w in s.split("_"))


def build(repo):
    src = Source(repo)
    log = []
    f = src.fn(FILE, "parse_expr")
    inf = closure_body(f["body"], "map_infix", ["lhs", "op", "rhs"])
    pre = closure_body(f["body"], "map_prefix", ["op", "rhs"])
    log.append(("R0", "parse_expr: .map_infix(|lhs, op, rhs| {..}) / .map_prefix(|op, rhs| {..})", "two functions of the closures' parameters (+ user_data)", "fragments: closure bodies"))
    rules_named = sorted({inf[i + 2] for i in range(len(inf) - 2) if inf[i] == "Rule" and inf[i + 1] == "::"} | {pre[i + 2] for i in range(len(pre) - 2) if pre[i] == "Rule" and pre[i + 1] == "::"})
    rules_named = [r[2:] if r.startswith("r#") else r for r in rules_named]
    ops_named = sorted({inf[i + 2] for i in range(len(inf) - 2) if inf[i] == "Op" and inf[i + 1] == "::"})
    # the operator each infix rule denotes: the rule's own name (`gt` is Gt, `add_assign` is AddAssign, ...)
    infix_rules = [r for r in rules_named if camel(r) in ops_named]
    common = [
        Rule("R3", "return Err ( vec ! [ new_err ( $$a ) ] ) ;", "return Err ( VErr ) ;", why="diagnostic construction dropped"),
        Rule("R3", "return Err ( vec ! [ new_err ( $$a ) ] )", "return Err ( VErr )", why="diagnostic construction dropped"),
        Rule("R3", "log :: error ! $a ;", "", why="logging dropped"),
        Rule("R1", "Rule :: r#typeof", "RuleK :: typeof_", why="raw identifier"),
        Rule("R1", "Rule :: $r", "RuleK :: $r", why="pest Rule enum reduced to the rules these closures name"),
        Rule("R6", "op . as_rule ( )", "as_rule ( & op )", why="pest rule of the operator token: abstract"),
        Rule("R6", "span . as_rule ( )", "as_rule ( & span )", why="pest rule test abstract"),
        Rule("R6", "expr . for_type ( & TypecheckFlags :: use_class ( user_data . get_type_of_executing_class ( ) ) ) . to_err_vec ( ) ?", "expr_type ( & expr , user_data ) ?", why="type query abstract"),
    ]
    bi = translate(inf, common + [
        Rule("R9", "let span = l_span . or ( r_span ) . unwrap ( ) ;", "let span = first_span ( l_span , r_span ) ;", why="Option::or + unwrap (one of the operands has a span: grammar)"),
        Rule("R8", "rule => unreachable ! ( $$m )", "_ => { vpanic ( ) ; return Err ( VErr ) ; }", why="unreachable!: the operator token is an infix rule (precondition)"),
        Rule("R6", "if let Err ( e ) = bin_op . validate ( $$a ) { $$b }", "if let Err ( e ) = validate ( & bin_op , user_data ) { return Err ( VErr ) ; }", why="operator type check abstract (C02.optable / C10.for_type obligations)"),
    ], log, "parse_expr[map_infix]")
    check_closed(bi, "parse_expr[map_infix]")
    bp = translate(pre, common + [
        Rule("R6", "! ty . disregard_distractors ( false ) . supports_negate ( )", "! supports_negate ( & ty )", why="abstract (C02.negate.sound)"),
        Rule("R6", "! ty . disregard_distractors ( false ) . is_boolean ( )", "! is_boolean ( & ty )", why="abstract"),
        Rule("R8", "pair . as_ref ( ) . unwrap ( ) . line_col ( )", "line_col ( opt_unwrap_ref ( & pair ) )", why="Option::unwrap with its panic precondition (is Some); Pair::line_col: the position of that token"),
        Rule("R6", "$n . line_col ( )", "line_col ( & $n )", why="Pair::line_col: the position of that token"),
        Rule("R9", 'span : Box :: new ( format ! ( "{}:{line}:{col}" , user_data . get_source_file_name ( ) ) ) ,', "span : Pos { line : line , col : col } ,", why="the position text `<file>:<line>:<col>`: modelled by the two numbers it is made of (file name: C03.diag.names-source-file)"),
        Rule("R6", "RuleK :: typeof_ => { $$b }", "RuleK :: typeof_ => { return typeof_arm ( expr , pair , user_data ) ; }", why="`typeof` arm (error-chain inspection): abstract"),
        Rule("R8", "_ => unreachable ! ( ) ,", "_ => { vpanic ( ) ; return Err ( VErr ) ; }", why="unreachable!: the operator token is a prefix rule (precondition)"),
    ], log, "parse_expr[map_prefix]")
    check_closed(bp, "parse_expr[map_prefix]")
    op_of = "match k { " + " ".join(f"RuleK::{r} => Some(Op::{camel(r)})," for r in infix_rules) + " _ => None }"
    gen = header(log, f"{FILE}: parse_expr, closures map_infix and map_prefix") + f"""
use vstd::prelude::*;
verus! {{
pub struct VErr;
#[verifier::external_body] pub struct OtherV {{ x: usize }}
#[verifier::external_body] pub struct Node {{ x: usize }}
#[verifier::external_body] pub struct UD {{ x: usize }}
#[verifier::external_body] pub struct TypeV {{ x: usize }}
#[allow(non_camel_case_types)]
#[derive(PartialEq, Eq, Structural, Clone, Copy)]
pub enum RuleK {{ {', '.join(r if r != 'typeof' else 'typeof_' for r in rules_named)}, other }}
pub enum Op {{ {', '.join(ops_named)} }}
pub enum Expr {{ BinOp {{ lhs: Box<Expr>, op: Op, rhs: Box<Expr> }}, UnaryMinus(Box<Expr>), UnaryNot(Box<Expr>), UnaryUnwrap {{ value: Box<Expr>, span: Pos }}, Typeof(Box<Expr>, OtherV), NilEval {{ primary: Box<Expr>, fallback: Box<Expr> }}, Nil, Other(OtherV) }}
pub struct Pos {{ pub line: usize, pub col: usize }}
// where a token stands in the source
pub uninterp spec fn pos_of(n: &Node) -> (usize, usize);
#[verifier::external_body] pub fn line_col(n: &Node) -> (r: (usize, usize)) ensures r == pos_of(n) {{ unimplemented!() }}
#[verifier::external_body] pub fn opt_unwrap_ref(o: &Option<Node>) -> (r: &Node) requires o is Some ensures *r == o->Some_0 {{ unimplemented!() }}
pub uninterp spec fn rule_of(n: &Node) -> RuleK;
#[verifier::external_body] pub fn as_rule(n: &Node) -> (r: RuleK) ensures r == rule_of(n) {{ unimplemented!() }}
// the operator an infix token denotes: the one of its own name
pub open spec fn op_of(k: RuleK) -> Option<Op> {{ {op_of} }}
#[verifier::external_body] pub fn first_span(a: Option<Node>, b: Option<Node>) -> (r: Node) {{ unimplemented!() }}
#[verifier::external_body] pub fn validate(e: &Expr, u: &UD) -> (r: Result<(), VErr>) {{ unimplemented!() }}
#[verifier::external_body] pub fn expr_type(e: &Expr, u: &UD) -> (r: Result<TypeV, VErr>) {{ unimplemented!() }}
pub uninterp spec fn negatable(t: &TypeV) -> bool;
pub uninterp spec fn boolean(t: &TypeV) -> bool;
#[verifier::external_body] pub fn supports_negate(t: &TypeV) -> (r: bool) ensures r == negatable(t) {{ unimplemented!() }}
#[verifier::external_body] pub fn is_boolean(t: &TypeV) -> (r: bool) ensures r == boolean(t) {{ unimplemented!() }}
#[verifier::external_body] pub fn typeof_arm(e: Expr, p: Option<Node>, u: &UD) -> (r: Result<(Expr, Option<Node>), VErr>) ensures r is Ok ==> r->Ok_0.0 is Typeof && *r->Ok_0.0->Typeof_0 == e {{ unimplemented!() }}
#[verifier::external_body] pub fn vpanic() requires false {{ unimplemented!() }}

//@ OBL C15.parse.infix
pub fn build_infix(lhs: Result<(Expr, Option<Node>), VErr>, op: Node, rhs: Result<(Expr, Option<Node>), VErr>, user_data: &UD) -> (r: Result<(Expr, Option<Node>), VErr>)
    requires op_of(rule_of(&op)) is Some
    ensures r is Ok ==> lhs is Ok && rhs is Ok && r->Ok_0.0 is BinOp
        // operands in source order, the operator as written
        && *r->Ok_0.0->BinOp_lhs == lhs->Ok_0.0 && *r->Ok_0.0->BinOp_rhs == rhs->Ok_0.0 && Some(r->Ok_0.0->BinOp_op) == op_of(rule_of(&op)),
{{
{render(bi, 1)}
}}

//@ OBL C12.parse.prefix
pub fn build_prefix(op: Node, rhs: Result<(Expr, Option<Node>), VErr>, user_data: &UD) -> (r: Result<(Expr, Option<Node>), VErr>)
    requires rule_of(&op) is unary_minus || rule_of(&op) is not || rule_of(&op) is optional_unwrap || rule_of(&op) is typeof_
    ensures r is Ok ==> rhs is Ok && ({{ let e = rhs->Ok_0.0; let n = r->Ok_0.0;
        // `get e` is an unwrap of exactly e, whatever e is: the nil check is never optimised away
        &&& rule_of(&op) is optional_unwrap ==> n is UnaryUnwrap && *n->UnaryUnwrap_value == e
                // ... and the position a failing `get` reports is the position of THAT `get` (the operator token), whatever its operand is
                && (n->UnaryUnwrap_span.line, n->UnaryUnwrap_span.col) == pos_of(&op)
        &&& rule_of(&op) is unary_minus ==> n is UnaryMinus && *n->UnaryMinus_0 == e
        &&& rule_of(&op) is not ==> n is UnaryNot && *n->UnaryNot_0 == e
        &&& rule_of(&op) is typeof_ ==> n is Typeof && *n->Typeof_0 == e }}),
{{
{render(bp, 1)}
}}
}} // verus!
fn main() {{}}
"""
    return gen, [Obl("C15.parse.infix", ["C15", "C02", "C01"], fn="parse_expr[map_infix]", desc="`a OP b` is parsed to BinOp { lhs: a, op: OP, rhs: b }: operands in source order, operator as written"),
                 Obl("C12.parse.prefix", ["C12", "C15"], fn="parse_expr[map_prefix]", desc="a prefix operator wraps exactly its operand in the node of that operator; `get e` is always an unwrap and carries the source position of that `get`")], log


UNITS = [VUnit("c15_parse_ops", ["C15", "C12", "C02", "C01"], "expression parser: operator nodes", build)]
UNITS[0].assumes = ["fragments: the bodies of two closures of parse_expr; the Pratt parser calling them with the operands in source order is pest's contract", "operator type validation and `typeof` are abstract callees; the position text of `get` is modelled by its line and column"]

"""C01 / C07 / C10: a keyword is a whole word.  pest's ordered choice commits to the first alternative that matches a PREFIX of the input.  A rule
that can succeed after consuming nothing but a keyword (`break`, `continue`, `nil`, `modify` / `const` / `export`, `to`, `through`) or a keyword
and an expression (`assert e`, `step e`, `or e`, `print e`, `return e`) therefore succeeds on the head of a longer word as well, unless the
grammar says the keyword ends there: `breaker(i)` ran as `break`, `nilable` read as `nil`, `modifyx = 9` wrote the captured `x`, `asserted(v)`
asserted `ed(v)` (D109).  The rules of these two shapes are extracted from compiler/src/grammar.pest on every run, with what stands right
after the keyword, and the verifier decides for each that the keyword cannot end inside a word.

Not covered (stated): keywords followed by more mandatory structure (`if e {..}`, `while e {..}`, `from a to b {..}`, `class K {..}`, `fn name(..)`):
taking them inside a longer word needs the rest of the construct to follow, which no statement that starts with an identifier supplies; and
the one-letter prefixes / suffixes inside number tokens (`B1`, `1f`)."""
from vlib.rules import *
import re, os

FILE = "compiler/src/grammar.pest"
TOK = re.compile(r'"(?:[^"\\]|\\.)*"|\'(?:[^\'\\]|\\.)*\'|[A-Za-z_][A-Za-z_0-9]*|[|~()?*+!&]')


def parse_rules(g):
    g = re.sub(r"//[^\n]*", "", g)
    rules = {}
    for m in re.finditer(r"^([A-Za-z_]+)\s*=\s*([_@$!]?)\{", g, re.M):
        i = m.end(); d = 1; j = i
        while d:
            c = g[j]
            if c == '"':
                j += 1
                while g[j] != '"':
                    if g[j] == "\\": j += 1
                    j += 1
            elif c == "{": d += 1
            elif c == "}": d -= 1
            j += 1
        rules[m.group(1)] = (m.group(2), TOK.findall(g[i:j - 1]))
    return rules


def split_top(ts, sep):
    out, cur, d = [], [], 0
    for t in ts:
        if t == "(": d += 1
        elif t == ")": d -= 1
        if t == sep and d == 0:
            out.append(cur); cur = []
        else:
            cur.append(t)
    out.append(cur)
    return out


def is_kw(lit):
    """a string literal that is a word: letters only (at least two), possibly with ONE trailing blank"""
    if not (lit.startswith('"') and lit.endswith('"')):
        return False
    w = lit[1:-1]
    core = w[:-1] if w.endswith(" ") else w
    return len(core) >= 2 and core.isalpha()


def keywords_of(elem):
    """the keyword literals an element consists of: a literal, or a group of literal alternatives"""
    if len(elem) == 1 and is_kw(elem[0]):
        return [elem[0]]
    if len(elem) >= 3 and elem[0] == "(" and elem[-1] == ")":
        alts = split_top(elem[1:-1], "|")
        if all(len(a) == 1 and is_kw(a[0]) for a in alts):
            return [a[0] for a in alts]
    return None


def build(repo):
    log = []
    rules = parse_rules(open(os.path.join(repo, FILE), encoding="utf-8").read())
    if len(rules) < 50:
        raise Undecided(f"{FILE}: only {len(rules)} rules recognised")
    entries = []
    for name, (mod, body) in sorted(rules.items()):
        for alt in split_top(body, "|"):
            seq = split_top(alt, "~")
            if any(not e for e in seq):
                continue
            # a rule whose whole body is a choice of keywords: `a | b | c` at top level
            kws = keywords_of(seq[0])
            if kws is None:
                continue
            rest = seq[1:]
            nxt = rest[0] if rest else []
            boundary = nxt == ["!", "ident_chars"]
            ws_mand = nxt in (["WHITESPACE"], ["WHITESPACE", "+"])
            # what must still follow: drop the boundary, blanks, and everything optional
            mandatory = [e for e in rest if e not in (["!", "ident_chars"], ["WHITESPACE"], ["WHITESPACE", "+"], ["WHITESPACE", "*"]) and e[-1] not in ("?", "*")]
            if mandatory == []:
                shape = 0
            elif mandatory == [["value"]]:
                shape = 1
            else:
                continue        # more structure must follow the keyword: not one of the two shapes
            for kw in kws:
                entries.append(dict(rule=name, kw=kw, atomic=mod in ("@", "$"), boundary=boundary, ws=ws_mand, blank=kw[1:-1].endswith(" "), shape=shape))
    if len(entries) < 8:
        raise Undecided(f"{FILE}: only {len(entries)} keyword rules of the two shapes recognised")
    log.append(("R0", f"{FILE}: {len(rules)} rules", f"{len(entries)} keyword occurrences in rules that can succeed on the keyword alone or on the keyword and one expression",
                "grammar -> facts: is the rule atomic (`@` / `$`: no implicit blanks between its elements), what stands right after the keyword"))
    b = lambda x: "true" if x else "false"
    fns = []
    for k, e in enumerate(entries):
        fns.append(f"""
// rule `{e['rule']}`: keyword {e['kw']}{' followed by an expression' if e['shape'] else ''}
pub proof fn keyword_{k}() ensures whole_word(Occ {{ atomic: {b(e['atomic'])}, boundary_next: {b(e['boundary'])}, blank_next: {b(e['ws'])}, ends_in_blank: {b(e['blank'])} }}) {{ }}
""")
    gen = header(log, f"{FILE}: rules that can succeed on a keyword alone (or a keyword and an expression)") + f"""
use vstd::prelude::*;
verus! {{
// one occurrence of a keyword at the head of such a rule
pub struct Occ {{
    pub atomic: bool,           // the rule is `@{{..}}` or `${{..}}`: pest inserts no optional blanks between its elements
    pub boundary_next: bool,    // the element right after the keyword is `!ident_chars`
    pub blank_next: bool,       // the element right after the keyword is a mandatory WHITESPACE
    pub ends_in_blank: bool,    // the literal itself ends in a blank ("print ")
}}
// the keyword cannot end inside a longer word: the character after it is, by the grammar, not a word character.  In a non-atomic rule pest skips
// optional blanks BEFORE the next element, so a `!ident_chars` there would look at the next word and says nothing about the next character.
pub open spec fn whole_word(o: Occ) -> bool {{ o.ends_in_blank || (o.atomic && (o.boundary_next || o.blank_next)) }}
//@ OBL C01.grammar.keywords-are-whole-words
{''.join(fns)}
}} // verus!
fn main() {{}}
"""
    return gen, [Obl("C01.grammar.keywords-are-whole-words", ["C01", "C07", "C10", "C12"], fn=f"grammar.pest ({len(entries)} keyword occurrences)",
                     desc="a rule that can succeed on a keyword alone (break, continue, nil, modify/const/export, to, through) or on a keyword and one expression (assert, step, or, print, return) cannot take its keyword from the head of a longer word: `breaker()` is a call, `nilable` a name, `modifyx = 1` a declaration")], log


UNITS = [VUnit("c01_keywords", ["C01", "C07", "C10", "C12"], "keywords are whole words", build)]
UNITS[0].assumes = ["pest's semantics: ordered choice commits to the first alternative that matches a prefix; implicit optional WHITESPACE / COMMENT between the elements of a non-atomic rule; a predicate consumes nothing",
                    "scope: rules whose mandatory content after the leading keyword is empty or one `value` (extracted syntactically); keywords followed by more mandatory structure (if / while / from / class / fn name) and the one-letter prefixes inside number tokens (`B1`, `1f`) are not covered",
                    "the facts (atomic, what follows the keyword) are read off the grammar text by the extractor; the verifier decides the condition on them"]

"""C11: the road from the `export_name` / `export_special` handlers to the export table.  The handlers (unit c11_export, c08_object_handlers) are
proved to hand the module variable's OWN cell to `ctx.register_export(name, cell)`; that call was an assumed contract.  Here the three
functions behind it are under contract, so that "all importers observe the same module instance, state changed through one importer is
seen by the others" does not rest on an assumption:
  Ctx::register_export / register_export_replacing (bytecode/src/context.rs) -- the registration goes to the file OF THE EXECUTING FUNCTION,
      under exactly the given name, with exactly the given cell (not a copy of its value);
  MScriptFile::add_export / replace_export (bytecode/src/file.rs)              -- into that file's export table;
  VariableMapping::update_once / replace (bytecode/src/stack.rs)               -- the table afterwards maps the name to that cell; `update_once` fails
      exactly when the name was already registered."""
from vlib.rules import *

CTX = "bytecode/src/context.rs"
FILE = "bytecode/src/file.rs"
STACK = "bytecode/src/stack.rs"

SPEC = r"""
use vstd::prelude::*;
verus! {
pub struct VErr;
#[verifier::external_body] pub struct VString { x: usize }
pub uninterp spec fn text_of(s: &VString) -> Seq<char>;
// PrimitiveFlagsPair: a handle of a variable cell; what matters is WHICH cell
#[verifier::external_body] pub struct Handle { x: usize }
pub uninterp spec fn cell_id(h: &Handle) -> int;
impl Handle {
    // ways a change may rebuild the pair: a NEW cell (nothing known about its identity)
    #[verifier::external_body] pub fn primitive_clone(&self) -> (r: Handle) { unimplemented!() }
    #[verifier::external_body] pub fn clone(&self) -> (r: Handle) ensures cell_id(&r) == cell_id(self) { unimplemented!() }       // Gc clone: the same cell
    #[verifier::external_body] pub fn flags(&self) -> (r: FlagsV) { unimplemented!() }
}
// the flags of a cell: tests on them are uninterpreted (what the table gets must not depend on them)
#[verifier::external_body] pub struct FlagsV { x: usize }
impl FlagsV { #[verifier::external_body] pub fn is_read_only(&self) -> (r: bool) { unimplemented!() } #[verifier::external_body] pub fn can_update(&self) -> (r: bool) { unimplemented!() } }
// HashMap<String, PrimitiveFlagsPair> of a VariableMapping: name -> cell
pub struct MapV { pub m: Ghost<Map<Seq<char>, int>> }
impl MapV {
    // std: "If the map did have this key present, the value is updated, and the old value is returned"
    #[verifier::external_body] pub fn insert(&mut self, k: VString, v: Handle) -> (r: Option<Handle>)
        ensures final(self).m@ == old(self).m@.insert(text_of(&k), cell_id(&v)), r is Some <==> old(self).m@.contains_key(text_of(&k)) { unimplemented!() }
}
impl MapV {
    #[verifier::external_body] pub fn contains_key(&self, k: &VString) -> (r: bool) ensures r == self.m@.contains_key(text_of(k)) { unimplemented!() }
    #[verifier::external_body] pub fn remove(&mut self, k: &VString) -> (r: Option<Handle>) ensures final(self).m@ == old(self).m@.remove(text_of(k)) { unimplemented!() }
}
pub uninterp spec fn other_text(t: Seq<char>, how: int) -> Seq<char>;          // any rewriting of a name: nothing known about it
impl VString {
    #[verifier::external_body] pub fn to_lowercase(&self) -> (r: VString) ensures text_of(&r) == other_text(text_of(self), 1) { unimplemented!() }
    #[verifier::external_body] pub fn to_uppercase(&self) -> (r: VString) ensures text_of(&r) == other_text(text_of(self), 2) { unimplemented!() }
    #[verifier::external_body] pub fn clone(&self) -> (r: VString) ensures text_of(&r) == text_of(self) { unimplemented!() }
}
pub struct VariableMapping { pub map: MapV }
pub open spec fn vm_view(v: &VariableMapping) -> Map<Seq<char>, int> { v.map.m@ }
"""

SPEC2 = r"""
// ---- files: each MScriptFile has its own export table (ghost world: file id -> table)
pub struct World { pub exports: Ghost<Map<int, Map<Seq<char>, int>>> }
#[verifier::external_body] pub struct FileH { x: usize }
pub uninterp spec fn file_id(f: &FileH) -> int;
#[verifier::external_body] pub struct FunctionH { x: usize }
pub uninterp spec fn file_of(f: &FunctionH) -> Option<int>;        // the file a function belongs to, while that file is alive (Weak::upgrade)
impl FunctionH {
    #[verifier::external_body] pub fn location_upgrade(&self) -> (r: Option<FileH>) ensures r is Some <==> file_of(self) is Some, r is Some ==> file_id(&r->Some_0) == file_of(self)->Some_0 { unimplemented!() }
}
pub fn opt_ctx(o: Option<FileH>) -> (r: Result<FileH, VErr>) ensures o is Some <==> r is Ok, r is Ok ==> file_id(&r->Ok_0) == file_id(&o->Some_0) { match o { Some(x) => Ok(x), None => Err(VErr) } }
pub struct Ctx { pub function: FunctionH }
"""


def build(repo):
    src = Source(repo)
    log = []
    # ---- VariableMapping::update_once / replace
    fu = src.fn(STACK, "update_once", "impl VariableMapping")
    fr = src.fn(STACK, "replace", "impl VariableMapping")
    vm_rules = [Rule("R3", "bail ! $a", "return Err ( VErr )", why="bail! -> return Err"),
                Rule("R10", "self . 0 .", "self . map .", why="the wrapped HashMap as a finite map name -> cell")]
    bu = translate(fu["body"], vm_rules, log, "VariableMapping::update_once")
    br = translate(fr["body"], vm_rules, log, "VariableMapping::replace")
    # ---- MScriptFile::add_export / replace_export
    fa = src.fn(FILE, "add_export", "impl MScriptFile")
    fp = src.fn(FILE, "replace_export", "impl MScriptFile")
    file_rules = [
        Rule("R10", "let mut view = self . exports . borrow_mut ( ) ;", "", why="RefCell<VariableMapping> of the file: the file's table in the ghost world (R10)"),
        Rule("R3", ". context ( $m ) ?", "?", why="context text dropped"),
        Rule("R10", "view . update_once ( $$a )", "update_once_in ( world , self , $$a )", why="the call on the borrowed table: on this file's table"),
        Rule("R10", "self . exports . borrow_mut ( ) . replace ( $$a ) ;", "replace_in ( world , self , $$a ) ;", why="the call on the borrowed table: on this file's table"),
    ]
    ba = translate(fa["body"], file_rules, log, "MScriptFile::add_export")
    bp = translate(fp["body"], file_rules, log, "MScriptFile::replace_export")
    # ---- Ctx::register_export / register_export_replacing
    fc = src.fn(CTX, "register_export", "impl < 'a > Ctx < 'a >")
    fd = src.fn(CTX, "register_export_replacing", "impl < 'a > Ctx < 'a >")
    ctx_rules = [
        Rule("R9", "self . function . location ( ) . upgrade ( ) . context ( $m ) ?", "opt_ctx ( self . function . location_upgrade ( ) ) ?", why="Weak::upgrade of the executing function's file + Option::context"),
        Rule("R10", "file . add_export ( $$a )", "add_export ( & file , world , $$a )", why="MScriptFile::add_export on that file (obligation C11.chain.add_export)"),
        Rule("R10", "file . replace_export ( $$a ) ;", "replace_export ( & file , world , $$a ) ;", why="MScriptFile::replace_export on that file"),
        Rule("R6", "PrimitiveFlagsPair :: new ( $$a )", "new_pair ( )", why="a NEW cell"),
        Rule("R1", "let value = $v . primitive ( ) . clone ( ) ;", "", why="a copy of the cell's value (only feeds a new cell)"),
    ]
    bc = translate(fc["body"], ctx_rules, log, "Ctx::register_export")
    bd = translate(fd["body"], ctx_rules, log, "Ctx::register_export_replacing")
    for b, w in ((bu, "update_once"), (br, "replace"), (ba, "add_export"), (bp, "replace_export"), (bc, "register_export"), (bd, "register_export_replacing")):
        check_closed(b, w)
    EXACT = "world.exports@ == old(world).exports@.insert(FID, TABLE0.insert(text_of(&name), cell_id(&var)))"

    def exact(fid, t0):
        return EXACT.replace("FID", fid).replace("TABLE0", t0).replace("world.exports@", "final(world).exports@")
    gen = header(log, f"{STACK}: VariableMapping::update_once, replace; {FILE}: MScriptFile::add_export, replace_export; {CTX}: Ctx::register_export, register_export_replacing") + SPEC + f"""
impl VariableMapping {{
    //@ OBL C11.chain.update_once
    pub fn update_once(&mut self, name: VString, value: Handle) -> (r: Result<(), VErr>)
        ensures vm_view(final(self)) == vm_view(old(self)).insert(text_of(&name), cell_id(&value)),       // the name now denotes THAT cell
                r is Ok <==> !vm_view(old(self)).contains_key(text_of(&name)),                           // a name is registered once: a second time is a failure
    {{
{render(bu, 2)}
    }}
    //@ OBL C11.chain.replace
    pub fn replace(&mut self, name: VString, value: Handle)
        ensures vm_view(final(self)) == vm_view(old(self)).insert(text_of(&name), cell_id(&value)),
    {{
{render(br, 2)}
    }}
}}
""" + SPEC2 + f"""
#[verifier::external_body] pub fn new_pair() -> (r: Handle) {{ unimplemented!() }}
// the two table operations, on the table of a given file (their own obligations: C11.chain.update_once / replace)
#[verifier::external_body] pub fn update_once_in(world: &mut World, f: &FileH, name: VString, var: Handle) -> (r: Result<(), VErr>)
    requires old(world).exports@.contains_key(file_id(f))
    ensures final(world).exports@ == old(world).exports@.insert(file_id(f), old(world).exports@[file_id(f)].insert(text_of(&name), cell_id(&var))),
            r is Ok <==> !old(world).exports@[file_id(f)].contains_key(text_of(&name)) {{ unimplemented!() }}
#[verifier::external_body] pub fn replace_in(world: &mut World, f: &FileH, name: VString, var: Handle)
    requires old(world).exports@.contains_key(file_id(f))
    ensures final(world).exports@ == old(world).exports@.insert(file_id(f), old(world).exports@[file_id(f)].insert(text_of(&name), cell_id(&var))) {{ unimplemented!() }}

//@ OBL C11.chain.add_export
// MScriptFile::add_export: into THIS file's table, that name, that cell; every other file's table untouched
pub fn add_export(this: &FileH, world: &mut World, name: VString, var: Handle) -> (r: Result<(), VErr>)
    requires old(world).exports@.contains_key(file_id(this))
    ensures final(world).exports@ == old(world).exports@.insert(file_id(this), old(world).exports@[file_id(this)].insert(text_of(&name), cell_id(&var))),
            r is Ok <==> !old(world).exports@[file_id(this)].contains_key(text_of(&name)),
{{
{render([("this" if t == "self" else t) for t in ba], 1)}
}}
//@ OBL C11.chain.replace_export
pub fn replace_export(this: &FileH, world: &mut World, name: VString, var: Handle)
    requires old(world).exports@.contains_key(file_id(this))
    ensures final(world).exports@ == old(world).exports@.insert(file_id(this), old(world).exports@[file_id(this)].insert(text_of(&name), cell_id(&var))),
{{
{render([("this" if t == "self" else t) for t in bp], 1)}
}}
impl Ctx {{
    //@ OBL C11.chain.register_export
    // Ctx::register_export: the registration lands in the export table of the file the EXECUTING function belongs to -- that name, that very cell
    pub fn register_export(&self, world: &mut World, name: VString, var: Handle) -> (r: Result<(), VErr>)
        requires file_of(&self.function) is Some ==> old(world).exports@.contains_key(file_of(&self.function)->Some_0)
        ensures
            file_of(&self.function) is None ==> r is Err && final(world).exports@ == old(world).exports@,
            file_of(&self.function) is Some ==> ({{ let fid = file_of(&self.function)->Some_0; let t0 = old(world).exports@[fid];
                final(world).exports@ == old(world).exports@.insert(fid, t0.insert(text_of(&name), cell_id(&var))) && (r is Ok <==> !t0.contains_key(text_of(&name))) }}),
    {{
{render(bc, 2)}
    }}
    //@ OBL C11.chain.register_export_replacing
    pub fn register_export_replacing(&self, world: &mut World, name: VString, var: Handle) -> (r: Result<(), VErr>)
        requires file_of(&self.function) is Some ==> old(world).exports@.contains_key(file_of(&self.function)->Some_0)
        ensures
            file_of(&self.function) is None ==> r is Err && final(world).exports@ == old(world).exports@,
            file_of(&self.function) is Some ==> r is Ok && ({{ let fid = file_of(&self.function)->Some_0; let t0 = old(world).exports@[fid];
                final(world).exports@ == old(world).exports@.insert(fid, t0.insert(text_of(&name), cell_id(&var))) }}),
    {{
{render(bd, 2)}
    }}
}}
}} // verus!
fn main() {{}}
"""
    d = "the export table of the executing function's file maps the name to the very cell that was handed over"
    return gen, [
        Obl("C11.chain.update_once", ["C11"], fn="VariableMapping::update_once", desc="update_once: the name denotes that cell afterwards; a failure exactly when the name was registered before"),
        Obl("C11.chain.replace", ["C11", "C08"], fn="VariableMapping::replace", desc="replace: the name denotes that cell afterwards"),
        Obl("C11.chain.add_export", ["C11"], fn="MScriptFile::add_export", desc="add_export: this file's table, that name, that cell; other files untouched"),
        Obl("C11.chain.replace_export", ["C11", "C08"], fn="MScriptFile::replace_export", desc="replace_export: this file's table, that name, that cell"),
        Obl("C11.chain.register_export", ["C11"], fn="Ctx::register_export", desc="register_export: " + d),
        Obl("C11.chain.register_export_replacing", ["C11", "C08"], fn="Ctx::register_export_replacing", desc="register_export_replacing: " + d),
    ], log


UNITS = [VUnit("c11_export_chain", ["C11", "C08"], "from the export handlers to the export table: the same cell, the executing file's table", build)]
UNITS[0].assumes = ["HashMap::insert as documented (replaces and returns the old value); RefCell<VariableMapping> as explicit state (single-threaded, no re-entrant borrow); Weak::upgrade yields the file while it is alive",
                    "a cell handle's identity (`cell_id`) is what sharing means: PrimitiveFlagsPair is a Gc handle, its clone is the same cell, `PrimitiveFlagsPair::new` a new one"]

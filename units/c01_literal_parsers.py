"""C01 / C06 / C04: what a literal's text denotes at run time -- Primitive::make_int / make_bigint / make_float / make_bool / make_byte
(bytecode/src/variables/primitive.rs), the functions behind the `make_*` instructions.  The compiler writes a literal's canonical text
into the instruction (and the constant folder writes its results the same way); the run-time value must be the number that text denotes --
in the kind the instruction names -- or a failure, never another number."""
from vlib.rules import *

PRIM = "bytecode/src/variables/primitive.rs"

SPEC = r"""
use vstd::prelude::*;
verus! {
pub struct VErr;
#[verifier::external_body] pub struct VString { x: usize }
pub uninterp spec fn text_of(s: &VString) -> Seq<char>;
#[verifier::external_body] pub struct F64V { x: f64 }
// std numeral parsers (assumed std contracts, R5): Ok exactly for a well-formed numeral of the type, and then the number it denotes
pub uninterp spec fn denotes_i32(t: Seq<char>) -> Option<i32>;
pub uninterp spec fn denotes_i128(t: Seq<char>) -> Option<i128>;
pub uninterp spec fn denotes_f64(t: Seq<char>) -> Option<F64V>;
pub uninterp spec fn denotes_u8_radix(t: Seq<char>, radix: int) -> Option<u8>;
#[verifier::external_body] pub fn i32_from_str(s: &VString) -> (r: Result<i32, VErr>) ensures r is Ok <==> denotes_i32(text_of(s)) is Some, r is Ok ==> r->Ok_0 == denotes_i32(text_of(s))->Some_0 { unimplemented!() }
#[verifier::external_body] pub fn i128_from_str(s: &VString) -> (r: Result<i128, VErr>) ensures r is Ok <==> denotes_i128(text_of(s)) is Some, r is Ok ==> r->Ok_0 == denotes_i128(text_of(s))->Some_0 { unimplemented!() }
#[verifier::external_body] pub fn f64_from_str(s: &VString) -> (r: Result<F64V, VErr>) ensures r is Ok <==> denotes_f64(text_of(s)) is Some, r is Ok ==> r->Ok_0 == denotes_f64(text_of(s))->Some_0 { unimplemented!() }
#[verifier::external_body] pub fn u8_from_str_radix(s: &VString, radix: u32) -> (r: Result<u8, VErr>)
    requires 2 <= radix <= 36                                   // from_str_radix panics outside (R8)
    ensures r is Ok <==> denotes_u8_radix(text_of(s), radix as int) is Some, r is Ok ==> r->Ok_0 == denotes_u8_radix(text_of(s), radix as int)->Some_0 { unimplemented!() }
#[verifier::external_body] pub fn expect_u8(r: Result<u8, VErr>) -> (v: u8) requires r is Ok ensures v == r->Ok_0 { unimplemented!() }     // .expect(): panics on Err (R8)
#[verifier::external_body] pub fn text_is(s: &VString, lit: &str) -> (r: bool) ensures r == (text_of(s) == lit@) { unimplemented!() }
// text as bytes: only for ASCII prefixes tested here; a char below 128 is one byte
pub uninterp spec fn byte_len(t: Seq<char>) -> int;
pub uninterp spec fn starts_with_0b(t: Seq<char>) -> bool;
#[verifier::external_body] pub fn str_len(s: &VString) -> (r: usize) ensures r as int == byte_len(text_of(s)) { unimplemented!() }
#[verifier::external_body] pub fn bytes_start_0b(s: &VString) -> (r: bool) requires byte_len(text_of(s)) >= 2 ensures r == starts_with_0b(text_of(s)) { unimplemented!() }    // bytes[..2]: slice bound (R8)
pub uninterp spec fn after_prefix(t: Seq<char>, n: int) -> Seq<char>;
#[verifier::external_body] pub fn str_from(s: &VString, n: usize) -> (r: &VString)
    requires n as int <= byte_len(text_of(s)), n == 0 || (n == 2 && starts_with_0b(text_of(s)))       // &string[n..]: in range and on a char boundary (R8)
    ensures text_of(r) == (if n == 0 { text_of(s) } else { after_prefix(text_of(s), n as int) }) { unimplemented!() }
pub enum Primitive { Bool(bool), Int(i32), BigInt(i128), Float(F64V), Byte(u8) }
"""


def build(repo):
    src = Source(repo)
    log = []
    common = [
        Rule("R3", "bail ! $a", "return Err ( VErr )", why="bail! -> return Err"),
        Rule("R1", "use std :: str :: FromStr ;", "", why="trait import"),
        Rule("R5", "i32 :: from_str ( string )", "i32_from_str ( string )", why="i32::from_str (assumed std contract)"),
        Rule("R5", "i128 :: from_str ( string )", "i128_from_str ( string )", why="i128::from_str (assumed std contract)"),
        Rule("R5", "f64 :: from_str ( string )", "f64_from_str ( string )", why="f64::from_str (assumed std contract)"),
        Rule("R5", "string . parse :: < i32 > ( )", "i32_from_str ( string )", why="str::parse::<i32> (assumed std contract)"),
        Rule("R5", "string . parse :: < i128 > ( )", "i128_from_str ( string )", why="str::parse::<i128> (assumed std contract)"),
        Rule("R5", "string . parse :: < f64 > ( )", "f64_from_str ( string )", why="str::parse::<f64> (assumed std contract)"),
        Rule("R1", "int ! ( $$e )", "Primitive :: Int ( $$e )", why="int! shorthand"),
        Rule("R1", "bigint ! ( $$e )", "Primitive :: BigInt ( $$e )", why="bigint! shorthand"),
        Rule("R1", "float ! ( $$e )", "Primitive :: Float ( $$e )", why="float! shorthand"),
        Rule("R1", "bool ! ( $$e )", "Primitive :: Bool ( $$e )", why="bool! shorthand"),
        Rule("R1", "byte ! ( $$e )", "Primitive :: Byte ( $$e )", why="byte! shorthand"),
    ]
    fns = {}
    for n in ("make_int", "make_bigint", "make_float"):
        b = translate(list(src.fn(PRIM, n)["body"]), common, log, f"Primitive::{n}")
        check_closed(b, n); fns[n] = b
    # make_bool: match on string literals -> if chain, arms in source order
    fb = src.fn(PRIM, "make_bool")
    from vlib.extract import split_arms
    from vlib.pattern import Pat
    body = list(fb["body"])
    r = Pat("match string { $$arms }").match_at(body, 0)
    if not r or r[0] != len(body):
        raise Undecided("Primitive::make_bool is no longer a single `match string { .. }`")
    chain = []
    for pat, expr in split_arms(r[1]["arms"]):
        if "if" in pat:
            raise Undecided("make_bool: match arm with a guard")
        if len(pat) == 1 and pat[0].startswith('"'):
            chain += ["if", "text_is", "(", "string", ",", pat[0], ")", "{", "return", *expr, ";", "}"]
        elif pat == ["_"]:
            chain += ["return", *expr, ";"] if expr[0] != "bail" else [*expr, ";"]
        else:
            raise Undecided(f"make_bool: arm pattern {text(pat)} not translated")
    log.append(("R16", "match string { \"lit\" => E, .. }", "if text_is(string, \"lit\") { return E; } ..", "match on string literals -> if chain in source order"))
    fns["make_bool"] = translate(chain, common, log, "Primitive::make_bool")
    check_closed(fns["make_bool"], "make_bool")
    # make_byte
    bb = translate(list(src.fn(PRIM, "make_byte")["body"]), [
        Rule("R1", "let bytes = string . as_bytes ( ) ;", "", why="byte view of the text: tested through the helpers below"),
        Rule("R8", "string . len ( ) >= 3 && bytes [ .. 2 ] == [ b'0' , b'b' ]", "str_len ( string ) >= 3 && bytes_start_0b ( string )", why="prefix test on the bytes (slice bound is an obligation)"),
        Rule("R1", "let offset = if $$c { ( 2 , 2 ) } else { ( 0 , 10 ) } ;", "let offset : ( usize , u32 ) = if $$c { ( 2 , 2 ) } else { ( 0 , 10 ) } ;", why="type ascription"),
        Rule("R8", "u8 :: from_str_radix ( & string [ offset . 0 .. ] , offset . 1 ) . expect ( $m )", "expect_u8 ( u8_from_str_radix ( str_from ( string , offset . 0 ) , offset . 1 ) )", why="slicing, from_str_radix and expect with their panic preconditions (R8)"),
    ] + common, log, "Primitive::make_byte")
    check_closed(bb, "make_byte"); fns["make_byte"] = bb
    gen = header(log, f"{PRIM}: Primitive::make_int, make_bigint, make_float, make_bool, make_byte") + SPEC + f"""
//@ OBL C01.literal.make_int
pub fn make_int(string: &VString) -> (r: Result<Primitive, VErr>)
    ensures r is Ok <==> denotes_i32(text_of(string)) is Some, r is Ok ==> r->Ok_0 == Primitive::Int(denotes_i32(text_of(string))->Some_0),
{{
{render(fns['make_int'], 1)}
}}
//@ OBL C01.literal.make_bigint
pub fn make_bigint(string: &VString) -> (r: Result<Primitive, VErr>)
    ensures r is Ok <==> denotes_i128(text_of(string)) is Some, r is Ok ==> r->Ok_0 == Primitive::BigInt(denotes_i128(text_of(string))->Some_0),
{{
{render(fns['make_bigint'], 1)}
}}
//@ OBL C01.literal.make_float
pub fn make_float(string: &VString) -> (r: Result<Primitive, VErr>)
    ensures r is Ok <==> denotes_f64(text_of(string)) is Some, r is Ok ==> r->Ok_0 == Primitive::Float(denotes_f64(text_of(string))->Some_0),
{{
{render(fns['make_float'], 1)}
}}
//@ OBL C01.literal.make_bool
pub fn make_bool(string: &VString) -> (r: Result<Primitive, VErr>)
    ensures text_of(string) == "true"@ ==> r == Ok::<Primitive, VErr>(Primitive::Bool(true)),
            text_of(string) == "false"@ ==> r == Ok::<Primitive, VErr>(Primitive::Bool(false)),
            (text_of(string) != "true"@ && text_of(string) != "false"@) ==> r is Err,
{{
    proof {{ reveal_strlit("true"); reveal_strlit("false"); assert("true"@ != "false"@) by {{ assert("true"@.len() == 4 && "false"@.len() == 5); }} }}
{render(fns['make_bool'], 1)}
}}
//@ OBL C01.literal.make_byte
// `0b` + binary digits (what the compiler writes), else decimal; a malformed text PANICS in the real code (`expect`): the precondition says so
pub fn make_byte(string: &VString) -> (r: Result<Primitive, VErr>)
    requires ({{ let t = text_of(string); if byte_len(t) >= 3 && starts_with_0b(t) {{ denotes_u8_radix(after_prefix(t, 2), 2) is Some }} else {{ denotes_u8_radix(t, 10) is Some }} }}),
    ensures r is Ok, ({{ let t = text_of(string); r->Ok_0 == Primitive::Byte(if byte_len(t) >= 3 && starts_with_0b(t) {{ denotes_u8_radix(after_prefix(t, 2), 2)->Some_0 }} else {{ denotes_u8_radix(t, 10)->Some_0 }}) }}),
{{
{render(fns['make_byte'], 1)}
}}
}} // verus!
fn main() {{}}
"""
    obls = [Obl(f"C01.literal.{n}", ["C01", "C06", "C04"], fn=n, desc=d) for n, d in [
        ("make_int", "Primitive::make_int: the i32 the text denotes, or a failure"),
        ("make_bigint", "Primitive::make_bigint: the i128 the text denotes, or a failure"),
        ("make_float", "Primitive::make_float: the f64 the text denotes, or a failure"),
        ("make_bool", "Primitive::make_bool: `true` / `false`, anything else a failure"),
        ("make_byte", "Primitive::make_byte: `0b` + digits read in base 2, else base 10; never another radix or offset (a malformed text panics: stated as precondition)"),
    ]]
    return gen, obls, log


UNITS = [VUnit("c01_literal_parsers", ["C01", "C06", "C04"], "the run-time value of a literal's text (Primitive::make_*)", build)]
UNITS[0].assumes = ["i32 / i128 / f64 ::from_str and u8::from_str_radix are the definition of what a numeral denotes (assumed std contracts)",
                    "make_byte panics on a malformed text (`expect`): only reachable from hand-written bytecode; stated as a precondition, not proved absent"]

"""C11 (compile side): ModuleType::from_node (type.rs) -- the pre-walk over a module's declarations that builds what importers can see.
The loop over the declarations with its `class` arm: a class enters the export list only when THAT class declaration carries flags that
say `export` (no state of an earlier declaration decides for a later one)."""
from vlib.rules import *
from vlib.extract import find_block_after, filter_match_arms
from vlib.pattern import Pat

FILE = "compiler/src/ast/type.rs"

SPEC = r"""
#[verifier::external_body] pub struct ClassFlags { x: usize }
pub uninterp spec fn written_class_flags(n: Node) -> Option<ClassFlags>;          // Parser::class_flags of a flags node (None: a diagnostic)
pub uninterp spec fn says_export(f: ClassFlags) -> bool;                          // ClassFlags::is_export
#[verifier::external_body] pub fn parse_class_flags(n: Node) -> (r: Result<ClassFlags, VErr>) ensures r is Ok <==> written_class_flags(n) is Some, r is Ok ==> r->Ok_0 == written_class_flags(n)->Some_0 { unimplemented!() }
#[verifier::external_body] pub fn flags_say_export(f: &Option<ClassFlags>) -> (r: bool) ensures r == (*f is Some && says_export(f->Some_0)) { unimplemented!() }
// the class's identifier as importers will get it
pub struct IdentV { pub name: VStr, pub ty: Option<TypeLayout>, pub read_only: bool }
impl IdentV {
    pub fn new(name: VStr, ty: Option<TypeLayout>, read_only: bool) -> (r: IdentV) ensures r.name == name, r.ty == ty, r.read_only == read_only { IdentV { name, ty, read_only } }
    #[verifier::external_body] pub fn name(&self) -> (r: &VStr) ensures *r == self.name { unimplemented!() }
    pub fn mark_const(&mut self) ensures final(self).read_only, final(self).name == old(self).name, final(self).ty == old(self).ty { self.read_only = true; }
    // Ident::set_type_no_link: the type only
    #[verifier::external_body] pub fn set_type_no_link(&mut self, t: TypeLayout) ensures final(self).name == old(self).name, final(self).read_only == old(self).read_only, final(self).ty == Some(t) { unimplemented!() }
}
#[verifier::external_body] pub fn parse_ident(n: Node) -> (r: Result<IdentV, VErr>) ensures r is Ok ==> str_view(&r->Ok_0.name) == node_text(&n) && r->Ok_0.ty is None && !r->Ok_0.read_only { unimplemented!() }
#[verifier::external_body] pub struct Fields { x: usize }
#[verifier::external_body] pub struct ClassTypeV { x: usize }
#[verifier::external_body] pub fn get_members(body: &Node) -> (r: Result<Fields, VErr>) { unimplemented!() }
#[verifier::external_body] pub fn class_type_new(name: VStr, f: Fields, n: &Node) -> (r: ClassTypeV) { unimplemented!() }
#[verifier::external_body] pub fn class_ty(c: ClassTypeV) -> (r: TypeLayout) { unimplemented!() }
#[verifier::external_body] pub fn node_name(n: &Node) -> (r: VStr) ensures str_view(&r) == node_text(n) { unimplemented!() }
#[verifier::external_body] pub fn clone_name(n: &VStr) -> (r: VStr) ensures r == *n { unimplemented!() }
#[verifier::external_body] pub fn add_type(input: &Node, i: &IdentV) { unimplemented!() }
#[verifier::external_body] pub fn single_child(n: &Node) -> (r: Node) requires node_children(n).len() == 1 ensures r == node_children(n)[0] { unimplemented!() }
#[verifier::external_body] pub fn child_at(c: &Children, k: usize) -> (r: Node) requires k < c.items@.len() ensures r == c.items@[k as int] { unimplemented!() }
// the export list, with the declaration each class entry came from
#[verifier::external_body] pub struct ExportList { x: usize }
pub uninterp spec fn from_decl(e: &ExportList) -> Seq<Node>;
impl ExportList {
    #[verifier::external_body] pub fn add_from(&mut self, i: IdentV, decl: &Node)
        requires i.read_only             // C10 / C11: a class name is a constant for the importers too
        ensures from_decl(final(self)) == from_decl(old(self)).push(*decl) { unimplemented!() }
}
// a class declaration that says `export`: its first child is not the name but a flags node, and those flags say export
pub open spec fn class_exported(c: Node) -> bool {
    node_children(&c).len() >= 1 && !has_rule(&node_children(&c)[0], "ident") && written_class_flags(node_children(&c)[0]) is Some && says_export(written_class_flags(node_children(&c)[0])->Some_0)
}
pub open spec fn all_exported(s: Seq<Node>, from: int) -> bool { forall|i: int| from <= i < s.len() ==> class_exported(#[trigger] s[i]) }
"""


def build(repo):
    src = Source(repo)
    log = []
    f = src.fn(FILE, "from_node", "impl ModuleType")
    try:
        h, o, c = find_block_after(f["body"], "for child in input . children ( )")
    except Exception as e:
        raise Undecided(f"{FILE}: the declaration loop `for child in input.children()` of ModuleType::from_node not found: {e}")
    start = h
    pe = Pat("let mut export = input . user_data ( ) . get_export_ref ( ) ;")
    for i in range(h):
        r = pe.match_at(f["body"], i)
        if r:
            start = r[0]; break
    else:
        raise Undecided(f"{FILE}: `let mut export = input.user_data().get_export_ref();` not found in front of the declaration loop")
    loop = f["body"][start:c + 1]
    log.append(("R0", "ModuleType::from_node", "the loop over the declarations", "fragment: everything between the creation of `export` and the end of `for child in input.children() { .. }` (so that state declared in front of the loop is part of it); `export` is a parameter"))
    loop, dropped = filter_match_arms(loop, "child . as_rule ( )", lambda pat: text(pat).replace(" ", "") == "Rule::class")
    log.append(("R0", "arms " + "; ".join(d[:40] for d in dropped), "(dropped)", "other declaration kinds: variables are obligation C11.exports.only-exported; aliases / imports export nothing by themselves"))
    INV = """invariant verif_k <= verif_kids.items@.len(), verif_kids.items@ == node_children(input), from_decl(&export).len() >= from_decl(old(export)).len(),
        from_decl(&export).subrange(0, from_decl(old(export)).len() as int) == from_decl(old(export)), all_exported(from_decl(&export), from_decl(old(export)).len() as int),
        forall|d: Node| has_rule(&d, "declaration") ==> #[trigger] node_children(&d).len() == 1, forall|c: Node| has_rule(&c, "class") ==> #[trigger] node_children(&c).len() >= 3,
        decreases verif_kids.items@.len() - verif_k,"""
    b = translate(loop, parser_idioms() + [
        Rule("R2", "for child in input . children ( ) { $$body }", lambda bd: ["let verif_kids = node_kids ( input ) ; let mut verif_k : usize = 0 ; while verif_k < verif_kids . items . len ( )", G(INV),
                                                                             "{ let child = child_at ( & verif_kids , verif_k ) ; verif_k += 1 ;", *bd["body"], "}"], count=1, why="for over the pest children -> indexed while"),
        Rule("R8", "child . children ( ) . single ( ) . expect ( $m )", "single_child ( & child )", why="exactly one child (grammar: declaration = { class | assignment | .. })"),
        Rule("R6", "match child . as_rule ( ) { Rule :: class => { $$b } , }", "if node_has_rule ( & child , \"class\" ) { $$b }", why="the kept arm as an if (the other arms are dropped)"),
        Rule("R6", "child . children ( )", "node_kids ( & child )", why="pest API abstract"),
        Rule("R8", "children . next ( ) . unwrap ( )", "unwrap_node ( children . next ( ) )", why="unwrap on a child: grammar child count (R8)"),
        Rule("R8", "children . next ( ) . expect ( $m )", "unwrap_node ( children . next ( ) )", why="expect on a child: grammar child count (R8)"),
        Rule("R6", "Parser :: class_flags ( $n ) . to_err_vec ( ) ?", "parse_class_flags ( $n ) ?", why="sub-parser abstract"),
        Rule("R1", "let name = ident_node . as_str ( ) ;", "let name = node_name ( & ident_node ) ;", why="the name's text"),
        Rule("R1", "let name = ident . name ( ) ;", "let name = clone_name ( ident . name ( ) ) ;", why="the name's text"),
        Rule("R10", "let _class_scope = input . user_data ( ) . push_class_unknown_self ( ) ;", "", why="scope handle (scope stack not modelled here)"),
        Rule("R6", "ClassBody :: get_members ( & body_node ) . to_err_vec ( ) ?", "get_members ( & body_node ) ?", why="sub-parser abstract"),
        Rule("R6", "ClassType :: new ( Arc :: new ( name . to_owned ( ) ) , fields , input . user_data ( ) . bytecode_path ( ) , )", "class_type_new ( clone_name ( & name ) , fields , input )", why="class type constructor abstract"),
        Rule("R6", "ClassType :: new ( Arc :: new ( ident . name ( ) . to_owned ( ) ) , fields , input . user_data ( ) . bytecode_path ( ) , )", "class_type_new ( clone_name ( ident . name ( ) ) , fields , input )", why="class type constructor abstract"),
        Rule("R1", "Ident :: new ( name . to_owned ( ) , Some ( Cow :: Owned ( TypeLayout :: Class ( class_type ) ) ) , $f , )", "IdentV :: new ( clone_name ( & name ) , Some ( class_ty ( class_type ) ) , $f )", why="Ident::new(name, type, read_only)"),
        Rule("R1", "Cow :: Owned ( TypeLayout :: Class ( class_type ) )", "class_ty ( class_type )", why="the class type as a TypeLayout"),
        Rule("R6", "Parser :: ident ( ident_node ) . to_err_vec ( ) ?", "parse_ident ( ident_node ) ?", why="sub-parser abstract"),
        Rule("R6", "input . user_data ( ) . add_type ( name . into ( ) , ident . ty ( ) . unwrap ( ) . clone ( ) ) ;", "add_type ( input , & ident ) ;", why="type registry: abstract"),
        Rule("R1", "log :: trace ! ( $$a ) ;", "", why="logging dropped"),
        Rule("R9", "class_flags . as_ref ( ) . is_some_and ( ClassFlags :: is_export )", "flags_say_export ( & class_flags )", why="Option::is_some_and(ClassFlags::is_export)"),
        Rule("R13", "export . add ( ident )", "export . add_from ( ident , & child )", why="the export list records which declaration an entry came from (provenance made explicit)"),
    ], log, "ModuleType::from_node[class]")
    check_closed(b, "ModuleType::from_node[class]")
    gen = header(log, f"{FILE}: ModuleType::from_node, the declaration loop with its class arm") + prelude("parser.rs") + SPEC + f"""
//@ OBL C11.exports.class-only-exported
pub fn from_node_classes(input: &Node, export: &mut ExportList) -> (r: Result<(), VErr>)
    requires forall|d: Node| has_rule(&d, "declaration") ==> #[trigger] node_children(&d).len() == 1,      // grammar
             forall|c: Node| has_rule(&c, "class") ==> #[trigger] node_children(&c).len() >= 3,             // grammar: class = {{ flags? ~ ident ~ .. ~ body }}: the flags form has 3
    ensures
        // whatever happens (also when a later declaration fails): every class entry added comes from a class declaration that itself says `export`
        from_decl(final(export)).len() >= from_decl(old(export)).len(),
        from_decl(final(export)).subrange(0, from_decl(old(export)).len() as int) == from_decl(old(export)),
        all_exported(from_decl(final(export)), from_decl(old(export)).len() as int),
{{
{render(b, 1)}
    Ok(())
}}
}} // verus!
fn main() {{}}
"""
    return gen, [Obl("C11.exports.class-only-exported", ["C11", "C10"], fn="ModuleType::from_node[class arm]", desc="from_node: a class is put on the module's export list only if that class declaration's own flags say `export`, and as a constant")], log


UNITS = [VUnit("c11_class_export", ["C11", "C10"], "compile-time export list: only `export class` declarations", build)]
UNITS[0].assumes = ["fragment: the declaration loop with the class arm; the other arms are dropped (variables: C11.exports.only-exported)", "pest API, sub-parsers and the construction of the class identifier abstract; child counts from the grammar",
                    "the run-time side registers every class in the module's export map (by inspection; the compile-time list is what stops an importer)"]

"""C03 / C04: the compiler's entry point `compile` (compiler/src/lib.rs).  From C03 ("rejected with a diagnostic before anything runs"): when
translating the source reports diagnostics, `compile` fails with them and produces NOTHING -- no bytecode file is written and no in-memory
program is handed back, so there is nothing `run` / `execute` could start.  From C04: what is written to the file (compile) and what is
sealed for the interpreter (run) is the SAME instruction buffer, the one the translation of this source produced."""
from vlib.rules import *

FILE = "compiler/src/lib.rs"

SPEC = r"""
use vstd::prelude::*;
verus! {
pub struct VErr { pub id: Ghost<int> }
#[verifier::external_body] pub struct PathV { x: usize }
#[verifier::external_body] pub struct SrcText { x: usize }
#[verifier::external_body] pub struct Buffer { x: usize }          // Vec<CompiledItem>
#[verifier::external_body] pub struct Product { x: usize }         // Rc<MScriptFile>
pub uninterp spec fn with_mmm(p: &PathV) -> PathV;
// the spelling everything downstream sees: `.` components dropped (D112: labels, output file and the importer's paths must not depend on `./x.ms` vs `x.ms`)
pub uninterp spec fn no_curdir(p: &PathV) -> PathV;
impl PathV { #[verifier::external_body] pub fn without_cur_dir(&self) -> (r: PathV) ensures r == no_curdir(self) { unimplemented!() } }
impl PathV { #[verifier::external_body] pub fn with_extension(&self, e: &str) -> (r: PathV) ensures r == with_mmm(self) { unimplemented!() } }
pub uninterp spec fn source_of(p: &PathV) -> Result<SrcText, VErr>;
#[verifier::external_body] pub fn perform_file_io_in(p: &PathV) -> (r: Result<SrcText, VErr>) ensures r == source_of(p) { unimplemented!() }
// the translation of the source: the instruction buffer, or the program's diagnostics
pub uninterp spec fn translated(p: &PathV, out: &PathV, s: &SrcText) -> Result<Buffer, VErr>;
#[verifier::external_body] pub fn compile_from_str_default_side_effects(p: &PathV, out: &PathV, s: &SrcText) -> (r: Result<Buffer, VErr>) ensures r == translated(p, out, s) { unimplemented!() }
#[verifier::external_body] pub fn spinner_noop() -> (r: Result<(), VErr>) { unimplemented!() }           // logger().wrap_in_spinner(.., || Ok(())): shows a spinner around nothing
// ways of turning a failed translation into a buffer anyway (unwrap_or_default / unwrap_or_else / ok().unwrap_or..): some buffer
pub trait Recover { fn verif_recover(self) -> Buffer; }
impl Recover for Result<Buffer, VErr> { #[verifier::external_body] fn verif_recover(self) -> (r: Buffer) ensures self is Ok ==> r == self->Ok_0 { unimplemented!() } }
// effects
pub struct World { pub written: Ghost<Seq<(PathV, Buffer, bool)>> }
#[verifier::external_body] pub fn perform_file_io_out(w: &mut World, out: &PathV, b: &Buffer, bin: bool) -> (r: Result<(), VErr>)
    ensures r is Ok ==> final(w).written@ == old(w).written@.push((*out, *b, bin)), r is Err ==> final(w).written@ == old(w).written@ { unimplemented!() }
pub uninterp spec fn sealed(out: &PathV, b: Buffer) -> Result<Product, VErr>;
#[verifier::external_body] pub fn seal_compiled_items(out: &PathV, b: Buffer) -> (r: Result<Product, VErr>) ensures r == sealed(out, b) { unimplemented!() }
"""


def build(repo):
    src = Source(repo)
    log = []
    f = src.fn(FILE, "compile")
    b = translate(list(f["body"]), [
        Rule("R3", "LOGGER_INSTANCE . set ( $$a ) . expect ( $m ) ;", "", why="logger set-up dropped (its `expect` -- a second compile in one process -- is not part of this contract)"),
        Rule("R3", "let start_time = Instant :: now ( ) ;", "", why="timing for the progress output"),
        Rule("R1", "let input_path = input_path . as_ref ( ) ;", "", why="AsRef<Path>: the path itself"),
        Rule("R9", "let input_path : PathBuf = input_path . as_ref ( ) . components ( ) . filter ( | $c | ! matches ! ( $c , std :: path :: Component :: CurDir ) ) . collect ( ) ;", "let input_path = input_path . without_cur_dir ( ) ;",
             why="components().filter(not CurDir).collect(): the path without `.` components (assumed std contract; the same chain Import::path_from_parts and Program::new use)"),
        Rule("R1", "let input_path = input_path . as_path ( ) ;", "let input_path = & input_path ;", why="PathBuf::as_path"),
        Rule("R3", ". to_err_vec ( )", "", why="error -> vector of errors: still an error"),
        Rule("R9", ". unwrap_or_default ( )", ". verif_recover ( )", why="Result::unwrap_or_default: the value, or SOME default when it failed"),
        Rule("R6", "compile_from_str_default_side_effects ( input_path , & output_path , & file_contents , FileManager :: no_mock ( ) , )", "compile_from_str_default_side_effects ( input_path , & output_path , & file_contents )", why="the translation of the source: abstract callee (file manager argument dropped)"),
        Rule("R3", "logger ( ) . wrap_in_spinner ( $$a ) ?", "spinner_noop ( ) ?", why="progress spinner around a no-op closure"),
        Rule("R3", "print ! ( $$a ) ;", "", why="progress output dropped"),
        Rule("R3", "println ! ( $$a ) ;", "", why="progress output dropped"),
        Rule("R10", "perform_file_io_out ( & output_path , & function_buffer , output_bin )", "perform_file_io_out ( world , & output_path , & function_buffer , output_bin )", why="the file system as explicit state (R10); the function itself: obligation C04.file.contents"),
    ], log, "compile")
    check_closed(b, "compile")
    gen = header(log, f"{FILE}: compile") + SPEC + f"""
//@ OBL C03.compile.nothing-on-diagnostics
pub fn compile(input_path: &PathV, output_bin: bool, verbose: bool, output_to_file: bool, override_no_pb: bool, world: &mut World) -> (r: Result<Option<Product>, VErr>)
    ensures
        // the source cannot be read, or its translation reports diagnostics: compile fails, nothing is written, nothing is handed back
        (source_of(&no_curdir(input_path)) is Err || translated(&no_curdir(input_path), &with_mmm(&no_curdir(input_path)), &source_of(&no_curdir(input_path))->Ok_0) is Err) ==> r is Err && final(world).written@ == old(world).written@,
        // success, to a file: exactly one file, `<input>.mmm`, with the buffer this source was translated to, in the format asked for; no in-memory program
        (r is Ok && output_to_file) ==> r->Ok_0 is None && source_of(&no_curdir(input_path)) is Ok && translated(&no_curdir(input_path), &with_mmm(&no_curdir(input_path)), &source_of(&no_curdir(input_path))->Ok_0) is Ok
            && final(world).written@ == old(world).written@.push((with_mmm(&no_curdir(input_path)), translated(&no_curdir(input_path), &with_mmm(&no_curdir(input_path)), &source_of(&no_curdir(input_path))->Ok_0)->Ok_0, output_bin)),
        // success, in memory: the SAME buffer sealed for the interpreter; no file
        (r is Ok && !output_to_file) ==> final(world).written@ == old(world).written@ && source_of(&no_curdir(input_path)) is Ok && translated(&no_curdir(input_path), &with_mmm(&no_curdir(input_path)), &source_of(&no_curdir(input_path))->Ok_0) is Ok
            && Ok::<Product, VErr>(r->Ok_0->Some_0) == sealed(&with_mmm(&no_curdir(input_path)), translated(&no_curdir(input_path), &with_mmm(&no_curdir(input_path)), &source_of(&no_curdir(input_path))->Ok_0)->Ok_0) && r->Ok_0 is Some,
        r is Err ==> final(world).written@ == old(world).written@,
{{
{render(b, 1)}
}}
}} // verus!
fn main() {{}}
"""
    return gen, [Obl("C03.compile.nothing-on-diagnostics", ["C03", "C04", "C16"], fn="compile", desc="compile: diagnostics (or an unreadable source) make it fail with nothing written and nothing handed back; on success the file written / the program sealed is the buffer this source was translated to")], log


UNITS = [VUnit("c03_compile_entry", ["C03", "C04", "C16"], "compile: nothing is produced when the program has diagnostics", build)]
UNITS[0].assumes = ["compile_from_str_default_side_effects (the whole translation), perform_file_io_in / _out and seal_compiled_items are abstract callees (the last two have their own obligations: C04.file.contents, C04.inmem.*)",
                    "the logger's `expect` (compile called twice in one process) is not part of this contract"]

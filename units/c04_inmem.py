"""C04 (the `run` side): how compiled items become the functions `run` executes without going through a file.
`impl From<CompiledItem> for Instruction` (compiler/src/ast.rs), `seal_compiled_items` (compiler/src/lib.rs),
`MScriptFileBuilder::add_function` (bytecode/src/file.rs), `Functions::add_function` (bytecode/src/function.rs).
The file side (writer + loader, units c04_codec / c04_fileio / c04_loader) delivers, per function name, exactly the (opcode, arguments)
sequence the compiler emitted; the property demands the same of the in-memory side: every instruction and every argument reaches the
interpreter exactly as the compiler emitted it, every function under its own name."""
from vlib.rules import *

AST = "compiler/src/ast.rs"
LIB = "compiler/src/lib.rs"
FILE = "bytecode/src/file.rs"
FUNC = "bytecode/src/function.rs"

SPEC = r"""
use vstd::prelude::*;
verus! {
pub struct VErr;
#[verifier::external_body] pub struct ArgsV { x: usize }            // Box<[String]>: the argument texts
#[verifier::external_body] pub struct FnId { x: usize }             // CompiledFunctionId
#[verifier::external_body] pub struct NameV { x: usize }            // String
#[verifier::external_body] pub struct LocV { x: usize }             // Arc<PathBuf>
pub uninterp spec fn id_text(i: FnId) -> Seq<char>;                 // Display of a function id
pub uninterp spec fn name_text(n: NameV) -> Seq<char>;
impl FnId { #[verifier::external_body] pub fn to_string(&self) -> (r: NameV) ensures name_text(r) == id_text(*self) { unimplemented!() } }
impl NameV { #[verifier::external_body] pub fn clone(&self) -> (r: NameV) ensures r == *self { unimplemented!() } }
pub struct Instruction { pub id: u8, pub arguments: ArgsV }
impl Instruction { pub fn new(id: u8, arguments: ArgsV) -> (r: Instruction) ensures r.id == id, r.arguments == arguments { Instruction { id, arguments } } }
#[allow(inconsistent_fields)]
pub enum CompiledItem {
    Function { id: FnId, content: Option<Vec<CompiledItem>>, location: LocV },
    Instruction { id: u8, arguments: ArgsV },
    Break(usize),
    Continue(usize),
}
#[verifier::external_body] pub fn vpanic() requires false { unimplemented!() }
// what the compiler emitted for one instruction item
pub open spec fn emitted(c: CompiledItem) -> Instruction recommends c is Instruction { Instruction { id: c->Instruction_id, arguments: c->Instruction_arguments } }
pub open spec fn all_instructions(s: Seq<CompiledItem>) -> bool { forall|i: int| 0 <= i < s.len() ==> (#[trigger] s[i]) is Instruction }
pub open spec fn emitted_seq(s: Seq<CompiledItem>) -> Seq<Instruction> { Seq::new(s.len(), |i: int| emitted(s[i])) }
"""


def build(repo):
    src = Source(repo)
    log = []
    # ---- From<CompiledItem> for Instruction
    f_from = src.fn(AST, "from", "impl From < CompiledItem > for Instruction")
    b_from = translate(f_from["body"], [
        Rule("R8", "panic ! ( $$a ) ;", "return unreached ( ) ;", why="panic!: excluded by the precondition (only instruction items are converted)"),
    ], log, "From<CompiledItem> for Instruction")
    check_closed(b_from, "From<CompiledItem> for Instruction::from")
    # ---- seal_compiled_items
    f_seal = src.fn(LIB, "seal_compiled_items")
    b_seal = translate(f_seal["body"], [
        Rule("R1", "let output_path_owned = output_path . to_string_lossy ( ) . into_owned ( ) ;", "", why="the file's own path (not part of the instruction stream)"),
        Rule("R6", "MScriptFileBuilder :: new ( output_path_owned )", "MScriptFileBuilder :: new ( )", why="builder construction: empty function table"),
        Rule("R2", "$c . into_iter ( ) . map ( Into :: < Instruction > :: into ) . collect ( )", "convert_all ( $c )", why="into_iter().map(Into::into).collect(): element-wise, in order -- each element through From<CompiledItem> for Instruction (own obligation)"),
        Rule("R2", "for compiled_item in compiled_items . into_iter ( )", "for compiled_item in compiled_items", why="into_iter() of a Vec: in order"),
        for_in_vec("seal", "invariant $K <= $V.len(), forall|j: int| 0 <= j < $V.len() ==> well_item(#[trigger] $V@[j]), file_builder.functions is Some, built(file_builder) =~= fold_items($V@.take($K as int)), decreases $V.len() - $K,"),
        Rule("R3", "bail ! $a", "return Err ( VErr )", why="bail! -> return Err"),
        Rule("R6", "Ok ( file_builder . build ( ) )", [G("proof { assert(compiled_items@.take(compiled_items@.len() as int) =~= compiled_items@); }"), "Ok ( file_builder )"], why="build(): hands out the table built so far"),
    ], log, "seal_compiled_items")
    # `for x in v` of for_in_vec binds a reference; the let-else destructures by value: clone through a spec-identical helper
    b_seal = translate(b_seal, [Rule("R13", "} = compiled_item else", "} = clone_ci ( compiled_item ) else", why="item moved out of the vector (by-value iteration)")], log, "seal_compiled_items", generic=False)
    b_seal = translate(b_seal, [Rule("R11", "file_builder . add_function ( $$a ) ;", [G("proof { assert(compiled_items@.take(verif_k_seal as int).drop_last() =~= compiled_items@.take(verif_k_seal as int - 1)); assert(compiled_items@.take(verif_k_seal as int).last() == compiled_items@[verif_k_seal as int - 1]); }"), "file_builder . add_function ( $$a ) ;"], why="ghost: unfolding of the table the items denote")], log, "seal_compiled_items", generic=False)
    check_closed(b_seal, "seal_compiled_items")
    # ---- MScriptFileBuilder::add_function / Functions::add_function
    f_badd = src.fn(FILE, "add_function", "impl MScriptFileBuilder")
    b_badd = translate(f_badd["body"], [
        Rule("R10", "let functions = & self . building . functions ; let mut functions = functions . borrow_mut ( ) ;", "let functions = & mut self . functions ;", why="RefCell<Option<Functions>> of the file under construction -> explicit field"),
        Rule("R6", "functions . add_function ( Rc :: downgrade ( & self . building ) , name , bytecode )", "functions . add_function ( name , bytecode )", why="back reference to the file dropped"),
        Rule("R8", "unreachable ! ( )", "vpanic ( )", why="unreachable!: must be unreachable"),
    ], log, "MScriptFileBuilder::add_function")
    check_closed(b_badd, "MScriptFileBuilder::add_function")
    f_fadd = src.fn(FUNC, "add_function", "impl < 'a > Functions")
    b_fadd = translate(f_fadd["body"], [
        Rule("R6", "Function :: new ( file , name . clone ( ) , bytecode )", "function_new ( name . clone ( ) , bytecode )", why="Function::new: name and instruction list (back reference dropped)"),
    ], log, "Functions::add_function")
    check_closed(b_fadd, "Functions::add_function")
    gen = header(log, f"{AST}: From<CompiledItem> for Instruction; {LIB}: seal_compiled_items; {FILE}: MScriptFileBuilder::add_function; {FUNC}: Functions::add_function") + SPEC + f"""
#[verifier::external_body] pub fn clone_ci(c: &CompiledItem) -> (r: CompiledItem) ensures r == *c {{ unimplemented!() }}
//@ OBL C04.inmem.instruction
pub fn instruction_from(value: CompiledItem) -> (r: Instruction)
    requires value is Instruction,
    ensures r == emitted(value),        // opcode and every argument exactly as emitted
{{
{render(b_from, 1)}
}}
// into_iter().map(Into::into).collect(): R2 -- element-wise in order, each through instruction_from
pub fn convert_all(c: Vec<CompiledItem>) -> (r: Vec<Instruction>)
    requires all_instructions(c@),
    ensures r@ == emitted_seq(c@),
{{
    let mut r: Vec<Instruction> = Vec::new();
    let mut k: usize = 0;
    while k < c.len()
        invariant k <= c.len(), all_instructions(c@), r@.len() == k, forall|j: int| 0 <= j < k ==> r@[j] == emitted(c@[j]),
        decreases c.len() - k,
    {{
        let it = clone_ci(&c[k]);
        r.push(instruction_from(it));
        k += 1;
    }}
    assert(r@ =~= emitted_seq(c@));
    r
}}

#[verifier::external_body] pub struct FunctionV {{ x: usize }}
pub uninterp spec fn fn_name(f: FunctionV) -> NameV;
pub uninterp spec fn fn_instrs(f: FunctionV) -> Seq<Instruction>;
#[verifier::external_body] pub fn function_new(name: NameV, instructions: Vec<Instruction>) -> (r: FunctionV) ensures fn_name(r) == name, fn_instrs(r) == instructions@ {{ unimplemented!() }}
// HashMap<String, Function>
#[verifier::external_body] pub struct FnMap {{ x: usize }}
pub uninterp spec fn fmap(m: FnMap) -> Map<Seq<char>, FunctionV>;
impl FnMap {{
    #[verifier::external_body] pub fn insert(&mut self, k: NameV, v: FunctionV) -> (r: Option<FunctionV>) ensures fmap(*final(self)) == fmap(*old(self)).insert(name_text(k), v) {{ unimplemented!() }}
}}
pub struct Functions {{ pub map: FnMap }}
// the abstract content of a function table: name -> instruction sequence
pub open spec fn table(f: Functions) -> Map<Seq<char>, Seq<Instruction>> {{ fmap(f.map).map_values(|v: FunctionV| fn_instrs(v)) }}
impl Functions {{
    //@ OBL C04.inmem.functions.add
    pub fn add_function(&mut self, name: NameV, bytecode: Vec<Instruction>) -> (r: Option<FunctionV>)
        ensures table(*final(self)) =~= table(*old(self)).insert(name_text(name), bytecode@),
                fn_name(fmap(final(self).map)[name_text(name)]) == name,
    {{
{render(b_fadd, 2)}
    }}
}}
pub struct MScriptFileBuilder {{ pub functions: Option<Functions> }}
pub open spec fn built(b: MScriptFileBuilder) -> Map<Seq<char>, Seq<Instruction>> recommends b.functions is Some {{ table(b.functions->Some_0) }}
impl MScriptFileBuilder {{
    pub fn new() -> (r: MScriptFileBuilder) ensures r.functions is Some, built(r) =~= Map::<Seq<char>, Seq<Instruction>>::empty() {{
        let r = MScriptFileBuilder {{ functions: Some(Functions {{ map: fnmap_empty() }}) }};
        r
    }}
    //@ OBL C04.inmem.builder.add
    pub fn add_function(&mut self, name: NameV, bytecode: Vec<Instruction>)
        requires old(self).functions is Some,
        ensures final(self).functions is Some, built(*final(self)) =~= built(*old(self)).insert(name_text(name), bytecode@),
    {{
{render(b_badd, 2)}
    }}
}}
#[verifier::external_body] pub fn fnmap_empty() -> (r: FnMap) ensures fmap(r) =~= Map::<Seq<char>, FunctionV>::empty() {{ unimplemented!() }}

// a compiled item that seal_compiled_items accepts: a function with a body made of instructions only (what Function::compile returns
// after break / continue placeholders were resolved by the loops)
pub open spec fn well_item(c: CompiledItem) -> bool {{ c is Function && c->Function_content is Some && all_instructions(c->Function_content->Some_0@) }}
// the table the compiled items denote: each function under the text of its id, later definitions replacing earlier ones
pub open spec fn fold_items(s: Seq<CompiledItem>) -> Map<Seq<char>, Seq<Instruction>> decreases s.len() {{
    if s.len() == 0 {{ Map::empty() }} else {{ fold_items(s.drop_last()).insert(id_text(s.last()->Function_id), emitted_seq(s.last()->Function_content->Some_0@)) }}
}}
//@ OBL C04.inmem.seal
pub fn seal_compiled_items(compiled_items: Vec<CompiledItem>) -> (r: Result<MScriptFileBuilder, VErr>)
    requires forall|j: int| 0 <= j < compiled_items.len() ==> well_item(#[trigger] compiled_items@[j]),
    ensures r is Ok, r->Ok_0.functions is Some,
            // the functions `run` executes: exactly the instruction sequences the compiler emitted, each under its own name
            built(r->Ok_0) =~= fold_items(compiled_items@),
{{
    proof {{ assert(compiled_items@.take(0) =~= Seq::<CompiledItem>::empty()); }}
{render(b_seal, 1)}
}}
}} // verus!
fn main() {{}}
"""
    obls = [
        Obl("C04.inmem.instruction", ["C04", "C18"], fn="From<CompiledItem> for Instruction::from", desc="conversion of a compiled instruction into the interpreter's Instruction: same opcode, every argument unchanged"),
        Obl("C04.inmem.functions.add", ["C04", "C18"], fn="Functions::add_function", desc="Functions::add_function: the function is registered under exactly its name with exactly the instruction list given"),
        Obl("C04.inmem.builder.add", ["C04", "C18"], fn="MScriptFileBuilder::add_function", desc="MScriptFileBuilder::add_function: name and instruction list handed on unchanged; no unreachable!"),
        Obl("C04.inmem.seal", ["C04", "C18"], fn="seal_compiled_items", desc="seal_compiled_items: the in-memory file holds, per function name, exactly the instruction sequence the compiler emitted (what the writer + loader deliver through a file)"),
    ]
    return gen, obls, log


UNITS = [VUnit("c04_inmem", ["C04", "C18"], "the in-memory route of `run`: compiled items -> functions, unchanged", build)]
UNITS[0].assumes = ["HashMap::insert, Display of a function id (to_string): assumed contracts; Function::new keeps name and instruction list (constructor, by inspection)",
                    "precondition of seal_compiled_items: every item is a function whose body holds instructions only (break / continue placeholders are resolved by the loop compilers: C01.while.layout / C01.from.layout)",
                    "Program::new_from_files and the path key of the file (MScriptFileBuilder::new replaces `\\\\` in the FILE path) are not under contract"]

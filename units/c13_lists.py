"""C13: list (and map) built-in methods as arms of BuiltInFunction::run, against the sequence / finite-map model,
with sharing made explicit: a list handle denotes a heap cell; the heap maps cells to sequences (V-t).

Rule R13/R6 (cells): `v.0.borrow()` / `v.0.borrow_mut()` on a `GcVector` are reads / updates of the heap cell the handle
points to.  Assumed semantics of the `gc` dependency: a handle clone points to the same cell, `GcVector::new` allocates a cell
no existing handle points to, a RefCell may not be borrowed mutably twice at the same time."""
from vlib.rules import *
from vlib.extract import extract_match_arm
from vlib.pattern import Pat

FUNC = "bytecode/src/function.rs"
PRIM = "bytecode/src/variables/primitive.rs"

SPEC = r"""
use vstd::prelude::*;
verus! {
pub struct VErr;
#[verifier::external_body] pub struct OtherV { x: usize }
#[verifier::external_body] pub struct VecH { x: usize }                 // GcVector: handle of a heap cell
pub uninterp spec fn vid(h: &VecH) -> int;
#[verifier::external_body] pub struct MapH { x: usize }                 // GcMap
pub uninterp spec fn mid(h: &MapH) -> int;
pub enum HeapP { ArrayPtr(VecH, usize), MapPtr(MapH, Box<Primitive>), Lookup(OtherV) }
pub enum Primitive { Bool(bool), Int(i32), Optional(Option<Box<Primitive>>), Vector(VecH), Map(MapH), HeapPrimitive(HeapP), Other(OtherV) }
impl Primitive { #[verifier::external_body] pub fn vclone(&self) -> (r: Primitive) ensures r == *self { unimplemented!() } }
impl VecH { #[verifier::external_body] pub fn vclone(&self) -> (r: VecH) ensures vid(&r) == vid(self) { unimplemented!() } }
impl MapH { #[verifier::external_body] pub fn vclone(&self) -> (r: MapH) ensures mid(&r) == mid(self) { unimplemented!() } }

// the heap: what every alias of a list / map observes
#[verifier::external_body] pub struct Heap { x: usize }
pub uninterp spec fn vecs(h: &Heap) -> Map<int, Seq<Primitive>>;
pub uninterp spec fn maps(h: &Heap) -> Map<int, Map<Primitive, Primitive>>;
pub open spec fn live(h: &Heap, v: &VecH) -> bool { vecs(h).contains_key(vid(v)) }
pub open spec fn mlive(h: &Heap, m: &MapH) -> bool { maps(h).contains_key(mid(m)) }

// ---- assumed contracts: Gc<GcCell<Vec<Primitive>>> operations as heap reads / updates (std::vec::Vec semantics) ----
#[verifier::external_body] pub fn cell_len(h: &Heap, v: &VecH) -> (r: usize) requires live(h, v) ensures r == vecs(h)[vid(v)].len() { unimplemented!() }
#[verifier::external_body] pub fn cell_reverse(h: &mut Heap, v: &VecH) requires live(old(h), v)
    ensures vecs(final(h)) == vecs(old(h)).insert(vid(v), vecs(old(h))[vid(v)].reverse()), maps(final(h)) == maps(old(h)) { unimplemented!() }
// Vec::remove panics when index >= len (R8)
#[verifier::external_body] pub fn cell_remove(h: &mut Heap, v: &VecH, i: usize) -> (r: Primitive) requires live(old(h), v), i < vecs(old(h))[vid(v)].len()
    ensures vecs(final(h)) == vecs(old(h)).insert(vid(v), vecs(old(h))[vid(v)].remove(i as int)), r == vecs(old(h))[vid(v)][i as int], maps(final(h)) == maps(old(h)) { unimplemented!() }
pub trait VerifCtx<T> { fn verif_ctx(self) -> Result<T, VErr>; }
impl VerifCtx<Primitive> for Option<Primitive> { #[verifier::external_body] fn verif_ctx(self) -> (r: Result<Primitive, VErr>) ensures r is Ok <==> self is Some, r is Ok ==> Some(r->Ok_0) == self { unimplemented!() } }
// Vec::pop: the last element, or None on an empty list
#[verifier::external_body] pub fn cell_pop(h: &mut Heap, v: &VecH) -> (r: Option<Primitive>) requires live(old(h), v)
    ensures vecs(old(h))[vid(v)].len() == 0 ==> r is None && vecs(final(h)) == vecs(old(h)),
            vecs(old(h))[vid(v)].len() > 0 ==> r == Some(vecs(old(h))[vid(v)].last()) && vecs(final(h)) == vecs(old(h)).insert(vid(v), vecs(old(h))[vid(v)].drop_last()),
            maps(final(h)) == maps(old(h)) { unimplemented!() }
#[verifier::external_body] pub fn cell_push(h: &mut Heap, v: &VecH, x: Primitive) requires live(old(h), v)
    ensures vecs(final(h)) == vecs(old(h)).insert(vid(v), vecs(old(h))[vid(v)].push(x)), maps(final(h)) == maps(old(h)) { unimplemented!() }
#[verifier::external_body] pub fn cell_clear(h: &mut Heap, v: &VecH) requires live(old(h), v)
    ensures vecs(final(h)) == vecs(old(h)).insert(vid(v), Seq::<Primitive>::empty()), maps(final(h)) == maps(old(h)) { unimplemented!() }
// Vec::reserve PANICS when the new capacity exceeds isize::MAX bytes and ABORTS the process when the allocator fails (std documentation):
// `reserve_cannot_fail` is what a caller would have to know -- nothing in the interpreter establishes it for a size the program chose (R8)
pub uninterp spec fn reserve_cannot_fail(len: nat, additional: usize) -> bool;
#[verifier::external_body] pub fn cell_reserve(h: &mut Heap, v: &VecH, additional: usize) requires live(old(h), v), reserve_cannot_fail(vecs(old(h))[vid(v)].len(), additional)
    ensures vecs(final(h)) == vecs(old(h)), maps(final(h)) == maps(old(h)) { unimplemented!() }
// Vec::try_reserve: the same request as a Result (capacity overflow / allocator failure are errors); the contents are untouched either way
#[verifier::external_body] pub fn cell_try_reserve(h: &mut Heap, v: &VecH, additional: usize) -> (r: Result<(), VErr>) requires live(old(h), v)
    ensures vecs(final(h)) == vecs(old(h)), maps(final(h)) == maps(old(h)) { unimplemented!() }
impl VerifCtx<()> for Result<(), VErr> { #[verifier::external_body] fn verif_ctx(self) -> (r: Result<(), VErr>) ensures r is Ok <==> self is Ok { unimplemented!() } }
#[verifier::external_body] pub fn cell_capacity(h: &Heap, v: &VecH) -> (r: usize) requires live(h, v) ensures r >= vecs(h)[vid(v)].len() { unimplemented!() }
#[verifier::external_body] pub fn cell_snapshot(h: &Heap, v: &VecH) -> (r: Vec<Primitive>) requires live(h, v) ensures r@ == vecs(h)[vid(v)] { unimplemented!() }
#[verifier::external_body] pub fn cell_extend(h: &mut Heap, v: &VecH, added: Vec<Primitive>) requires live(old(h), v)
    ensures vecs(final(h)) == vecs(old(h)).insert(vid(v), vecs(old(h))[vid(v)] + added@), maps(final(h)) == maps(old(h)) { unimplemented!() }
pub fn vec_extend_from(v: &mut Vec<Primitive>, t: Vec<Primitive>) ensures final(v)@ == old(v)@ + t@ { let mut t = t; v.append(&mut t); }       // Vec::extend_from_slice
// GcVector::new: a cell no existing handle points to
#[verifier::external_body] pub fn cell_new(h: &mut Heap, content: Vec<Primitive>) -> (r: VecH)
    ensures !vecs(old(h)).contains_key(vid(&r)), vecs(final(h)) == vecs(old(h)).insert(vid(&r), content@), maps(final(h)) == maps(old(h)) { unimplemented!() }
// element equality as Primitive::equals decides it (uninterpreted here; the numeric part is C05's)
pub uninterp spec fn eqp(a: Primitive, b: Primitive) -> bool;
// `view.iter().enumerate().find(|(_, x)| x.equals(p).expect(..))`: first index whose element equals p (iteration order of slice::Iter)
#[verifier::external_body] pub fn cell_find_eq(h: &Heap, v: &VecH, p: &Primitive) -> (r: Option<usize>) requires live(h, v)
    ensures r is Some ==> r->Some_0 < vecs(h)[vid(v)].len() && eqp(vecs(h)[vid(v)][r->Some_0 as int], *p) && (forall|j: int| 0 <= j < r->Some_0 ==> !eqp(#[trigger] vecs(h)[vid(v)][j], *p)),
            r is None ==> forall|j: int| 0 <= j < vecs(h)[vid(v)].len() ==> !eqp(#[trigger] vecs(h)[vid(v)][j], *p)
{ unimplemented!() }
// structural equality of elements (derived PartialEq of Primitive): uninterpreted, reflexive
pub uninterp spec fn same(a: Primitive, b: Primitive) -> bool;
// <[Primitive]>::eq: same length and elementwise equal
#[verifier::external_body] pub fn cell_slice_eq(h: &Heap, a: &VecH, b: &VecH) -> (r: bool) requires live(h, a), live(h, b)
    ensures r == (vecs(h)[vid(a)].len() == vecs(h)[vid(b)].len() && forall|i: int| 0 <= i < vecs(h)[vid(a)].len() ==> same(#[trigger] vecs(h)[vid(a)][i], vecs(h)[vid(b)][i])) { unimplemented!() }
// iter().zip(iter()).all(==): elementwise equal on the common prefix (zip stops at the shorter one)
#[verifier::external_body] pub fn cell_zip_all_eq(h: &Heap, a: &VecH, b: &VecH) -> (r: bool) requires live(h, a), live(h, b)
    ensures r == (forall|i: int| 0 <= i < vecs(h)[vid(a)].len() && i < vecs(h)[vid(b)].len() ==> same(#[trigger] vecs(h)[vid(a)][i], vecs(h)[vid(b)][i])) { unimplemented!() }
#[verifier::external_body] pub fn usize_to_i32(x: usize) -> (r: Result<i32, VErr>) ensures r is Ok <==> x <= i32::MAX, r is Ok ==> r->Ok_0 == x { unimplemented!() }
#[verifier::external_body] pub fn i32_to_usize(x: i32) -> (r: Result<usize, VErr>) ensures r is Ok <==> x >= 0, r is Ok ==> r->Ok_0 == x { unimplemented!() }
#[verifier::external_body] pub fn vpanic() requires false { unimplemented!() }
#[verifier::external_body] pub fn args_first(a: &Vec<Primitive>) -> (r: Option<&Primitive>) ensures a@.len() == 0 ==> r is None, a@.len() > 0 ==> r == Some(&a@[0]) { unimplemented!() }
#[verifier::external_body] pub fn args_get(a: &Vec<Primitive>, i: usize) -> (r: Option<&Primitive>) ensures a@.len() <= i ==> r is None, a@.len() > i ==> r == Some(&a@[i as int]) { unimplemented!() }
pub struct Bridge;
// shape of the argument vector the compiler's typing guarantees for a list method (assumed; C02/C16 side)
pub open spec fn list_recv(h: &Heap, a: Seq<Primitive>) -> bool { a.len() >= 1 && a[0] is Vector && live(h, &a[0]->Vector_0) }
"""

ARMS = {
 "VecLen": ("""requires list_recv(heap, arguments@)
    ensures r is Ok ==> r->Ok_0.0 == Some(Primitive::Int(vecs(heap)[vid(&arguments@[0]->Vector_0)].len() as i32)) && vecs(heap)[vid(&arguments@[0]->Vector_0)].len() <= i32::MAX,
            r is Err <==> vecs(heap)[vid(&arguments@[0]->Vector_0)].len() > i32::MAX""", False),
 "VecReverse": ("""requires list_recv(old(heap), arguments@)
    ensures r is Ok, vecs(final(heap)) == vecs(old(heap)).insert(vid(&arguments@[0]->Vector_0), vecs(old(heap))[vid(&arguments@[0]->Vector_0)].reverse()), maps(final(heap)) == maps(old(heap))""", True),
 "VecRemove": ("""requires list_recv(old(heap), arguments@), arguments@.len() >= 2, arguments@[1] is Int
    ensures ({ let id = vid(&arguments@[0]->Vector_0); let s = vecs(old(heap))[id]; let i = arguments@[1]->Int_0 as int;
        // in range: the element is removed and returned, all aliases see it; out of range: failure, nothing changes, no value
        &&& (0 <= i < s.len() <==> r is Ok)
        &&& (r is Ok ==> r->Ok_0.0 == Some(s[i]) && vecs(final(heap)) == vecs(old(heap)).insert(id, s.remove(i)))
        &&& (r is Err ==> vecs(final(heap)) == vecs(old(heap)))
        &&& maps(final(heap)) == maps(old(heap)) })""", True),
 "VecPush": ("""requires list_recv(old(heap), arguments@), arguments@.len() >= 2
    ensures r is Ok, vecs(final(heap)) == vecs(old(heap)).insert(vid(&arguments@[0]->Vector_0), vecs(old(heap))[vid(&arguments@[0]->Vector_0)].push(arguments@[1])), maps(final(heap)) == maps(old(heap))""", True),
 "VecJoin": ("""requires list_recv(old(heap), arguments@), arguments@.len() >= 2, arguments@[1] is Vector, live(old(heap), &arguments@[1]->Vector_0)
    ensures ({ let a = vid(&arguments@[0]->Vector_0); let b = vid(&arguments@[1]->Vector_0);
        // receiver := receiver ++ argument (also when both are the same list); the argument list keeps its elements; the
        // receiver itself (same cell) is returned
        &&& r is Ok
        &&& vecs(final(heap)) == vecs(old(heap)).insert(a, vecs(old(heap))[a] + vecs(old(heap))[b])
        &&& r->Ok_0.0 is Some && r->Ok_0.0->Some_0 is Vector && vid(&r->Ok_0.0->Some_0->Vector_0) == a
        &&& maps(final(heap)) == maps(old(heap)) })""", True),
 "VecIndexOf": ("""requires list_recv(heap, arguments@), arguments@.len() >= 2
    ensures ({ let s = vecs(heap)[vid(&arguments@[0]->Vector_0)]; let p = arguments@[1];
        &&& (r is Ok && r->Ok_0.0 == Some(Primitive::Optional(None))) ==> forall|j: int| 0 <= j < s.len() ==> !eqp(#[trigger] s[j], p)
        &&& (r is Ok && r->Ok_0.0 != Some(Primitive::Optional(None))) ==> exists|k: int| 0 <= k < s.len() && eqp(s[k], p) && (forall|j: int| 0 <= j < k ==> !eqp(#[trigger] s[j], p))
                && r->Ok_0.0 == Some(Primitive::Int(k as i32)) })      // the plain int, not a wrapper around it (D91)""", False),
 "VecClear": ("""requires list_recv(old(heap), arguments@)
    ensures r is Ok, vecs(final(heap)) == vecs(old(heap)).insert(vid(&arguments@[0]->Vector_0), Seq::<Primitive>::empty()), maps(final(heap)) == maps(old(heap))""", True),
 "VecEnsureInnerCapacity": ("""requires list_recv(old(heap), arguments@), arguments@.len() >= 2, arguments@[1] is Int
    // C17: whatever size the program asks for, the built-in returns (a value or an MScript error) -- it never panics or aborts the interpreter;
    // the list's elements are untouched (capacity is not an element)
    ensures vecs(final(heap)) == vecs(old(heap)), maps(final(heap)) == maps(old(heap)), arguments@[1]->Int_0 < 0 ==> r is Err""", True),
 "VecInnerCapacity": ("""requires list_recv(heap, arguments@)
    ensures r is Ok ==> r->Ok_0.0 is Some && r->Ok_0.0->Some_0 is Int && r->Ok_0.0->Some_0->Int_0 >= vecs(heap)[vid(&arguments@[0]->Vector_0)].len()""", False),
 "VecClone": ("""requires list_recv(old(heap), arguments@)
    ensures ({ let a = vid(&arguments@[0]->Vector_0);
        // a clone is a NEW list (no existing alias points to it) with the same contents; the original is untouched
        &&& r is Ok && r->Ok_0.0 is Some && r->Ok_0.0->Some_0 is Vector
        &&& ({ let c = vid(&r->Ok_0.0->Some_0->Vector_0);
               !vecs(old(heap)).contains_key(c) && vecs(final(heap)) == vecs(old(heap)).insert(c, vecs(old(heap))[a]) })
        &&& maps(final(heap)) == maps(old(heap)) })""", True),
}


def cells_pass(toks, log, what):
    """R13: GcVector accesses -> heap-cell operations.  `h.0.borrow()` / `h.0.borrow_mut()` become CELL(h); a local bound to
    such a borrow (`let view = h.0.borrow();`) is an alias of CELL(h); every method on CELL(h) is a cell operation."""
    t = list(toks)
    t = Rule("R13", "$h . 0 . borrow_mut ( )", "CELL ( $h )", why="RefCell borrow of a list cell").apply(t, log)
    t = Rule("R13", "$h . 0 . borrow ( )", "CELL ( $h )", why="RefCell borrow of a list cell").apply(t, log)
    # view bindings
    for pat in ("let mut $v = CELL ( $h ) ;", "let $v = CELL ( $h ) ;"):
        pp = Pat(pat)
        k = 0
        while k < len(t):
            r = pp.match_at(t, k)
            if r:
                v, h = r[1]["v"], r[1]["h"]
                if len(v) == 1:
                    rest = t[r[0]:]
                    sub = []
                    for q, tok in enumerate(rest):
                        if tok == v[0] and q + 1 < len(rest) and rest[q + 1] == ".":
                            sub += ["CELL", "("] + h + [")"]
                        else:
                            sub.append(tok)
                    t = t[:k] + sub
                    log.append(("R13", text(pp_toks := (["let"] + v)), "(alias of the cell of " + text(h) + ")", "borrow bound to a local"))
                    continue
            k += 1
    # tuple binding of two borrows
    pp = Pat("let ( $a , $b ) = ( CELL ( $h1 ) , CELL ( $h2 ) ) ;")
    k = 0
    while k < len(t):
        r = pp.match_at(t, k)
        if r and len(r[1]["a"]) == 1 and len(r[1]["b"]) == 1:
            al = {r[1]["a"][0]: r[1]["h1"], r[1]["b"][0]: r[1]["h2"]}
            rest = t[r[0]:]
            sub = []
            for q, tok in enumerate(rest):
                if tok in al and q + 1 < len(rest) and rest[q + 1] == "." and (q == 0 or rest[q - 1] != "("):
                    sub += ["CELL", "("] + al[tok] + [")"]
                elif tok in al and q + 1 < len(rest) and rest[q + 1] == ".":
                    sub += ["CELL", "("] + al[tok] + [")"]
                else:
                    sub.append(tok)
            t = t[:k] + sub
            log.append(("R13", "let (a, b) = (borrow, borrow)", "(aliases of the two cells)", "borrows bound to locals"))
            continue
        k += 1
    ops = [
        ("CELL ( $h ) . len ( )", "cell_len ( heap , $h )"),
        ("CELL ( $h ) . is_empty ( )", "( cell_len ( heap , $h ) == 0 )"),
        ("CELL ( $h ) . reverse ( )", "cell_reverse ( heap , $h )"),
        ("CELL ( $h ) . remove ( $$i )", "cell_remove ( heap , $h , $$i )"),
        ("CELL ( $h ) . push ( $$e )", "cell_push ( heap , $h , $$e )"),
        ("CELL ( $h ) . pop ( )", "cell_pop ( heap , $h )"),
        ("CELL ( $h ) . try_reserve ( $$n )", "cell_try_reserve ( heap , $h , $$n )"),
        ("CELL ( $h ) . reserve ( $$n )", "cell_reserve ( heap , $h , $$n )"),
        ("CELL ( $h ) . capacity ( )", "cell_capacity ( heap , $h )"),
        ("CELL ( $h ) . clear ( )", "cell_clear ( heap , $h )"),
        ("CELL ( $h ) . extend ( $$e )", "cell_extend ( heap , $h , $$e )"),
        ("CELL ( $h ) . to_vec ( )", "cell_snapshot ( heap , $h )"),
        ("Vec :: clone ( CELL ( $h ) . as_ref ( ) )", "cell_snapshot ( heap , $h )"),
        ("$v . extend_from_slice ( CELL ( $h ) . as_ref ( ) )", "vec_extend_from ( & mut $v , cell_snapshot ( heap , $h ) )"),
        ("CELL ( $h ) . iter ( ) . enumerate ( ) . find ( $$c )", "cell_find_eq ( heap , $h , primitive )"),
        ("CELL ( $a ) [ .. ] . eq ( CELL ( $b ) . as_slice ( ) )", "cell_slice_eq ( heap , $a , $b )"),
        ("CELL ( $a ) . iter ( ) . zip ( CELL ( $b ) . iter ( ) ) . all ( | ( $x , $y ) | $x == $y )", "cell_zip_all_eq ( heap , $a , $b )"),
    ]
    for a, b in ops:
        t = Rule("R13", a, b, why="cell operation (std::vec::Vec semantics on the heap cell)").apply(t, log)
    if "CELL" in t:
        raise Undecided(f"{what}: an access to a list cell is not one of the modelled operations: " + text(t[max(0, t.index('CELL') - 2):t.index('CELL') + 12]))
    return t


def arm_rules(name):
    R = [
        Rule("R8", "unreachable ! ( )", "{ vpanic ( ) ; return Err ( VErr ) }", why="unreachable!: excluded by the stated precondition on the argument vector"),
        Rule("R3", "bail ! $a", "return Err ( VErr )", why="bail! -> return Err"),
        Rule("R9", "arguments . first ( )", "args_first ( & arguments )", why="slice::first"),
        Rule("R9", "arguments . get ( $i )", "args_get ( & arguments , $i )", why="slice::get"),
        Rule("R7", "len . try_into ( ) . with_context ( $$c ) ?", "usize_to_i32 ( len ) ?", why="usize -> i32 conversion"),
        Rule("R7", "result . try_into ( ) . with_context ( $$c ) ?", "usize_to_i32 ( result ) ?", why="usize -> i32 conversion"),
        Rule("R7", "( * i ) . try_into ( ) . with_context ( $$c ) ?", "i32_to_usize ( * i ) ?", why="i32 -> usize conversion"),
        Rule("R7", "( * size ) . try_into ( ) . with_context ( $$c ) ?", "i32_to_usize ( * size ) ?", why="i32 -> usize conversion"),
        Rule("R7", "cap . try_into ( ) . with_context ( $$c ) ?", "usize_to_i32 ( cap ) ?", why="usize -> i32 conversion"),
        Rule("R3", ". with_context ( $$c ) ?", ". verif_ctx ( ) ?", why="Option/Result::with_context: None -> Err; text dropped"),
        Rule("R1", ". clone ( )", ". vclone ( )", why="clone of a value / of a handle (handle clone keeps the cell)"),
        Rule("R1", "if let Some ( ( result , _ ) ) = result", "if let Some ( result ) = result", why="(index, element) pair -> index"),
        Rule("R13", "vector ! ( raw $$e )", "Primitive :: Vector ( cell_new ( heap , $$e ) )", why="vector!(raw v) = Primitive::Vector(GcVector::new(v)): a new cell"),
    ]
    return R


def build(repo):
    src = Source(repo)
    log = []
    frun = src.fn(FUNC, "run", "impl BuiltInFunction")
    fns, obls = [], []
    for name, (contract, mut) in ARMS.items():
        try:
            arm = extract_match_arm(frun["body"], f"Self :: {name}")
        except Exception as e:
            raise Undecided(f"{FUNC}: arm Self::{name} not found: {e}")
        b = cells_pass(arm["body"], log, name)
        b = translate(b, arm_rules(name), log, f"BuiltInFunction::run[{name}]")
        check_closed(b, name)
        heap_t = "&mut Heap" if mut else "&Heap"
        fns.append(f"""
//@ OBL C13.{name}
pub fn arm_{name}(arguments: Vec<Primitive>, heap: {heap_t}) -> (r: Result<(Option<Primitive>, Option<Bridge>), VErr>)
    {contract}
{{
{render(b, 1)}
}}
""")
        obls.append(Obl(f"C13.{name}", ["C13", "C17"] if name in ("VecRemove", "VecEnsureInnerCapacity") else ["C13"], fn=f"arm_{name}",
                        desc=f"BuiltInFunction::run arm {name}: effect on the heap cell of the receiver (seen by every alias) and result, against the sequence model"))
    # Primitive::equals, arm (P::Vector(v1), P::Vector(v2))
    feq = src.fn(PRIM, "equals")
    try:
        arm = extract_match_arm(feq["body"], "( P :: Vector ( v1 ) , P :: Vector ( v2 ) )")
    except Exception as e:
        raise Undecided(f"{PRIM}: arm (P::Vector(v1), P::Vector(v2)) of Primitive::equals not found: {e}")
    b = cells_pass(arm["body"], log, "equals[Vector]")
    check_closed(b, "equals[Vector]")
    fns.append(f"""
//@ OBL C13.equals.vector
pub fn equals_vector(v1: &VecH, v2: &VecH, heap: &Heap) -> (r: Result<bool, VErr>)
    requires live(heap, v1), live(heap, v2)
    ensures r is Ok, r->Ok_0 == (vecs(heap)[vid(v1)].len() == vecs(heap)[vid(v2)].len()
                && forall|i: int| 0 <= i < vecs(heap)[vid(v1)].len() ==> same(#[trigger] vecs(heap)[vid(v1)][i], vecs(heap)[vid(v2)][i]))
{{
{render(b, 1)}
}}
""")
    obls.append(Obl("C13.equals.vector", ["C13"], fn="equals_vector", desc="list == list: same length and elementwise equal (not just a common prefix)"))
    # D76 (list `==` compares representations): the only values whose representation differed from their language value were present optionals
    # wrapped by the built-ins (`Optional(Some(v))` vs `v`); since D91 no built-in produces such a wrapper -- every producer is under the
    # "present value is the plain value" contracts (C14.StrParse*, C14.StrIndexOf, C13.VecIndexOf, C13.MapReplace, C13.MapRemove)
    # vec_op `[idx]` on a list: the bounds check in front of the element pointer
    fv = src.fn("bytecode/src/instruction.rs", "vec_op", "pub mod implementations")
    try:
        arm = extract_match_arm(fv["body"], "Primitive :: Vector ( ref vector_shared )")
    except Exception as e:
        raise Undecided(f"instruction.rs: arm Primitive::Vector(ref vector_shared) of vec_op not found: {e}")
    b = cells_pass(arm["body"], log, "vec_op[index]")
    b = translate(b, [Rule("R3", "bail ! $a", "return Err ( VErr )", why="bail! -> return Err"),
                      Rule("R1", ". clone ( )", ". vclone ( )", why="handle clone keeps the cell"),
                      Rule("R1", "HeapPrimitive :: new_array_view ( $$a )", "HeapP :: ArrayPtr ( $$a )", why="const fn constructor"),
                      Rule("R13", "ctx . push ( $$e ) ;", "stack . push ( $$e ) ;", why="operand stack as an explicit vector")], log, "vec_op[index]")
    check_closed(b, "vec_op[index]")
    fns.append(f"""
//@ OBL C13.index.vector
// vec_op `[idx]`, arm `Primitive::Vector(ref vector_shared)`
pub fn index_vector(vector_shared: &VecH, idx: usize, heap: &Heap, stack: &mut Vec<Primitive>) -> (r: Result<(), VErr>)
    requires live(heap, vector_shared)
    ensures
        // an out-of-range index stops with a failure and yields no value
        idx >= vecs(heap)[vid(vector_shared)].len() ==> r is Err && final(stack)@ == old(stack)@,
        // in range: a pointer to exactly that slot of that list is pushed
        idx < vecs(heap)[vid(vector_shared)].len() ==> r is Ok && final(stack)@.len() == old(stack)@.len() + 1
            && final(stack)@.last() is HeapPrimitive && final(stack)@.last()->HeapPrimitive_0 is ArrayPtr
            && vid(&final(stack)@.last()->HeapPrimitive_0->ArrayPtr_0) == vid(vector_shared) && final(stack)@.last()->HeapPrimitive_0->ArrayPtr_1 == idx,
{{
{render(b, 1)}
    Ok(())
}}
""")
    # vec_op `+R`: the append a list literal performs for each element
    from vlib.extract import find_block_after
    try:
        _, o2, c2 = find_block_after(fv["body"], "if let [ b'+' , .. ] = bytes")
    except Exception as e:
        raise Undecided(f"instruction.rs: `if let [b'+', ..] = bytes` branch of vec_op not found: {e}")
    bp = cells_pass(fv["body"][o2 + 1:c2], log, "vec_op[+]")
    bp = translate(bp, [Rule("R3", "bail ! $a", "return Err ( VErr )", why="bail! -> return Err"),
                        Rule("R3", ". context ( $m ) ?", "?", why="context text dropped"),
                        Rule("R6", "ctx . pop ( ) . unwrap ( ) . move_out_of_heap_primitive ( ) ?", "move_out ( stack_pop ( stack ) ) ?", why="operand stack as an explicit vector; heap-pointer view abstract"),
                        Rule("R13", "ctx . pop ( ) . unwrap ( )", "stack_pop ( stack )", why="operand stack as an explicit vector (R8: non-empty)"),
                        Rule("R13", "ctx . stack_size ( )", "stack . len ( )", why="operand stack as an explicit vector"),
                        Rule("R6", "let primitive_with_flags : PrimitiveFlagsPair = ctx . load_local ( & op_name [ 1 .. ] ) ?", "let primitive_with_flags = load_local ( locals , op_name ) ?", why="frame lookup abstract (the register named after the `+`)"),
                        Rule("R1", "let Primitive :: Vector ( ref vector ) = & * primitive_with_flags . primitive ( ) else", "let Primitive :: Vector ( vector ) = pair_value ( & primitive_with_flags ) else", why="deref of the variable cell"),
                        Rule("R1", "HeapPrimitive :: $v (", "HeapP :: $v (", why="enum renamed in the model"),
                        ], log, "vec_op[+]")
    check_closed(bp, "vec_op[+]")
    fns.append(f"""
// heap pointers: move_out_of_heap_primitive yields the pointee's VALUE (identity on plain values)
pub uninterp spec fn moved_out(p: Primitive) -> Option<Primitive>;
#[verifier::external_body] pub fn move_out(p: Primitive) -> (r: Result<Primitive, VErr>)
    ensures moved_out(p) is Some ==> r == Ok::<Primitive, VErr>(moved_out(p)->Some_0), moved_out(p) is None ==> r is Err {{ unimplemented!() }}
impl HeapP {{ #[verifier::external_body] pub fn to_owned_primitive(&self) -> (r: Result<Primitive, VErr>)
    ensures moved_out(Primitive::HeapPrimitive(*self)) is Some ==> r == Ok::<Primitive, VErr>(moved_out(Primitive::HeapPrimitive(*self))->Some_0), moved_out(Primitive::HeapPrimitive(*self)) is None ==> r is Err {{ unimplemented!() }} }}
pub fn stack_pop(s: &mut Vec<Primitive>) -> (r: Primitive) requires old(s)@.len() > 0 ensures r == old(s)@.last(), final(s)@ == old(s)@.drop_last() {{ s.pop().unwrap() }}
#[verifier::external_body] pub struct Locals {{ x: usize }}
#[verifier::external_body] pub struct Pair {{ x: usize }}
#[verifier::external_body] pub struct OpName {{ x: usize }}
pub uninterp spec fn local_value(l: &Locals, n: &OpName) -> Option<Primitive>;       // value of the local named by op_name[1..]
#[verifier::external_body] pub fn load_local(l: &Locals, n: &OpName) -> (r: Result<Pair, VErr>) ensures r is Ok <==> local_value(l, n) is Some, r is Ok ==> pair_val(&r->Ok_0) == local_value(l, n)->Some_0 {{ unimplemented!() }}
pub uninterp spec fn pair_val(p: &Pair) -> Primitive;
#[verifier::external_body] pub fn pair_value(p: &Pair) -> (r: &Primitive) ensures *r == pair_val(p) {{ unimplemented!() }}

//@ OBL C15.vec_op.push-value
// vec_op `+R` (one per element of a list literal): the element's VALUE is appended to the list in register R.  A value read through an
// element / field pointer (`[a[0], f()]`) is copied out here, so evaluating later elements cannot change it any more
pub fn vec_op_push(stack: &mut Vec<Primitive>, locals: &Locals, op_name: &OpName, heap: &mut Heap) -> (r: Result<(), VErr>)
    requires local_value(locals, op_name) matches Some(Primitive::Vector(v)) ==> live(old(heap), &v)
    ensures
        r is Ok ==> old(stack)@.len() == 1 && moved_out(old(stack)@[0]) is Some && local_value(locals, op_name) is Some && local_value(locals, op_name)->Some_0 is Vector
            && ({{ let id = vid(&local_value(locals, op_name)->Some_0->Vector_0);
                  vecs(final(heap)) == vecs(old(heap)).insert(id, vecs(old(heap))[id].push(moved_out(old(stack)@[0])->Some_0)) }})
            && final(stack)@.len() == 0,
        r is Err ==> vecs(final(heap)) == vecs(old(heap)),
{{
{render(bp, 1)}
    Ok(())
}}
""")
    # `a + b` on two lists: impl Add for &Primitive, arm (Vector(x), Vector(y))
    ADD = "bytecode/src/variables/ops/add.rs"
    fadd = src.fn(ADD, "add", "impl std :: ops :: Add for & Primitive")
    try:
        aarm = extract_match_arm(fadd["body"], "( Vector ( x ) , Vector ( y ) )")
    except Exception as e:
        raise Undecided(f"{ADD}: arm (Vector(x), Vector(y)) of Add for &Primitive not found: {e}")
    ba = cells_pass(aarm["body"], log, "add[Vector]")
    ba = translate(ba, [
        Rule("R13", "$v . extend_from_slice ( cell_snapshot ( heap , $h ) . as_ref ( ) ) ;", "{ let mut verif_tail = cell_snapshot ( heap , $h ) ; $v . append ( & mut verif_tail ) ; }", why="Vec::extend_from_slice(&[T]): the items appended in order"),
        Rule("R13", "$v . extend_from_slice ( CELL ( $h ) . as_ref ( ) ) ;", "{ let mut verif_tail = cell_snapshot ( heap , $h ) ; $v . append ( & mut verif_tail ) ; }", why="Vec::extend_from_slice(&[T]): the items appended in order"),
        Rule("R13", "vector ! ( raw $$e )", "Primitive :: Vector ( cell_new ( heap , $$e ) )", why="vector!(raw v) = Primitive::Vector(GcVector::new(v)): a new cell"),
        Rule("R1", ". clone ( )", ". vclone ( )", why="clone of a handle keeps the cell"),
    ], log, "add[Vector]")
    ba = [x for j, t in enumerate(ba) for x in ((["Primitive", "::", t]) if (t == "Vector" and j + 1 < len(ba) and ba[j + 1] == "(" and (j == 0 or ba[j - 1] != "::")) else [t])]      # `use Primitive::*`: variants written qualified
    check_closed(ba, "add[Vector]")
    fns.append(f"""
//@ OBL C13.concat.new-list
// `a + b` on two lists: a NEW list (no existing alias points to it) holding a's elements followed by b's; a and b are untouched
pub fn add_vectors(x: &VecH, y: &VecH, heap: &mut Heap) -> (r: Primitive)
    requires live(old(heap), x), live(old(heap), y)
    ensures r is Vector && !vecs(old(heap)).contains_key(vid(&r->Vector_0))
        && vecs(final(heap)) == vecs(old(heap)).insert(vid(&r->Vector_0), vecs(old(heap))[vid(x)] + vecs(old(heap))[vid(y)]) && maps(final(heap)) == maps(old(heap)),
{{
{render(ba, 1)}
}}
""")
    obls.append(Obl("C13.concat.new-list", ["C13"], fn="Add for &Primitive[(Vector, Vector)]", desc="`a + b` on lists: a new list with a's elements followed by b's; both operands untouched"))
    obls.append(Obl("C15.vec_op.push-value", ["C15", "C13", "C08"], fn="vec_op_push", desc="vec_op `+R`: the element's value (copied out of any element / field pointer) is appended to the list in register R"))
    obls.append(Obl("C13.index.vector", ["C13", "C17", "C01"], fn="index_vector", desc="list index read/assignment target: out-of-range index -> failure, no value; in range -> pointer to exactly that slot"))
    gen = header(log, f"{FUNC}: BuiltInFunction::run arms " + ", ".join(ARMS) + f"; {PRIM}: Primitive::equals (list arm); instruction.rs: vec_op (list index arm)") + SPEC + "\n".join(fns) + "\n} // verus!\nfn main() {}\n"
    return gen, obls, log


UNITS = [VUnit("c13_lists", ["C13", "C17", "C15", "C08"], "list methods vs the sequence model, with sharing as an explicit heap", build)]
UNITS[0].assumes = ["gc / RefCell semantics assumed: a list handle denotes a heap cell; clones alias it; GcVector::new allocates a cell no handle points to; std::vec::Vec operations have their documented meaning",
                    "the argument vector has the shape the compiler's typing guarantees (receiver is a list, argument kinds) -- preconditions; the declared parameter lists of the list methods are obligations C02.sig.list.params.* (unit c02_method_sigs), the argument check itself C03.args.*",
                    "element equality (Primitive::equals) is an uninterpreted relation here",
                    "map methods, index read/assignment (vec_op), map/filter bridges and composition over operation histories are not covered by this unit"]

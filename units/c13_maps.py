"""C13: maps -- GcMap methods (primitive.rs) against the finite-map model with sharing as an explicit heap: every handle of a map sees the
same entries; a key bound to nil is still a key."""
from vlib.rules import *

PRIM = "bytecode/src/variables/primitive.rs"

SPEC = r"""
use vstd::prelude::*;
verus! {
pub struct VErr;
#[verifier::external_body] pub struct PrimV { x: usize }
// values: opaque except for nil (Optional(None)) and heap pointers (which move_out_of_heap_primitive resolves)
pub enum Primitive { Optional(Option<Box<Primitive>>), Plain(u64), Pointer(u64), Map(GcMap) }
pub open spec fn nil() -> Primitive { Primitive::Optional(None) }
pub uninterp spec fn moved_out(p: Primitive) -> Option<Primitive>;          // pointee value / identity on plain values / None on a dangling pointer
#[verifier::external_body] pub fn move_out(p: Primitive) -> (r: Result<Primitive, VErr>)
    ensures moved_out(p) is Some ==> r == Ok::<Primitive, VErr>(moved_out(p)->Some_0), moved_out(p) is None ==> r is Err { unimplemented!() }
#[verifier::external_body] pub fn clone_prim(p: &Primitive) -> (r: Primitive) ensures r == *p { unimplemented!() }
// the heap of map cells
#[verifier::external_body] pub struct Heap { x: usize }
pub uninterp spec fn maps(h: &Heap) -> Map<int, Map<Primitive, Primitive>>;
#[verifier::external_body] pub struct GcMap { x: usize }
pub uninterp spec fn mid(m: &GcMap) -> int;
pub open spec fn entries(h: &Heap, m: &GcMap) -> Map<Primitive, Primitive> { maps(h)[mid(m)] }
// std::HashMap operations on the map cell (assumed std contracts; R10: borrow()/borrow_mut() of the GcCell as heap access)
#[verifier::external_body] pub fn hm_insert(h: &mut Heap, m: &GcMap, k: Primitive, v: Primitive) -> (r: Option<Primitive>)
    ensures maps(final(h)) == maps(old(h)).insert(mid(m), entries(old(h), m).insert(k, v)),
            r == (if entries(old(h), m).contains_key(k) { Some(entries(old(h), m)[k]) } else { None::<Primitive> }) { unimplemented!() }
#[verifier::external_body] pub fn hm_get_or(h: &Heap, m: &GcMap, k: &Primitive, d: Primitive) -> (r: Primitive)
    ensures r == (if entries(h, m).contains_key(*k) { entries(h, m)[*k] } else { d }) { unimplemented!() }
#[verifier::external_body] pub fn hm_len(h: &Heap, m: &GcMap) -> (r: usize) ensures r == entries(h, m).len() { unimplemented!() }
#[verifier::external_body] pub fn hm_contains(h: &Heap, m: &GcMap, k: &Primitive) -> (r: bool) ensures r == entries(h, m).contains_key(*k) { unimplemented!() }
#[verifier::external_body] pub fn hm_clear(h: &mut Heap, m: &GcMap) ensures maps(final(h)) == maps(old(h)).insert(mid(m), Map::<Primitive, Primitive>::empty()) { unimplemented!() }
#[verifier::external_body] pub fn hm_remove(h: &mut Heap, m: &GcMap, k: &Primitive) -> (r: Option<Primitive>)
    ensures maps(final(h)) == maps(old(h)).insert(mid(m), entries(old(h), m).remove(*k)),
            r == (if entries(old(h), m).contains_key(*k) { Some(entries(old(h), m)[*k]) } else { None::<Primitive> }) { unimplemented!() }
impl Primitive { pub fn verif_clone(&self) -> (r: Primitive) ensures r == *self { clone_prim(self) } }
pub fn opt_map_not_nil(r: Result<Primitive, VErr>) -> (b: bool) ensures b == (r is Ok && r->Ok_0 != nil()) { match r { Ok(Primitive::Optional(None)) => false, Ok(_) => true, Err(_) => false } }
"""

RULES = [
    Rule("R10", "let mut view = self . 0 . borrow_mut ( ) ;", "", why="GcCell borrow: the map cell is accessed through the explicit heap"),
    Rule("R10", "let view = self . 0 . borrow ( ) ;", "", why="GcCell borrow: the map cell is accessed through the explicit heap"),
    Rule("R6", "$x . move_out_of_heap_primitive ( ) ?", "move_out ( $x ) ?", why="heap-pointer view abstract"),
    Rule("R9", "view . insert ( $$a , $$b , )", "hm_insert ( heap , self , $$a , $$b )", why="HashMap::insert"),
    Rule("R9", "view . insert ( $$a , $$b )", "hm_insert ( heap , self , $$a , $$b )", why="HashMap::insert"),
    Rule("R9", "view . get ( & $$k ) . cloned ( ) . unwrap_or ( $$d )", "hm_get_or ( heap , self , & $$k , $$d )", why="HashMap::get + cloned + unwrap_or"),
    Rule("R9", "view . len ( )", "hm_len ( heap , self )", why="HashMap::len"),
    Rule("R9", "view . contains_key ( $$k )", "hm_contains ( heap , self , $$k )", why="HashMap::contains_key"),
    Rule("R9", "self . 0 . borrow_mut ( ) . clear ( ) ;", "hm_clear ( heap , self ) ;", why="HashMap::clear"),
    Rule("R9", "self . 0 . borrow_mut ( ) . remove ( & $$k )", "hm_remove ( heap , self , & $$k )", why="HashMap::remove"),
    Rule("R1", "self . get ( $$k ) . map ( | value | ! matches ! ( value , Primitive :: Optional ( None ) ) ) . unwrap_or ( false )", "opt_map_not_nil ( self . get ( $$k , heap ) )", why="Result::map + unwrap_or"),
    Rule("R10", "self . get ( $$k ) ?", "self . get ( $$k , heap ) ?", why="heap threaded"),
    Rule("R1", "key . clone ( )", "key . verif_clone ( )", why="Primitive::clone"),
]

SIGS = {
    "insert": ("pub fn insert(&self, key: Primitive, value: Primitive, heap: &mut Heap) -> (r: Result<Option<Primitive>, VErr>)",
               """ensures (r is Ok <==> (moved_out(key) is Some && moved_out(value) is Some)),
            // key and value are stored as VALUES (pointers resolved); every handle of this map sees the entry; other maps untouched
            r is Ok ==> maps(final(heap)) == maps(old(heap)).insert(mid(self), entries(old(heap), self).insert(moved_out(key)->Some_0, moved_out(value)->Some_0)),
            r is Err ==> maps(final(heap)) == maps(old(heap))"""),
    "get": ("pub fn get(&self, key: Primitive, heap: &Heap) -> (r: Result<Primitive, VErr>)",
            """ensures (r is Ok <==> moved_out(key) is Some),
            r is Ok ==> r->Ok_0 == (if entries(heap, self).contains_key(moved_out(key)->Some_0) { entries(heap, self)[moved_out(key)->Some_0] } else { nil() })"""),
    "len": ("pub fn len(&self, heap: &Heap) -> (r: usize)", "ensures r == entries(heap, self).len()"),
    "contains_key": ("pub fn contains_key(&self, key: &Primitive, heap: &Heap) -> (r: bool)",
                     "ensures r == entries(heap, self).contains_key(*key)      // a key bound to nil is still a key"),
    "clear": ("pub fn clear(&self, heap: &mut Heap)", "ensures maps(final(heap)) == maps(old(heap)).insert(mid(self), Map::<Primitive, Primitive>::empty())"),
    "remove": ("pub fn remove(&self, key: Primitive, heap: &mut Heap) -> (r: Result<Option<Primitive>, VErr>)",
               """ensures (r is Ok <==> moved_out(key) is Some),
            r is Ok ==> maps(final(heap)) == maps(old(heap)).insert(mid(self), entries(old(heap), self).remove(moved_out(key)->Some_0))
                        && r->Ok_0 == (if entries(old(heap), self).contains_key(moved_out(key)->Some_0) { Some(entries(old(heap), self)[moved_out(key)->Some_0]) } else { None::<Primitive> }),
            r is Err ==> maps(final(heap)) == maps(old(heap))"""),
}


def build(repo):
    src = Source(repo)
    log = []
    parts, obls = [], []
    for n, (sig, contract) in SIGS.items():
        f = src.fn(PRIM, n, "impl GcMap")
        b = translate(f["body"], RULES, log, f"GcMap::{n}")
        check_closed(b, f"GcMap::{n}")
        parts.append(f"    //@ OBL C13.map.{n}\n    {sig}\n        {contract}\n    {{\n{render(b, 2)}\n    }}\n")
        obls.append(Obl(f"C13.map.{n}", ["C13"], fn=f"GcMap::{n}", desc=f"GcMap::{n} against the finite-map model (shared cell; effect on exactly this map)"))
    # ---- fast_map_insert (instruction.rs): one per pair of a map literal
    ff = src.fn("bytecode/src/instruction.rs", "fast_map_insert", "pub mod implementations")
    bf = translate(ff["body"], [
        Rule("R3", "bail ! $a", "return Err ( VErr )", why="bail! -> return Err"),
        Rule("R9", "args . first ( )", "args_first ( args )", why="slice::first"), Rule("R9", "args . get ( 1 )", "args_get1 ( args )", why="slice::get"),
        Rule("R6", "ctx . load_local ( $r ) ?", "load_local ( locals , $r ) ?", why="frame lookup abstract"),
        Rule("R1", "let Primitive :: Map ( map ) = & * map . primitive ( ) else", "let Primitive :: Map ( map ) = pair_value ( & map ) else", why="content of the register's cell"),
        Rule("R1", "key . primitive ( ) . clone ( )", "pair_value_clone ( & key )", why="content of the key register's cell"),
        Rule("R8", "ctx . pop ( ) . expect ( $m )", "stack_pop ( stack )", why="operand stack as an explicit vector; expect: a panic on an empty stack (R8)"),
        Rule("R10", "map . insert ( $$a , $$b , ) ?", "map . insert ( $$a , $$b , heap ) ?", why="heap threaded"),
        Rule("R10", "map . 0 . borrow_mut ( ) . insert ( $$a , $$b , ) ;", "hm_insert ( heap , map , $$a , $$b ) ;", why="direct HashMap::insert on the map cell"),
    ], log, "fast_map_insert")
    check_closed(bf, "fast_map_insert")
    extra = f"""
#[verifier::external_body] pub struct VStr {{ x: usize }}
#[verifier::external_body] pub struct Locals {{ x: usize }}
#[verifier::external_body] pub struct Pair {{ x: usize }}
pub uninterp spec fn local_value(l: &Locals, n: &VStr) -> Option<Primitive>;
pub uninterp spec fn pair_val(p: &Pair) -> Primitive;
#[verifier::external_body] pub fn load_local(l: &Locals, n: &VStr) -> (r: Result<Pair, VErr>) ensures r is Ok <==> local_value(l, n) is Some, r is Ok ==> pair_val(&r->Ok_0) == local_value(l, n)->Some_0 {{ unimplemented!() }}
#[verifier::external_body] pub fn pair_value(p: &Pair) -> (r: &Primitive) ensures *r == pair_val(p) {{ unimplemented!() }}
#[verifier::external_body] pub fn pair_value_clone(p: &Pair) -> (r: Primitive) ensures r == pair_val(p) {{ unimplemented!() }}
pub fn args_first(a: &Vec<VStr>) -> (r: Option<&VStr>) ensures a@.len() == 0 ==> r is None, a@.len() > 0 ==> r == Some(&a@[0]) {{ if a.len() > 0 {{ Some(&a[0]) }} else {{ None }} }}
pub fn args_get1(a: &Vec<VStr>) -> (r: Option<&VStr>) ensures a@.len() <= 1 ==> r is None, a@.len() > 1 ==> r == Some(&a@[1]) {{ if a.len() > 1 {{ Some(&a[1]) }} else {{ None }} }}
pub fn stack_pop(s: &mut Vec<Primitive>) -> (r: Primitive) requires old(s)@.len() > 0 ensures r == old(s)@.last(), final(s)@ == old(s)@.drop_last() {{ s.pop().unwrap() }}

//@ OBL C15.map.pair-by-value
// fast_map_insert M K (one per pair of a map literal): the pair's VALUE -- copied out of any element / field pointer -- is inserted under the key
// saved in K into the map in M, so evaluating later pairs cannot change it any more
pub fn fast_map_insert(stack: &mut Vec<Primitive>, locals: &Locals, args: &Vec<VStr>, heap: &mut Heap) -> (r: Result<(), VErr>)
    requires old(stack)@.len() > 0          // the compiled layout (C15.map.layout): the value's code runs right before this instruction
    ensures
        r is Ok ==> args@.len() >= 2 && local_value(locals, &args@[0]) is Some && local_value(locals, &args@[0])->Some_0 is Map && local_value(locals, &args@[1]) is Some
            && moved_out(local_value(locals, &args@[1])->Some_0) is Some && moved_out(old(stack)@.last()) is Some
            && ({{ let m = local_value(locals, &args@[0])->Some_0->Map_0;
                  maps(final(heap)) == maps(old(heap)).insert(mid(&m), entries(old(heap), &m).insert(moved_out(local_value(locals, &args@[1])->Some_0)->Some_0, moved_out(old(stack)@.last())->Some_0)) }}),
{{
{render(bf, 1)}
}}
"""
    obls.append(Obl("C15.map.pair-by-value", ["C15", "C13"], fn="fast_map_insert", desc="fast_map_insert: key and value are inserted as values (pointers resolved) into the map held in the map register"))
    gen = header(log, f"{PRIM}: impl GcMap (insert, get, len, contains_key, clear, remove); instruction.rs: fast_map_insert") + SPEC + "impl GcMap {\n" + "\n".join(parts) + "}\n" + extra + "} // verus!\nfn main() {}\n"
    return gen, obls, log


UNITS = [VUnit("c13_maps", ["C13", "C15"], "map methods vs the finite-map model, sharing as an explicit heap", build)]
UNITS[0].assumes = ["gc / RefCell semantics assumed: a map handle denotes a heap cell; std::HashMap operations have their documented meaning (hm_* contracts)",
                    "Primitive is opaque (Hash / Eq of keys as HashMap uses them = value equality); keys()/values()/pairs() (iteration order unspecified) and the BuiltInFunction::Map* argument marshalling are not covered"]

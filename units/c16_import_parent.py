"""C16: `Parser::import_standard` (compiler/src/ast/import.rs) takes the module's name from the last component of the import path with
`file_name().expect("not a file")` -- a panic for a path that ends in `..` (std: such a path has no file name).  Its precondition is the
grammar's: `path_feature = { relative_self | relative_parent | ident }` is an ordered choice in which `.` is tried first and is a prefix of
`..`, so a `..` component is never produced (`import ../x` is a syntax diagnostic).  That precondition is read from grammar.pest on every
run (python scan, labelled as such): either no `..` component can be produced, or import_standard does not unwrap the file name.
Seeds C16-13 / C16-19 reorder the choice."""
import re
from pathlib import Path
from vlib.rules import *

GRAMMAR = "compiler/src/grammar.pest"
FILE = "compiler/src/ast/import.rs"


def build(repo):
    src = Source(repo)
    log = []
    g = (Path(repo) / GRAMMAR).read_text()
    m = re.search(r"^path_feature\s*=\s*[_@$!]?\{([^}]*)\}", g, re.M)
    rs = re.search(r"^relative_self\s*=\s*[_@$!]?\{\s*\"([^\"]*)\"\s*\}", g, re.M)
    rp = re.search(r"^relative_parent\s*=\s*[_@$!]?\{\s*\"([^\"]*)\"\s*\}", g, re.M)
    if not m:
        raise Undecided(f"{GRAMMAR}: rule path_feature not found")
    alts = [a.strip() for a in m.group(1).split("|")]
    log.append(("R0", "path_feature", " | ".join(alts), "the ordered choice, read from the grammar"))
    if "relative_parent" not in alts or rp is None:
        parent_reachable = False
    elif rs is None or "relative_self" not in alts:
        parent_reachable = True
    else:
        # PEG ordered choice: an earlier alternative whose text is a prefix of the later one's wins and leaves the rest unparsed
        parent_reachable = not (alts.index("relative_self") < alts.index("relative_parent") and rp.group(1).startswith(rs.group(1)))
    f = src.fn(FILE, "import_standard", "impl Parser")
    t = " ".join(f["body"])
    panics = re.search(r"\. file_name \( \) \. (expect|unwrap) \(", t) is not None
    o = Obl("C16.import.no-parent-component", ["C16", "C11"], engine="finite scan (python): grammar.pest rule path_feature + Parser::import_standard", fn="Parser::import_standard",
            desc="import_standard unwraps the file name of the import path: no path ending in `..` reaches it (the grammar's ordered choice never yields `relative_parent`), or it does not unwrap")
    o.pre_decided = True
    if parent_reachable and panics:
        o.status = "failed"
        o.detail = ("the grammar can now produce a `..` component (`path_feature = { " + " | ".join(alts) + " }`), and Parser::import_standard takes the module name with "
                    "`file_name().expect(..)`: `import ..` / `import a/..` inside a function body panics the compiler (a path ending in `..` has no file name)")
    else:
        o.status = "discharged"; o.detail = ""
    gen = header(log, f"{GRAMMAR}: path_feature; {FILE}: Parser::import_standard (file name of the import path)") + "use vstd::prelude::*;\nverus! {\n} // verus!\nfn main() {}\n"
    return gen, [o], log


UNITS = [VUnit("c16_import_parent", ["C16", "C11"], "no import path ending in `..` reaches the file-name unwrap", build)]
UNITS[0].assumes = ["pest's ordered choice commits to the first alternative that matches; std::path: a path ending in `..` has no file_name"]

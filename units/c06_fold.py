"""C06: compile-time constant folding (compiler/src/ast/number.rs `mod string_arithmetic`) against the same exact-value spec
the run-time operators are proved against in C05 -- K-t.

The module text (all macro definitions and the ten `number_impl!` invocations) is copied verbatim; rustc expands the real
macros inside the Kani build.  Numerals are abstracted to their value: `String` is a value-carrying shim `Lit`
(`parse::<T>()` = "the literal denotes a T"), and `.to_string()` on a computed number is rewritten to `.to_lit()`.
One loop-free harness per operator and kind pair over the full operand domain."""
import os, re
from pathlib import Path
from vlib.rules import *
from vlib.extract import extract_item
from vlib import kani as K
from vlib.core import UnitResult

NUM = "compiler/src/ast/number.rs"

SHIMS = r"""#![allow(warnings)]
// ---- shims (what the extraction replaces) ----
//  String (numeral text)   -> Lit: the value the numeral denotes; parse::<T>() succeeds iff the value is a T
//  .to_string() of a result -> .to_lit()
//  anyhow                   -> unit error shims (messages never evaluated)
pub struct KErr;
impl<E: std::error::Error> From<E> for KErr { fn from(_: E) -> Self { KErr } }
#[derive(Debug)] pub struct ParseErr;
impl core::fmt::Display for ParseErr { fn fmt(&self, _f: &mut core::fmt::Formatter<'_>) -> core::fmt::Result { Ok(()) } }
impl std::error::Error for ParseErr {}
#[derive(Clone, Copy, Debug)]
pub struct Lit { pub hi: i64, pub lo: u64, pub f: f64, pub fl: u8 }    // integer value = hi:lo (two halves: a 16-byte aligned payload makes Kani 0.68 ICE on Option<Number>); fl: 1 = floating-point numeral
impl Lit {
    #[inline] pub fn is_float(&self) -> bool { self.fl != 0 }
    #[inline] pub fn i(&self) -> i128 { ((self.hi as i128) << 64) | (self.lo as i128) }
    #[inline] pub fn int(v: i128) -> Lit { Lit { hi: (v >> 64) as i64, lo: v as u64, f: 0.0, fl: 0 } }
    #[inline] pub fn float(v: f64) -> Lit { Lit { hi: 0, lo: 0, f: v, fl: 1 } }
}
impl core::fmt::Display for Lit { fn fmt(&self, _f: &mut core::fmt::Formatter<'_>) -> core::fmt::Result { Ok(()) } }
pub trait FromLit: Sized { fn from_lit(l: &Lit) -> core::result::Result<Self, ParseErr>; }
impl Lit { pub fn parse<T: FromLit>(&self) -> core::result::Result<T, ParseErr> { T::from_lit(self) } }
pub trait ToLit { fn to_lit(&self) -> Lit; }
// ---- uninterpreted-but-deterministic machine operations (memo of the calls made in one harness run).
// SAT cannot prove two 32/128-bit multipliers/dividers (or double-precision multipliers) equivalent in reasonable time, so the
// machine operations `* / %` are abstracted: the same operation on the same operands yields the same (arbitrary) result.
// What remains decided: which operation, on which machine type, on which operands, and what happens to a None result.
static mut UF_N: u8 = 0;
static mut UF_K: [(u8, u8, u128, u128); 4] = [(0, 0, 0, 0); 4];
static mut UF_V: [(bool, u128); 4] = [(false, 0); 4];
pub fn uf(op: u8, ty: u8, x: u128, y: u128) -> (bool, u128) {
    unsafe {
        let mut k = 0;
        while k < 4 { if k < UF_N && UF_K[k as usize] == (op, ty, x, y) { return UF_V[k as usize]; } k += 1; }
        #[cfg(kani)] let v: (bool, u128) = (kani::any(), kani::any());
        #[cfg(not(kani))] let v: (bool, u128) = (false, 0);
        if UF_N < 4 { UF_K[UF_N as usize] = (op, ty, x, y); UF_V[UF_N as usize] = v; UF_N += 1; }
        v
    }
}
// ---- shadows of the primitive type names used by the module text (`<i32>::checked_add`, `parse::<i32>()`, ...)
pub mod shadow {
    use super::{Lit, FromLit, ToLit, ParseErr, uf};
    pub trait Amt { type C; fn c(self) -> Self::C; }
    macro_rules! int_shadow { ($name:ident, $core:ty, $tyid:expr) => {
        #[allow(non_camel_case_types)] #[derive(Clone, Copy, Debug, PartialEq)] pub struct $name(pub $core);
        impl $name {
            pub const BITS: core::primitive::u32 = <$core>::BITS;
            pub const TYID: core::primitive::u8 = $tyid;
            pub fn checked_add(self, o: Self) -> Option<Self> { self.0.checked_add(o.0).map($name) }
            pub fn checked_sub(self, o: Self) -> Option<Self> { self.0.checked_sub(o.0).map($name) }
            pub fn checked_mul(self, o: Self) -> Option<Self> { let (s, v) = uf(2, $tyid, self.0 as u128, o.0 as u128); if s { Some($name(v as $core)) } else { None } }
            // a zero divisor is decided here (not abstracted): checked_div / checked_rem return None on zero
            pub fn checked_div(self, o: Self) -> Option<Self> { if o.0 == 0 { return None; } let (s, v) = uf(3, $tyid, self.0 as u128, o.0 as u128); if s { Some($name(v as $core)) } else { None } }
            pub fn checked_rem(self, o: Self) -> Option<Self> { if o.0 == 0 { return None; } let (s, v) = uf(4, $tyid, self.0 as u128, o.0 as u128); if s { Some($name(v as $core)) } else { None } }
            // wrapping_rem: Rust's `%` without the overflow report -- `x % -1` is 0 for every x (decided here, not abstracted), panics on a zero divisor,
            // otherwise the same abstract machine remainder checked_rem goes to
            pub fn wrapping_rem(self, o: Self) -> Self { if o.0 == 0 { panic!("attempt to calculate the remainder with a divisor of zero") } if <$core>::MIN != 0 && o.0 == !0 { return $name(0); } $name(uf(4, $tyid, self.0 as u128, o.0 as u128).1 as $core) }
            pub fn checked_shl(self, n: u32) -> Option<Self> { self.0.checked_shl(n.0).map($name) }
            pub fn checked_shr(self, n: u32) -> Option<Self> { self.0.checked_shr(n.0).map($name) }
            // unchecked shifts keep Rust's semantics (overflow check = panic) for any integer amount type
            pub fn shl<A: Amt>(self, n: A) -> Self where $core: core::ops::Shl<A::C, Output = $core> { $name(self.0 << n.c()) }
            pub fn shr<A: Amt>(self, n: A) -> Self where $core: core::ops::Shr<A::C, Output = $core> { $name(self.0 >> n.c()) }
            pub fn checked_rem_euclid(self, o: Self) -> Option<Self> { if o.0 == 0 { return None; } let (s, v) = uf(5, $tyid, self.0 as u128, o.0 as u128); if s { Some($name(v as $core)) } else { None } }
            pub fn checked_div_euclid(self, o: Self) -> Option<Self> { if o.0 == 0 { return None; } let (s, v) = uf(6, $tyid, self.0 as u128, o.0 as u128); if s { Some($name(v as $core)) } else { None } }
            pub fn wrapping_add(self, o: Self) -> Self { $name(self.0.wrapping_add(o.0)) }
            pub fn wrapping_sub(self, o: Self) -> Self { $name(self.0.wrapping_sub(o.0)) }
            pub fn wrapping_mul(self, o: Self) -> Self { $name(uf(7, $tyid, self.0 as u128, o.0 as u128).1 as $core) }
            pub fn saturating_add(self, o: Self) -> Self { $name(self.0.saturating_add(o.0)) }
            pub fn saturating_sub(self, o: Self) -> Self { $name(self.0.saturating_sub(o.0)) }
            pub fn add(self, o: Self) -> Self { $name(self.0 + o.0) }
            pub fn sub(self, o: Self) -> Self { $name(self.0 - o.0) }
            pub fn bitand(self, o: Self) -> Self { $name(self.0 & o.0) }
            pub fn bitor(self, o: Self) -> Self { $name(self.0 | o.0) }
            pub fn bitxor(self, o: Self) -> Self { $name(self.0 ^ o.0) }
            // bit-counting helpers a change may use (vocabulary): Rust's semantics
            pub fn leading_zeros(self) -> u32 { u32(self.0.leading_zeros()) }
            pub fn leading_ones(self) -> u32 { u32(self.0.leading_ones()) }
            pub fn trailing_zeros(self) -> u32 { u32(self.0.trailing_zeros()) }
            pub fn count_ones(self) -> u32 { u32(self.0.count_ones()) }
            pub fn wrapping_shl(self, n: u32) -> Self { $name(self.0.wrapping_shl(n.0)) }
            pub fn wrapping_shr(self, n: u32) -> Self { $name(self.0.wrapping_shr(n.0)) }
        }
        impl PartialEq<core::primitive::i32> for $name { fn eq(&self, o: &core::primitive::i32) -> bool { self.0 as core::primitive::i128 == *o as core::primitive::i128 } }
        impl core::ops::BitXor for $name { type Output = $name; fn bitxor(self, o: Self) -> Self { $name(self.0 ^ o.0) } }
        impl core::ops::BitAnd for $name { type Output = $name; fn bitand(self, o: Self) -> Self { $name(self.0 & o.0) } }
        impl core::ops::BitOr for $name { type Output = $name; fn bitor(self, o: Self) -> Self { $name(self.0 | o.0) } }
        impl core::ops::Not for $name { type Output = $name; fn not(self) -> Self { $name(!self.0) } }
        impl core::ops::Shr<core::primitive::u32> for $name { type Output = $name; fn shr(self, n: core::primitive::u32) -> Self { $name(self.0 >> n) } }
        impl core::ops::Shl<core::primitive::u32> for $name { type Output = $name; fn shl(self, n: core::primitive::u32) -> Self { $name(self.0 << n) } }
        impl core::ops::Shr<u32> for $name { type Output = $name; fn shr(self, n: u32) -> Self { $name(self.0 >> n.0) } }
        impl core::ops::Shl<u32> for $name { type Output = $name; fn shl(self, n: u32) -> Self { $name(self.0 << n.0) } }
        impl PartialOrd for $name { fn partial_cmp(&self, o: &Self) -> Option<core::cmp::Ordering> { self.0.partial_cmp(&o.0) } }
        impl Amt for $name { type C = $core; fn c(self) -> $core { self.0 } }
        impl core::fmt::Display for $name { fn fmt(&self, _f: &mut core::fmt::Formatter<'_>) -> core::fmt::Result { Ok(()) } }
        impl ToLit for $name { fn to_lit(&self) -> Lit { Lit::int(self.0 as core::primitive::i128) } }
        impl FromLit for $name { fn from_lit(l: &Lit) -> core::result::Result<Self, ParseErr> {
            if !l.is_float() && l.i() >= <$core>::MIN as core::primitive::i128 && l.i() <= <$core>::MAX as core::primitive::i128 { Ok($name(l.i() as $core)) } else { Err(ParseErr) } } }
    } }
    int_shadow!(i32, core::primitive::i32, 0);
    int_shadow!(i128, core::primitive::i128, 1);
    int_shadow!(u8, core::primitive::u8, 3);
    #[allow(non_camel_case_types)] #[derive(Clone, Copy, Debug, PartialEq, PartialOrd, Eq, Ord)] pub struct u32(pub core::primitive::u32);
    impl PartialEq<core::primitive::u32> for u32 { fn eq(&self, o: &core::primitive::u32) -> bool { self.0 == *o } }
    impl PartialOrd<core::primitive::u32> for u32 { fn partial_cmp(&self, o: &core::primitive::u32) -> Option<core::cmp::Ordering> { self.0.partial_cmp(o) } }
    impl core::ops::Sub<core::primitive::u32> for u32 { type Output = u32; fn sub(self, o: core::primitive::u32) -> u32 { u32(self.0 - o) } }
    impl core::ops::Add<core::primitive::u32> for u32 { type Output = u32; fn add(self, o: core::primitive::u32) -> u32 { u32(self.0 + o) } }
    impl FromLit for u32 { fn from_lit(l: &Lit) -> core::result::Result<Self, ParseErr> { if !l.is_float() && l.i() >= 0 && l.i() <= core::primitive::u32::MAX as core::primitive::i128 { Ok(u32(l.i() as core::primitive::u32)) } else { Err(ParseErr) } } }
    impl Amt for u32 { type C = core::primitive::u32; fn c(self) -> core::primitive::u32 { self.0 } }
    impl core::fmt::Display for u32 { fn fmt(&self, _f: &mut core::fmt::Formatter<'_>) -> core::fmt::Result { Ok(()) } }
    #[allow(non_camel_case_types)] #[derive(Clone, Copy, Debug, PartialEq)] pub struct f64(pub core::primitive::f64);
    impl f64 {
        pub fn add(self, o: Self) -> Self { f64(self.0 + o.0) }
        pub fn sub(self, o: Self) -> Self { f64(self.0 - o.0) }
        pub fn mul(self, o: Self) -> Self { f64(core::primitive::f64::from_bits(uf(2, 2, self.0.to_bits() as u128, o.0.to_bits() as u128).1 as u64)) }
        pub fn div(self, o: Self) -> Self { f64(core::primitive::f64::from_bits(uf(3, 2, self.0.to_bits() as u128, o.0.to_bits() as u128).1 as u64)) }
        pub fn rem(self, o: Self) -> Self { f64(core::primitive::f64::from_bits(uf(4, 2, self.0.to_bits() as u128, o.0.to_bits() as u128).1 as u64)) }
    }
    impl PartialEq<core::primitive::f64> for f64 { fn eq(&self, o: &core::primitive::f64) -> bool { self.0 == *o } }
    impl core::fmt::Display for f64 { fn fmt(&self, _f: &mut core::fmt::Formatter<'_>) -> core::fmt::Result { Ok(()) } }
    impl ToLit for f64 { fn to_lit(&self) -> Lit { Lit::float(self.0) } }
    // str::parse::<f64> accepts integer numerals too: the nearest double (assumed = `as f64`, both correctly rounded)
    impl FromLit for f64 { fn from_lit(l: &Lit) -> core::result::Result<Self, ParseErr> { if l.is_float() { Ok(f64(l.f)) } else { Ok(f64(l.i() as core::primitive::f64)) } } }
}
pub mod anyhow {
    pub use crate::KErr;
    pub type Result<T, E = KErr> = core::result::Result<T, E>;
    pub trait Context<T, E> { fn context<C>(self, c: C) -> Result<T>; fn with_context<C, F: FnOnce() -> C>(self, f: F) -> Result<T>; }
    impl<T, E> Context<T, E> for core::result::Result<T, E> {
        fn context<C>(self, _c: C) -> Result<T> { match self { Ok(v) => Ok(v), Err(_) => Err(KErr) } }
        fn with_context<C, F: FnOnce() -> C>(self, _f: F) -> Result<T> { match self { Ok(v) => Ok(v), Err(_) => Err(KErr) } }
    }
    impl<T> Context<T, core::convert::Infallible> for Option<T> {
        fn context<C>(self, _c: C) -> Result<T> { match self { Some(v) => Ok(v), None => Err(KErr) } }
        fn with_context<C, F: FnOnce() -> C>(self, _f: F) -> Result<T> { match self { Some(v) => Ok(v), None => Err(KErr) } }
    }
    macro_rules! bail { ($($t:tt)*) => { return Err(crate::KErr) } }
    pub(crate) use bail;
}
type String = Lit;
"""

HARNESS = r"""
#[cfg(kani)]
mod verif {
    use super::*;
    use super::Number::*;
    pub const ADD: u8 = 0; pub const SUB: u8 = 1; pub const MUL: u8 = 2; pub const DIV: u8 = 3; pub const REM: u8 = 4;
    pub const AND: u8 = 5; pub const OR: u8 = 6; pub const XOR: u8 = 7; pub const SHL: u8 = 8; pub const SHR: u8 = 9;
    fn lit_i(i: i128) -> Lit { Lit::int(i) }
    // a well-formed literal operand of kind k (what Number::try_constexpr_eval / number_from_string deliver)
    fn any_num(k: u8) -> Number { match k { 0 => { let x: i32 = kani::any(); Integer(lit_i(x as i128)) } 1 => { let x: i128 = kani::any(); BigInt(lit_i(x)) }
                                           2 => { let x: f64 = kani::any(); Float(Lit::float(x)) } _ => { let x: u8 = kani::any(); Byte(lit_i(x as i128)) } } }
    fn kind(n: &Number) -> u8 { match n { Integer(_) => 0, BigInt(_) => 1, Float(_) => 2, Byte(_) => 3 } }
    fn lit(n: &Number) -> Lit { match n { Integer(l) | BigInt(l) | Float(l) | Byte(l) => *l } }
    fn promote(l: u8, r: u8) -> u8 { if l == 2 || r == 2 { 2 } else if l == r { l } else if l == 3 { r } else if r == 3 { l } else { 1 } }
    fn as_f64(n: &Number) -> f64 { let l = lit(n); if l.is_float() { l.f } else { l.i() as f64 } }
    // the real folder
    fn fold(op: u8, a: &Number, b: &Number) -> anyhow::Result<Number> {
        match op { ADD => a + b, SUB => a - b, MUL => a * b, DIV => a / b, REM => a % b, AND => a & b, OR => a | b, XOR => a ^ b, SHL => a << b, _ => a >> b }
    }
    // ---- the same exact-value spec the run-time operators are proved against (unit c05_ops / c05_muldiv) ----
    macro_rules! exact_in { ($t:ident, $op:expr, $x:expr, $y:expr) => {{
        let (x, y): ($t, $t) = ($x as $t, $y as $t);
        let w = <$t>::BITS as i128;
        let v: Option<$t> = match $op {
            ADD => x.checked_add(y), SUB => x.checked_sub(y),
            // `* / %`: the same abstract machine operation the folder's call goes to (see `uf`)
            MUL => shadow::$t::checked_mul(shadow::$t(x), shadow::$t(y)).map(|v| v.0),
            DIV => shadow::$t::checked_div(shadow::$t(x), shadow::$t(y)).map(|v| v.0),
            // remainder with the sign of the dividend: undefined for a zero divisor only; `x % -1` is 0 for EVERY x (the property: the exact value whenever it is
            // representable -- D111: the machine's checked remainder refuses MIN % -1); otherwise the abstract machine remainder
            REM => if y == 0 { None } else if <$t>::MIN != 0 && y == !0 { Some(0) } else { Some((uf(4, shadow::$t::TYID, x as u128, y as u128).1) as $t) },
            AND => Some(x & y), OR => Some(x | y), XOR => Some(x ^ y),
            // x * 2^y, when the kind can hold it: no set bit (no sign change) may be shifted out -- shifting back gives x
            SHL => if ($y as i128) < 0 || ($y as i128) >= w { None } else { let v = x << ($y as u32); if (v >> ($y as u32)) == x { Some(v) } else { None } },
            _   => if ($y as i128) < 0 || ($y as i128) >= w { None } else { Some(x >> ($y as u32)) },
        };
        v.map(|v| v as i128)
    }} }
    fn exact_int(op: u8, pk: u8, x: i128, y: i128) -> Option<i128> {
        match pk { 0 => exact_in!(i32, op, x, y), 3 => exact_in!(u8, op, x, y), _ => exact_in!(i128, op, x, y) }
    }
    fn exact_float(op: u8, x: f64, y: f64) -> f64 { match op { ADD => x + y, SUB => x - y, MUL => shadow::f64(x).mul(shadow::f64(y)).0, DIV => shadow::f64(x).div(shadow::f64(y)).0, _ => shadow::f64(x).rem(shadow::f64(y)).0 } }
    fn same_f64(a: f64, b: f64) -> bool { a.to_bits() == b.to_bits() || (a.is_nan() && b.is_nan()) }

    // C06.<op>.<lk>.<rk>: the folded value and kind are what the run time yields; the folder rejects exactly when the run time fails
    pub fn check(op: u8, lk: u8, rk: u8, bound: u32) {
        let a = any_num(lk); let b = any_num(rk);
        if bound < 128 { let m: i128 = 1i128 << bound; kani::assume(lit(&b).is_float() || (lit(&b).i() > -m && lit(&b).i() < m)); }
        let pk = promote(lk, rk);
        let got = fold(op, &a, &b);
        if pk == 2 {
            let rt_fails = op >= AND || ((op == DIV || op == REM) && as_f64(&b) == 0.0);
            match got {
                Ok(n) => { assert!(!rt_fails, "C06.accepts-failing: the folder yields a value although the run-time evaluation fails");
                           assert!(kind(&n) == 2, "C06.kind: folded kind differs from the run-time kind");
                           assert!(same_f64(lit(&n).f, exact_float(op, as_f64(&a), as_f64(&b))), "C06.value: folded float differs from the run-time value"); }
                Err(_) => assert!(rt_fails, "C06.rejects-valid: the folder rejects an expression whose run-time evaluation succeeds"),
            }
        } else {
            let e = exact_int(op, pk, lit(&a).i(), lit(&b).i());
            match (got, e) {
                (Ok(n), Some(v)) => { assert!(kind(&n) == pk, "C06.kind: folded kind differs from the run-time kind");
                                      assert!(!lit(&n).is_float() && lit(&n).i() == v, "C06.value: folded value differs from the run-time value"); }
                (Ok(_), None) => assert!(false, "C06.accepts-failing: the folder yields a value although the run-time evaluation fails"),
                (Err(_), Some(_)) => assert!(false, "C06.rejects-valid: the folder rejects an expression whose run-time evaluation succeeds"),
                (Err(_), None) => (),
            }
        }
    }
    macro_rules! h { ($name:ident, $f:ident ( $($a:expr),* )) => { #[kani::proof] fn $name() { $f($($a),*) } } }
HARNESSES
}
"""

KINDS = ["int", "bigint", "float", "byte"]
OPS = ["add", "sub", "mul", "div", "rem", "bitand", "bitor", "bitxor", "shl", "shr"]


class FoldUnit:
    engine = "kani"
    uid = "c06_fold"
    props = ["C06", "C16", "C05"]
    title = "constant folding of numeric literals agrees with the run-time spec (K-t, all kind pairs)"
    timeout = 3000
    assumes = [
        "numerals abstracted to their value: String -> Lit; parse::<T>() succeeds iff the value is a T; to_string()/parse of numerals are inverse (incl. shortest-roundtrip f64 Display)",
        "operands are well-formed literals of their kind (Number::try_constexpr_eval widens an int literal that does not fit i32 to bigint before folding)",
        "the run-time side is the exact-value spec of C05 (shared `exact_in!`), not a second execution of the interpreter",
        "machine `* / %` (integer checked_mul/div/rem and f64 mul/div/rem) are abstracted to uninterpreted deterministic operations shared by the folder's call and the spec (SAT cannot prove two wide multipliers/dividers equivalent): decided are the operation, machine type, operands, zero-divisor and None handling, not the arithmetic itself (that is Rust's)",
        "the primitive type names i32/i128/u8/u32/f64 inside the module are shadowed by value-wrapping structs with the methods the text calls",
        "Number::negate and Expr::try_constexpr_eval's walker are separate obligations",
    ]

    def run(self, repo, workdir, tier):
        res = UnitResult(self.uid)
        res.engine = "kani 0.68 / cbmc 6.11 (K-t: real module text, macros expanded by rustc)"
        src = Source(repo)
        enum = src.item(NUM, "pub enum Number")
        mod = src.item(NUM, "mod string_arithmetic")
        log = []
        body = Rule("Kt", ". to_string ( )", ". to_lit ( )", count="+", why="numeral text abstracted to its value").apply(list(mod["all"]), log)
        # glue: the extern crate `anyhow` is a shim module of this crate; the ToLit trait must be in scope
        ob = body.index("{")
        body = body[:ob + 1] + lex("use crate :: anyhow ; use crate :: ToLit ; use crate :: shadow :: { i32 , i128 , u8 , u32 , f64 } ;") + body[ob + 1:]
        hs = []
        for oi, op in enumerate(OPS):
            for li, lk in enumerate(KINDS):
                for ri, rk in enumerate(KINDS):
                    pk_wide = (li != 2 and ri != 2) and not (li == 3 and ri == 3)
                    bounded = False
                    oid = f"C06.{op}.{lk}.{rk}" + ("[bounded: right operand < 2^8]" if bounded else "")
                    hs.append((f"f_{op}_{lk}_{rk}", f"check({oi}, {li}, {ri}, {8 if bounded else 128})", oid, bounded))
        only = os.environ.get("VERIF_C06_ONLY")
        if only:
            hs = [h for h in hs if re.search(only, h[2])]
        htext = "\n".join(f"    h!({n}, {c});" for n, c, _, _ in hs)
        lib = (SHIMS + "// ======== real text (compiler/src/ast/number.rs), extracted on this run ========\n#[derive(Debug, Clone)]\n" + render(enum["all"], 0) + "\n"
               + render(body, 0) + "\n" + HARNESS.replace("HARNESSES", htext))
        crate = K.write_crate(Path(workdir) / "kt_fold", "kt_fold", "// GENERATED (K-t) from compiler/src/ast/number.rs\n" + lib)
        res.gen_path = str(crate / "src/lib.rs")
        per, raw, wall, cmd, timed_out = K.run_kani(crate, jobs=int(os.environ.get("VERIF_KANI_JOBS", "14")), timeout=self.timeout, harness_timeout=int(os.environ.get("VERIF_KANI_HARNESS_TIMEOUT", "240")))
        res.raw = raw[-12000:]; res.checker_cmd = cmd
        res.functions = ["number.rs: mod string_arithmetic (parse!, compiler_math!, number_impl! and the impls Add Sub Mul Shl Shr Div Rem BitAnd BitOr BitXor for Number / &Number)"]
        res.samples = [f"{o}: {c}" for _, c, o, _ in hs[:3]]
        if not per:
            res.undecided = "kani produced no harness results: " + raw[-2500:]
            return res
        obls = []
        for n, call, oid, bounded in hs:
            r = per.get(n)
            o = Obl(oid, ["C06", "C05"], fn=n, engine="kani/cbmc", bounded=("right operand < 2^8" if bounded else False),
                    desc=f"{call}: folded kind/value == run-time kind/value; folder rejects exactly when the run time fails")
            o16 = Obl("C16.nopanic.fold." + oid[4:].split("[")[0], ["C16"], fn=n, engine="kani/cbmc", bounded=("right operand < 2^8" if bounded else False),
                      desc=f"the folder never panics on literal operands [{call}]")
            if r is None or r["status"] is None or r["oom"] or r["unwind"] or r["unsupported"]:
                why = "not run" if r is None else ("CBMC timed out" if r.get("timeout") else "oom" if r["oom"] else "no verdict/unsupported")
                for x in (o, o16):
                    x.status = "undecided"; x.detail = why
            else:
                named, panics, ign, other = K.classify(r["failed"])
                o.time_s = r["time"]
                if other:
                    for x in (o, o16):
                        x.status = "undecided"; x.detail = "unclassified failed check: " + repr(other[:2])
                else:
                    o.status = "failed" if named else "discharged"; o.detail = "\n".join(f"{d} @ {l}" for d, l in named)
                    o16.status = "failed" if panics else "discharged"; o16.detail = "\n".join(f"Rust panic in the compiler: {d} @ {l}" for d, l in panics)
            obls += [o, o16]
        res.obls = obls
        return res

    def witness(self, repo, o, res):
        from units.c05_ops import OpsUnit
        return OpsUnit.witness(self, repo, o, res)

    def cli_replay(self, repo, o, vals):
        """operands decoded from kani's bytes -> `r = <literal> op <literal>` (a foldable expression) on the real CLI"""
        import math
        from vlib import numreplay as N, cli
        parts = o.oid.split(".")
        parts = parts[3:] if parts[0] == "C16" else parts[1:]          # C16.nopanic.fold.<op>.<lk>.<rk> / C06.<op>.<lk>.<rk>
        op, lk, rk = parts[0], parts[1], parts[2]
        if op not in N.SYMS or len(vals) < 2:
            return {"replayed_on_real_cli": False, "why": "no program template for this obligation"}
        a, b = N.decode(lk, vals[0]), N.decode(rk, vals[1])
        def flit(k, v):          # literal syntax only (so that the folder sees two literals)
            if k == "float":
                t = N.literal(k, abs(v)) if not (math.isnan(v) or math.isinf(v)) else None
                return None if t is None else (t if math.copysign(1.0, v) > 0 else "-" + t)
            if k == "byte": return "0b" + bin(v)[2:]
            if k == "int" and v == -2**31: return None
            if k == "bigint" and v == -2**127: return None
            t = ("B" if k == "bigint" else "") + str(abs(v))
            return t if v >= 0 else "-" + t
        la, lb = flit(lk, a), flit(rk, b)
        if la is None or lb is None:
            return {"replayed_on_real_cli": False, "why": "an operand (NaN / infinity / the most negative value) is not a literal of its kind", "operands": [repr(a), repr(b)]}
        expect = N.spec_binop(op, lk, a, rk, b)
        if expect[0] == "skip":
            return {"replayed_on_real_cli": False, "why": "expected value not computable in the replay aid", "operands": [repr(a), repr(b)]}
        prog = f"r = {la} {N.SYMS[op]} {lb}\nprint typeof r\nprint r\n"
        run = cli.run_program(repo, prog)
        rep, actual = N.judge(expect, run)
        return {"replayed_on_real_cli": True, "reproduced_on_real_cli": rep, "operands": {"a": f"{lk} {a!r}", "b": f"{rk} {b!r}"},
                "note": "for * / % the harness abstracts the machine operation; the operands are a candidate, the CLI run decides",
                "expected_by_the_property": "a failure (no value), as at run time" if expect[0] == "fail" else f"{expect[1]} {expect[2]!r}", "actual": actual, **run}


UNITS = [FoldUnit()]


# ---------------------------------------------------------------------------------------------------------------------
# Number::negate (V-t): the folded unary minus keeps the literal's kind and toggles the sign of its text
NEG_SPEC = r"""
use vstd::prelude::*;
verus! {
pub struct VErr;
pub enum Number { Integer(Vec<char>), BigInt(Vec<char>), Float(Vec<char>), Byte(Vec<char>) }
pub open spec fn kind(n: Number) -> int { match n { Number::Integer(_) => 0, Number::BigInt(_) => 1, Number::Float(_) => 2, Number::Byte(_) => 3 } }
pub open spec fn text(n: Number) -> Seq<char> { match n { Number::Integer(s) | Number::BigInt(s) | Number::Float(s) | Number::Byte(s) => s@ } }
// the numeral with the opposite sign
pub open spec fn flipped(s: Seq<char>) -> Seq<char> { if s.len() > 0 && s[0] == '-' { s.drop_first() } else { "-"@ + s } }
// the integer a decimal numeral denotes (uninterpreted); decimal notation: the numeral with the opposite sign denotes the opposite number
pub uninterp spec fn val(s: Seq<char>) -> int;
#[verifier::external_body] pub broadcast proof fn axiom_flipped_val(s: Seq<char>) ensures #[trigger] val(flipped(s)) == -val(s) {}
// str::strip_prefix(char) / String concatenation / str::parse / to_string (assumed std contracts; numerals are well formed -- digits with at
// most one leading '-' -- by the grammar and stay so under a sign flip, so parsing fails exactly when the value is out of range)
#[verifier::external_body]
pub fn strip_prefix_char(s: &Vec<char>, c: char) -> (r: Option<Vec<char>>)
    ensures (r is Some <==> (s@.len() > 0 && s@[0] == c)), r is Some ==> r->Some_0@ == s@.drop_first() { unimplemented!() }
#[verifier::external_body]
pub fn concat_lit(a: &'static str, b: &Vec<char>) -> (r: Vec<char>) ensures r@ == a@ + b@ { unimplemented!() }
#[verifier::external_body]
pub fn to_owned_chars(s: Vec<char>) -> (r: Vec<char>) ensures r@ == s@ { unimplemented!() }
#[verifier::external_body]
pub fn parse_i32(s: &Vec<char>) -> (r: Result<i32, VErr>) ensures r is Ok <==> i32::MIN <= val(s@) <= i32::MAX, r is Ok ==> r->Ok_0 == val(s@) { unimplemented!() }
#[verifier::external_body]
pub fn parse_i128(s: &Vec<char>) -> (r: Result<i128, VErr>) ensures r is Ok <==> i128::MIN <= val(s@) <= i128::MAX, r is Ok ==> r->Ok_0 == val(s@) { unimplemented!() }
pub trait NumText { spec fn num(&self) -> int; fn to_chars(&self) -> (r: Vec<char>) ensures val(r@) == self.num(); }
impl NumText for i32 { open spec fn num(&self) -> int { *self as int } #[verifier::external_body] fn to_chars(&self) -> (r: Vec<char>) { unimplemented!() } }
impl NumText for i128 { open spec fn num(&self) -> int { *self as int } #[verifier::external_body] fn to_chars(&self) -> (r: Vec<char>) { unimplemented!() } }
"""


def build_negate(repo):
    src = Source(repo)
    log = []
    f = src.fn(NUM, "negate", "impl Number")
    rules = [
        Rule("R1", "use Number :: * ;", "", count=1, why="variants written qualified"),
        Rule("R1", "fn flip_sign ( x : & str ) -> String", "fn flip_sign ( x : & Vec < char > ) -> ( r : Vec < char > ) ensures r @ == flipped ( x @ )", why="&str/String -> Vec<char>; contract of the nested helper"),
        Rule("R9", "x . strip_prefix ( '-' )", "strip_prefix_char ( x , '-' )", why="str::strip_prefix(char) with its std contract"),
        Rule("R1", "positive . to_owned ( )", "to_owned_chars ( positive )", why="&str::to_owned"),
        Rule("R1", "\"-\" . to_owned ( ) + x", "concat_lit ( \"-\" , x )", why="String concatenation"),
        Rule("R3", "static OVERFLOW : & str = $m ;", "", why="message text dropped"),
        Rule("R3", "bail ! $a", "return Err ( VErr )", why="bail! -> return Err"),
        Rule("R5", "flip_sign ( x ) . parse :: < i32 > ( )", "parse_i32 ( & flip_sign ( x ) )", why="str::parse::<i32> with its std contract"),
        Rule("R5", "flip_sign ( x ) . parse :: < i128 > ( )", "parse_i128 ( & flip_sign ( x ) )", why="str::parse::<i128> with its std contract"),
        Rule("R5", "negated . to_string ( )", "negated . to_chars ( )", why="i32 / i128 ::to_string: the decimal numeral of the value, whatever variant it is wrapped in"),
    ]
    b = translate(f["body"], rules, log, "Number::negate")
    out = []
    for j, t in enumerate(b):
        if t in ("Integer", "BigInt", "Float", "Byte") and j + 1 < len(b) and b[j + 1] == "(" and (j == 0 or b[j - 1] != "::"):
            out += ["Number", "::", t]
        else:
            out.append(t)
    check_closed(out, "Number::negate")
    gen = header(log, f"{NUM}: Number::negate") + NEG_SPEC + f"""
impl Number {{
    //@ OBL C06.negate
    // the folded unary minus against the run-time one: same kind (bytes cannot be negated); for int / bigint the exact opposite value, and a
    // failure exactly when that value is not representable in the kind (the run-time operator overflows there); a float has its sign toggled
    pub fn negate(&self) -> (r: Result<Option<Number>, VErr>)
        requires
            // a literal of kind int / bigint is in the range of its kind (number_from_string, obligation C02.literal.kind)
            kind(*self) == 0 ==> i32::MIN <= val(text(*self)) <= i32::MAX,
            kind(*self) == 1 ==> i128::MIN <= val(text(*self)) <= i128::MAX,
        ensures
            kind(*self) == 3 ==> r == Ok::<Option<Number>, VErr>(None),
            kind(*self) == 0 ==> (r is Ok <==> -val(text(*self)) <= i32::MAX),
            kind(*self) == 1 ==> (r is Ok <==> -val(text(*self)) <= i128::MAX),
            kind(*self) == 2 ==> r is Ok && r->Ok_0 is Some && text(r->Ok_0->Some_0) == flipped(text(*self)),
            r is Ok && kind(*self) != 3 ==> r->Ok_0 is Some && kind(r->Ok_0->Some_0) == kind(*self),
            r is Ok && (kind(*self) == 0 || kind(*self) == 1) ==> val(text(r->Ok_0->Some_0)) == -val(text(*self)),
    {{
        broadcast use axiom_flipped_val;
        proof {{ reveal_strlit("-"); assert("-"@ =~= seq!['-']); }}
{render(out, 2)}
    }}
}}
}} // verus!
fn main() {{}}
"""
    return gen, [Obl("C06.negate", ["C06", "C05"], fn="Number::negate", desc="Number::negate: same kind; int / bigint get the exact opposite value and fail exactly when it is not representable (as the run-time operator does); float sign toggled; bytes cannot be negated")], log


UNITS.append(VUnit("c06_negate", ["C06", "C05"], "folded unary minus keeps kind, toggles sign", build_negate))
